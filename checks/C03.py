"""C03 - every valid query gets one reply with its own ID and question.
spec/Handler.tla (+ Handler_Trace.tla, Prop = "C03"), harness/drv_handler, checks/handler_common.py."""
import random
import vlib
from vlib import log
import handler_common as hc

PROP = "C03"


def run(ctx):
    if ctx.replay:
        return hc.replay(ctx, PROP)
    import X_dualsel
    _bg_dualsel = vlib.background(ctx, X_dualsel.run_extra, "X_dualsel")
    T = ctx.thorough()
    ctx.assumptions += [
        "only well-formed queries (QR=0, one question, no answer/authority, <=1 additional) are owed a reply",
        "the upstream echoes ID and question and sends at most one OPT; extended rcodes only when the client sent OPT",
        "answers that cannot be packed (> 65535 octets) are out of scope; miekg/dns Pack/Unpack/Truncate are trusted",
        "'records were dropped' = the reply has fewer non-OPT records than the response slot had when the chain returned",
        "a redirect matches at most once per chain (one redirect target token in the model)",
        "a cache entry is stored under the question it answers (key collisions are property C04; defects D3/D4)",
        "composite components (dual_selector, fallback, forward, nested sequences) are bound by the same contract as a leaf "
        "in the model; their inner runs on copied contexts are validated as separate (branch) traces",
    ]
    # ---- leg A
    if T:
        cfg = open(vlib.VERIF + "/spec/Handler_design.cfg").read()
        vlib.tlc_mc(ctx, "Handler", "Handler_design.cfg", label="all kinds, chains <= 3, all query shapes, udp+tcp")
        vlib.tlc_mc(ctx, "Handler", "Handler_design4.cfg", label="chains <= 4 over 6 kinds",
                    cfg_text=cfg.replace("MaxLen = 3", "MaxLen = 4")
                    .replace('{"reject", "accept", "local", "ttl", "redirect", "cache", "ecs", "fwdopt", "up", "sub"}',
                             '{"reject", "local", "redirect", "cache", "up", "sub"}')
                    .replace('Caches = {"empty", "own", "redir"}', 'Caches = {"empty", "own"}'), timeout=1200)
    else:
        cfg = open(vlib.VERIF + "/spec/Handler_design.cfg").read()
        vlib.tlc_mc(ctx, "Handler", "Handler_design_q.cfg", label="8 kinds (no accept/ttl), chains <= 3, all query shapes, udp+tcp, 2 cache states",
                    cfg_text=cfg.replace('Caches = {"empty", "own", "redir"}', 'Caches = {"empty", "redir"}')
                    .replace('"reject", "accept", "local", "ttl",', '"reject", "local",'))
    hc.non_vacuity(ctx, PROP)

    # ---- leg B generators
    rng = random.Random(ctx.seed)
    behs = vlib.tlc_behaviours(ctx, "Handler", "Handler_gen_mal.cfg")
    n_mal = len(behs)
    gcfg = open(vlib.VERIF + "/spec/Handler_gen_c03.cfg").read()
    if T:
        gcfg = gcfg.replace("MaxLen = 3", "MaxLen = 4").replace('Caches = {"empty", "own", "redir"}', 'Caches = {"empty", "own"}')
    sim = vlib.tlc_behaviours(ctx, "Handler", "Handler_gen_c03_run.cfg", simulate=8000 if T else 700, depth=24,
                              cfg_text=gcfg, timeout=900)
    behs += sim
    cases, infeasible = [], 0
    for b in behs:
        reps = 1
        if b["cq"]["mal"] not in ("ok", "ok1x"):
            reps = 5          # every transport
        for k in range(reps):
            fm = None
            if reps > 1:
                fm = (["direct", "udp"] if b["tr"] == "udp" else ["direct", "tcp", "httpget", "httppost"])[k % (2 if b["tr"] == "udp" else 4)]
            c = hc.concretize(rng, len(cases), b, PROP, force_mode=fm)
            if c is None:
                infeasible += 1
                continue
            cases.append(c)
    n_scripted = len(cases)
    # the two known key collisions of the cache (D3 / D4, property C04) seen through a hit
    for collide in ("type", "class"):
        b = {"cq": {"mal": "ok", "opt": {"k": "none"}}, "tr": "tcp", "chain": ["cache", "up"],
             "steps": [{"pos": 1, "kind": "cache", "c": "hit", "key": "own"}, {"pos": 2, "kind": "up", "c": "none"}],
             "reply": {"k": "reply", "rcode": 0, "nopt": 0, "tc": False, "opts": [], "do": False}}
        c = hc.concretize(rng, len(cases), b, PROP, force_mode="direct")
        c["nodes"][0]["collide"] = collide
        c["qtype"], c["qclass"], c["flags"] = 1, 1, 0x0100
        cases.append(c)
    cases += hc.udp_big_cases(rng, len(cases), 45 if T else 15)
    n_scripted = len(cases)
    for v in ("local", "cachehit", "case", "case") * (3 if T else 1):
        cases.append(hc.follow_case(rng, len(cases), v))
    n_scripted = len(cases)
    n_pair = 16 if T else 5
    for _ in range(n_pair):
        cases.append(hc.pair_case(rng, len(cases)))
    for _ in range(400 if T else 80):
        cases.append(hc.composite_case(rng, len(cases), PROP))
    log("%d cases: %d from %d TLC behaviours (%d query-shape behaviours exhaustive, %d infeasible for the real plugins), "
        "%d interleaved-client pairs on a stale lazy-cache entry, %d composite" % (
            len(cases), n_scripted, len(behs), n_mal, infeasible, n_pair, len(cases) - n_scripted - n_pair))

    binary = vlib.go_build(ctx, "drv_handler")
    st = hc.run_cases(ctx, PROP, binary, cases, "all")
    ctx.cov["evaluations"] = st["traces"]
    ctx.cov["cases"] = st["cases"]
    ctx.cov["steered_replays"] = st["steered"]
    ctx.cov["replay_result_mismatches"] = st["mismatch"]
    ctx.cov["distinct_nontrivial"] = len({vlib.json.dumps([c["beh"]["cq"]["mal"], c["beh"]["chain"], c["beh"]["steps"]], sort_keys=True)
                                          for c in cases if c.get("beh") and len(c["beh"]["steps"]) >= 1})
    ctx.cov["rule"] = ("evaluations = traces (client contexts and copied contexts) of real chains validated by TLC against "
                       "Handler_Trace (Prop=C03); distinct_nontrivial = distinct (query shape, chain, plugin-choice script) "
                       "behaviours of Handler.tla with >= 1 plugin step that were replayed on real plugins")
    ctx.cov["exhaustive"] = False
    log("leg B: %d scripted cases gave the generator's reply, %d took another contract-conforming path" % (st["steered"], st["mismatch"]))
    if not ctx.violations:
        if st["steered"] < max(1, n_scripted // 4):
            raise vlib.Infra("dead driver: only %d of %d scripted cases produced the generator's reply" % (st["steered"], n_scripted))
        hc.corrupt_check(ctx, PROP, st["recs"])
    for c, r in list(zip(cases, st["recs"]))[:3]:
        if r.get("traces"):
            ctx.sample({"chain": hc.impls(c), "mode": c["mode"], "trace": r["traces"][0][:4] + r["traces"][0][-1:]})
    # the lead's extra coverage of dual_selector (spec/DualSelector.tla, harness/drv_dualsel)
    _bg_dualsel.join()
