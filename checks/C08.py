"""C08 — failures of reused connections are retried, fresh ones reported.
spec/ReuseConn.tla, spec/LazyPipeline.tla (+ *_Trace.tla), harness/drv_pool."""
import random

import vlib
from vlib import log
import poollib as pl


def nonvacuity(ctx):
    for spec, cfg, inv in (("ReuseConn", "ReuseConn_nv_noretry.cfg", "FailOnlyWhen"),
                           ("ReuseConn", "ReuseConn_nv_bound.cfg", "AttemptsBounded"),
                           ("LazyPipeline", "LazyPipeline_nv_noretry.cfg", "FailOnlyWhen"),
                           ("LazyPipeline", "LazyPipeline_nv_bound.cfg", "AttemptsBounded")):
        nv = vlib.run_tlc(ctx, spec, cfg, expect_violation=True, workers=1)
        if nv["violated"] != inv:
            raise vlib.Infra("non-vacuity run %s: expected %s to fail, got %r" % (cfg, inv, nv["violated"]))
    ctx.cov["non_vacuity"] = ("FailOnlyWhen fails under the no-retry policy, AttemptsBounded fails with the bound lowered "
                              "to 1 (ReuseConn_nv_*.cfg, LazyPipeline_nv_*.cfg)")


def run(ctx):
    if ctx.replay:
        # dispatch the replay file to the module that wrote it
        _rp = vlib.json.load(open(ctx.replay)).get("replay")
        if isinstance(_rp, dict) and "beh" in _rp and "listen" in _rp:          # updial_extra (drv_updial)
            import updial_extra
            return updial_extra.run_extra(ctx)
        if isinstance(_rp, dict) and _rp.get("mode") == "arm":                   # pipeconn_c07 (drv_pipeconn, deadline arming)
            import pipeconn_c07
            return pipeconn_c07.run_extra(ctx)
        if isinstance(_rp, dict) and _rp.get("driver") == "drv_pipeline":        # pipeconn_c08 / pipeline_part
            import pipeline_part
            return pipeline_part.replay(ctx, _rp)
        return pl.replay(ctx)
    import pipeconn_c08
    _bg_pipeconn_c08 = vlib.background(ctx, pipeconn_c08.run_extra, "pipeconn_c08")
    T = ctx.thorough()
    W = 8 if T else 4
    ctx.assumptions += [
        "C08 is checked as a contract: Fail only if the last attempt used a connection opened for it, or the context "
        "ended, or the transport was closed, or >= 2 attempts were made; never more than 4 attempts / connections; the "
        "code's own constants (reuse: 4 attempts, pipeline: 3) are free within that envelope",
        "an attempt = one pass of the retry loop (a failed dial counts as an attempt on a new connection)",
        "pipeline: the connection below the lazy connection is a harness DnsConn with the DnsConn contract "
        "(capacity, closed flag, a dead connection fails every exchange in flight); a 'write' is one ExchangeReserved call",
        "reuse: write / read results are decided by the harness per operation; a fault is inferred by TLC right before the "
        "first error it explains",
        "getReservedExchanger's pool scan is atomic in the spec; for recorded traces a connection on which a "
        "capacity-freeing event was logged during the caller's scan does not forbid dialling a new one",
    ]
    # ---- leg A
    vlib.tlc_mc(ctx, "ReuseConn", "ReuseConn_design.cfg", workers=W, timeout=1500,
                label="reuse: 2 calls, <= 2 killed connections (eof / silent), retry policy of the code: all invariants")
    vlib.tlc_mc(ctx, "LazyPipeline", "LazyPipeline_three.cfg", workers=W, timeout=900,
                label="pipeline: 3 calls (early callers + later), 1 fault: all invariants")
    vlib.tlc_mc(ctx, "LazyPipeline", "LazyPipeline_design.cfg", workers=W, timeout=900,
                label="pipeline: 2 calls, faults, cancel, Close: invariants + liveness")
    if T:
        vlib.tlc_mc(ctx, "LazyPipeline", "LazyPipeline_cap1.cfg", workers=W, timeout=1500,
                    label="pipeline: capacity 1 < queue limit 2")
        vlib.tlc_mc(ctx, "ReuseConn", "ReuseConn_full.cfg", workers=W, timeout=2400,
                    label="reuse: 2 calls, faults + cancel + Close together (safety)")
    nonvacuity(ctx)

    # ---- leg B
    rng = random.Random(ctx.seed)
    n = 1500 if T else 170
    rb = pl.gen_behaviours(ctx, "reuse", "ReuseConn_gen_c08.cfg", n, 150)
    pb = pl.gen_behaviours(ctx, "pipeline", "LazyPipeline_gen_c08.cfg", n, 120)
    rb = [b for b in rb if pl.interesting(b)]
    pb = [b for b in pb if pl.interesting(b)]
    rscripts = pl.expand_repeat(pl.reuse_scenarios(T)) + [pl.beh_to_script("reuse", b, "tlc-%d" % i) for i, b in enumerate(rb)]
    pscripts = pl.expand_repeat([s for s in pl.pipeline_scenarios(T) if not s.get("slow")]) + \
        [pl.beh_to_script("pipeline", b, "tlc-%d" % i) for i, b in enumerate(pb)]
    log("replaying %d reuse scripts (%d from TLC) and %d pipeline scripts (%d from TLC)" % (
        len(rscripts), len(rb), len(pscripts), len(pb)))
    binary = vlib.go_build(ctx, "drv_pool")
    rrecs, rrej = pl.run_scripts(ctx, "reuse", rscripts, binary)
    precs, prej = pl.run_scripts(ctx, "pipeline", pscripts, binary)
    p1scripts = pl.expand_repeat(pl.pipeline_cap1_scenarios(T))
    p1recs, _ = pl.run_scripts(ctx, "pipeline", p1scripts, binary, label="pipeline (capacity 1 < dial queue 2)",
                               trace_cfg="LazyPipeline_Trace_cap1.cfg")

    recs = rrecs + precs + p1recs
    scripts = rscripts + pscripts + p1scripts
    ran = [r for r in recs if not r.get("skipped")]
    steered = [(r, s) for r, s in zip(recs, scripts) if not r.get("skipped") and r["steered"]]
    ctx.cov["evaluations"] = len(ran)
    ctx.cov["steered_replays"] = len(steered)
    ctx.cov["distinct_nontrivial"] = len({vlib.json.dumps(s["steps"], sort_keys=True) for r, s in steered})
    ctx.cov["rule"] = ("scripts = environment + boundary projection of TLC behaviours of ReuseConn.tla / LazyPipeline.tla that "
                       "contain at least one fault (killed connection, failed dial / write / read), plus the kill scripts of "
                       "the property (k = 1..4 silently dead pooled connections x {write ok then EOF, reset on write, silence}, "
                       "killed right after a reply, killed with 2 queries in flight); each is forced onto the real transport and "
                       "its trace validated by TLC; distinct_nontrivial = distinct fully steered scripts")
    ctx.cov["exhaustive"] = False
    # expected results of the generator are informative only (leg C decides)
    mism = 0
    for r, s in steered:
        if s.get("expected"):
            got = {e["c"]: e["res"] for e in r["events"] if e["ev"] == "Return"}
            for i, x in enumerate(s["expected"]):
                if x != "na" and got.get(i + 1) not in (x, None) and not (x == "other" and got.get(i + 1) == "tclosed"):
                    mism += 1
                    break
    ctx.cov["replay_result_mismatches"] = mism

    # ---- binding self-check
    if not ctx.violations:
        def flip_ok(t):
            for e in t:
                if e["ev"] == "Return" and e["res"] == "ok" and e["c"] != 6 and not any(
                        x["ev"] in ("Cancel", "TClose") for x in t[:t.index(e)]):
                    e["res"] = "other"
                    return t
            return None

        def drop_retry_write(t):
            # remove the first write of a call that wrote twice: the retry then looks like the first attempt on a reused conn
            for key in ("WriteReq", "ExchReq"):
                seen = {}
                for i, e in enumerate(t):
                    if e["ev"] == key:
                        seen.setdefault(e["c"], []).append(i)
                for c, idx in seen.items():
                    if len(idx) >= 2:
                        x = t[idx[0]]["x"]
                        return [e for j, e in enumerate(t) if not (e.get("c") == c and e.get("x") == x and e["ev"] in (
                            "WriteReq", "WriteRet", "ExchReq", "ExchRet"))]
            return None
        pl.corrupt_and_check(ctx, "reuse", rrecs, flip_ok, "reuse: Return ok -> other on a call whose reply was read")
        pl.corrupt_and_check(ctx, "pipeline", precs, flip_ok, "pipeline: Return ok -> other on an answered call")
        pl.corrupt_and_check(ctx, "reuse", [r for r in rrecs if not r.get("skipped") and r["name"].startswith("stale")],
                             drop_retry_write, "reuse: the write of the failed first attempt removed")
    pl.dead_driver(ctx, rrecs, rscripts, "reuse")
    pl.dead_driver(ctx, precs, pscripts, "pipeline")
    for r, s in (steered[:1] + [x for x in steered if x[1]["name"].startswith("stale3")][:1] +
                 [x for x in steered if x[1]["name"].startswith("dead-with")][:1]):
        ctx.sample({"script": s["name"], "events": r["events"][:60]})
    if mism:
        log("note: %d steered replays ended with other results than the generator's behaviour; their traces are "
            "behaviours of the spec (the code's goroutines choose), not violations" % mism)

    # ---- the same property on the real TraditionalDnsConn (deadline arming / connection death under PipelineTransport):
    # spec/PipeConnArm.tla resp. LazyPipe.tla, harness/drv_pipeconn, drv_pipeline (checks/pipeconn_c08.py)
    _bg_pipeconn_c08.join()
