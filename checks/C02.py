"""C02 — a reply that arrives in time is never lost.
spec/PipeConn.tla (+ PipeConn_Trace.tla), harness/simnet, harness/drv_pipeconn."""
import copy
import json
import random
import vlib
from vlib import log
import pipeconn_common as pc

TRACE_CFG = "PipeConn_Trace_C02.cfg"
BIG = 8  # limit used for the C02 scripts: capacity is never the issue here (C09 covers it)


def run(ctx):
    if ctx.replay:
        _rp = vlib.json.load(open(ctx.replay)).get("replay")
        if isinstance(_rp, dict) and "mode" in _rp and "script" in _rp:   # a replay file of the pool extension (drv_pool)
            import poollib
            return poollib.replay(ctx)
        d = json.load(open(ctx.replay))["replay"]
        if d.get("driver") == "drv_pipeline":
            import pipeline_part
            return pipeline_part.replay(ctx, d)
        return pc.replay(ctx, TRACE_CFG)
    T = ctx.thorough()
    rng = random.Random(ctx.seed)
    ctx.assumptions += [
        "a reply 'arrives' when its last byte has been returned by Read while the query is registered, its context "
        "is live and the connection has not been closed locally",
        "a LOCAL close (Close(), a failed Write of some query) that overtakes the reader between Read and hand-off "
        "is outside the quantifier; peer-caused EOF / error / timeout after the reply is inside",
        "cancellation racing the reply is outside the quantifier (NoLoss requires a live context)",
        "a call that should return is given 1.5 s of real time (0.6 s on datagram conns, below the 1 s resend "
        "tick) before it is reported as stuck; Go's select chooses uniformly among ready cases "
        "(race scripts are repeated, miss probability <= 2^-24)",
        "a write fault of a resend that coincides with a delivered reply is not modelled",
    ]
    # ---- leg A
    cfgs = [("PipeConn_design2.cfg", "design, 2 callers x 1 call, stream: all invariants", {}),
            ("PipeConn_live.cfg", "design, liveness arrived ~> done (fair, no constraint)", {})]
    if T:
        cfgs += [("PipeConn_design2u.cfg", "design, 2 callers x 1 call, datagram/resend", {}),
                 ("PipeConn_design3.cfg", "design, 3 callers x 1 call", {"timeout": 1500})]
    pc.leg_a(ctx, cfgs, [("PipeConn_dev_d1.cfg", "NoLoss"), ("PipeConn_dev_d2.cfg", "NoLoss")])

    # ---- leg B: schedules from TLC
    b1 = vlib.tlc_behaviours(ctx, "PipeConn", "PipeConn_gen1.cfg", label="generator: 1 caller, exhaustive BFS")
    nsim = 1000 if T else 120
    b2 = vlib.tlc_behaviours(ctx, "PipeConn", "PipeConn_gen.cfg", simulate=nsim, depth=150,
                             cfg_text=pc.gen_cfg(GenFocus='"late_fault"', MaxCancel="0", MaxStray="0"),
                             label="generator: 2 callers, faults only directly after a reply")
    b3 = vlib.tlc_behaviours(ctx, "PipeConn", "PipeConn_gen.cfg", simulate=nsim // 2, depth=200,
                             cfg_text=pc.gen_cfg(Callers="{0, 1, 2}", MaxCqs="{3}", GenFocus='"late_fault"',
                                                 MaxCancel="0", MaxStray="0", MaxDup="0"),
                             label="generator: 3 callers")
    behs = [b for b in b1 + b2 + b3 if not any(s["a"] == "Reserve" and s["o"] == "full" for s in b["steps"])]
    scripts, meta = [], []
    kinds = ["eof", "err", "timeout"]
    # the reply-then-close race is decided by Go's select: repeat a sample of those behaviours N times
    race_ids = [i for i, b in enumerate(behs) if pc.reply_then_fault(b["steps"])]
    rng.shuffle(race_ids)
    race_ids = set(race_ids[:30 if T else 10])
    race_rep = 100 if T else 24
    for i, b in enumerate(behs):
        early = pc.early_delivery(b["steps"])
        race = pc.reply_then_fault(b["steps"])
        reps = race_rep if i in race_ids else 1
        for k in range(reps):
            both = T and (early or race) and k == 0
            for dgram in ((False, True) if both else ((i + k) % 2 == 1,)):
                # stream framing, every other repetition: the EOF / error comes in the SAME Read as the reply's last byte
                ewd = race and not dgram and (k % 4 < 2)
                scripts.append(pc.script_of(b, "b%d.%d.%s%s" % (i, k, "udp" if dgram else "tcp", ".eofdata" if ewd else ""),
                                            maxcq=BIG, dgram=dgram,
                                            idpolicy=rng.choice(["random", "zero", "ffff", "same"]),
                                            kinds=[kinds[(i + k) % (2 if ewd else 3)]], pause=(k % 3 == 1),
                                            grace_ms=600 if dgram else 1500, eof_with_data=ewd))
                meta.append({"beh": i, "early": early, "race": race})
    # the id counter beyond its 16-bit range: > 65536 unrecorded helper exchanges first (the wire id is the counter
    # mod 2^16), then replies that arrive early / in time / right before a close
    pick = [b for b in behs if pc.early_delivery(b["steps"]) or pc.reply_then_fault(b["steps"])]
    for k in range(8 if T else 2):
        b = pick[rng.randrange(len(pick))]
        scripts.append(pc.script_of(b, "past16bit.%d" % k, maxcq=BIG, dgram=(k % 2 == 1), qid0=65536 + rng.randrange(1, 6),
                                    idpolicy="random", kinds=["eof"], grace_ms=600 if k % 2 == 1 else 1500))
        meta.append({"beh": None, "early": False, "race": False})
    # UDP retransmission (real 1 s ticker): no reply until the query has been written a second time; the reply
    # to the resend (copy 0 of the same send) must then be returned; a duplicate follows
    for k in range(3 if T else 1):
        st = [{"a": "ArmIdle"}, {"a": "Reserve", "c": 0, "o": "ok"}, {"a": "Start", "c": 0}, {"a": "Write", "c": 0},
              {"a": "ArmWaiting", "c": 0}, {"a": "Sleep", "n": 1050}, {"a": "Write", "c": 0}]
        if k % 2 == 0:
            st += [{"a": "ArmWaiting", "c": 0}, {"a": "ReadMsg", "c": 0, "g": 0, "n": 0}]
        else:   # reply handed over while the caller is inside the resend's Write
            st += [{"a": "ReadMsg", "c": 0, "g": 0, "n": 0}, {"a": "Dispatch"}, {"a": "ArmIdle"}, {"a": "ArmWaiting", "c": 0}]
        st += [{"a": "Return", "c": 0}]
        scripts.append({"name": "udp-resend.%d" % k, "maxCq": BIG, "dgram": True, "qid0": 0, "idpolicy": "random", "steps": st,
                        "probe": False, "grace_ms": 600})
        meta.append({"beh": None, "early": False, "race": False})
    # randomized concurrent runs (real goroutine interleavings)
    nrand = 600 if T else 60
    for i in range(nrand):
        scripts.append(pc.random_script("rnd%d" % i, callers=rng.choice([1, 2, 3, 4]), calls=rng.choice([1, 2, 3]),
                                        maxcq=BIG, dgram=(i % 2 == 1), seed=rng.randrange(1, 2 ** 31),
                                        p_dup=0.2, p_fault=0.15, grace_ms=600 if i % 2 == 1 else 1500))
        meta.append({"beh": None, "early": False, "race": False})
    log("replaying %d scripts (%d TLC behaviours: %d exhaustive 1-caller, %d + %d sampled; %d random runs)" % (
        len(scripts), len(behs), len(b1), len(b2), len(b3), nrand))
    recs = pc.run_scripts(ctx, scripts, workers=8)

    # ---- leg C
    rej = pc.validate(ctx, recs, TRACE_CFG, "C02", max_reject=5)
    by_sig = pc.report(ctx, recs, rej, TRACE_CFG)
    st = pc.steering_stats(ctx, recs)
    # ---- queries queued while a pipeline connection is dialing (conn_lazy_dial.go)
    import pipeline_part
    n_pipe = pipeline_part.run_c02(ctx, rng)
    ctx.cov["evaluations"] = len(recs) + n_pipe
    nontriv = set()
    for r, m in zip(recs, meta):
        if m["beh"] is not None and r["steered"] and (m["early"] or m["race"]):
            nontriv.add(m["beh"])
    ctx.cov["distinct_nontrivial"] = len(nontriv)
    ctx.cov["rule"] = ("evaluations = scripts executed on the real TraditionalDnsConn and validated by TLC (TLC behaviour x "
                       "framing x fault kind x repetition, plus random runs); distinct_nontrivial = distinct TLC behaviours, "
                       "fully steered, in which a reply is handed to the reader before the caller's Write returned or is "
                       "directly followed by EOF/error/timeout/Close")
    ctx.cov["exhaustive"] = False
    if not rej and len(st) < len(recs) // 3:
        raise vlib.Infra("dead driver: only %d of %d scripts could be steered: %s" % (
            len(st), len(recs), ctx.cov["unsteered_reasons"]))
    if not rej:
        pc.mutate_check(ctx, recs, TRACE_CFG, rng)
    for r in [recs[i] for i, _, _ in rej[:2]] + [r for r, m in zip(recs, meta) if m["early"] and r["steered"]][:2] + recs[-1:]:
        ctx.sample({"name": r["name"], "steered": r["steered"], "trace": r["trace"]})

    # ---- the same property on the connection pools (reuse.go, pipeline.go + conn_lazy_dial.go):
    # spec/ReuseConn.tla, spec/LazyPipeline.tla, harness/drv_pool (checks/pool_extra.py)
    import pool_extra
    _ev, _dn = ctx.cov.get("evaluations", 0), ctx.cov.get("distinct_nontrivial", 0)
    _recs = pool_extra.run_c02_reuse(ctx)
    _ran = [r for r in _recs if not r.get("skipped")]
    ctx.cov["evaluations"] = _ev + len(_ran)
    ctx.cov["distinct_nontrivial"] = _dn + len({r["name"].split("#")[0] for r in _ran if r["steered"]})
