"""Extra coverage (attached to C16 / C03): connection lifecycle of pkg/server (ServeTCP, ServeUDP) —
spec/ServerConn.tla (+ ServerConn_Trace.tla), harness/drv_server.  Entry point: run_extra(ctx)."""
import copy
import random
from concurrent.futures import ThreadPoolExecutor
import vlib
from vlib import log

NONVAC = [("write_after_trunc", "FramesWhole"), ("garbage_continues", "NoReadAfterGiveUp"), ("no_rearm", "DeadlineClass"), ("write_twice", "OneReply"),
          ("nil_keeps_open", "NilCloses"), ("ctx_early", "CtxNotEarly"), ("ctx_not_cancelled", "DoneIsClean")]
TCP_ONLY = ("SkipBad",)
UDP_NEVER = ("PartialWrite", "Stall", "TruncClose", "Unstall", "Accept", "SendPart", "SendRest", "HalfClose", "TimerFire", "Arm", "ArmClosed", "ReaderCancel", "ReaderClose", "ReaderDone")


def _sig(mode, info, rec):
    ev = info.get("event") or {}
    s = "server:%s:rejected-at:%s" % (mode, ev.get("ev"))
    if ev.get("ev") in ("Write", "PartialWrite", "Quiet") and any(
            e.get("ev") == "PartialWrite" and e is not ev and (ev.get("ev") == "Quiet" or e.get("c") == ev.get("c")) for e in rec["events"]):  # noqa
        return s + ":connection-kept-after-partial-write"
    if ev.get("ev") == "Arm":
        s += ":cls=%s" % ev.get("cls")
    elif ev.get("ev") in ("Write", "Invoke"):
        s += ":ok=%s" % ev.get("ok")
        if ev.get("ev") == "Invoke" and ev.get("ctxdone"):
            s += ":ctxdone"
    elif ev.get("ev") in ("Quiet",):
        s += ":" + str(ev.get("waiting_for", "")).split("(")[0].split(" #")[0].replace(" ", "_")
    elif ev.get("ev") == "End":
        s += ":leak=%s" % ev.get("leak")
    return s


def _validate(ctx, recs, what):
    """leg C over driver results; returns number of rejected traces."""
    nrej = 0
    for mode, spec_cfg in (("tcp", "ServerConn_Trace.cfg"), ("udp", "ServerConn_TraceUdp.cfg")):
        rs = [r for r in recs if (r["kind"] == mode or (mode == "tcp" and r["kind"] == "leak")) and r["events"]]
        if not rs:
            continue
        acc, rej = vlib.validate_traces(ctx, "ServerConn_Trace", spec_cfg, [r["events"] for r in rs], label="ServerConn " + mode)
        for idx, info in rej:
            r = rs[idx]
            nrej += 1
            ctx.violation(_sig(mode, info, r), "%s: real %s trace is not a behaviour of ServerConn.tla satisfying its invariants "
                          "(rejected at event %s: %s; cfg %s)" % (what, mode, info.get("line_in_trace"), info.get("event"), r.get("cfg")),
                          {"kind": r["kind"], "beh": r.get("beh"), "events": r["events"], "diag": r.get("diag")})
    return nrej


def replay(ctx):
    d = vlib.json.load(open(ctx.replay))["replay"]
    binary = vlib.go_build(ctx, "drv_server")
    beh = d.get("beh") or {"steps": []}
    job = {"tcp": [], "udp": [], "workers": 1, "wait_ms": 10000}
    job["udp" if d.get("kind") == "udp" else "tcp"] = [dict(beh, var=v) for v in range(3)] + [beh, beh]
    recs, _ = vlib.run_driver(ctx, binary, stdin_obj=job)
    ctx.cov["evaluations"] += len(recs)
    _validate(ctx, recs, "replay")


def run_extra(ctx):
    if ctx.replay:
        return replay(ctx)
    T = ctx.thorough()
    ctx.assumptions += [
        "server lifecycle: tcp read deadlines are virtual (the harness connection records SetReadDeadline and decides when the "
        "deadline passes); the duration requested is classified against first-read = min(2 s, idle) and the configured idle "
        "timeout (1 h / 1 s / default 10 s); Go's real net.Conn deadline machinery and the kernel are trusted",
        "server lifecycle: ServeTCP does not close open connections when its listener ends (it cancels their contexts); the "
        "spec states exactly that; DoQ/DoH servers and TLS server names are not driven",
        "server lifecycle: udp replies are observed by the client sockets: the server-side write is a silent spec step (only while "
        "the socket is open), the logged Write is its observation and may come arbitrarily late (also after End); a datagram "
        "written but unobserved for the full 10 s bound counts as lost (loopback does not lose datagrams)",
        "server lifecycle: a stalled client (Stall/Unstall) blocks Write on the scripted connection; if the server has armed a write "
        "deadline it passes at once (virtual time) and Write returns after a part of the frame (PartialWrite) - the spec then "
        "allows nothing but closing that connection (FramesWhole); the present code arms no write deadline and just blocks",
        "server lifecycle: a harness wait that expires (10 s without the awaited reaction) is logged as Quiet and is legal only "
        "if the spec's server has no enabled step",
    ]
    # ---- leg A
    vlib.tlc_mc(ctx, "ServerConn", "ServerConn_design.cfg", label="ServerConn tcp 1 conn x 2 queries: invariants + liveness",
                coverage=True, allow_zero_actions=TCP_ONLY)
    vlib.tlc_mc(ctx, "ServerConn", "ServerConn_udp.cfg", label="ServerConn udp 3 datagrams: invariants + liveness",
                coverage=True, allow_zero_actions=UDP_NEVER)
    if T:
        txt = open(vlib.VERIF + "/spec/ServerConn_design.cfg").read().replace("Ids = {1, 2}", "Ids = {1, 2, 3}")
        vlib.tlc_mc(ctx, "ServerConn", "ServerConn_design3.cfg", cfg_text=txt, name="sc-design3",
                    label="ServerConn tcp 1 conn x 3 queries: invariants + liveness", timeout=1500)
        vlib.tlc_mc(ctx, "ServerConn", "ServerConn_design2.cfg", label="ServerConn tcp 2 conns x 2 queries: invariants", timeout=1500)
    base = open(vlib.VERIF + "/spec/ServerConn_nonvac.cfg").read()

    def nv(item):
        dev, inv = item
        r = vlib.run_tlc(ctx, "ServerConn", "ServerConn_nv_%s.cfg" % dev, name="sc-nv-" + dev, workers=2, expect_violation=True,
                         cfg_text=base.replace('DEV = "garbage_continues"', 'DEV = "%s"' % dev))
        return dev, inv, r["violated"]
    with ThreadPoolExecutor(max_workers=3) as ex:
        for dev, inv, got in ex.map(nv, NONVAC):
            if got != inv:
                raise vlib.Infra("ServerConn non-vacuity: DEV=%s should violate %s, TLC reported %r" % (dev, inv, got))
    log("ServerConn non-vacuity: %d deviation switches each violate their invariant" % len(NONVAC))
    ctx.cov.setdefault("non_vacuity_extra", []).append("ServerConn: " + ", ".join("%s -> %s" % x for x in NONVAC))

    # ---- leg B
    rng = random.Random(ctx.seed)
    tb = vlib.tlc_behaviours(ctx, "ServerConn", "ServerConn_gen.cfg", simulate=16000 if T else 4000, depth=60)
    # a second, narrower generator (one connection, three queries, shorter schedules): single causes decide more often
    g1 = open(vlib.VERIF + "/spec/ServerConn_gen.cfg").read().replace("Conns = {1, 2}", "Conns = {1}").replace(
        "Ids = {1, 2, 3, 4}", "Ids = {1, 2, 3}").replace("GenLen = 14", "GenLen = 10")
    tb += vlib.tlc_behaviours(ctx, "ServerConn", "ServerConn_gen1.cfg", cfg_text=g1, name="sc-gen1", simulate=6000 if T else 2000, depth=50)
    ub = vlib.tlc_behaviours(ctx, "ServerConn", "ServerConn_genudp.cfg", simulate=5000 if T else 1000, depth=50)

    def stalled_reply(b):
        """a handler of a connection returns a payload while that connection's client is stalled"""
        qc, st = {}, set()
        for x in b["steps"]:
            if x["a"] == "Invoke":
                qc[x["q"]] = x.get("c")
            elif x["a"] == "Stall":
                st.add(x["c"])
            elif x["a"] == "Unstall":
                st.discard(x["c"])
            elif x["a"] == "Release" and x.get("k") == "reply" and qc.get(x["q"]) in st:
                return True
        return False

    def nil_decides(b):
        """a nil reply is the only thing that ends its connection (no EOF / garbage / deadline expiry on it)"""
        qc, other = {}, set()
        for x in b["steps"]:
            if x["a"] == "Invoke":
                qc[x["q"]] = x.get("c")
            elif x["a"] in ("HalfClose", "Garbage", "TimerFire"):
                other.add(x["c"])
        return any(x["a"] == "Release" and x.get("k") == "nil" and qc.get(x["q"]) not in other for x in b["steps"])

    def weight(b):
        acts = [s["a"] for s in b["steps"]]
        return (acts.count("Invoke") >= 2) + ("TimerFire" in acts) + ("Garbage" in acts) + any(
            s["a"] == "Release" and s.get("k") == "nil" for s in b["steps"]) + ("SendPart" in acts) + ("ListenerClose" in acts) + 3 * stalled_reply(b) + 3 * nil_decides(b)
    ctx.cov.setdefault("extra", {})["server_stalled_reply_schedules"] = sum(1 for b in tb if stalled_reply(b))
    log("ServerConn generator: %d tcp schedules release a reply towards a stalled client, %d end a connection only by a nil reply" % (
        ctx.cov["extra"]["server_stalled_reply_schedules"], sum(1 for b in tb if nil_decides(b))))
    for bs, n in ((tb, 2500 if T else 450), (ub, 600 if T else 120)):
        rng.shuffle(bs)
        bs.sort(key=lambda b: -weight(b))
        del bs[n:]
    for b in tb + ub:
        b["var"] = rng.randrange(6)
    # the same schedules without waiting for the server between client steps (races decided by the real scheduler)
    nw = []
    for b in rng.sample(tb, min(len(tb), 1200 if T else 220)):
        b2 = copy.deepcopy(b)
        b2["nowait"] = True
        nw.append(b2)
    nwu = []
    for b in rng.sample(ub, min(len(ub), 300 if T else 60)):
        b2 = copy.deepcopy(b)
        b2["nowait"] = True
        nwu.append(b2)
    binary = vlib.go_build(ctx, "drv_server")
    job = {"tcp": tb + nw, "udp": ub + nwu, "workers": 8, "wait_ms": 10000}
    recs, _ = vlib.run_driver(ctx, binary, stdin_obj=job, timeout=1500)
    if len(recs) != len(job["tcp"]) + len(job["udp"]) + 1:
        raise vlib.Infra("drv_server returned %d results for %d jobs" % (len(recs), len(job["tcp"]) + len(job["udp"]) + 1))
    ctx.cov["evaluations"] += len(recs)
    log("drv_server: %d scripts run, %d steered" % (len(recs), sum(1 for r in recs if r["steered"])))

    # ---- leg C
    nrej = _validate(ctx, recs, "schedule of ServerConn.tla")
    steered = [r for r in recs if r["steered"] and r["kind"] != "leak"]
    ctx.cov["distinct_nontrivial"] += len({vlib.json.dumps(r["beh"]["steps"], sort_keys=True) for r in steered if weight(r["beh"]) >= 1})
    ctx.cov.setdefault("extra", {})["server_lifecycle"] = {
        "tcp_replayed": len(tb), "tcp_nowait": len(nw), "udp_replayed": len(ub), "udp_nowait": len(nwu),
        "steered": len(steered), "rejected": nrej}
    if not nrej:
        good = [r["events"] for r in recs if r["kind"] == "tcp" and r["steered"]
                and any(e["ev"] == "Write" for e in r["events"]) and any(e["ev"] == "Arm" and e["cls"] == "idle" for e in r["events"])]
        if good:
            g = good[0]
            t1 = copy.deepcopy(g)
            for e in t1:
                if e["ev"] == "Arm" and e["cls"] == "idle":
                    e["cls"] = "first"
                    break
            i = max(k for k, e in enumerate(g) if e["ev"] == "Write")
            t2 = g[:i + 1] + [copy.deepcopy(g[i])] + g[i + 1:]
            t3 = [e for e in g if e["ev"] != "Close"]
            t4 = copy.deepcopy(g)
            for e in t4:
                if e["ev"] == "Write":
                    e["ok"] = False
                    break
            vlib.assert_rejects(ctx, "ServerConn_Trace", "ServerConn_Trace.cfg", [t1, t2, t3, t4],
                                "idle deadline logged as first-read; reply frame duplicated; Close events removed; reply bytes flagged unequal")
        ugood = [r["events"] for r in recs if r["kind"] == "udp" and any(e["ev"] == "Write" for e in r["events"])]
        if ugood:
            g = ugood[0]
            i = max(k for k, e in enumerate(g) if e["ev"] == "Write")
            # observation latency: the arrival of a reply datagram logged after End must still be explainable ...
            moved = g[:i] + g[i + 1:] + [g[i]]
            path = vlib.os.path.join(ctx.work, "late-obs.ndjson")
            vlib.write_ndjson(path, moved)
            ok, info = vlib.tlc_trace(ctx, "ServerConn_Trace", "ServerConn_TraceUdp.cfg", path, name="late-obs")
            if not ok:
                raise vlib.Infra("ServerConn_Trace (udp) rejects a reply observation delayed past End: %s" % moved)
            # ... while a second datagram for the same query, or one for a query never released with a payload, is not
            never = [e["q"] for e in g if e["ev"] == "Send" and not any(x["ev"] == "Release" and x["q"] == e["q"] and x["k"] == "reply" for x in g)]
            bad = [g + [copy.deepcopy(g[i])]]
            if never:
                bad.append(g + [dict(g[i], q=never[0])])
            vlib.assert_rejects(ctx, "ServerConn_Trace", "ServerConn_TraceUdp.cfg", bad,
                                "udp reply observed twice; reply observed for a query whose handler returned no payload")
    if not ctx.violations and not ctx.known_hits and len(steered) < (len(tb) + len(ub)) // 3:
        raise vlib.Infra("drv_server: only %d of %d behaviours steered: %s" % (
            len(steered), len(tb) + len(ub), [r.get("why") for r in recs if not r["steered"] and r.get("why")][:4]))
    for r in steered[:1]:
        ctx.sample({"server_trace": r["events"]})
