"""C01 — every upstream exchange returns the reply to its own query (pipelined / UDP connection part:
conn_traditional.go).  spec/PipeConn.tla (+ PipeConn_Trace.tla), harness/simnet, harness/drv_pipeconn."""
import random
import vlib
from vlib import log
import pipeconn_common as pc

TRACE_CFG = "PipeConn_Trace_C01.cfg"
BIG = 8
IDP = ["zero", "ffff", "same", "wire", "random"]


def S(a, **kw):
    d = {"a": a}
    d.update(kw)
    return d


def bulk_script(name, rng, dgram, variant):
    """wire-id wrap with an id still outstanding: caller 0 keeps its id while the counter goes once around
    (65535 unrecorded helper exchanges); the next allocation has to skip that id; replies come in
    scripted orders, with a late reply to an abandoned query / a duplicate."""
    st = [S("ArmIdle"), S("Reserve", c=0, o="ok"), S("Start", c=0), S("Write", c=0), S("ArmWaiting", c=0)]
    if variant == "abandoned":
        # caller 0 gives up; its id becomes free again; the late reply must be dropped, not handed to the next owner
        st += [S("Cancel", c=0), S("Return", c=0), S("Bulk", cnt=65535),
               S("ReadMsg", c=0, g=0, n=0), S("Dispatch"), S("ArmIdle"),
               S("Reserve", c=1, o="ok"), S("Start", c=1), S("Write", c=1), S("ArmWaiting", c=1),
               S("ReadMsg", c=1, g=0, n=0), S("Dispatch"), S("ArmIdle"), S("Return", c=1)]
    else:
        st += [S("Bulk", cnt=65535),
               S("Reserve", c=1, o="ok"), S("Start", c=1), S("Write", c=1), S("ArmWaiting", c=1),
               S("Reserve", c=2, o="ok"), S("Start", c=2), S("Write", c=2), S("ArmWaiting", c=2)]
        order = [0, 1, 2]
        rng.shuffle(order)
        for c in order:
            st += [S("ReadMsg", c=c, g=0, n=0), S("Dispatch"), S("ArmIdle")]
            if variant == "dup":
                st += [S("ReadMsg", c=c, g=0, n=1), S("Dispatch"), S("ArmIdle")]
        for c in order:
            st += [S("Return", c=c)]
    return {"name": name, "maxCq": BIG, "dgram": dgram, "qid0": 0, "idpolicy": rng.choice(IDP), "steps": st,
            "probe": False, "grace_ms": 1500}


def run(ctx):
    if ctx.replay:
        _rp = vlib.json.load(open(ctx.replay)).get("replay")
        if isinstance(_rp, dict) and "beh" in _rp and "listen" in _rp:          # updial_extra (drv_updial)
            import updial_extra
            return updial_extra.run_udp_fallback(ctx)
        if isinstance(_rp, dict) and "mode" in _rp and "script" in _rp:   # a replay file of the pool extension (drv_pool)
            import poollib
            return poollib.replay(ctx)
        # replay files of the DoH/DoQ extension carry a stream signature
        sig = vlib.json.load(open(ctx.replay)).get("signature", "")
        if sig.startswith(("doh:", "doq:", "stream:")) or "transport" in (vlib.json.load(open(ctx.replay)).get("replay") or {}):
            import stream_extra
            return stream_extra.run_extra(ctx)
        return pc.replay(ctx, TRACE_CFG)
    import stream_extra
    _bg_stream = vlib.background(ctx, stream_extra.run_extra, "stream_extra")
    import updial_extra   # udp upstream with TCP fallback: the caller never gets a released / foreign buffer
    _bg_udpfb = vlib.background(ctx, updial_extra.run_udp_fallback, "updial_udp_fallback")
    T = ctx.thorough()
    rng = random.Random(ctx.seed)
    ctx.assumptions += [
        "16-bit scope of C01: a late reply to an abandoned query arrives before its wire id is reused "
        "(AddQueue does not pick an id for which a reply is in flight; the server forgets older sends with that id)",
        "a stray reply carries an id that matches no outstanding query (a forged reply with a live id is "
        "indistinguishable from a genuine one); the harness picks stray ids far from the id counter",
        "every query has a unique question, every reply a unique answer naming the send (caller, call, copy) it answers; "
        "the returned message is decoded by miekg/dns",
        "this check covers TraditionalDnsConn (UDP, pipelined TCP/DoT); reuse.go, DoH, DoQ belong to other drivers",
    ]
    # ---- leg A
    cfgs = [("PipeConn_design2.cfg", "design, 2 callers x 1 call, stray + duplicate + cancel + fault", {})]
    if T:
        cfgs += [("PipeConn_design2x2.cfg", "design, 2 callers x 2 calls, M = 2 (every allocation wraps / skips)", {"timeout": 1500}),
                 ("PipeConn_design3.cfg", "design, 3 callers x 1 call", {"timeout": 1500})]
    pc.leg_a(ctx, cfgs, [("PipeConn_dev_noskip.cfg", "OwnReply"), ("PipeConn_dev_any.cfg", "NoStrayDelivered"),
                         ("PipeConn_dev_nowrap.cfg", "OwnReply")])

    # ---- leg B
    nsim = 1000 if T else 150
    b1 = vlib.tlc_behaviours(ctx, "PipeConn", "PipeConn_gen.cfg", simulate=nsim, depth=250,
                             cfg_text=pc.gen_cfg(MaxCalls="2", MaxFault="0", MaxDup="2", MaxStray="2"),
                             label="generator: 2 callers x 2 calls, reorder / duplicates / strays / cancel (late replies)")
    b2 = vlib.tlc_behaviours(ctx, "PipeConn", "PipeConn_gen.cfg", simulate=nsim, depth=250,
                             cfg_text=pc.gen_cfg(Callers="{0, 1, 2}", MaxCqs="{3}", MaxFault="0", MaxDup="1", MaxStray="1"),
                             label="generator: 3 callers x 1 call, reply permutations")
    behs = [b for b in b1 + b2 if any(s["a"] == "ReadMsg" for s in b["steps"])]
    scripts, meta = [], []
    for i, b in enumerate(behs):
        scripts.append(pc.script_of(b, "b%d" % i, maxcq=BIG, dgram=(i % 2 == 1), idpolicy=IDP[i % len(IDP)],
                                    grace_ms=600 if i % 2 == 1 else 1500, pause=(i % 4 == 0)))
        meta.append(i)
    # reply, then close at once: when Go's select takes the close arm the reply is still returned — it must carry the
    # caller's id there too (caller ids differ from the wire ids: policies ffff / random, wire ids start at 0)
    b3 = vlib.tlc_behaviours(ctx, "PipeConn", "PipeConn_gen.cfg", simulate=200, depth=150,
                             cfg_text=pc.gen_cfg(GenFocus='"late_fault"', MaxCancel="0", MaxStray="0", MaxDup="0"),
                             label="generator: reply directly followed by EOF / error / Close")
    race = [b for b in b3 if pc.reply_then_fault(b["steps"])]
    rng.shuffle(race)
    for i, b in enumerate(race[:24 if T else 8]):
        for k in range(48 if T else 24):
            dgram = (i + k) % 2 == 1
            scripts.append(pc.script_of(b, "race%d.%d" % (i, k), maxcq=BIG, dgram=dgram, idpolicy=("ffff", "random")[k % 2],
                                        kinds=[["eof", "err", "timeout"][(i + k) % 3]], grace_ms=600 if dgram else 1500,
                                        eof_with_data=(not dgram and k % 4 == 0)))
            meta.append(None)
    # ONE query buffer exchanged concurrently on two connections (forward with concurrent > 1): A inside Write while B runs
    for k in range(6 if T else 2):
        scripts.append({"name": "shared-buffer.%d" % k, "shared": True, "maxCq": BIG, "dgram": (k % 3 != 2), "qid0": 0,
                        "idpolicy": "random", "steps": [], "probe": False, "grace_ms": 1500})
        meta.append(None)
    # wire-id wrap 65535 -> 0 inside the scenario (counter pre-advanced by unrecorded helper exchanges)
    nwrap = 24 if T else 3
    pick = [b for b in behs if sum(1 for s in b["steps"] if s["a"] == "Write") >= 2]
    for k in range(min(nwrap, len(pick))):
        b = pick[rng.randrange(len(pick))]
        scripts.append(pc.script_of(b, "wrap%d" % k, maxcq=BIG, dgram=(k % 2 == 1), idpolicy=rng.choice(["wire", "ffff", "zero"]),
                                    qid0=65536 - rng.choice([1, 1, 2, 3])))
        meta.append(None)
    for k, v in enumerate((["skip", "dup", "abandoned"] * (4 if T else 1))):
        scripts.append(bulk_script("bulk.%s.%d" % (v, k), rng, dgram=False, variant=v))  # stream only (UDP would resend during the bulk)
        meta.append(None)
    nrand = 600 if T else 50
    for i in range(nrand):
        scripts.append(pc.random_script("rnd%d" % i, callers=rng.choice([2, 3, 4]), calls=rng.choice([2, 3, 4]), maxcq=BIG,
                                        dgram=(i % 2 == 1), seed=rng.randrange(1, 2 ** 31), idpolicy=IDP[i % len(IDP)],
                                        p_stray=0.3, p_dup=0.3, p_cancel=0.08, grace_ms=600 if i % 2 == 1 else 1500,
                                        qid0=(65535 if (T and i % 50 == 0) else 0)))
        meta.append(None)
    log("replaying %d scripts (%d TLC behaviours, %d wrap concretizations, bulk/skip scenarios, %d random runs)" % (
        len(scripts), len(behs), nwrap, nrand))
    recs = pc.run_scripts(ctx, scripts, workers=8)

    # ---- leg C
    rej = pc.validate(ctx, recs, TRACE_CFG, "C01", max_reject=5)
    pc.report(ctx, recs, rej, TRACE_CFG)
    st = pc.steering_stats(ctx, recs)
    ctx.cov["evaluations"] = len(recs)
    nontriv = set()
    for r in recs:
        tr = r["trace"]
        ends = [e for e in tr if e["ev"] == "ExchangeEnd" and e["r"] == "reply"]
        dels = [e for e in tr if e["ev"] == "Deliver"]
        adversarial = any(e["c"] < 0 or e["n"] > 0 for e in dels) or \
            [e["c"] for e in dels if e["c"] >= 0][:4] != sorted([e["c"] for e in dels if e["c"] >= 0][:4])
        if r["steered"] and len(ends) >= 2 and adversarial:
            nontriv.add(vlib.json.dumps([(e["ev"], e.get("c"), e.get("n")) for e in tr if e["ev"] in ("Deliver", "ConnWrite", "Cancel")]))
    ctx.cov["distinct_nontrivial"] = len(nontriv)
    ctx.cov["rule"] = ("evaluations = scripts executed on the real TraditionalDnsConn and validated by TLC (TLC behaviour x framing "
                       "x caller-id policy x id-counter position, bulk/skip scenarios, random runs); distinct_nontrivial = "
                       "distinct fully steered delivery histories with >= 2 successful calls and a stray, a duplicate or an "
                       "out-of-order reply")
    ctx.cov["exhaustive"] = False
    if not rej and len(st) < len(recs) // 3:
        raise vlib.Infra("dead driver: only %d of %d scripts could be steered: %s" % (
            len(st), len(recs), ctx.cov["unsteered_reasons"]))
    if not rej:
        pc.mutate_check(ctx, recs, TRACE_CFG, rng)
    for r in [recs[i] for i, _, _ in rej[:2]] + [r for r in recs if r["name"].startswith("bulk")][:1] + recs[:1]:
        ctx.sample({"name": r["name"], "steered": r["steered"], "trace": r["trace"][:60]})

    # ---- DoH / DoQ (one private request / stream per call): spec/StreamPerQuery.tla, harness/drv_stream
    _bg_stream.join()
    _bg_udpfb.join()

    # ---- the same property on the connection pools (reuse.go, pipeline.go + conn_lazy_dial.go):
    # spec/ReuseConn.tla, spec/LazyPipeline.tla, harness/drv_pool (checks/pool_extra.py)
    import pool_extra
    _ev, _dn = ctx.cov.get("evaluations", 0), ctx.cov.get("distinct_nontrivial", 0)
    _recs = pool_extra.run_c01_reuse(ctx)
    _ran = [r for r in _recs if not r.get("skipped")]
    ctx.cov["evaluations"] = _ev + len(_ran)
    ctx.cov["distinct_nontrivial"] = _dn + len({r["name"].split("#")[0] for r in _ran if r["steered"]})
