"""Shared by C01 / C02 / C09 (family transport-pipe): spec/PipeConn.tla, spec/PipeConn_Trace.tla,
harness/simnet, harness/drv_pipeconn (TraditionalDnsConn) and harness/drv_pipeline (PipelineTransport)."""
import copy
import json
import random
import vlib
from vlib import log

KEEP = {"reset", "Reserve", "Withdraw", "Start", "ConnWrite", "WriteRet", "Deliver", "ReadFail", "ConnClose",
        "Close", "Cancel", "ExchangeEnd", "Stuck", "Bulk"}
DROP_FIELDS = ("seq", "ms", "conn", "text", "len", "again", "byclose", "e")

FAULT_STEPS = ("ReadFail", "ExtClose", "WriteFail")


def to_trace(events):
    """Project the recorder's events onto the vocabulary of PipeConn_Trace.tla."""
    out = []
    for e in events or []:
        ev = e["ev"]
        if ev == "SetReadDeadline":
            if e.get("kind") == "idle":
                out.append({"ev": "ArmIdle"})
            continue
        if ev == "ReadFail" and e.get("kind") == "closed":
            continue  # pending Read failed by Close(): the spec's silent ReaderDies
        if ev == "ReadTimeout":
            out.append({"ev": "ReadFail", "kind": "timeout"})
            continue
        if ev in KEEP:
            out.append({k: v for k, v in e.items() if k not in DROP_FIELDS})
    return out


def leg_a(ctx, cfgs, nonvac):
    """cfgs: [(cfg, label, kwargs)]; nonvac: [(cfg, expected invariant)]"""
    for cfg, label, kw in cfgs:
        vlib.tlc_mc(ctx, "PipeConn", cfg, label=label, **kw)
    ctx.cov["non_vacuity"] = nonvac_runs(ctx, "PipeConn", nonvac)


def nonvac_runs(ctx, spec, nonvac):
    """deviation-switch configs, run concurrently (each is a ~2 s TLC run dominated by JVM start)"""
    from concurrent.futures import ThreadPoolExecutor
    with ThreadPoolExecutor(max_workers=6) as ex:
        res = list(ex.map(lambda ci: vlib.run_tlc(ctx, spec, ci[0], expect_violation=True, workers=2, timeout=300), nonvac))
    nv = []
    for (cfg, inv), r in zip(nonvac, res):
        if r["violated"] != inv:
            raise vlib.Infra("non-vacuity run %s: expected %s to fail, got %r" % (cfg, inv, r["violated"]))
        nv.append("%s fails under %s" % (inv, cfg))
    return nv


def gen_cfg(**repl):
    txt = open(vlib.VERIF + "/spec/PipeConn_gen.cfg").read()
    for k, v in repl.items():
        import re
        txt, n = re.subn(r"(?m)^  %s = .*$" % k, "  %s = %s" % (k, v), txt)
        if n != 1:
            raise vlib.Infra("gen cfg: constant %s not found" % k)
    return txt


def early_delivery(steps):
    """behaviour delivers the first reply of a call before that call's Write has returned"""
    armed = set()
    for s in steps:
        if s["a"] == "ArmWaiting":
            armed.add((s["c"]))
        if s["a"] == "Return":
            armed.discard(s["c"])
        if s["a"] == "ReadMsg" and s["c"] >= 0 and s["c"] not in armed:
            return True
    return False


def reply_then_fault(steps):
    seen = False
    for s in steps:
        if s["a"] == "ReadMsg" and s["c"] >= 0:
            seen = True
        if seen and s["a"] in ("ReadFail", "ExtClose"):
            return True
    return False


def script_of(beh, name, maxcq=None, dgram=None, qid0=0, idpolicy="random", probe=False, probe_c=4, kinds=None,
              pause=False, grace_ms=0, eof_with_data=False):
    steps = copy.deepcopy(beh["steps"])
    if kinds:
        for s in steps:
            if s["a"] == "ReadFail":
                s["k"] = kinds[0]
    if eof_with_data:
        # concretization of "reply, then EOF/error": the Read that returns the reply's last byte also returns the
        # error (n > 0, err in ONE call); the ReadFail step disappears, the reader's next Read fails by itself
        for i, s in enumerate(steps):
            if s["a"] == "ReadFail" and s.get("k") in ("eof", "err"):
                j = max([k for k in range(i) if steps[k]["a"] == "ReadMsg"], default=None)
                if j is not None and steps[j]["c"] >= 0 and not steps[j].get("k") and \
                        not any(t["a"] in ("ReadMsg", "ReadFail") for t in steps[j + 1:i]):
                    steps[j]["k"] = s["k"]
                    s["a"] = "Nop"
    return {"name": name, "maxCq": maxcq if maxcq is not None else beh["maxCq"],
            "dgram": beh["dgram"] if dgram is None else dgram, "qid0": qid0, "idpolicy": idpolicy,
            "steps": steps, "probe": probe, "probe_c": probe_c, "pause": pause, "grace_ms": grace_ms}


def random_script(name, callers, calls, maxcq, dgram, seed, qid0=0, idpolicy="random", p_stray=0.0, p_dup=0.0,
                  p_cancel=0.0, p_fault=0.0, p_withdraw=0.0, probe=False, probe_c=4, grace_ms=0):
    return {"name": name, "maxCq": maxcq, "dgram": dgram, "qid0": qid0, "idpolicy": idpolicy, "steps": [],
            "probe": probe, "probe_c": probe_c, "grace_ms": grace_ms,
            "random": {"callers": callers, "calls": calls, "p_stray": p_stray, "p_dup": p_dup, "p_cancel": p_cancel,
                       "p_fault": p_fault, "p_withdraw": p_withdraw, "seed": seed}}


def run_scripts(ctx, scripts, driver="drv_pipeconn", workers=8, timeout=1500):
    binary = vlib.go_build(ctx, driver)
    recs, err = vlib.run_driver(ctx, binary, stdin_obj={"scripts": scripts, "workers": workers}, timeout=timeout)
    if len(recs) != len(scripts):
        raise vlib.Infra("driver returned %d results for %d scripts\n%s" % (len(recs), len(scripts), err[-2000:]))
    for r, s in zip(recs, scripts):
        r["script"] = s
        r["trace"] = to_trace(r["events"])
    return recs


def sanity(recs):
    """harness-side preconditions of the trace spec (never a verdict): a stray id must not be the id of any
    query of the run."""
    for r in recs:
        wids = {e["wid"] for e in r["trace"] if e["ev"] == "ConnWrite"}
        for e in r["trace"]:
            if e["ev"] == "Deliver" and e["c"] < 0 and e["wid"] in wids:
                raise vlib.Infra("harness error: stray id %d collides with a query id in %s" % (e["wid"], r["name"]))


def classify(trace, info):
    """signature of a rejected trace: the specific history shape that the design spec cannot explain."""
    ev = info.get("event") or {}
    line = info.get("line_in_trace") or len(trace)
    prefix = trace[:line]
    kind = ev.get("ev")
    c = ev.get("c")

    def phase_of_delivery():
        # where was caller c when the first reply to its current call was handed to the reader?
        wr = False
        ph = None
        for e in prefix:
            if e.get("c") == c and e["ev"] == "Start":
                wr, ph = False, None
            if e.get("c") == c and e["ev"] == "WriteRet" and e.get("ok"):
                wr = True
            if e["ev"] == "Deliver" and e.get("c") == c and ph is None:
                ph = "parked-or-arming" if wr else "inside-write"
        return ph

    def fault_after_reply():
        seen, f = False, "none"
        for e in prefix:
            if e["ev"] == "Deliver" and e.get("c") == c:
                seen = True
            if seen and e["ev"] in ("ReadFail", "Close"):
                f = e.get("kind", "close")
        return f

    if info.get("violated"):
        return "invariant-%s" % info["violated"]
    if kind == "Stuck":
        ph = phase_of_delivery()
        if ph:
            return "delivered-reply-lost:call-never-returns:reply-arrived-%s" % ph
        return "call-never-returns"
    if kind == "ExchangeEnd":
        if ev.get("r") == "err":
            ph = phase_of_delivery()
            if ph:
                return "delivered-reply-lost:error-returned:reply-arrived-%s:then-%s" % (ph, fault_after_reply())
            return "unexplained-error"
        if ev.get("rc") != c or ev.get("rg") != ev.get("g"):
            return "foreign-reply-returned:%s" % ("stray" if ev.get("rc", 0) < 0 else
                                                   "other-caller" if ev.get("rc") != c else "earlier-call")
        if not ev.get("idok"):
            return "caller-id-not-restored"
        if not ev.get("qok"):
            return "question-mismatch"
        return "wrong-reply-copy-returned"
    if kind == "Reserve":
        active = set()
        for e in prefix[:-1]:
            if e["ev"] == "Reserve" and e["o"] == "ok":
                active.add(e["c"])
            if e["ev"] in ("Withdraw", "ExchangeEnd"):
                active.discard(e["c"])
        lim = next((e["maxCq"] for e in trace if e["ev"] == "reset"), None)
        # what is surely known: calls whose return / withdrawal has been observed are over
        if ev.get("o") == "full" and len(active) < lim:
            return "reservation-refused-below-limit"
        if ev.get("o") == "ok" and len(active) >= lim:
            return "reservation-admitted-above-limit"
        return "reserve-%s-unexplained" % ev.get("o")
    if kind == "ConnWrite" and ev.get("bufok") is False:
        return "caller-query-buffer-modified-by-exchange"
    if kind == "ConnWrite":
        busy = {}
        for e in prefix[:-1]:
            if e["ev"] == "ConnWrite" and not e.get("dead"):
                busy[e["c"]] = e["wid"]
            if e["ev"] == "ExchangeEnd":
                busy.pop(e["c"], None)
        if not ev.get("dead") and ev.get("wid") in [w for cc, w in busy.items() if cc != c]:
            return "wire-id-of-outstanding-query-reused"
        ph = phase_of_delivery()
        if ph and not ev.get("dead"):
            return "delivered-reply-lost:query-retransmitted:reply-arrived-%s" % ph
        return "write-unexplained:wire-id"
    return "%s-unexplained" % kind


def validate(ctx, recs, cfg, what, max_reject=40, extra_sig=None):
    """leg C over all records. Reports violations; returns rejected [(idx, signature, info)]."""
    sanity(recs)
    traces = [r["trace"] for r in recs]
    acc, rej = vlib.validate_traces(ctx, "PipeConn_Trace", cfg, traces, max_reject=max_reject, label=what)
    out = []
    for idx, info in rej:
        r = recs[idx]
        sig = classify(r["trace"], info)
        out.append((idx, sig, info))
    for r in recs:
        if r.get("panic"):
            out.append((r["idx"], "panic", {"event": r["panic"], "line_in_trace": None}))
    return out


def script_from_trace(rec):
    """A steering script that re-imposes the order actually observed in a recorded trace (used for replay files:
    the order of a failing run, incl. 'the reader came back before the Write returned', is forced again)."""
    sc = copy.deepcopy(rec["script"])
    if sc.get("shared") or any(st.get("a") == "Stress" for st in sc.get("steps", [])):
        return sc   # these scenarios are their own replay (the window is found by repetition, not by a forced order)
    steps = []
    auto_fail = False
    for e in rec["trace"]:
        ev = e["ev"]
        if ev == "Reserve":
            steps.append({"a": "Reserve", "c": e["c"], "o": e["o"]})
        elif ev == "Withdraw":
            steps.append({"a": "Withdraw", "c": e["c"]})
        elif ev == "Start":
            steps.append({"a": "Start", "c": e["c"]})
        elif ev == "ConnWrite" and not e.get("dead"):
            steps.append({"a": "Write", "c": e["c"]})
        elif ev == "WriteRet":
            steps.append({"a": "ArmWaiting" if e["ok"] else "WriteFail", "c": e["c"]})
        elif ev == "ArmIdle":
            steps += [{"a": "Dispatch"}, {"a": "ArmIdle"}]
        elif ev == "Deliver":
            st = {"a": "ReadMsg", "c": e["c"], "g": e["g"], "n": e["n"]}
            if e.get("with_err"):
                st["k"] = e["with_err"]     # the error came with the last chunk; the next Read fails by itself
                auto_fail = True
            steps.append(st)
        elif ev == "ReadFail":
            if auto_fail:
                auto_fail = False
            else:
                steps.append({"a": "ReadFail", "k": e.get("kind", "eof")})
        elif ev == "ConnClose":
            steps.append({"a": "ConnClose"})
        elif ev == "Close":
            steps.append({"a": "ExtClose"})
        elif ev == "Cancel":
            steps.append({"a": "Cancel", "c": e["c"]})
        elif ev in ("ExchangeEnd", "Stuck"):
            steps.append({"a": "Return", "c": e["c"]})
        elif ev == "Bulk":
            steps.append({"a": "Bulk", "cnt": e.get("cnt", 65535)})
    sc["steps"], sc["random"], sc["probe"] = steps, None, False
    return sc


def report(ctx, recs, rejected, cfg=None, confirm=True, cfg_wide=None):
    """One violation per signature. A signature seen in fewer than 3 independent runs is re-confirmed first: the
    order observed in the failing trace is re-imposed 12 times (script_from_trace) and must be rejected by TLC
    again at least once; otherwise it is reported as an unreproduced (flaky) rejection = infrastructure problem."""
    by_sig = {}
    for idx, sig, info in rejected:
        by_sig.setdefault(sig, []).append((idx, info))
    flaky = []
    for sig, lst in by_sig.items():
        idx, info = lst[0]
        r = recs[idx]
        sc = script_from_trace(r)
        if confirm and cfg and len(lst) < 3 and sig != "panic" and r.get("driver", "drv_pipeconn") == "drv_pipeconn":
            again = []
            for i in range(12):
                s2 = copy.deepcopy(sc)
                s2["name"] = "confirm%d" % i
                s2.pop("random", None)
                again.append(s2)
            recs2 = run_scripts(ctx, again)
            use = cfg_wide if (cfg_wide and r["script"]["maxCq"] > 4) else cfg
            rej2 = validate(ctx, recs2, use, "re-confirmation of %s" % sig, max_reject=1)
            ctx.cov["traces_validated_against_impl"] -= len(recs2) - len(rej2)
            if not rej2:
                flaky.append((sig, r["name"], info.get("event")))
                continue
        ctx.violation(sig, "real trace of TraditionalDnsConn is not a behaviour of PipeConn.tla satisfying the property "
                           "(%d traces; first: script %s rejected at event %s: %s)" % (
                               len(lst), r["name"], info.get("line_in_trace"), json.dumps(info.get("event"))),
                      {"script": sc, "orig_script": r["script"], "trace": r["trace"],
                       "driver": r.get("driver", "drv_pipeconn")})
    if flaky and not ctx.violations:
        raise vlib.Infra("trace rejection(s) that could not be reproduced in 12 re-runs of the observed order "
                         "(scheduler stall?): %s" % flaky)
    return by_sig


def steering_stats(ctx, recs):
    st = [r for r in recs if r["steered"]]
    ctx.cov["scripts_run"] = len(recs)
    ctx.cov["scripts_fully_steered"] = len(st)
    why = {}
    for r in recs:
        if not r["steered"]:
            k = (r.get("why") or "?").split(":")[0]
            k = " ".join(k.split(" ")[2:]) if k.startswith("step ") else k
            why[k] = why.get(k, 0) + 1
    ctx.cov["unsteered_reasons"] = why
    return st


def mutate_check(ctx, recs, cfg, rng):
    """binding self-test (guide rule 4): corrupting one recorded field of an accepted trace must make TLC
    reject it. Raises Infra otherwise."""
    cands = [r for r in recs if r["steered"] and any(e["ev"] == "ExchangeEnd" and e["r"] == "reply" for e in r["trace"])]
    if not cands:
        return
    r = rng.choice(cands)
    t = copy.deepcopy(r["trace"])
    for e in t:
        if e["ev"] == "ExchangeEnd" and e["r"] == "reply":
            e["rc"] = e["rc"] + 1  # the reply now names another caller's send
            break
    t2 = copy.deepcopy(r["trace"])
    for e in t2:
        if e["ev"] == "ConnWrite":
            e["wid"] = (e["wid"] + 7) % 65536
            break
    acc, rej = vlib.validate_traces(ctx, "PipeConn_Trace", cfg, [t, t2], label="corrupted-trace self-test")
    ctx.cov["traces_validated_against_impl"] -= acc
    if len(rej) != 2:
        raise vlib.Infra("binding self-test failed: a corrupted trace was accepted by PipeConn_Trace")
    ctx.cov["corrupted_traces_rejected"] = 2


def replay(ctx, cfg):
    """--replay <file>: re-run the saved script on the current tree (several times) and re-validate."""
    d = json.load(open(ctx.replay))["replay"]
    sc = d["script"]
    n = 24 if not sc.get("random") else 6
    scripts = []
    for i in range(n):
        s = copy.deepcopy(sc)
        if s.get("random") is None:
            s.pop("random", None)
        s["name"] = "replay%d" % i
        scripts.append(s)
    recs = run_scripts(ctx, scripts, driver=d.get("driver", "drv_pipeconn"))
    ctx.cov["evaluations"] = len(recs)
    rej = validate(ctx, recs, cfg, "replay")
    report(ctx, recs, rej, confirm=False)
    ctx.sample(recs[0]["trace"])
