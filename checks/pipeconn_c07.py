"""Extra coverage for C07 on pkg/upstream/transport/conn_traditional.go (TraditionalDnsConn): which read deadline is
armed while a query is owed an answer, and that a silent server ends every call after the short waiting-reply timeout.
spec/PipeConnArm.tla (+ _Trace), harness/simnet (every SetReadDeadline is a held rendezvous, virtual time),
harness/drv_pipeconn (arm mode).  run_extra(ctx) is meant to be called from checks/C07.py; stand-alone: X_pipec07."""
import copy
import json
import random
import vlib
from vlib import log
import pipeconn_common as pc

SPEC = "PipeConnArm"
TRACE_CFG = "PipeConnArm_Trace.cfg"


def S(a, **kw):
    d = {"a": a}
    d.update(kw)
    return d


def start(c):
    return [S("Reserve", c=c, o="ok"), S("Start", c=c), S("Write", c=c)]


def scenario(kind, name):
    """hand-written orders (same step vocabulary as the TLC schedules); what is right is decided by the trace spec"""
    if kind == "late-unmatched-reply-then-silence":      # seeded C07-1
        st = [S("SrdI")] + start(0) + [S("ArmWaiting", c=0), S("SrdW"), S("Cancel", c=0), S("Return", c=0),
                                       S("ReadMsg", c=0, g=0, n=0), S("Dispatch"), S("SrdI"), S("SrdW")]
        st += start(1) + [S("ArmWaiting", c=1), S("SrdW"), S("Advance"), S("Return", c=1)]
    elif kind == "idle-rearm-delayed-past-waiting-arm":  # D11: arm-idle held, write, arm-wait, (write, no arm), arm-idle
        st = start(0) + [S("ArmWaiting", c=0), S("SrdW")] + start(1) + [S("ArmWaiting", c=1), S("SrdW"),
                                                                         S("SrdI"), S("SrdW"), S("Advance"),
                                                                         S("Return", c=0), S("Return", c=1)]
    elif kind == "idle-rearm-delayed-after-early-reply":  # D11, second shape: the flag stays set after an early reply
        st = [S("SrdI")] + start(0) + [S("ReadMsg", c=0, g=0, n=0), S("Dispatch"), S("ArmWaiting", c=0), S("SrdW"),
                                       S("SrdI"), S("SrdW"), S("Return", c=0)]
        st += start(1) + [S("ArmWaiting", c=1), S("SrdW"), S("Advance"), S("Return", c=1)]
    elif kind == "answered-then-silence":                 # control: nothing owed, idle deadline: calls may stay parked
        st = [S("SrdI")] + start(0) + [S("ArmWaiting", c=0), S("SrdW")] + start(1) + [S("ArmWaiting", c=1), S("SrdW"),
                                       S("ReadMsg", c=0, g=0, n=0), S("Dispatch"), S("SrdI"), S("SrdW"), S("Return", c=0),
                                       S("Advance"), S("Cancel", c=1), S("Return", c=1)]
    else:
        raise ValueError(kind)
    return {"name": name, "maxCq": 8, "dgram": False, "qid0": 0, "idpolicy": "random", "steps": st, "probe": False,
            "arm": True, "grace_ms": 1500, "kind": kind}


def script_of_beh(beh, name):
    st = []
    for s in beh["steps"]:
        a = s["a"]
        if a == "Start":
            st += start(s["c"])
        elif a == "WriteRet":
            st.append(S("ArmWaiting", c=s["c"]))
        elif a in ("SrdW", "SrdI", "Dispatch"):
            st.append(S(a))
        elif a == "ReadMsg":
            st.append(S("ReadMsg", c=s["c"], g=s["g"], n=0))
        elif a == "Cancel":
            st.append(S("Cancel", c=s["c"]))
        elif a == "Return":
            st.append(S("Return", c=s["c"]))
        elif a == "Timeout":
            st.append(S("Advance"))
    return {"name": name, "maxCq": 8, "dgram": False, "qid0": 0, "idpolicy": "random", "steps": st, "probe": False,
            "arm": True, "grace_ms": 1500, "kind": "tlc"}


def to_trace(events):
    out, seen = [], set()
    for e in events or []:
        ev = e["ev"]
        if ev == "reset":
            out.append({"ev": "reset"})
            seen = set()
        elif ev == "ConnWrite" and not e.get("dead") and e.get("c", -1) >= 0:
            if (e["c"], e["g"]) not in seen:
                seen.add((e["c"], e["g"]))
                out.append({"ev": "Start", "c": e["c"], "g": e["g"]})
        elif ev == "WriteRet" and e.get("ok"):
            out.append({"ev": "WriteRet", "c": e["c"]})
        elif ev == "SetReadDeadlineRet" and e.get("ok") and e.get("kind") in ("idle", "waiting"):
            out.append({"ev": "Srd", "kind": e["kind"]})
        elif ev == "ConnRead" and not e.get("dead"):
            out.append({"ev": "ConnRead"})
        elif ev == "Deliver" and e.get("c", -1) >= 0:
            out.append({"ev": "Deliver", "c": e["c"], "g": e["g"]})
        elif ev == "Cancel":
            out.append({"ev": "Cancel", "c": e["c"]})
        elif ev == "ExchangeEnd":
            out.append({"ev": "ExchangeEnd", "c": e["c"], "g": e["g"], "r": "reply" if e["r"] == "reply" else "err"})
        elif ev == "Advance":
            out.append({"ev": "Advance"})
        elif ev == "ReadTimeout":
            out.append({"ev": "Timeout", "kind": e.get("kind") or "none"})
        elif ev == "Stuck":
            out.append({"ev": "Stuck", "c": e["c"]})
    return out


def classify(trace, info):
    """labelling only: names the history shape TLC could not explain"""
    ev = info.get("event") or {}
    line = info.get("line_in_trace") or len(trace)
    pre = trace[:line]
    kind = ev.get("ev")
    armed, owed = "none", False
    for e in pre:
        if e["ev"] == "Srd":
            armed = e["kind"]
        elif e["ev"] == "Start":
            owed = True
        elif e["ev"] == "Deliver":
            owed = False
    if kind in ("Advance", "ConnRead", "Srd", "WriteRet", "Start", "Deliver") or (
            kind in ("ExchangeEnd", "Cancel", "Stuck") and owed and armed != "waiting"
            and not any(e["ev"] == "Timeout" for e in pre)):
        ended, unmatched = set(), False
        last_w = last_i = -1
        for i, e in enumerate(pre):
            if e["ev"] == "ExchangeEnd":
                ended.add((e["c"], e["g"]))
            if e["ev"] == "Deliver" and (e["c"], e["g"]) in ended:
                unmatched = True
            if e["ev"] == "Srd":
                if e["kind"] == "waiting":
                    last_w = i
                else:
                    last_i = i
        delivered_since = any(e["ev"] == "Deliver" for e in pre[max(last_w, 0):]) if last_w >= 0 else False
        if last_w >= 0 and last_i > last_w and not delivered_since:
            return "idle-deadline-while-answer-owed:idle-rearm-overwrites-waiting-deadline"
        if unmatched:
            return "idle-deadline-while-answer-owed:waiting-deadline-not-armed-after-unmatched-reply"
        return "idle-deadline-while-answer-owed:waiting-deadline-not-armed"
    if kind == "Stuck":
        return "call-does-not-end-after-connection-timeout"
    if kind == "ExchangeEnd":
        return "unexplained-result:%s" % ev.get("r")
    if kind == "Timeout":
        return "unexpected-timeout:%s" % ev.get("kind")
    return "%s-unexplained" % kind


def run_scripts(ctx, scripts):
    recs = pc.run_scripts(ctx, scripts)
    for r in recs:
        r["trace"] = to_trace(r["events"])
    return recs


def validate_report(ctx, recs, label):
    acc, rej = vlib.validate_traces(ctx, "PipeConnArm_Trace", TRACE_CFG, [r["trace"] for r in recs], max_reject=6, label=label)
    by_sig = {}
    for idx, info in rej:
        by_sig.setdefault(classify(recs[idx]["trace"], info), []).append((idx, info))
    for r in recs:
        if r.get("panic"):
            by_sig.setdefault("panic", []).append((r["idx"], {"event": r["panic"]}))
    for sig, lst in by_sig.items():
        idx, info = lst[0]
        r = recs[idx]
        ctx.violation(sig, "real trace of TraditionalDnsConn is not a behaviour of PipeConnArm.tla satisfying ArmedIsShortWhenOwed "
                           "(%d traces; first: %s rejected at event %s: %s)" % (
                               len(lst), r["name"], info.get("line_in_trace"), json.dumps(info.get("event"))),
                      {"script": r["script"], "trace": r["trace"], "driver": "drv_pipeconn", "mode": "arm"})
    return rej


def replay(ctx):
    d = json.load(open(ctx.replay))["replay"]
    scripts = []
    for i in range(6):
        s = copy.deepcopy(d["script"])
        s["name"] = "replay%d" % i
        scripts.append(s)
    recs = run_scripts(ctx, scripts)
    ctx.cov["evaluations"] = ctx.cov.get("evaluations", 0) + len(recs)
    validate_report(ctx, recs, "C07 conn_traditional replay")
    ctx.sample(recs[0]["trace"])


def is_mine(replay_obj):
    return replay_obj.get("mode") == "arm"


def run_extra(ctx):
    if ctx.replay:
        return replay(ctx)
    T = ctx.thorough()
    rng = random.Random(ctx.seed)
    ctx.assumptions += [
        "conn_traditional/C07: 'owed' = a query was written after the last message the reader has taken note of; then, once "
        "every caller is past its arming decision and the reader is inside Read, the armed read deadline must be the short "
        "waiting-reply one (kinds are classified by their distance from now: 5-20 s waiting, >= 100 s idle; the harness uses "
        "IdleTimeout 300 s); the case 'server answered another query and then went silent' is not claimed",
        "conn_traditional/C07: time is virtual (simnet.Conn.Advance(30 s) fires exactly an armed deadline <= 30 s); before "
        "time advances the driver waits until nothing has moved on the connection for 1 s of real time; who arms which "
        "deadline is not prescribed (the trace spec follows the SetReadDeadline calls)",
    ]
    # ---- leg A
    vlib.tlc_mc(ctx, SPEC, "PipeConnArm_design.cfg", label="PipeConnArm design (reader re-checks waitingResp after its idle re-arm): "
                "ArmedIsShortWhenOwed + SilenceEnds + CloseEndsCalls", workers=4)
    nv = []
    for cfg, want in (("PipeConnArm_dev_d11.cfg", "ArmedIsShortWhenOwed"), ("PipeConnArm_dev_c071.cfg", "ArmedIsShortWhenOwed"),
                      ("PipeConnArm_dev_live.cfg", "SilenceEnds")):
        r = vlib.run_tlc(ctx, SPEC, cfg, expect_violation=True, workers=2, timeout=300)
        if want not in str(r["violated"]):
            raise vlib.Infra("non-vacuity run %s: expected %s to fail, got %r" % (cfg, want, r["violated"]))
        nv.append("%s fails under %s" % (want, cfg))
    ctx.cov.setdefault("non_vacuity_extra", {})["pipeconn_arm"] = nv

    # ---- leg B
    behs = vlib.tlc_behaviours(ctx, SPEC, "PipeConnArm_gen.cfg", simulate=600 if T else 120, depth=120,
                               label="generator: 2 callers x 2 calls, orders of the arming sites / late replies / silence")
    scripts = [script_of_beh(b, "b%d" % i) for i, b in enumerate(behs)]
    for k in range(4 if T else 2):
        for kind in ("late-unmatched-reply-then-silence", "idle-rearm-delayed-past-waiting-arm",
                     "idle-rearm-delayed-after-early-reply", "answered-then-silence"):
            scripts.append(scenario(kind, "%s.%d" % (kind, k)))
    log("conn_traditional/C07: %d scripts (%d TLC schedules + hand-written orders)" % (len(scripts), len(behs)))
    recs = run_scripts(ctx, scripts)
    nb = len(behs)
    # (validated separately so that every hand-written history surfaces with its own signature)
    rej = validate_report(ctx, recs[nb:], "C07 conn_traditional (deadline arming, hand-written orders)")
    rej = [(i + nb, info) for i, info in rej] + validate_report(ctx, recs[:nb], "C07 conn_traditional (deadline arming, TLC schedules)")
    st = [r for r in recs if r["steered"]]
    ctx.cov["pipeconn_arm_scripts"] = len(recs)
    ctx.cov["pipeconn_arm_steered"] = len(st)
    if not rej and len(st) < len(recs) // 3:
        raise vlib.Infra("conn_traditional/C07: dead driver: %d of %d steered; e.g. %s" % (
            len(st), len(recs), [r.get("why") for r in recs if not r["steered"]][:3]))
    if not rej:   # binding self-test: a corrupted field must be rejected
        good = [r for r in recs if r["steered"] and any(e["ev"] == "Timeout" for e in r["trace"])]
        if good:
            t = copy.deepcopy(good[0]["trace"])
            for e in t:
                if e["ev"] == "Srd" and e["kind"] == "waiting":
                    e["kind"] = "idle"
            acc, rej2 = vlib.validate_traces(ctx, "PipeConnArm_Trace", TRACE_CFG, [t], label="corrupted-trace self-test")
            ctx.cov["traces_validated_against_impl"] -= acc
            if not rej2:
                raise vlib.Infra("binding self-test failed: a trace with every waiting arm turned into idle was accepted")
    for r in [recs[i] for i, _ in rej[:1]] + recs[-4:-3]:
        ctx.sample({"name": r["name"], "steered": r["steered"], "trace": r["trace"][:60]})
    return recs
