"""C14 — forward returns the first good answer among the queried upstreams.
spec/Forward.tla (+ Forward_Trace.tla), harness/drv_forward (in-memory upstreams through the verif-only
constructor fastforward.NewForwardWithUpstreams)."""
import copy
import json
import random
import re
import vlib
from vlib import log

FULL = '{"good", "nx", "bad", "error", "garbage", "never"}'

# (SPECIFICATION, Bug, kind, name): the named invariant/property must fail
NONVAC = [
    ("Spec", "first_any", "INVARIANTS", "NoMasking"),
    ("Spec", "first_any", "INVARIANTS", "LastDecides"),
    ("Spec", "wait_all", "INVARIANTS", "FirstGoodWins"),
    ("Spec", "no_clamp", "INVARIANTS", "AskedSet"),
    ("Spec", "not_cyclic", "INVARIANTS", "AskedSet"),
    ("Spec", "ctx_anytime", "INVARIANTS", "ResultSound"),
    ("FairCode", "ignore_ctx", "PROPERTIES", "CtxBounds"),
    ("FairAll", "no_done", "PROPERTIES", "WorkersQuit"),
]


def cfg_with(name, consts, spec=None, check=None):
    txt = open(vlib.VERIF + "/spec/" + name).read()
    for k, v in consts.items():
        txt, n = re.subn(r"(?m)^  %s (=|<-) .*$" % k, "  %s %s" % (k, v), txt)
        if n != 1:
            raise vlib.Infra("cfg template %s has no constant %s" % (name, k))
    if spec:
        txt = re.sub(r"(?m)^SPECIFICATION .*$", "SPECIFICATION " + spec, txt)
    if check:
        txt = re.sub(r"(?m)^(INVARIANTS|PROPERTIES) .*\n", "", txt)
        txt = txt.replace("CHECK_DEADLOCK", "%s %s\nCHECK_DEADLOCK" % check)
    return txt


def tlc_expect_temporal(ctx, spec, cfg_name, cfg_text, prop, name):
    """Non-vacuity run for a liveness property.  This TLC build reports 'Temporal property P was violated', which
    vlib.run_tlc (shared, not mine to edit) does not recognise; so this helper runs TLC itself."""
    import os
    import subprocess
    d = vlib._spec_scratch(ctx, name)
    with open(os.path.join(d, cfg_name), "w") as f:
        f.write(cfg_text)
    cmd = ["java", "-XX:+UseParallelGC", "-Xmx4g", "-cp", vlib.TLA_CP, "tlc2.TLC", "-metadir", os.path.join(d, "meta"),
           "-workers", "2", "-config", cfg_name, "-seed", str(ctx.seed), spec + ".tla"]
    try:
        p = subprocess.run(cmd, cwd=d, stdout=subprocess.PIPE, stderr=subprocess.STDOUT, timeout=300, text=True, errors="replace")
    except subprocess.TimeoutExpired:
        raise vlib.Infra("non-vacuity run for %s timed out" % prop)
    return bool(re.search(r"Temporal propert(y %s was|ies were) violated" % re.escape(prop), p.stdout)), p.stdout


def signature(ev, events):
    """names the failing history shape: the rejected event and what had been released before it"""
    if not ev:
        return "trace-rejected:?"
    rel = {e["cid"]: e["o"] for e in events if e["ev"] == "Release"}
    before = []
    for e in events:
        if e is ev:
            break
        if e["ev"] == "Release":
            before.append(e["o"])
    k = ev["ev"]
    if k == "Return":
        return "Return:%s%s:after=%s" % (ev["k"], ("[" + rel.get(ev["cid"], "?") + "]") if ev["k"] == "reply" else "",
                                         "+".join(before) or "nothing")
    if k == "Asked":
        after = any(e["ev"] == "Return" for e in events[:events.index(ev)]) if ev in events else False
        if not ev["same"]:
            return "Asked:query-bytes-differ:after-return=%s" % after
        if not ev["ddl"]:
            return "Asked:no-5s-deadline"
        return "Asked:position-or-count:after-return=%s" % after
    if k == "Release":
        return "Release:%s:intact=%s" % (ev["o"], ev["intact"])
    if k == "UpCtxDone":
        return "UpCtxDone:exchange-context-ended-early:returned=%s:after=%s" % (
            any(e["ev"] == "Return" for e in events[:events.index(ev)]) if ev in events else "?", "+".join(before) or "nothing")
    if k == "End":
        return "End:alive=%s" % (ev["alive"] if ev["alive"] == 0 else ">0")
    if k == "Quiet":
        return "Quiet:call-still-running:after=%s:cancelled=%s" % ("+".join(before) or "nothing",
                                                                  any(e["ev"] == "Cancel" for e in events))
    return "%s:unexplained" % k


def judge(ctx, recs):
    for r in recs:
        if r["hang"]:
            ctx.violation("call-does-not-return", "forward.Exec did not return although every exchange had ended / "
                          "the context was cancelled (%s)" % r["conf"], r)
    traces = [r["events"] for r in recs]
    acc, rej = vlib.validate_traces(ctx, "Forward_Trace", "Forward_Trace.cfg", traces)
    for idx, info in rej:
        r = recs[idx]
        ev = info.get("event")
        # identity, not equality: find the rejected event object inside this trace
        line = info.get("line_in_trace")
        evobj = r["events"][line - 1] if line and 0 < line <= len(r["events"]) else ev
        ctx.violation(signature(evobj, r["events"]),
                      "real run is not a behaviour of Forward.tla satisfying C14 (%s; rejected at event %s: %s)" % (
                          r["conf"], line, ev), r)
    return rej


def replay(ctx):
    d = json.load(open(ctx.replay))["replay"]
    binary = vlib.go_build(ctx, "drv_forward")
    if d.get("kind") == "replay" and d.get("beh"):
        job = {"behaviours": [d["beh"]] * 5, "random": 0}
    else:
        job = {"behaviours": [], "random": 400, "real_never": 2 if d.get("kind") == "never" else 0,
               "early": 400 if str(d.get("kind")).startswith("early") else 0,
               "multi": 120 if d.get("kind") == "multi" else 0}
    recs, _ = vlib.run_driver(ctx, binary, stdin_obj=job)
    ctx.cov["evaluations"] = len(recs)
    judge(ctx, recs)


def run(ctx):
    if ctx.replay:
        return replay(ctx)
    T = ctx.thorough()
    rng = random.Random(ctx.seed)
    ctx.assumptions += [
        "U is the list after tag selection; tags are distinct (the same tag given twice is not exercised)",
        "harness upstreams honour the context they are given; that context may end before the scripted release only after the "
        "call has returned or after the 5 s upstream timeout (4.9..6.5 s after the exchange started)",
        "the query is compared byte-for-byte with dns.Msg.Pack() of the query in the context",
        "a silent upstream honours the context it is given (quick tier: it is released once the call has returned; "
        "thorough tier: some runs wait for the worker's real 5 s timeout)",
        "helper goroutines ended = runtime.NumGoroutine() is back at its value before the call within 3 s (7 s with a silent upstream)",
        "the schedule point forward.collected only makes arrival orders reproducible; without it Collect is a silent step",
        "pool.ReleaseBuf is wrapped by the harness to overwrite released buffers (0xA5): whatever an upstream is handed, "
        "whenever its worker starts (also after the call returned), must be the packed query",
    ]

    # ---- leg A
    vlib.tlc_mc(ctx, "Forward", "Forward_design.cfg",
                label="design: C14 invariants + CtxBounds, |U| 1..3 x c in {-1,0,1,2,3,5} x all outcomes/orders/cancel points",
                timeout=1200)
    vlib.tlc_mc(ctx, "Forward", "Forward_live.cfg", label="design: call and helper goroutines terminate (exchanges end)", timeout=1200)
    nv = []
    for spec, bug, kind, name in NONVAC:
        txt = cfg_with("Forward_nonvac.cfg", {"Bug": '= "%s"' % bug}, spec, (kind, name))
        if kind == "INVARIANTS":
            res = vlib.run_tlc(ctx, "Forward", "Forward_nonvac.cfg", name="nonvac-%s-%s" % (bug, name), workers=2, timeout=300,
                               expect_violation=True, cfg_text=txt)
            ok, got = res["violated"] == name, res["violated"]
        else:
            ok, out = tlc_expect_temporal(ctx, "Forward", "Forward_nonvac.cfg", txt, name, "nonvac-%s-%s" % (bug, name))
            got = out[-600:]
        if not ok:
            raise vlib.Infra("non-vacuity: expected %s to fail with Bug=%s, got %r" % (name, bug, got))
        nv.append("%s fails with Bug=%s" % (name, bug))
    ctx.cov["non_vacuity"] = nv

    # ---- leg B generators
    g1 = vlib.tlc_behaviours(ctx, "Forward", "Forward_gen.cfg", name="gen-config",
                             cfg_text=cfg_with("Forward_gen.cfg", {"Ns": "= {1, 2, 3}", "Cs": "<- CsFull", "EnvCancel": "= FALSE",
                                                                  "Outcomes": '= {"good", "bad", "error"}'}),
                             label="generator: all |U| x c, outcomes good/bad/error, all release orders")
    g2 = vlib.tlc_behaviours(ctx, "Forward", "Forward_gen.cfg", name="gen-23",
                             label="generator: |U|=2 c=3, all six outcomes, all release orders and cancel points")
    g3 = vlib.tlc_behaviours(ctx, "Forward", "Forward_gen.cfg", name="gen-32",
                             cfg_text=cfg_with("Forward_gen.cfg", {"Ns": "= {3}", "Cs": "= {2}"}),
                             label="generator: |U|=3 c=2, all six outcomes, all release orders and cancel points")
    n_all = len(g1) + len(g2) + len(g3)
    if not T:
        for g, lim in ((g1, 700), (g2, 900), (g3, 400)):
            rng.shuffle(g)
            del g[lim:]
    behs = g1 + g2 + g3
    log("replaying %d of %d generated schedules" % (len(behs), n_all))

    binary = vlib.go_build(ctx, "drv_forward")
    job = {"behaviours": behs, "random": 4000 if T else 400, "real_never": 14 if T else 0, "early": 3000 if T else 400,
           "multi": 600 if T else 120}
    recs, _ = vlib.run_driver(ctx, binary, stdin_obj=job, timeout=1500)
    want = len(behs) + job["random"] + job["real_never"] + job["early"]
    n_multi = sum(1 for r in recs if r["kind"] == "multi")
    ctx.cov["multi_exec_runs"] = n_multi
    ctx.cov["early_return_runs"] = sum(1 for r in recs if r["kind"].startswith("early"))
    ctx.cov["exchanges_started_after_return"] = sum(
        1 for r in recs for i, e in enumerate(r["events"])
        if e["ev"] == "Asked" and any(x["ev"] == "Return" for x in r["events"][:i]))

    steered = [r for r in recs if r["kind"] == "replay" and r["steered"]]
    mism = [r for r in steered if r["expected"]["k"] != r["result"]["k"] or
            (r["expected"]["k"] == "reply" and r["expected"]["w"] != r["result"]["w"])]
    ctx.cov["evaluations"] = len(recs)
    ctx.cov["steered_replays"] = len(steered)
    ctx.cov["replay_result_mismatches"] = len(mism)
    ctx.cov["has_schedule_point"] = any(e["ev"] == "Collected" for r in recs[:50] for e in r["events"])
    ctx.cov["distinct_nontrivial"] = len({json.dumps(r["beh"], sort_keys=True) for r in steered
                                          if sum(1 for s in r["beh"]["steps"] if s["a"] == "Finish") >= 2})
    ctx.cov["rule"] = ("evaluation = one call of forward.Exec against in-memory upstreams (TLC-generated schedule forced through "
                       "gates, or unsteered random run) recorded and validated by TLC against Forward_Trace.tla; distinct_nontrivial = "
                       "distinct fully steered schedules with >= 2 scripted upstream outcomes")
    ctx.cov["exhaustive"] = bool(T)

    # ---- leg C (before any dead-driver decision: guide §3 rule 9)
    rej = judge(ctx, recs)

    if not rej and not ctx.violations:
        good = [r["events"] for r in steered if r["result"]["k"] == "reply" and
                sum(1 for e in r["events"] if e["ev"] == "Release" and e["o"] in ("bad", "error")) >= 1 and
                sum(1 for e in r["events"] if e["ev"] == "Asked") >= 2]
        if good:
            t = good[0]
            t1 = copy.deepcopy(t)
            for e in t1:
                if e["ev"] == "Return":
                    e["k"] = "failed"
            t2 = copy.deepcopy(t)
            for e in t2:
                if e["ev"] == "Asked":
                    e["pos"] = e["pos"] + 7
                    break
            t3 = copy.deepcopy(t)
            for e in t3:
                if e["ev"] == "Asked":
                    e["same"] = False
                    break
            t4 = copy.deepcopy(t)
            t4[-1]["alive"] = 1
            vlib.assert_rejects(ctx, "Forward_Trace", "Forward_Trace.cfg", [t1, t2, t3, t4],
                                "Return reply->failed; asked position changed; query bytes flagged different; one goroutine left")
    if not ctx.violations and not ctx.known_hits:
        if len(recs) - n_multi != want or n_multi < 3 * job["multi"]:
            raise vlib.Infra("driver returned %d (+%d multi-exec) results for %d jobs" % (len(recs) - n_multi, n_multi, want))
        if len(steered) < len(behs) // 2:
            raise vlib.Infra("dead driver: only %d of %d schedules could be steered; first reasons: %s" % (
                len(steered), len(behs), [r.get("why") for r in recs if r["kind"] == "replay" and not r["steered"]][:5]))
    for r in (mism[:1] + steered[:2] + [x for x in recs if x["kind"] != "replay"][:2]):
        ctx.sample({"kind": r["kind"], "conf": r["conf"], "expected": r.get("expected"), "result": r["result"], "events": r["events"]})
    if mism and not rej:
        log("note: %d steered replays returned another result than the schedule's (select picks among ready cases); "
            "their traces are behaviours of the spec — not a violation" % len(mism))
