"""Extra coverage (attached to C18): pkg/upstream/bootstrap — spec/Bootstrap.tla (+_Trace), harness/drv_bootstrap."""
import copy
import random
import vlib
from vlib import log


def run_extra(ctx):
    T = ctx.thorough()
    ctx.assumptions += [
        "bootstrap: abstract time = 'more than one 2 s retry interval has certainly passed' (Tick, the driver sleeps 2.3 s) / "
        "'may have passed' (MaybeTick, inserted when > 1.5 s elapsed since the failing reply was sent); the 5 min minimum update "
        "interval and the 5 s query timeout are not waited for; an update the spec expects but the code starts later is tolerated "
        "(only a query the spec forbids, a wrong address/port, or a caller that never returns is a violation)",
    ]
    vlib.tlc_mc(ctx, "Bootstrap", "Bootstrap_design.cfg", label="Bootstrap design: invariants + CallEnds", workers=4, coverage=True)
    nv = vlib.run_tlc(ctx, "Bootstrap", "Bootstrap_nonvac.cfg", expect_violation=True, workers=1)
    if nv["violated"] != "NoEarlyRetry":
        raise vlib.Infra("Bootstrap non-vacuity: expected NoEarlyRetry to fail, got %r" % nv["violated"])
    rng = random.Random(ctx.seed)
    behs = vlib.tlc_behaviours(ctx, "Bootstrap", "Bootstrap_gen.cfg", simulate=6000 if T else 1500, depth=14)
    nt = lambda b: sum(1 for s in b["steps"] if s["a"] == "Tick")
    behs = [b for b in behs if nt(b) <= 2 and any(s["a"] in ("UpdateOk", "UpdateFail") for s in b["steps"])]
    rng.shuffle(behs)
    behs.sort(key=lambda b: -int(any(s["a"] == "UpdateFail" for s in b["steps"])))
    behs = behs[:(600 if T else 96)]
    binary = vlib.go_build(ctx, "drv_bootstrap")
    job = {"behaviours": behs, "random": 400 if T else 64, "workers": 16, "max_ticks": 2}
    recs, _ = vlib.run_driver(ctx, binary, stdin_obj=job, timeout=1500)
    if len(recs) != len(behs) + job["random"]:
        raise vlib.Infra("drv_bootstrap returned %d results for %d jobs" % (len(recs), len(behs) + job["random"]))
    acc, rej = vlib.validate_traces(ctx, "Bootstrap_Trace", "Bootstrap_Trace.cfg", [r["events"] for r in recs])
    for idx, info in rej:
        r = recs[idx]
        ev = info.get("event") or {}
        sig = "bootstrap:rejected-at:%s" % ev.get("ev")
        if ev.get("ev") == "Return":
            sig += ":res=%s:port_ok=%s" % (ev.get("res"), ev.get("port_ok"))
        ctx.violation(sig, "real trace is not a behaviour of Bootstrap.tla (rejected at event %s: %s)" % (
            info.get("line_in_trace"), ev), r)
    steered = [r for r in recs if r["kind"] == "replay" and r["steered"]]
    ctx.cov["evaluations"] += len(recs)
    ctx.cov["distinct_nontrivial"] += len({vlib.json.dumps(r["beh"], sort_keys=True) for r in steered
                                            if any(s["a"] == "UpdateFail" for s in r["beh"]["steps"])})
    ctx.cov.setdefault("extra", {})["bootstrap"] = {"replayed": len(behs), "steered": len(steered), "random": job["random"],
                                                    "accepted": acc, "rejected": len(rej)}
    if not rej:
        good = [r["events"] for r in recs if any(e["ev"] == "Return" and e["res"] in (1, 2, 3) for e in r["events"])]
        if good:
            t1 = copy.deepcopy(good[0])
            for e in t1:
                if e["ev"] == "Return" and e["res"] in (1, 2, 3):
                    e["res"] = e["res"] % 3 + 1
                    break
            t2 = copy.deepcopy(good[0])
            for e in t2:
                if e["ev"] == "Return":
                    e["port_ok"] = False
                    break
            vlib.assert_rejects(ctx, "Bootstrap_Trace", "Bootstrap_Trace.cfg", [t1, t2], "returned address changed; port_ok=false")
    if not ctx.violations and len(steered) < len(behs) // 3:
        raise vlib.Infra("drv_bootstrap: only %d of %d behaviours steered: %s" % (
            len(steered), len(behs), [r.get("why") for r in recs if not r["steered"]][:3]))
    for r in steered[:1]:
        ctx.sample({"bootstrap_trace": r["events"]})


def run(ctx):
    ctx.cov["rule"] = "bootstrap schedules from Bootstrap.tla replayed + random runs; nontrivial = contains a failed lookup"
    run_extra(ctx)
