"""C11 — the cache store is safe, exact and bounded under concurrency.
spec/CacheStore.tla (+ CacheStore_Trace.tla), harness/drv_cachestore (built with -race).

leg A  three exhaustive design configs + one non-vacuity run per invariant
leg B  TLC-generated sequential op sequences (exact reading) replayed into cache.Cache /
       concurrent_map / ShardedLRU: every result compared with the generator's, and the recorded
       run validated against CacheStore_Trace with Exact = TRUE
leg C  seeded random concurrent histories (2..4 goroutines, 12 colliding keys, <= 40 ops) and the
       capacity runs (Len sampled while many more keys than the capacity are stored) validated
       against CacheStore_Trace (TLC searches for a linearization); the race detector validates
       the premise that every action is atomic under its lock ("none of these operations race")
"""
import concurrent.futures
import copy
import json
import os
import random
import re
import subprocess
import time

import vlib
from vlib import log

TRACE, TRACE_CFG, EXACT_CFG = "CacheStore_Trace", "CacheStore_Trace.cfg", "CacheStore_TraceExact.cfg"
NONVAC = [("noevict", "Bounded"), ("stale", "NoStaleAfterOverwriteOrFlush"), ("foreign", "NoForeignValue"),
          ("expired", "NoExpiredValue"), ("rangestale", "RangeSound"), ("lenover", "LenBounded")]
CACHE_SIZES = [-3, 0, 1, 10, 63, 64, 100, 1000, 1024, 1100]           # histories
CAP_SIZES = [-5, 0, 1, 10, 63, 64, 65, 100, 1000, 1023, 1024, 1025, 1100, 2049, 2061]  # capacity runs (pkg/cache)
CHURN_SIZES = {0, 10, 1024, 1025, 1100, 2049}   # + refresh/insert churn in full shards (1025, 2049: slack 1 above 64*k)
NKEYS = 12


# ----------------------------------------------------------------------------------------------
# driver invocation (own runner: exit code 66 = race reports, crashes must be classified)
def run_drv(ctx, binary, job, halt=False, timeout=900):
    env = vlib.go_env()
    env["VERIF_SEED"] = str(ctx.seed)
    env["VERIF_TIER"] = ctx.tier
    env["GORACE"] = "halt_on_error=%d exitcode=66" % (1 if halt else 0)
    try:
        p = subprocess.run([binary], input=json.dumps(job), stdout=subprocess.PIPE, stderr=subprocess.PIPE,
                           text=True, timeout=timeout, env=env, cwd=ctx.work)
    except subprocess.TimeoutExpired:
        raise vlib.Infra("drv_cachestore timed out after %ds" % timeout)
    recs = []
    lines = p.stdout.splitlines()
    for i, line in enumerate(lines):
        if line.startswith("{"):
            try:
                recs.append(json.loads(line))
            except Exception:
                if p.returncode not in (0, 66) and i == len(lines) - 1:
                    break   # the driver died while writing: the last line is cut; the caller classifies the death
                raise vlib.Infra("driver emitted unparsable line: " + line[:300])
    return recs, p.stderr, p.returncode


_FRAME = re.compile(r"^  (?! )(.*mosdns/v5/(?:pkg|plugin)/.*)\(\)\s*$")


def _short(fn):
    """github.com/…/pkg/concurrent_map.(*shard[go.shape…]).flush -> concurrent_map.shard.flush"""
    fn = re.sub(r"\[.*\]", "", fn)
    fn = fn.split("mosdns/v5/")[-1]
    fn = fn.split("/")[-1]
    return fn.replace("(*", "").replace(")", "")


def race_reports(stderr):
    """-> list of (signature, text).  A report is a verdict only if BOTH racing accesses are in
    mosdns code (first mosdns frame of each of the two access stacks)."""
    out, harness_only = [], []
    for rep in re.split(r"(?m)^={18}\n", stderr):
        if "WARNING: DATA RACE" not in rep:
            continue
        stacks = re.split(r"(?m)^(?:Previous )?(?:[Rr]ead|[Ww]rite|Atomic [a-z]+) at 0x[0-9a-f]+ by .*:\n", rep)[1:3]
        tops = []
        for st in stacks:
            st = st.split("\n\n")[0]
            top = None
            for line in st.splitlines():
                m = _FRAME.match(line)
                if m:
                    top = _short(m.group(1))
                    break
            tops.append(top)
        if len(tops) == 2 and all(tops):
            out.append(("race:" + "|".join(sorted(tops)), rep.strip()[:6000]))
        else:
            harness_only.append(rep.strip()[:3000])
    return out, harness_only


def classify_death(ctx, stderr, rc, job_desc):
    """The driver died (rc not 0/66).  A Go runtime crash inside the store is real-code behaviour."""
    m = re.search(r"fatal error: (concurrent map [a-z ]+)", stderr)
    if m:
        ctx.violation("crash:" + m.group(1).replace(" ", "-"),
                      "the Go runtime aborted the process: %s" % m.group(1),
                      {"kind": "race", "stderr": stderr[-6000:], "job": job_desc})
        return True
    m = re.search(r"^panic: (.*)$", stderr, re.M)
    if m and re.search(r"mosdns/v5/pkg/(cache|concurrent_map|concurrent_lru|lru|list)", stderr):
        ctx.violation("crash:panic", "panic inside the store: %s" % m.group(1)[:200],
                      {"kind": "race", "stderr": stderr[-6000:], "job": job_desc})
        return True
    return False


# ----------------------------------------------------------------------------------------------
def op_at(events, line_in_trace):
    """operation the rejected line belongs to"""
    if not line_in_trace or line_in_trace > len(events):
        return "end"
    e = events[line_in_trace - 1]
    if e["ev"] == "Call":
        return e["op"]
    if e["ev"] == "Ret":
        for x in reversed(events[:line_in_trace - 1]):
            if x["ev"] == "Call" and x["t"] == e["t"]:
                return x["op"]
    return e["ev"]


def overlap_stats(events):
    """(#ops, #pairs of overlapping ops of different threads touching the same key / whole-store ops)"""
    open_, pairs, nops = {}, 0, 0
    for e in events:
        if e["ev"] == "Call":
            nops += 1
            for t, o in open_.items():
                if o["op"] == "get" and e["op"] == "get":
                    continue
                if o["op"] in ("flush", "range", "len") or e["op"] in ("flush", "range", "len") or o["k"] == e["k"]:
                    pairs += 1
            open_[e["t"]] = e
        elif e["ev"] == "Ret":
            open_.pop(e["t"], None)
    return nops, pairs


def hist_jobs(rng, n):
    jobs = []
    for i in range(n):
        x = rng.random()
        if x < 0.5:
            target, size = "cache", rng.choice(CACHE_SIZES)
        elif x < 0.8:
            target, size = "map", rng.choice([64, 128, 128, 192, 1024, 0])
        else:
            target, size = "lru", rng.choice([3, 3, 4])
        th = rng.choice([2, 3, 4, 4])
        jobs.append({"id": i, "target": target, "size": size, "threads": th, "nops": rng.choice([24, 32, 40]),
                     "seed": rng.randrange(1 << 40), "expiry": target == "cache" and rng.random() < 0.6})
    return jobs


def cap_jobs():
    jobs = []
    for s in CAP_SIZES:
        j = {"target": "cache", "size": s, "stores": 2 * max(s, 1024) + 1500, "threads": 4}
        if s in CHURN_SIZES:
            # after the fill: 6 goroutines x 20 000 stores into 4 full shards, keys from a pool of per-shard share + 3
            j.update({"threads": 6, "churn": 20000, "churn_shards": 4, "per_shard": max(s, 1024) // 64})
        jobs.append(j)
    for s in (64, 100, 128, 1100):
        jobs.append({"target": "map", "size": s, "stores": 2 * s + 1500, "threads": 4})
    jobs.append({"target": "map", "size": 1024, "stores": 3500, "threads": 6, "churn": 20000, "churn_shards": 4, "per_shard": 16})
    for s in (2, 5):
        jobs.append({"target": "lru", "size": s, "stores": 1500, "threads": 4})
    for i, j in enumerate(jobs):
        j["id"] = i
    return jobs


def seq_jobs(rng, behs):
    """concretize TLC behaviours: abstract keys 1..3 -> three of the 12 colliding keys; target by need"""
    jobs = []
    for i, b in enumerate(behs):
        steps = b["steps"]
        needs_time = any(s["op"] == "tick" or s["e"] in ("short", "past") for s in steps)
        has_del = any(s["op"] == "del" for s in steps)
        if needs_time and has_del:
            continue  # no target offers both Del and expiry
        if needs_time:
            target, size = "cache", rng.choice(CACHE_SIZES)
        elif has_del:
            target, size = rng.choice([("map", 1024), ("map", 0), ("map", 2048), ("lru", 16)])
        else:
            target, size = rng.choice([("cache", rng.choice(CACHE_SIZES)), ("map", 1024), ("lru", 16)])
        km = dict(zip((1, 2, 3), rng.sample(range(1, NKEYS + 1), 3)))
        jobs.append({"id": len(jobs), "target": target, "size": size, "beh": i, "kmap": km,
                     "steps": [{"op": s["op"], "k": km.get(s["k"], 0), "e": s["e"]} for s in steps]})
    return jobs


def compare_seq(beh, job, rec):
    """direct comparison of every observed result with the generator's (deterministic part only).
    -> (steered, first mismatch or None)"""
    inv = {v: k for k, v in job["kmap"].items()}
    timed = any(x["op"] == "tick" or x["e"] == "short" for x in beh["steps"])
    ticked = False
    for s, o in zip(beh["steps"], rec["obs"]):
        if s["op"] == "tick":
            ticked = True
        elif timed and o["ph"] != (2 if ticked else 0):
            # the machine was too slow to stay in the intended phase: no direct comparison for this
            # replay; the exact trace validation (measured phases) still decides
            return False, None
    ticked, short_before_tick = False, False
    for s, o in zip(beh["steps"], rec["obs"]):
        if s["op"] == "tick":
            ticked = True
            continue
        if s["op"] == "store" and s["e"] == "short" and not ticked:
            short_before_tick = True
        ambiguous = ticked and short_before_tick   # expired entries may or may not have been swept
        if s["op"] == "get" and o["res"] != s["res"]:
            return True, {"step": s, "observed": o}
        if s["op"] == "len" and not ambiguous and o["res"] != s["res"]:
            return True, {"step": s, "observed": o}
        if s["op"] == "range" and not ambiguous:
            got = sorted((inv.get(k, -k), v) for k, v in o["rng"])
            if got != sorted((k, v) for k, v in s["rng"]):
                return True, {"step": s, "observed": o}
    return True, None


def compare_lru(ctx, behs, recs):
    """extra coverage: pkg/lru replays; every answer / callback list / final order must equal the spec's"""
    bad = 0
    for r in recs:
        b = behs[r["id"]]
        first = None
        for i, st in enumerate(b["steps"]):
            want_ev = [[e["k"], e["v"]] for e in st["ev"]]
            if r["outs"][i] != st["out"] or r["evs"][i] != want_ev:
                first = (st["op"], "step %d %s(k=%s,S=%s): the specification requires answer %s and evictions %s, the code "
                         "answered %s and evicted %s" % (i + 1, st["op"], st["k"], st["s"], st["out"], want_ev,
                                                         r["outs"][i], r["evs"][i]))
                break
        want_final = [[e["k"], e["v"]] for e in b["final"]]
        if first is None and r["final"] != want_final:
            first = ("order", "final order (oldest first) should be %s, is %s" % (want_final, r["final"]))
        if first:
            bad += 1
            ctx.violation("lru:%s" % first[0], "pkg/lru, max=%d: %s" % (b["max"], first[1]),
                          {"kind": "lru", "job": r["job"], "beh": b})
    return bad


# ----------------------------------------------------------------------------------------------
class _Part:
    """private evidence counters + scratch dir for one partition of a parallel leg-C run"""
    def __init__(self, ctx, i):
        self.work = os.path.join(ctx.work, "part%d" % i)
        os.makedirs(self.work, exist_ok=True)
        self.cov = {"states": 0, "transitions": 0, "traces_validated_against_impl": 0}
        self.seed, self.tier = ctx.seed, ctx.tier


def validate_traces_parallel(ctx, cfg, traces, label, parts=4, max_reject=4):
    """vlib.validate_traces over `parts` partitions at once (one single-worker TLC each)"""
    n = len(traces)
    parts = max(1, min(parts, n // 40 + 1))
    bounds = [(i * n // parts, (i + 1) * n // parts) for i in range(parts)]
    shims = [_Part(ctx, i) for i in range(parts)]
    with concurrent.futures.ThreadPoolExecutor(max_workers=parts) as ex:
        futs = [ex.submit(vlib.validate_traces, shims[i], TRACE, cfg, traces[a:b], label="%s [part %d]" % (label, i),
                          max_reject=max_reject, chunk=15000) for i, (a, b) in enumerate(bounds)]
        acc, rej = 0, []
        for i, f in enumerate(futs):
            a_, r_ = f.result()
            acc += a_
            rej += [(bounds[i][0] + idx, info) for idx, info in r_]
    for sh in shims:
        for k, v in sh.cov.items():
            ctx.cov[k] = ctx.cov.get(k, 0) + v
    log("leg C %s: %d traces accepted, %d rejected (%d partitions)" % (label, acc, len(rej), parts))
    return acc, rej[:max_reject]


def validate(ctx, kind, recs, cfg, label):
    """leg C over the records of one kind; -> rejected indices"""
    traces = [r["events"] for r in recs]
    for t in traces:
        if t[0]["ev"] != "Reset" or (kind != "cap" and t[0]["capmode"] == "exact" and t[0]["size"] < NKEYS):
            raise vlib.Infra("harness bug: trace does not start with a Reset of capacity >= %d: %s" % (NKEYS, t[0]))
    acc, rej = validate_traces_parallel(ctx, cfg, traces, label)
    for idx, info in rej:
        r = recs[idx]
        j = r["job"]
        if kind == "cap":
            sig = "capacity:%s:size=%d" % (j["target"], j["size"])
            what = ("Len() = %s exceeds the capacity the documentation promises for size %d" %
                    (r.get("max_len"), j["size"]))
        else:
            o = op_at(r["events"], info.get("line_in_trace"))
            sig = "%s:%s:%s" % ("history" if kind == "hist" else "sequential", j["target"], o)
            what = ("recorded %s run on %s(size=%d) is not a behaviour of CacheStore.tla satisfying C11 "
                    "(no linearization; rejected at line %s: %s)" % (
                        "concurrent" if kind == "hist" else "sequential", j["target"], j["size"],
                        info.get("line_in_trace"), info.get("event")))
        ctx.violation(sig, what, {"kind": kind, "job": j, "events": r["events"], "rejected_line": info.get("line_in_trace")})
    return rej


def report_races(ctx, stderr, job_desc):
    reps, harness_only = race_reports(stderr)
    seen = ctx.__dict__.setdefault("_c11_races_seen", set())
    for sig, text in reps:
        if sig in seen:
            continue
        seen.add(sig)
        ctx.violation(sig, "the Go race detector reports unsynchronised memory accesses between %s" % sig[5:].replace("|", " and "),
                      {"kind": "race", "report": text, "job": job_desc})
    return len(reps), harness_only


def binding_selfcheck(ctx, hist_recs):
    """corrupt one recorded field of accepted histories: they must be rejected"""
    bad = []
    for r in hist_recs:
        ev = r["events"]
        stores = [e for e in ev if e["ev"] == "Call" and e["op"] == "store"]
        hits = [i for i, e in enumerate(ev) if e["ev"] == "Call" and e["op"] == "get" and e["res"] > 0]
        if not hits or len(stores) < 2:
            continue
        i = hits[len(hits) // 2]
        other = [s for s in stores if s["k"] != ev[i]["k"]]
        if not other:
            continue
        t = copy.deepcopy(ev)
        t[i]["res"] = other[0]["v"]          # a value stored under another key
        bad.append(t)
        t = copy.deepcopy(ev)
        t[i]["res"] = 9999                   # a value nobody stored
        bad.append(t)
        t = copy.deepcopy(ev)
        lens = [e for e in t if e["ev"] == "Call" and e["op"] == "len"]
        if lens and ev[0]["capmode"] == "min":
            lens[0]["res"] = 1025            # above Cap(size)
            bad.append(t)
        break
    if not bad:
        raise vlib.Infra("binding self-check: no accepted history with a lookup hit")
    vlib.assert_rejects(ctx, TRACE, TRACE_CFG, bad, "lookup result replaced by a foreign / never stored value; Len above Cap")


# ----------------------------------------------------------------------------------------------
def replay(ctx):
    d = json.load(open(ctx.replay))["replay"]
    binary = vlib.go_build(ctx, "drv_cachestore", race=True)
    kind = d["kind"]
    if kind == "race":
        recs, stderr, rc = run_drv(ctx, binary, {"hammer": {"iters": 150}})
        if rc not in (0, 66) and not classify_death(ctx, stderr, rc, "hammer"):
            raise vlib.Infra("driver exited %d:\n%s" % (rc, stderr[-3000:]))
        n, _ = report_races(ctx, stderr, "hammer")
        ctx.cov["evaluations"] = 150 * 6 * 5
        return
    j = d["job"]
    if kind == "lru":
        recs, stderr, rc = run_drv(ctx, binary, {"lru": [dict(j, id=0)]})
        if rc not in (0, 66) and not classify_death(ctx, stderr, rc, j):
            raise vlib.Infra("driver exited %d:\n%s" % (rc, stderr[-3000:]))
        compare_lru(ctx, [d["beh"]], [r for r in recs if r["kind"] == "lru"])
        ctx.cov["evaluations"] = len(j["steps"])
        return
    if kind == "hist":
        jobs = [dict(j, id=i, seed=j["seed"] + i) for i in range(40)]
        recs, stderr, rc = run_drv(ctx, binary, {"hist": jobs, "workers": 4})
    elif kind == "seq":
        recs, stderr, rc = run_drv(ctx, binary, {"seq": [dict(j, id=i) for i in range(5)]})
    else:
        recs, stderr, rc = run_drv(ctx, binary, {"cap": [dict(j, id=0)]})
    if rc not in (0, 66) and not classify_death(ctx, stderr, rc, j):
        raise vlib.Infra("driver exited %d:\n%s" % (rc, stderr[-3000:]))
    recs = [r for r in recs if r["kind"] == kind]
    ctx.cov["evaluations"] = len(recs)
    validate(ctx, kind, recs, EXACT_CFG if kind == "seq" else TRACE_CFG, "replay")
    report_races(ctx, stderr, j)
    if recs:
        ctx.sample(recs[0]["events"][:12])


def run(ctx):
    if ctx.replay:
        return replay(ctx)
    T = ctx.thorough()
    rng = random.Random(ctx.seed)
    ctx.assumptions += [
        "the Go race detector (trusted tool) validates, for the observed runs only, the premise of the trace "
        "spec that each internal action is atomic under its shard lock; TLC cannot see Go's memory model",
        "a lookup may always answer 'nothing' (eviction, background gc and delete-on-expired-read only remove "
        "entries); exactness (no loss below capacity, complete Len/Range) is asserted on sequential runs only",
        "capacity contract: pkg/cache.New 'The minimum size is 1024.' / cache plugin 'If size is < 1024, 1024 "
        "will be used.' => Cap(size) = max(size,1024), 1024 for size <= 0; concurrent_map.NewMapCache: "
        "64*(size/64), unlimited for size <= 0; ShardedLRU: shards*maxSizePerShard",
        "expiry phases are measured per call with the monotonic clock (returned before T-delta = surely live, "
        "invoked after T+delta = surely expired); calls touching the delta band assert nothing",
        "Range/Flush/Len are not atomic across shards in the code; the spec lets them act key by key between "
        "call and return, Len only promises 0..Cap",
    ]
    # ---- leg A (parallel TLC runs) ------------------------------------------------------------
    nv_cfg = open(os.path.join(vlib.VERIF, "spec", "CacheStore_nonvac.cfg")).read()
    design = ["CacheStore_design_rw.cfg", "CacheStore_design_exp.cfg", "CacheStore_design_misc.cfg"]
    with concurrent.futures.ThreadPoolExecutor(max_workers=5) as ex:
        futs = []
        for cfg in design:
            txt = open(os.path.join(vlib.VERIF, "spec", cfg)).read()
            if T and cfg.endswith("_rw.cfg"):
                txt = txt.replace("MaxOps = 4", "MaxOps = 5")
            futs.append(("A", cfg, ex.submit(vlib.run_tlc, ctx, "CacheStore", cfg, workers=3, cfg_text=txt, timeout=900)))
        for dev, inv in NONVAC:
            futs.append(("N", (dev, inv), ex.submit(
                vlib.run_tlc, ctx, "CacheStore", "CacheStore_nonvac_%s.cfg" % dev, workers=1, expect_violation=True,
                cfg_text=nv_cfg.replace("@DEV@", dev).replace("@INV@", inv))))
        # leg B generators, the LRU extra and the driver build run alongside leg A
        gen = open(os.path.join(vlib.VERIF, "spec", "CacheStore_gen.cfg")).read()
        # two flavours: with time (expiry classes, tick; no Del: pkg/cache has none) and with Del (no expiry:
        # concurrent_map / LRU have none)
        gen_time = gen.replace('"get", "store", "del", "len"', '"get", "store", "len"')
        gen_del = gen.replace('Exps = {"long", "short", "past"}', 'Exps = {"long"}')
        if gen_time == gen or gen_del == gen:
            raise vlib.Infra("CacheStore_gen.cfg no longer matches the substitutions of checks/C11.py")
        f_time = ex.submit(vlib.tlc_behaviours, ctx, "CacheStore", "CacheStore_gen_time.cfg", simulate=2000 if T else 260,
                           depth=70, cfg_text=gen_time)
        f_del = ex.submit(vlib.tlc_behaviours, ctx, "CacheStore", "CacheStore_gen_del.cfg", simulate=1000 if T else 140,
                          depth=70, cfg_text=gen_del)
        f_lrud = ex.submit(vlib.tlc_mc, ctx, "LRU", "LRU_design.cfg", workers=2,
                           label="extra: LRU.tla exhaustive (3 keys, max 1..2, 5 calls)")
        f_lrug = ex.submit(vlib.tlc_behaviours, ctx, "LRU", "LRU_gen.cfg", simulate=600 if T else 100, depth=20)
        f_build = ex.submit(vlib.go_build, ctx, "drv_cachestore", race=True)
        nonvac = []
        for kind, what, f in futs:
            res = f.result()
            if kind == "A":
                ctx.add_model_run(res, "design " + what)
                log("leg A CacheStore/%s: %d distinct / %d generated states, %.1fs" % (
                    what, res["distinct"], res["generated"], res["wall_s"]))
            else:
                if res["violated"] != what[1]:
                    raise vlib.Infra("non-vacuity: deviation %s should violate %s, TLC says %r" % (what[0], what[1], res["violated"]))
                nonvac.append("%s violated under Dev=%s" % (what[1], what[0]))
        behs = f_time.result() + f_del.result()
        f_lrud.result()
        lbehs = f_lrug.result()
        binary = f_build.result()
    ctx.cov["non_vacuity"] = nonvac
    if T:
        vlib.tlc_mc(ctx, "CacheStore", "CacheStore_design_all.cfg", coverage=True, workers=6, timeout=1200,
                    label="design, every operation type + expiry classes, with -coverage (vacuity)")
        vlib.tlc_mc(ctx, "CacheStore", "CacheStore_design_sim.cfg", simulate=5000, depth=80, workers=4, timeout=1200,
                    label="design, simulation: 3 threads x 3 calls, 3 keys, capacity 2, sizes {0,1,3}")
    log("leg A non-vacuity: %d deviations each violate their invariant" % len(nonvac))

    # ---- leg B concretization ------------------------------------------------------------------
    sjobs = seq_jobs(rng, behs)
    # extra coverage: pkg/lru against spec/LRU.tla
    ljobs = [{"id": i, "max": b["max"],
              "steps": [{"op": st["op"], "k": st["k"], "v": st["v"], "s": st["s"]} for st in b["steps"]]}
             for i, b in enumerate(lbehs)]

    # ---- driver -------------------------------------------------------------------------------
    hjobs = hist_jobs(rng, 12000 if T else 400)
    cjobs = cap_jobs()
    t0 = time.time()
    # one history (<= 4 goroutines) per 4 available CPUs, so that the goroutines of a history really run in parallel
    ncpu = len(os.sched_getaffinity(0)) if hasattr(os, "sched_getaffinity") else 4
    recs, stderr, rc = run_drv(ctx, binary, {"hist": hjobs, "seq": sjobs, "cap": cjobs, "lru": ljobs, "workers": max(1, min(4, ncpu // 4))},
                               timeout=1500)
    log("driver: %d histories, %d sequential replays, %d capacity runs in %.1fs (exit %d)" % (
        len(hjobs), len(sjobs), len(cjobs), time.time() - t0, rc))
    died = rc not in (0, 66)
    if died:
        classify_death(ctx, stderr, rc, "hist+seq+cap")
    hist = sorted([r for r in recs if r["kind"] == "hist"], key=lambda r: r["id"])
    seq = sorted([r for r in recs if r["kind"] == "seq"], key=lambda r: r["id"])
    capr = sorted([r for r in recs if r["kind"] == "cap"], key=lambda r: r["id"])
    lrur = sorted([r for r in recs if r["kind"] == "lru"], key=lambda r: r["id"])
    n_race, harness_only = report_races(ctx, stderr, "hist+seq+cap")

    # hammer (unrecorded) in its own process; stop at the first report (reports are slow), then
    # collect the distinct reports with a short run
    t0 = time.time()
    hrecs, hstderr, hrc = run_drv(ctx, binary, {"hammer": {"iters": 6000 if T else 1500}}, halt=True)
    if hrc == 66:  # a race: reports are slow, collect the distinct ones with a short run
        hrecs, hstderr, hrc = run_drv(ctx, binary, {"hammer": {"iters": 120}})
    if hrc not in (0, 66):
        if not classify_death(ctx, hstderr, hrc, "hammer"):
            raise vlib.Infra("hammer run exited %d:\n%s" % (hrc, hstderr[-3000:]))
    n2, h2 = report_races(ctx, hstderr, "hammer")
    log("hammer: exit %d, %d race report(s), %.1fs" % (hrc, n2, time.time() - t0))
    n_race += n2
    harness_only += h2
    ctx.cov["race_reports"] = n_race

    # ---- leg B comparison ---------------------------------------------------------------------
    steered = mism = 0
    for r in seq:
        j = sjobs[r["id"]]
        ok, bad = compare_seq(behs[j["beh"]], j, r)
        steered += 1 if ok else 0
        if bad:
            mism += 1
            ctx.violation("sequential:%s:%s" % (j["target"], bad["step"]["op"]),
                          "sequential replay on %s(size=%d), step %s(key %s): the specification requires %s, the code answered %s" % (
                              j["target"], j["size"], bad["step"]["op"], bad["observed"]["k"],
                              bad["step"]["rng"] if bad["step"]["op"] == "range" else bad["step"]["res"],
                              bad["observed"]["rng"] if bad["step"]["op"] == "range" else bad["observed"]["res"]),
                          {"kind": "seq", "job": {k: j[k] for k in ("target", "size", "steps")}, "events": r["events"]})
    lru_bad = compare_lru(ctx, lbehs, lrur)
    ctx.cov["extra_lru"] = {"behaviours_replayed": len(lrur), "steps_compared": sum(len(r["outs"]) for r in lrur),
                            "mismatches": lru_bad,
                            "what": "pkg/lru vs spec/LRU.tla: every answer, onEvict callback sequence and the final order"}
    ctx.cov["sequential_replays"] = len(seq)
    ctx.cov["sequential_replays_in_phase"] = steered
    ctx.cov["sequential_result_mismatches"] = mism

    # ---- leg C --------------------------------------------------------------------------------
    rej_h = validate(ctx, "hist", hist, TRACE_CFG, "concurrent histories")
    rej_s = validate(ctx, "seq", seq, EXACT_CFG, "sequential replays (exact)")
    rej_c = validate(ctx, "cap", capr, TRACE_CFG, "capacity runs")

    # ---- coverage -----------------------------------------------------------------------------
    nops = sum(overlap_stats(r["events"])[0] for r in hist)
    contended = [r for r in hist if overlap_stats(r["events"])[1] >= 2]
    phases = {0: 0, 1: 0, 2: 0}
    hits = 0
    for r in hist:
        for e in r["events"]:
            if e["ev"] == "Call":
                phases[e["ph"]] += 1
                hits += 1 if e["op"] == "get" and e["res"] > 0 else 0
    ctx.cov["evaluations"] = nops + sum(len(r["obs"]) for r in seq) + sum(r["samples"] for r in capr)
    ctx.cov["distinct_nontrivial"] = len(contended) + steered
    ctx.cov["rule"] = ("evaluations = recorded operations (concurrent histories + sequential replays) + Len samples of the "
                       "capacity runs; distinct_nontrivial = seeded concurrent histories with >= 2 real-time-overlapping "
                       "pairs of operations that conflict (same key with a writer, or a whole-store op) + sequential TLC "
                       "behaviours replayed in their intended expiry phases")
    ctx.cov["exhaustive"] = False
    ctx.cov["histories"] = len(hist)
    ctx.cov["history_ops"] = nops
    ctx.cov["lookup_hits"] = hits
    ctx.cov["ops_by_phase"] = phases
    ctx.cov["capacity_runs"] = [{"target": r["job"]["target"], "size": r["job"]["size"], "max_len": r["max_len"],
                                 "stored": r["job"]["stores"], "len_samples": r["samples"]} for r in capr]
    for r in (contended[:2] + seq[:1]):
        ctx.sample({"job": {k: v for k, v in r["job"].items() if k != "steps"}, "events": r["events"][:16]})

    # ---- binding self-check + infrastructure checks LAST (guide rule 9) ------------------------
    if not ctx.violations and not ctx.known_hits:
        good = [r for i, r in enumerate(hist) if i not in {x[0] for x in rej_h}]
        binding_selfcheck(ctx, good)
        if harness_only:
            raise vlib.Infra("race report without mosdns frames on both sides (harness race?):\n" + harness_only[0])
        if died:
            raise vlib.Infra("driver exited %d:\n%s" % (rc, stderr[-3000:]))
        if len(hist) != len(hjobs) or len(seq) != len(sjobs) or len(capr) != len(cjobs) or len(lrur) != len(ljobs):
            raise vlib.Infra("driver returned %d/%d/%d records for %d/%d/%d jobs" % (
                len(hist), len(seq), len(capr), len(hjobs), len(sjobs), len(cjobs)))
        if len(contended) < len(hist) // 40:
            raise vlib.Infra("dead driver: only %d of %d histories have overlapping conflicting operations" % (
                len(contended), len(hist)))
        if hits < nops // 50:
            raise vlib.Infra("dead driver: only %d lookup hits in %d operations" % (hits, nops))
        if steered < len(seq) // 2:
            raise vlib.Infra("dead driver: only %d of %d sequential replays stayed in their phases" % (steered, len(seq)))
