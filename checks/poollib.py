"""Shared machinery of the transport-pool family (C08, C07, pool_extra): spec/ReuseConn.tla,
spec/LazyPipeline.tla (+ *_Trace.tla), harness/drv_pool.

A *script* is a list of steps in the vocabulary of the specs' history variable (environment actions are
performed by the driver, boundary events of the code are awaited).  Scripts come from TLC behaviours
(generator configs) and from a few hand-written concretizations of TLC counterexamples / of the kill
scripts named by the properties.  Every recorded run is validated by TLC against the trace spec; hangs,
goroutine leaks and unclosed connections are observed directly by the driver.
"""
import copy
import json
import os
import random

import vlib
from vlib import log

SPEC = {"reuse": ("ReuseConn", "ReuseConn_Trace", "ReuseConn_Trace.cfg"),
        "pipeline": ("LazyPipeline", "LazyPipeline_Trace", "LazyPipeline_Trace.cfg")}

MAXCALLS = 5      # call ids 1..5 in scripts, 6 = the driver's call after Close
MAXDIALS = 6


# ---------------------------------------------------------------------------
# scripts from TLC behaviours

def beh_to_script(mode, b, name, step_wait_ms=0):
    steps = []
    for st in b["steps"]:
        # Start(c) directly followed by Cancel(c): the call enters the transport with a context that has already ended
        if st["a"] == "Cancel" and steps and steps[-1]["a"] == "Start" and steps[-1]["c"] == st["c"]:
            steps[-1] = dict(steps[-1], precancel=True)
            continue
        steps.append(st)
    sc = {"name": name, "steps": steps, "expected": b.get("res"), "origin": "tlc"}
    if step_wait_ms:
        sc["step_wait_ms"] = step_wait_ms
    return sc


def gen_behaviours(ctx, mode, cfg, n, depth, overrides=None, label=None):
    spec = SPEC[mode][0]
    txt = open(os.path.join(vlib.VERIF, "spec", cfg)).read()
    for k, v in (overrides or {}).items():
        lines = []
        for ln in txt.splitlines():
            if ln.strip().startswith(k + " ="):
                ln = "  %s = %s" % (k, v)
            lines.append(ln)
        txt = "\n".join(lines) + "\n"
    return vlib.tlc_behaviours(ctx, spec, cfg, simulate=n, depth=depth, cfg_text=txt, label=label)


def interesting(b):
    acts = {s["a"] for s in b["steps"]}
    return bool(acts & {"Kill", "Cancel", "TClose"}) or any(
        s["a"] in ("DialRet", "WriteRet") and s.get("ok") is False for s in b["steps"]) or any(
        s["a"] == "ReadRet" and s.get("k") != "reply" for s in b["steps"]) or any(
        s["a"] == "ExchRet" and s.get("r") != "ok" for s in b["steps"])


# ---------------------------------------------------------------------------
# hand-written concretizations (reuse)

def _fresh_ok(c, d):
    """call c on a fresh connection d, answered"""
    return [{"a": "Start", "c": c}, {"a": "Dial", "d": d}, {"a": "DialRet", "d": d, "ok": True},
            {"a": "WriteReq", "x": d, "c": c}, {"a": "WriteRet", "x": d, "c": c, "ok": True},
            {"a": "ReadRet", "x": d, "k": "reply", "c": c}, {"a": "Return", "c": c}]


def _idle_conns(k):
    """k idle pooled connections 1..k (k concurrent calls 1..k, each on its own fresh connection)"""
    st = []
    for i in range(1, k + 1):
        st += [{"a": "Start", "c": i}, {"a": "Dial", "d": i}]
    for i in range(1, k + 1):
        st += [{"a": "DialRet", "d": i, "ok": True}, {"a": "WriteReq", "x": i, "c": i},
               {"a": "WriteRet", "x": i, "c": i, "ok": True}, {"a": "ReadRet", "x": i, "k": "reply", "c": i},
               {"a": "Return", "c": i}]
    return st


def reuse_scenarios(T):
    """Kill scripts of C08's quantifier on the reuse transport.  The driver does not know which pooled
    connection the code picks, so the stale-pool scripts only prepare the pool and kill *every* pooled
    connection in the same way; the drain policy of the driver then answers on fresh connections."""
    out = []
    # k silently dead idle connections; the next query c=5 must be retried (k=1: must succeed)
    for k in (1, 2, 3, 4):
        for how in ("write_ok_then_eof", "reset_on_write", "silence"):
            st = _idle_conns(k)
            st += [{"a": "Start", "c": 5}, {"a": "StalePool", "k": k, "how": how, "c": 5}]
            out.append({"name": "stale%d-%s" % (k, how), "steps": st, "origin": "scenario", "err_how": "eof"})
    # killed right after a reply: the reply is in the caller's channel, then the peer closes (D2 window)
    for hold in (True, False):
        st = [{"a": "Start", "c": 1}, {"a": "Dial", "d": 1}, {"a": "DialRet", "d": 1, "ok": True},
              {"a": "WriteReq", "x": 1, "c": 1}]
        if not hold:
            st += [{"a": "WriteRet", "x": 1, "c": 1, "ok": True}]
        st += [{"a": "ReadRet", "x": 1, "k": "reply", "c": 1}, {"a": "ReadRet", "x": 1, "k": "err"},
               {"a": "CloseReq", "x": 1}]
        if hold:
            st += [{"a": "WriteRet", "x": 1, "c": 1, "ok": True}]
        st += [{"a": "Return", "c": 1}]
        out.append({"name": "reply-then-close-%s" % ("write-held" if hold else "parked"), "steps": st,
                    "repeat": (200 if T else 24) if hold else 4, "origin": "scenario", "err_how": "eof"})
    # same on a reused connection (the second query of a stream)
    st = _fresh_ok(1, 1) + [{"a": "Start", "c": 2}, {"a": "WriteReq", "x": 1, "c": 2},
                            {"a": "ReadRet", "x": 1, "k": "reply", "c": 2}, {"a": "ReadRet", "x": 1, "k": "err"},
                            {"a": "CloseReq", "x": 1}, {"a": "WriteRet", "x": 1, "c": 2, "ok": True},
                            {"a": "Return", "c": 2}]
    out.append({"name": "reply-then-close-reused", "steps": st, "repeat": (100 if T else 16), "origin": "scenario",
                "err_how": "eof"})
    return out


def reuse_cancel_scenarios(T):
    """Cancellation of a query that was written and is still unanswered, and what the connection may be used
    for afterwards (reuse parts of C09 / C01 / C02 / C07).  Returned by name."""
    wr = lambda x, c: [{"a": "WriteReq", "x": x, "c": c}, {"a": "WriteRet", "x": x, "c": c, "ok": True}]
    a_written = [{"a": "Start", "c": 1}, {"a": "Dial", "d": 1}, {"a": "DialRet", "d": 1, "ok": True}] + wr(1, 1)
    out = {}
    # C09: A written, cancelled before the reply; B starts before A's late reply: the connection still owes a
    # reply, B must get another connection (never 2 unanswered queries on one connection)
    out["cancel-then-next-before-late-reply"] = {
        "origin": "scenario",
        "steps": a_written + [{"a": "Cancel", "c": 1}, {"a": "Return", "c": 1}, {"a": "Start", "c": 2}, {"a": "Dial", "d": 2},
                              {"a": "DialRet", "d": 2, "ok": True}] + wr(2, 2) + [
            {"a": "ReadRet", "x": 2, "k": "reply", "c": 2}, {"a": "Return", "c": 2},
            {"a": "ReadRet", "x": 1, "k": "reply", "c": 1}]}
    # C01: the late reply to the cancelled query arrives, the connection goes back to the pool, the next query
    # reuses it and must get ITS reply
    out["late-reply-then-reuse"] = {
        "origin": "scenario",
        "steps": a_written + [{"a": "Cancel", "c": 1}, {"a": "Return", "c": 1}, {"a": "ReadRet", "x": 1, "k": "reply", "c": 1},
                              {"a": "Sleep", "ms": 5}, {"a": "Start", "c": 2}] + wr(1, 2) + [
            {"a": "ReadRet", "x": 1, "k": "reply", "c": 2}, {"a": "Return", "c": 2},
            {"a": "Start", "c": 3}] + wr(1, 3) + [{"a": "ReadRet", "x": 1, "k": "reply", "c": 3}, {"a": "Return", "c": 3}]}
    # C02: A's reply arrives while A is still inside Write; the connection goes idle and is reused by B; A is
    # cancelled and its select may pick ctx.Done (Go decides: repeated); B's reply then arrives in time
    out["early-reply-reuse-then-cancel"] = {
        "origin": "scenario", "repeat": 100 if T else 16,
        "steps": [{"a": "Start", "c": 1}, {"a": "Dial", "d": 1}, {"a": "DialRet", "d": 1, "ok": True},
                  {"a": "WriteReq", "x": 1, "c": 1}, {"a": "ReadRet", "x": 1, "k": "reply", "c": 1}, {"a": "Sleep", "ms": 2},
                  {"a": "Start", "c": 2}] + wr(1, 2) + [
            {"a": "Cancel", "c": 1}, {"a": "WriteRet", "x": 1, "c": 1, "ok": True}, {"a": "Return", "c": 1},
            {"a": "ReadRet", "x": 1, "k": "reply", "c": 2}, {"a": "Return", "c": 2}]}
    # C07: readLoop's SetReadDeadline(idle) is held; a connection must not be usable by the next exchange before
    # that call has returned (else the idle deadline overwrites the 6 s query deadline); then silence
    out["idle-deadline-held"] = {
        "origin": "scenario", "repeat": 2,
        "steps": a_written + [{"a": "HoldSRD", "n": 1}, {"a": "ReadRet", "x": 1, "k": "reply", "c": 1}, {"a": "AwaitHeldSRD"},
                              {"a": "Sleep", "ms": 20}, {"a": "Start", "c": 2}, {"a": "Dial", "d": 2},
                              {"a": "DialRet", "d": 2, "ok": True}] + wr(2, 2) + [
            {"a": "ReleaseSRD"}, {"a": "Return", "c": 1},
            {"a": "ReadRet", "x": 2, "k": "timeout", "armed": "query"}]}
    for k, v in out.items():
        v["name"] = k
    return out


def reuse_lifecycle_scenarios(T):
    out = []
    # transport Close racing a connection failure (TLC counterexample of ReuseConn_nv_lock.cfg): Close holds
    # t.m inside Close() of one connection while the reader of another connection fails
    st = _idle_conns(2) + [{"a": "HoldClose", "n": 1}, {"a": "TClose"}, {"a": "AwaitHeldClose"},
                           {"a": "FailOtherReads"}, {"a": "Sleep", "ms": 120}, {"a": "ReleaseHeld"},
                           {"a": "TCloseRet"}]
    out.append({"name": "close-vs-read-failure", "steps": st, "repeat": 3, "origin": "scenario"})
    # same with a caller's write error instead of the reader
    st = _idle_conns(2) + [{"a": "Start", "c": 3}, {"a": "HoldClose", "n": 1}, {"a": "TClose"},
                           {"a": "AwaitHeldClose"}, {"a": "FailOtherReads"}, {"a": "Sleep", "ms": 120},
                           {"a": "ReleaseHeld"}, {"a": "TCloseRet"}]
    out.append({"name": "close-vs-read-failure-with-call", "steps": st, "repeat": 2, "origin": "scenario"})
    # hanging dial: ends with the (real-time) dial timeout; the caller gets an error
    out.append({"name": "dial-hang-timeout", "dial_timeout_ms": 300, "origin": "scenario",
                "steps": [{"a": "Start", "c": 1}, {"a": "Dial", "d": 1}, {"a": "DialHang", "d": 1}, {"a": "Return", "c": 1}]})
    # hanging dial + cancel: the caller returns at once, the dial is abandoned; when it succeeds later the
    # connection goes to the pool and serves the next call
    out.append({"name": "dial-hang-cancel-then-pool", "origin": "scenario",
                "steps": [{"a": "Start", "c": 1}, {"a": "Dial", "d": 1}, {"a": "Cancel", "c": 1}, {"a": "Return", "c": 1},
                          {"a": "DialRet", "d": 1, "ok": True}, {"a": "Sleep", "ms": 30}, {"a": "Start", "c": 2},
                          {"a": "WriteReq", "x": 1, "c": 2}, {"a": "WriteRet", "x": 1, "c": 2, "ok": True},
                          {"a": "ReadRet", "x": 1, "k": "reply", "c": 2}, {"a": "Return", "c": 2}]})
    # hanging dial + transport Close
    out.append({"name": "dial-hang-close", "origin": "scenario",
                "steps": [{"a": "Start", "c": 1}, {"a": "Dial", "d": 1}, {"a": "TClose"}, {"a": "TCloseRet"},
                          {"a": "Return", "c": 1}]})
    # a dial that returns a connection although the transport has been closed meanwhile (the dial function ignores the
    # cancellation): the connection must be closed, never registered
    out.append({"name": "dial-succeeds-after-close", "origin": "scenario", "dial_ignores_ctx": True, "repeat": 2,
                "steps": [{"a": "Start", "c": 1}, {"a": "Dial", "d": 1}, {"a": "TClose"}, {"a": "TCloseRet"},
                          {"a": "Return", "c": 1}, {"a": "DialRet", "d": 1, "ok": True}, {"a": "CloseReq", "x": 1}]})
    # a dial that completes while Close() is still busy closing another connection (t.m held, transport context not
    # yet cancelled): the new connection must not outlive Close
    out.append({"name": "dial-completes-inside-close", "origin": "scenario", "repeat": 2,
                "steps": [{"a": "Start", "c": 1}, {"a": "Dial", "d": 1}, {"a": "DialRet", "d": 1, "ok": True},
                          {"a": "WriteReq", "x": 1, "c": 1}, {"a": "WriteRet", "x": 1, "c": 1, "ok": True},
                          {"a": "Start", "c": 2}, {"a": "Dial", "d": 2}, {"a": "HoldClose", "n": 1}, {"a": "TClose"},
                          {"a": "AwaitHeldClose"}, {"a": "DialRet", "d": 2, "ok": True}, {"a": "Sleep", "ms": 50},
                          {"a": "ReleaseHeld"}, {"a": "TCloseRet"}, {"a": "CloseReq", "x": 2}]})
    # silence with an unbounded context: only the armed 6 s deadline (virtual) ends the call
    out.append({"name": "silence-fresh", "origin": "scenario",
                "steps": [{"a": "Start", "c": 1}, {"a": "Dial", "d": 1}, {"a": "DialRet", "d": 1, "ok": True},
                          {"a": "WriteReq", "x": 1, "c": 1}, {"a": "WriteRet", "x": 1, "c": 1, "ok": True},
                          {"a": "ReadRet", "x": 1, "k": "timeout", "armed": "query"}, {"a": "Return", "c": 1}]})
    out.append({"name": "silence-reused", "origin": "scenario",
                "steps": _fresh_ok(1, 1) + [{"a": "Start", "c": 2}, {"a": "WriteReq", "x": 1, "c": 2},
                                            {"a": "WriteRet", "x": 1, "c": 2, "ok": True},
                                            {"a": "ReadRet", "x": 1, "k": "timeout", "armed": "query"}]})
    for how in ("eof", "reset", "short"):
        out.append({"name": "read-%s-in-flight" % how, "origin": "scenario", "err_how": how,
                    "steps": [{"a": "Start", "c": 1}, {"a": "Dial", "d": 1}, {"a": "DialRet", "d": 1, "ok": True},
                              {"a": "WriteReq", "x": 1, "c": 1}, {"a": "WriteRet", "x": 1, "c": 1, "ok": True},
                              {"a": "ReadRet", "x": 1, "k": "err"}, {"a": "Return", "c": 1}]})
    return out


# ---------------------------------------------------------------------------
# hand-written concretizations (pipeline)

def pipeline_scenarios(T):
    out = []

    def fresh(c, x):
        return [{"a": "Start", "c": c}, {"a": "Dial", "x": x}, {"a": "DialRet", "x": x, "ok": True},
                {"a": "ExchReq", "x": x, "c": c}, {"a": "ExchRet", "x": x, "c": c, "r": "ok"}, {"a": "Return", "c": c}]
    # one dead pooled connection: the next query succeeds through a fresh dial (MustSucceed)
    for kind in ("stale", "dead"):
        out.append({"name": "one-%s-pooled" % kind, "origin": "scenario",
                    "steps": fresh(1, 1) + [{"a": "Kill", "x": 1, "k": kind}, {"a": "Start", "c": 2}] + (
                        [{"a": "ExchReq", "x": 1, "c": 2}, {"a": "ExchRet", "x": 1, "c": 2, "r": "err"}] if kind == "stale" else []) + [
                        {"a": "Dial", "x": 2}, {"a": "DialRet", "x": 2, "ok": True}, {"a": "ExchReq", "x": 2, "c": 2},
                        {"a": "ExchRet", "x": 2, "c": 2, "r": "ok"}, {"a": "Return", "c": 2}]})
    # killed with 2 queries in flight: both are retried on a fresh connection
    out.append({"name": "dead-with-2-in-flight", "origin": "scenario",
                "steps": fresh(1, 1) + [{"a": "Start", "c": 2}, {"a": "ExchReq", "x": 1, "c": 2}, {"a": "Start", "c": 3},
                                        {"a": "ExchReq", "x": 1, "c": 3}, {"a": "Kill", "x": 1, "k": "dead"},
                                        {"a": "Dial", "x": 2}, {"a": "DialRet", "x": 2, "ok": True},
                                        {"a": "ExchReq", "x": 2, "c": 2}, {"a": "ExchReq", "x": 2, "c": 3},
                                        {"a": "ExchRet", "x": 2, "c": 2, "r": "ok"}, {"a": "ExchRet", "x": 2, "c": 3, "r": "ok"},
                                        {"a": "Return", "c": 2}, {"a": "Return", "c": 3}]})
    # two early callers on a dialing connection + dial failure: the creator fails, the other one retries
    out.append({"name": "early-callers-dial-fails", "origin": "scenario",
                "steps": [{"a": "Start", "c": 1}, {"a": "Dial", "x": 1}, {"a": "Start", "c": 2}, {"a": "Sleep", "ms": 20},
                          {"a": "DialRet", "x": 1, "ok": False}, {"a": "Return", "c": 1},
                          {"a": "Dial", "x": 2}, {"a": "DialRet", "x": 2, "ok": True}, {"a": "ExchReq", "x": 2, "c": 2},
                          {"a": "ExchRet", "x": 2, "c": 2, "r": "ok"}, {"a": "Return", "c": 2}]})
    # transport Close while dialing with early callers
    out.append({"name": "close-while-dialing", "origin": "scenario",
                "steps": [{"a": "Start", "c": 1}, {"a": "Dial", "x": 1}, {"a": "Start", "c": 2}, {"a": "Sleep", "ms": 20},
                          {"a": "TClose"}, {"a": "TCloseRet"}, {"a": "Return", "c": 1}, {"a": "Return", "c": 2}]})
    # a dial that succeeds after Close: the connection must be closed by the dial goroutine
    # (the dial function ignores the cancellation and returns a connection late: it must be closed by the dial goroutine)
    out.append({"name": "dial-succeeds-after-close", "origin": "scenario", "dial_ignores_ctx": True, "repeat": 2,
                "steps": [{"a": "Start", "c": 1}, {"a": "Dial", "x": 1}, {"a": "TClose"}, {"a": "TCloseRet"},
                          {"a": "Return", "c": 1}, {"a": "DialRet", "x": 1, "ok": True}, {"a": "UClose", "x": 1}]})
    # Close with queries in flight
    out.append({"name": "close-with-in-flight", "origin": "scenario",
                "steps": fresh(1, 1) + [{"a": "Start", "c": 2}, {"a": "ExchReq", "x": 1, "c": 2}, {"a": "Start", "c": 3},
                                        {"a": "ExchReq", "x": 1, "c": 3}, {"a": "TClose"}, {"a": "UClose", "x": 1},
                                        {"a": "TCloseRet"}, {"a": "Return", "c": 2}, {"a": "Return", "c": 3}]})
    # calls that enter with a context that has already ended must not leak capacity (cap = 2): afterwards the
    # established connection still admits 2 concurrent queries and no extra connection is dialled
    out.append({"name": "precancelled-on-established", "origin": "scenario",
                "steps": fresh(1, 1) + [{"a": "Start", "c": 2, "precancel": True}, {"a": "Return", "c": 2},
                                        {"a": "Start", "c": 3, "precancel": True}, {"a": "Return", "c": 3},
                                        {"a": "Start", "c": 4}, {"a": "ExchReq", "x": 1, "c": 4}, {"a": "Start", "c": 5},
                                        {"a": "ExchReq", "x": 1, "c": 5}, {"a": "ExchRet", "x": 1, "c": 4, "r": "ok"},
                                        {"a": "ExchRet", "x": 1, "c": 5, "r": "ok"}, {"a": "Return", "c": 4}, {"a": "Return", "c": 5}]})
    # the same on a connection that is still dialing: the early wait group must be released, later queries proceed
    out.append({"name": "precancelled-while-dialing", "origin": "scenario",
                "steps": [{"a": "Start", "c": 1}, {"a": "Dial", "x": 1}, {"a": "Start", "c": 2, "precancel": True},
                          {"a": "Return", "c": 2}, {"a": "DialRet", "x": 1, "ok": True}, {"a": "ExchReq", "x": 1, "c": 1},
                          {"a": "ExchRet", "x": 1, "c": 1, "r": "ok"}, {"a": "Return", "c": 1}, {"a": "Start", "c": 3},
                          {"a": "ExchReq", "x": 1, "c": 3}, {"a": "Start", "c": 4}, {"a": "ExchReq", "x": 1, "c": 4},
                          {"a": "ExchRet", "x": 1, "c": 3, "r": "ok"}, {"a": "ExchRet", "x": 1, "c": 4, "r": "ok"},
                          {"a": "Return", "c": 3}, {"a": "Return", "c": 4}]})
    # queue limit 2 while dialing: queue full, one queued call cancelled, one more queued, then a further query must
    # go to a second connection while the first dial is still pending ("Parked" = it is observed to queue instead)
    out.append({"name": "queue-limit-after-cancel-while-dialing", "origin": "scenario", "repeat": 2,
                "steps": [{"a": "Start", "c": 1}, {"a": "Dial", "x": 1}, {"a": "Start", "c": 2}, {"a": "Sleep", "ms": 10},
                          {"a": "Cancel", "c": 2}, {"a": "Return", "c": 2}, {"a": "Start", "c": 3}, {"a": "Parked", "c": 3},
                          {"a": "Start", "c": 4}, {"a": "Parked", "c": 4, "dials": 2}, {"a": "Dial", "x": 2},
                          {"a": "DialRet", "x": 1, "ok": True}, {"a": "ExchReq", "x": 1, "c": 1}, {"a": "ExchReq", "x": 1, "c": 3},
                          {"a": "DialRet", "x": 2, "ok": True}, {"a": "ExchReq", "x": 2, "c": 4},
                          {"a": "ExchRet", "x": 1, "c": 1, "r": "ok"}, {"a": "ExchRet", "x": 1, "c": 3, "r": "ok"},
                          {"a": "ExchRet", "x": 2, "c": 4, "r": "ok"}]})
    # a joiner on a dialing connection opened for another query; the dial fails with an error that wraps a context
    # error (the dialer's own deadline): the joiner's context is alive, it must be retried on another connection
    out.append({"name": "joiner-dial-fails-with-wrapped-ctx-error", "origin": "scenario",
                "steps": [{"a": "Start", "c": 1}, {"a": "Dial", "x": 1}, {"a": "Start", "c": 2}, {"a": "Sleep", "ms": 20},
                          {"a": "DialRet", "x": 1, "ok": False, "err": "ctxwrap"}, {"a": "Return", "c": 1},
                          {"a": "Dial", "x": 2}, {"a": "DialRet", "x": 2, "ok": True}, {"a": "ExchReq", "x": 2, "c": 2},
                          {"a": "ExchRet", "x": 2, "c": 2, "r": "ok"}, {"a": "Return", "c": 2}]})
    # the dialled connection is dead on arrival: early callers are refused; the joiner is retried on a fresh
    # connection, nothing hangs, later calls proceed
    out.append({"name": "dead-on-arrival-with-early-callers", "origin": "scenario",
                "steps": [{"a": "Start", "c": 1}, {"a": "Dial", "x": 1}, {"a": "Start", "c": 2}, {"a": "Sleep", "ms": 20},
                          {"a": "DialRet", "x": 1, "ok": True, "dead": True}, {"a": "Return", "c": 1},
                          {"a": "Dial", "x": 2}, {"a": "DialRet", "x": 2, "ok": True}, {"a": "ExchReq", "x": 2, "c": 2},
                          {"a": "ExchRet", "x": 2, "c": 2, "r": "ok"}, {"a": "Return", "c": 2},
                          {"a": "Start", "c": 3}, {"a": "ExchReq", "x": 2, "c": 3}, {"a": "ExchRet", "x": 2, "c": 3, "r": "ok"},
                          {"a": "Return", "c": 3}]})
    # hanging dial: the lazy connection's own 5 s (real time) dial context ends it
    out.append({"name": "dial-hang-5s", "origin": "scenario", "slow": True,
                "steps": [{"a": "Start", "c": 1}, {"a": "Dial", "x": 1}, {"a": "Start", "c": 2}, {"a": "DialHang", "x": 1},
                          {"a": "Return", "c": 1}]})
    return out


def pipeline_cap1_scenarios(T):
    """the dialled connection has a smaller limit (1) than the dial queue (2): one early caller is refused and must
    be retried on another connection; nothing may hang.  Validated with LazyPipeline_Trace_cap1.cfg."""
    return [{"name": "cap1-early-caller-refused", "origin": "scenario", "cap": 1, "repeat": 2,
             "steps": [{"a": "Start", "c": 1}, {"a": "Dial", "x": 1}, {"a": "Start", "c": 2}, {"a": "Sleep", "ms": 20},
                       {"a": "DialRet", "x": 1, "ok": True}, {"a": "Dial", "x": 2}, {"a": "DialRet", "x": 2, "ok": True}]}]


# ---------------------------------------------------------------------------
# running and judging

def expand_repeat(scripts):
    out = []
    for sc in scripts:
        n = sc.get("repeat", 1)
        for i in range(n):
            s = dict(sc)
            if n > 1:
                s["name"] = "%s#%d" % (sc["name"], i)
            out.append(s)
    return out


def shape(mode, rec, info):
    """signature of a rejected trace: what kind of history was not explained"""
    ev = info.get("event") or {}
    evs = rec["events"]
    if ev.get("ev") == "Return":
        c = ev.get("c")
        mine = [e for e in evs if e.get("c") == c]
        wkey = "WriteReq" if mode == "reuse" else "ExchReq"
        nwrites = sum(1 for e in mine if e["ev"] == wkey)
        ndial = sum(1 for e in evs if e["ev"] == "Dial")
        if ev.get("res") != "ok":
            got_reply = any(e["ev"] == "ReadRet" and e.get("k") == "reply" and e.get("c") == c for e in evs) or \
                any(e["ev"] == "ExchRet" and e.get("r") == "ok" and e.get("c") == c for e in evs)
            if got_reply:
                return "%s:reply-read-but-call-failed:%s" % (mode, ev.get("res"))
            if c == 6:
                return "%s:call-after-close:%s" % (mode, ev.get("res"))
            return "%s:failed-after-%d-writes:%s" % (mode, nwrites, ev.get("res"))
        if ev.get("vc") not in (None, c):
            return "%s:foreign-reply-returned" % mode
        return "%s:success-not-explained:writes=%d:dials=%d" % (mode, nwrites, ndial)
    if mode == "reuse" and ev.get("ev") == "WriteReq" and ev.get("wok") is False:
        return "reuse:write-is-not-the-calls-framed-query"
    if mode == "pipeline" and ev.get("ev") == "Parked":
        return "pipeline:queued-on-dialing-connection-beyond-its-queue-limit"
    if mode == "reuse" and ev.get("ev") == "CloseReq" and info.get("line_in_trace", 0) >= 2:
        prev = [e for e in evs[:info["line_in_trace"] - 1] if e.get("x") == ev.get("x")]
        if prev and prev[-1]["ev"] == "ReadRet" and prev[-1].get("k") == "reply":
            return "reuse:reply-dropped-as-unexpected-response:conn-closed"
    if mode == "reuse" and ev.get("ev") in ("SetDeadline", "WriteReq") and info.get("line_in_trace"):
        # the harness server's count of unanswered queries on that connection (writes seen minus replies sent)
        x, owed = ev.get("x"), 0
        for e in evs[:info["line_in_trace"] - 1]:
            if e.get("x") == x and e["ev"] == "WriteRet" and e.get("ok"):
                owed += 1
            elif e.get("x") == x and e["ev"] == "ReadRet" and e.get("k") == "reply":
                owed -= 1
            elif e.get("x") == x and e["ev"] == "CloseReq":
                owed = 0
        if owed >= 1:
            return "reuse:second-query-on-connection-with-unanswered-query"
    return "%s:unexplained-%s%s" % (mode, ev.get("ev"), (":" + str(ev.get("k") or ev.get("r") or "")) if ev else "")


def run_scripts(ctx, mode, scripts, binary=None, label=None, trace_cfg=None, timeout=1500):
    """Runs the scripts on the real code, validates every trace, records violations.
    Returns (recs, rejected_indices)."""
    if binary is None:
        binary = vlib.go_build(ctx, "drv_pool")
    job = {"mode": mode, "scripts": [{k: v for k, v in s.items() if k not in ("expected", "origin", "repeat", "stale", "slow")}
                                      for s in scripts]}
    # exit code 2 = the Go runtime died of a panic: a panic raised by the code under test in one of ITS OWN goroutines
    # (readLoop, dial goroutine) cannot be recovered by the harness; it is a verdict iff the panicking goroutine's
    # innermost non-runtime frame is in the mosdns module (a panic inside the harness stays an infrastructure error)
    recs, stderr = vlib.run_driver(ctx, binary, stdin_obj=job, timeout=timeout, ok_codes=(0, 2))
    if len(recs) != len(scripts):
        crash = code_panic(stderr)
        if crash is None or len(recs) > len(scripts):
            raise vlib.Infra("driver returned %d results for %d scripts\n%s" % (len(recs), len(scripts), stderr[-2000:]))
        sc = scripts[len(recs)]
        ctx.violation("%s:panic:%s" % (mode, crash[0][:60]),
                      "the code under test panicked in its own goroutine while script %r ran: %s at %s" % (
                          sc["name"], crash[0], crash[1]),
                      {"mode": mode, "script": sc, "trace_cfg": trace_cfg, "panic": crash[0], "frame": crash[1]})
        log("driver died of a panic of the code under test during script %r (%d of %d scripts finished)" % (
            sc["name"], len(recs), len(scripts)))
        scripts = scripts[:len(recs)]
    ran = [r for r in recs if not r.get("skipped")]
    # direct observations of the real code
    for r in ran:
        sc = scripts[r["idx"]]
        rp = {"mode": mode, "script": sc, "result": {k: v for k, v in r.items() if k != "events"}, "events": r["events"]}
        if r.get("panic"):
            ctx.violation("%s:panic" % mode, "the code panicked: %s" % r["panic"][:200], rp)
        for h in r.get("hang") or []:
            what = "transport Close never returns" if "Close" in h and "after" not in h else "call does not return"
            ctx.violation("%s:hang:%s" % (mode, "close" if what.startswith("transport") else ("post-close-call" if "after" in h else "call")),
                          "%s (%s) although every pending operation was released and 30 s virtual time passed; "
                          "live transport frames: %s" % (what, h, (r.get("leak") or [])[:4]), rp)
        if not r.get("hang"):
            if r.get("leak"):
                ctx.violation("%s:goroutine-leak:%s" % (mode, r["leak"][0]),
                              "goroutines of pkg/upstream/transport survive Close + quiescence: %s" % r["leak"][:5], rp)
            if r.get("unclosed"):
                ctx.violation("%s:conn-never-closed" % mode, "Close() was never called on dialled connection(s) %s" % r["unclosed"], rp)
            if r.get("slow"):
                ctx.violation("%s:capacity-leak" % mode, "; ".join(r["slow"]), rp)
    # leg C
    spec, tspec, tcfg = SPEC[mode]
    tcfg = trace_cfg or tcfg
    traces = [[{k: v for k, v in e.items() if k != "err"} for e in r["events"]] for r in ran]
    acc, rej = vlib.validate_traces(ctx, tspec, tcfg, traces, label=label or tspec)
    rejected = []
    for ti, info in rej:
        r = ran[ti]
        sc = scripts[r["idx"]]
        rejected.append(r["idx"])
        ctx.violation(shape(mode, r, info),
                      "real trace of script %r is not a behaviour of %s.tla satisfying its invariants (rejected at event %s: %s)" % (
                          sc["name"], spec, info.get("line_in_trace"), info.get("event")),
                      {"mode": mode, "script": sc, "trace_cfg": tcfg, "events": r["events"],
                       "result": {k: v for k, v in r.items() if k != "events"}})
    return recs, rejected


def code_panic(stderr):
    """(message, frame) if the driver's stderr shows a Go panic whose innermost non-runtime frame belongs to the
    mosdns module, else None."""
    i = stderr.find("\npanic: ")
    if i < 0 and stderr.startswith("panic: "):
        i = -1
    if i < 0 and not stderr.startswith("panic: "):
        return None
    txt = stderr[i + 1:]
    msg = txt.splitlines()[0][len("panic: "):].strip()
    j = txt.find("\ngoroutine ")
    if j < 0:
        return None
    for line in txt[j + 1:].splitlines()[1:]:
        if not line or line.startswith("\t"):
            if not line:
                break
            continue
        f = line.strip()
        if f.startswith(("panic(", "runtime.", "created by")):
            continue
        if f.startswith("github.com/IrineSistiana/mosdns/v5/pkg/") or f.startswith("github.com/IrineSistiana/mosdns/v5/plugin/"):
            return msg, f.split("(0x")[0]
        return None
    return None


def replay(ctx):
    """--replay: run the saved script 5 times on the current tree and judge it again."""
    d = json.load(open(ctx.replay))["replay"]
    sc = dict(d["script"])
    sc.pop("repeat", None)
    scripts = [dict(sc, name="%s@%d" % (sc.get("name"), i)) for i in range(5)]
    recs, rej = run_scripts(ctx, d["mode"], scripts, trace_cfg=d.get("trace_cfg"))
    ctx.cov["evaluations"] = len(recs)
    ctx.sample(recs[0]["events"][:40])


def summarize(ctx, recs, scripts, key):
    ran = [r for r in recs if not r.get("skipped")]
    steered = [r for r in ran if r["steered"]]
    ctx.cov.setdefault("scripts_run", 0)
    ctx.cov["scripts_run"] += len(ran)
    ctx.cov.setdefault("scripts_steered", 0)
    ctx.cov["scripts_steered"] += len(steered)
    return ran, steered


def dead_driver(ctx, recs, scripts, what, min_frac=0.5):
    """rule 9: only when nothing was rejected"""
    if ctx.violations or ctx.known_hits:
        return
    ran = [r for r in recs if not r.get("skipped")]
    steered = [r for r in ran if r["steered"]]
    if len(ran) < 0.6 * len(recs) or len(steered) < min_frac * len(ran):
        raise vlib.Infra("dead driver (%s): %d of %d scripts ran, %d steered; first reasons: %s" % (
            what, len(ran), len(recs), len(steered), [r.get("why") for r in ran if not r["steered"]][:4]))


def corrupt_and_check(ctx, mode, recs, what_fn, label):
    """binding self-check: one recorded field of an accepted trace is corrupted -> TLC must reject"""
    spec, tspec, tcfg = SPEC[mode]
    bad = []
    for r in recs:
        if r.get("skipped") or not r["steered"]:
            continue
        t = what_fn(copy.deepcopy([{k: v for k, v in e.items() if k != "err"} for e in r["events"]]))
        if t is not None:
            bad.append(t)
        if len(bad) >= 2:
            break
    if bad:
        vlib.assert_rejects(ctx, tspec, tcfg, bad, label)
