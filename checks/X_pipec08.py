"""Standalone pseudo-check for the conn_traditional.go part of C08 (a dying reused connection must not take the retry):
`bin/check X_pipec08 quick`, `bin/selftest <patch> X_pipec08`.  The real entry point is pipeconn_c08.run_extra(ctx),
called from checks/C08.py."""
import pipeconn_c08


def run(ctx):
    ctx.cov["rule"] = ("kill-a-reused-connection scenarios (Close() held) on the real PipelineTransport + TraditionalDnsConn, "
                       "validated by TLC against LazyPipe.tla")
    recs = pipeconn_c08.run_extra(ctx)
    if recs is not None:
        ctx.cov["evaluations"] = len(recs)
        ctx.cov["distinct_nontrivial"] = len({r["name"].rsplit(".", 1)[0] for r in recs if r["steered"]})
