"""Shared machinery of C03 and C15 (spec/Handler.tla, Handler_Trace.tla, harness/drv_handler).

Python only (a) turns TLC behaviours into driver cases by choosing concretizations from the value
lists of DESIGN §2.5 / §4 C03 (seeded), (b) hands the recorded traces to TLC, (c) names the plugin /
handler step at which TLC rejected a trace. Every expected value comes from TLC."""
import json
import random
import vlib
from vlib import log

TRACE_SPEC = "Handler_Trace"

NV = {  # deviation switch -> invariant TLC must violate
    "C03": [("redirect_no_restore_on_err", "ReplyShape"), ("redirect_no_restore_on_err", "PluginContract"),
            ("cache_no_id_rewrite", "ReplyShape"), ("no_ra", "ReplyShape"), ("trunc_no_tc", "ReplyShape"),
            ("trunc_wrong_size", "ReplyShape"), ("two_questions_ok", "ReplyShape"),
            ("cache_stores_preexisting", "CacheEntrySound")],
    "C15": [("client_opt_forwarded", "UpstreamSeesOneFreshOpt"), ("client_opt_forwarded", "NoClientOptionLeak"),
            ("respopt_always", "ReplyOptIffClientOpt"), ("respopt_twice", "OptNeverDuplicatedOrAltered"),
            ("do_not_mirrored", "DoMirrored"), ("upstream_opt_not_popped", "OptNeverDuplicatedOrAltered"),
            ("handle_leaks_upstream_opts", "NoUpstreamOptionLeak"), ("cache_keeps_opt", "CacheHasNoOpt")],
}


def non_vacuity(ctx, prop):
    tmpl = open(vlib.VERIF + "/spec/Handler_nv.cfg").read()
    done = []
    for dev, inv in NV[prop]:
        res = vlib.run_tlc(ctx, "Handler", "Handler_nv_run.cfg", name="nv-%s-%s" % (dev, inv), workers=1,
                           cfg_text=tmpl.replace("@DEV@", dev).replace("@INV@", inv), expect_violation=True)
        if res["violated"] != inv:
            raise vlib.Infra("non-vacuity: with deviation %s TLC should violate %s, got %r" % (dev, inv, res["violated"]))
        done.append("%s violated under deviation %s" % (inv, dev))
    ctx.cov["non_vacuity"] = done
    log("non-vacuity: %d deviation switches each make TLC find a counterexample" % len(done))


# ------------------------------------------------------------------ concretization

LABEL_CHARS = "abcdefghijklmnopqrstuvwxyz0123456789-"


def mk_name(rng, idx, style):
    uniq = "c%d" % idx
    if style == "short":
        return uniq + ".test."
    if style == "lower":
        return uniq + ".example.test."
    if style == "mixed":
        s = uniq + ".MiXed-Case.ExAmPle.TeSt."
        return "".join(ch.upper() if rng.random() < 0.5 else ch.lower() for ch in s)
    # 255 octets on the wire: sum(len+1) + 1 == 255
    labels = [uniq]
    used = len(uniq) + 1 + 1
    while used < 255:
        n = min(63, 255 - used - 1)
        if n <= 0:
            break
        labels.append("".join(rng.choice(LABEL_CHARS[:36]) for _ in range(n)))
        used += n + 1
    name = ".".join(labels) + "."
    if rng.random() < 0.5:
        name = "".join(ch.upper() if rng.random() < 0.3 else ch for ch in name)
    return name


def pick_size(rng, abstract, limit, impl):
    """abstract answer size of the behaviour -> concrete target length (any value is a legal input)"""
    if abstract <= 100:
        return rng.choice([0, 0, 120, 300])
    if abstract <= 1000:
        s = limit + rng.randint(-40, 40)          # around the truncation boundary
    elif abstract <= 3000:
        s = rng.choice([513, 600, 1233, 1500, 3000, 4097, 5000, 9000, 12000])
    else:
        s = rng.randint(30000, 64000)
    if impl == "forward_udp":
        s = min(s, 1100)
    return max(0, min(s, 64000))


def concretize(rng, idx, beh, prop, force_mode=None):
    """one driver case from one TLC behaviour; returns None if the real plugins cannot be steered
    into this behaviour (contract freedom the real plugin does not use)"""
    cq, tr, steps = beh["cq"], beh["tr"], beh["steps"]
    by_pos = {s["pos"]: s for s in steps}
    opt = None
    if cq["opt"]["k"] == "opt":
        o = cq["opt"]
        opt = {"size": o["size"], "do": o["do"], "ver": o["ver"], "opts": sorted(o["opts"])}
    need_addr = need_in = need_q0 = False
    nodes = []
    limit = max(512, opt["size"]) if opt else 512
    limit = min(limit, 60000)
    seen_ecs = False
    for pos, kind in enumerate(beh["chain"], start=1):
        st = by_pos.get(pos)          # None: the chain ended before this plugin
        c = st["c"] if st else None
        if kind == "reject":
            rc = st["rcode"] if st else 3
            nodes.append({"kind": kind, "impl": "reject", "arg": str(rc)})
        elif kind == "accept":
            nodes.append({"kind": kind, "impl": "accept"})
        elif kind == "local":
            impl = rng.choice(["hosts", "black_hole", "arbitrary"])
            ans = c == "ans"
            if ans:
                need_addr = True
                need_in = need_in or impl != "black_hole"
            nodes.append({"kind": kind, "impl": impl, "ans": ans})
        elif kind == "ttl":
            nodes.append({"kind": kind, "impl": "ttl", "arg": rng.choice(["5", "1", "10-20", "0-3", "4294967295"])})
        elif kind == "redirect":
            m = c == "match"
            need_in = need_in or m
            nodes.append({"kind": kind, "impl": "redirect", "match": m})
        elif kind == "cache":
            hit = c == "hit"
            need_q0 = need_q0 or hit
            nodes.append({"kind": kind, "impl": "cache", "hit": hit, "key": st.get("key", "own") if st else "own",
                          "lazy": hit and rng.random() < 0.12})       # stale entry of a lazy cache (+ background refresh)
        elif kind == "ecs":
            x = set(st["x"]) if st else set()
            if x == {"cE", "pE"} or (seen_ecs and x):
                return None
            if x:
                need_in = True
                seen_ecs = True
            if "cE" in x:
                nodes.append({"kind": kind, "impl": "ecs_handler", "forward": True})
            elif "pE" in x:
                # forward mode without a client ECS falls through to preset / send: nothing was forwarded, so the
                # upstream's echoed ECS must not reach the client (frame.fwd = FALSE in the model)
                fw = (not (opt and "cE" in opt["opts"])) and rng.random() < 0.5
                if rng.random() < 0.3:
                    nodes.append({"kind": kind, "impl": "ecs_handler", "send": True, "forward": fw})    # ECS from the client address
                else:
                    nodes.append({"kind": kind, "impl": "ecs_handler" if fw else rng.choice(["ecs_handler", "ecs"]),
                                  "preset": True, "forward": fw})
            else:
                has = opt and "cE" in opt["opts"]
                nodes.append({"kind": kind, "impl": "ecs_handler", "forward": not has})
        elif kind == "fwdopt":
            x = set(st["x"]) if st else set()
            has = opt and "cC" in opt["opts"]
            if x:
                arg = rng.choice(["10", "10 65001", "9 10 11"])   # cookie (+ codes no token uses)
            else:
                arg = "65002" if has else rng.choice(["10", "65002", ""])
            nodes.append({"kind": kind, "impl": "forward_edns0opt", "arg": arg})
        elif kind == "up":
            if st is None:
                sc = {"c": "none"}
                impl = "terminal"
            else:
                impl = "terminal"
                if c in ("ans", "err") and rng.random() < 0.25:
                    impl = rng.choice(["forward_udp", "forward_tcp"])
                sc = {"c": c}
                if c == "ans":
                    m, o = st["m"], st["o"]
                    rc = m["rcode"]
                    if rc == 3:
                        rc = rng.randint(1, 15)
                    elif rc == 2:
                        rc = 2
                    elif rc > 15:
                        rc = rng.choice([16, 17, 22, 23, 255, 4095])
                    sc.update({"rcode": rc, "tc": m["tc"], "size": pick_size(rng, m["size"], limit, impl)})
                    if m["tc"] and impl == "forward_udp":
                        impl = "forward_tcp"
                    if o == ["-"]:
                        sc["noopt"] = True
                        if rc > 15:
                            return None
                    else:
                        sc["opts"] = sorted(o)
                    # position of the OPT inside the additional section: first / middle / last
                    sc["pre"], sc["post"] = rng.choice([(0, 0), (0, 0), (0, 1), (1, 0), (1, 1), (0, 2), (2, 0), (2, 2)])
                    if rng.random() < 0.4:
                        sc["fill"] = "a"
            nodes.append({"kind": kind, "impl": impl, "script": sc})
        else:
            return None
    styles = ["short", "lower", "mixed", "mixed", "long"]
    qtype = rng.choice([1, 28]) if need_addr else rng.choice([1, 28, 0, 255, 257, 65535, 16, 5, 64, rng.randint(0, 65535)])
    qclass = 1 if need_in else rng.choice([1, 1, 1, 3, 4, 255, 0, 254, rng.randint(0, 65535)])
    flags = rng.randint(0, 0xFFFF) & 0x7FFF
    if need_q0 or rng.random() < 0.5:
        flags &= ~0x7800          # opcode QUERY
    if rng.random() < 0.3:
        flags &= 0x0110           # only RD / CD
    if tr == "udp":
        mode = rng.choice(["direct", "direct", "udp"])
    else:
        mode = rng.choice(["direct", "direct", "tcp", "tcp", "httpget", "httppost"])
    if force_mode:
        mode = force_mode
    chunk, reps = "whole", 1
    if mode == "tcp":
        # client-side framing: one write / length prefix split 1+1 / prefix, then body / first octet, then rest /
        # octet by octet; several queries (IDs id, id+1, ..) one after the other on the same connection
        chunk = rng.choice(["whole", "prefix11", "prefix_body", "prefix1_rest", "bytes"])
        if cq["mal"] in ("ok", "ok1x"):
            reps = rng.choice([1, 2, 2, 3])
    case = {"idx": idx, "mode": mode, "tr": tr, "mal": cq["mal"], "opt": opt, "nodes": nodes, "chunk": chunk, "reps": reps,
            "id": rng.choice([0, 0xFFFF, rng.randint(1, 0xFFFE), rng.randint(1, 0xFFFE)]),
            "name": mk_name(rng, idx, rng.choice(styles)), "target": "t%d.Redirect-Target.test." % idx,
            "qtype": qtype, "qclass": qclass, "flags": flags,
            "settle": 250 if any(n.get("lazy") for n in nodes) else 0,
            "expected": beh["reply"], "beh": beh}
    return case


def c15_scenarios(rng, idx0):
    """fixed behaviours of Handler.tla for multi-step EDNS histories the random generator rarely reaches:
    (a) a response with an OPT is replaced by one without (second upstream / local answer): the copier plugins around
        the chain see uOpt = None and forward nothing; (b) ecs_handler in forward mode with a preset / client address
        and a client OPT that has no ECS: the generated ECS goes upstream, the upstream's echo stays there."""
    out = []
    m = {"rcode": 0, "size": 100, "nrec": 2, "tc": False}

    def add(beh):
        c = concretize(rng, idx0 + len(out), beh, "C15", force_mode="direct")
        if c is not None:
            for n in c["nodes"]:
                if n["kind"] == "up":
                    n["impl"] = "terminal"
            out.append(c)

    for do in (False, True):
        copt = {"k": "opt", "size": 4096, "do": do, "ver": 0, "opts": ["cC", "cE"]}
        rep = {"k": "reply", "rcode": 0, "nopt": 1, "tc": False, "opts": [], "do": do}
        for o1 in (["uC"], ["uC", "uE", "uP"]):
            # (a) fwdopt / ecs around two upstreams: first answers with OPT + options, second without OPT
            add({"cq": {"mal": "ok", "opt": copt}, "tr": "tcp", "chain": ["fwdopt", "up", "up"],
                 "steps": [{"pos": 1, "kind": "fwdopt", "c": "copy", "x": ["cC"]},
                           {"pos": 2, "kind": "up", "c": "ans", "m": m, "o": o1},
                           {"pos": 3, "kind": "up", "c": "ans", "m": m, "o": ["-"]}], "reply": rep})
            add({"cq": {"mal": "ok", "opt": copt}, "tr": "udp", "chain": ["ecs", "fwdopt", "up", "up"],
                 "steps": [{"pos": 1, "kind": "ecs", "c": "copy", "x": ["cE"]},
                           {"pos": 2, "kind": "fwdopt", "c": "copy", "x": ["cC"]},
                           {"pos": 3, "kind": "up", "c": "ans", "m": m, "o": sorted(set(o1) | {"uE"})},
                           {"pos": 4, "kind": "up", "c": "ans", "m": m, "o": ["-"]}], "reply": rep})
            # ... and replaced by an OPT with no options
            add({"cq": {"mal": "ok", "opt": copt}, "tr": "tcp", "chain": ["fwdopt", "up", "up"],
                 "steps": [{"pos": 1, "kind": "fwdopt", "c": "copy", "x": ["cC"]},
                           {"pos": 2, "kind": "up", "c": "ans", "m": m, "o": o1},
                           {"pos": 3, "kind": "up", "c": "ans", "m": m, "o": []}], "reply": rep})
        # (b) forward mode, client OPT without ECS, preset / send: upstream echoes ECS
        for copts in ([], ["cC"], ["cC", "cP"]):
            copt2 = {"k": "opt", "size": rng.choice([512, 1232, 4096]), "do": do, "ver": 0, "opts": copts}
            for o in (["uE"], ["uC", "uE", "uP"]):
                for _ in range(2):
                    add({"cq": {"mal": "ok", "opt": copt2}, "tr": rng.choice(["udp", "tcp"]), "chain": ["ecs", "up"],
                         "steps": [{"pos": 1, "kind": "ecs", "c": "copy", "x": ["pE"]},
                                   {"pos": 2, "kind": "up", "c": "ans", "m": m, "o": o}], "reply": rep})
    for c in out:
        for n in c["nodes"]:
            if n["kind"] == "ecs" and (n.get("preset") or n.get("send")) and n["impl"] == "ecs_handler":
                n["forward"] = True
    return out


def pair_case(rng, idx):
    """two interleaved clients (different IDs, same question) on the same stale entry of a lazy cache: the driver
    holds both behind the cache before either continues. Each client's trace is judged on its own."""
    beh = {"cq": {"mal": "ok", "opt": {"k": "none"}}, "tr": "tcp", "chain": ["cache", "ttl"],
           "steps": [{"pos": 1, "kind": "cache", "c": "hit", "key": "own"}, {"pos": 2, "kind": "ttl", "c": "pass"}],
           "reply": {"k": "reply", "rcode": 0, "nopt": 0, "tc": False, "opts": [], "do": False}}
    if rng.random() < 0.5:
        beh["cq"]["opt"] = {"k": "opt", "size": rng.choice([512, 1232, 4096]), "do": rng.random() < 0.5, "ver": 0, "opts": []}
        beh["reply"]["nopt"] = 1
        beh["reply"]["do"] = beh["cq"]["opt"]["do"]
        beh["tr"] = rng.choice(["udp", "tcp"])
    c = concretize(rng, idx, beh, "C03", force_mode="direct")
    c["nodes"][0]["lazy"] = True
    c["pair"] = True
    c["settle"] = 300
    c["qtype"], c["qclass"] = rng.choice([1, 28, 16]), 1
    c["flags"] &= 0x0130
    c["expected"] = None
    return c


def udp_big_cases(rng, idx0, n):
    """answers far above the advertised size over UDP (up to near 65535 octets), both record shapes, direct and via ServeUDP:
    the truncated reply is small when compressed but its uncompressed length ranges from < 1 k to > 8 k"""
    out = []
    for k in range(n):
        size = [512, 1232, 4096, 4096, 65535][k % 5]
        beh = {"cq": {"mal": "ok", "opt": {"k": "opt", "size": size, "do": rng.random() < 0.5, "ver": 0, "opts": []}},
               "tr": "udp", "chain": ["up"],
               "steps": [{"pos": 1, "kind": "up", "c": "ans", "m": {"rcode": 0, "size": 60000, "nrec": 900, "tc": False}, "o": []}],
               "reply": {"k": "reply", "rcode": 0, "nopt": 1, "tc": True, "opts": [], "do": False}}
        c = concretize(rng, idx0 + k, beh, "C03", force_mode=["direct", "udp"][(k // 5) % 2])
        sc = c["nodes"][0]["script"]
        c["nodes"][0]["impl"] = "terminal"
        sc["fill"] = ["a", "a", ""][k % 3]
        sc["size"] = rng.choice([9000, 20000, 40000, 64000])
        c["expected"] = None
        out.append(c)
    return out


def follow_case(rng, idx, variant):
    """a response is already in the slot (hosts answer / hit of an outer cache) when redirect renames the query in front of
    a cache; afterwards a second client asks for the redirect TARGET itself. Each client is owed its own question."""
    if variant == "case":
        # the second client asks the SAME name in another letter case (0x20-style) behind the same cache: whether the cache
        # shares the entry or not, each client is owed its own spelling of the question
        name = mk_name(rng, idx, "lower")
        other = "".join(ch.upper() if i % 2 == 0 else ch for i, ch in enumerate(name))
        if rng.random() < 0.5:
            name, other = other, name
        nodes = [{"kind": "cache", "impl": "cache", "hit": False, "key": "own"}]
        if rng.random() < 0.5:
            nodes.append({"kind": "ttl", "impl": "ttl", "arg": "5"})
        nodes.append({"kind": "up", "impl": "terminal", "script": {"c": "ans", "rcode": 0, "tc": False, "size": 200, "fill": "a", "noopt": True,
                                                                  "pre": 0, "post": 0}})
        return {"idx": idx, "mode": "direct", "tr": rng.choice(["udp", "tcp"]), "mal": "ok", "opt": None, "nodes": nodes,
                "chunk": "whole", "reps": 1, "follow": True,
                "id": rng.randint(0, 0xFFFF), "name": name, "target": other,
                "qtype": rng.choice([1, 28, 16]), "qclass": 1, "flags": 0x0100, "settle": 0, "expected": None, "beh": None}
    first = {"kind": "local", "impl": "hosts", "ans": True} if variant == "local" else \
            {"kind": "cache", "impl": "cache", "hit": True, "key": "own"}
    nodes = [first, {"kind": "redirect", "impl": "redirect", "match": True},
             {"kind": "cache", "impl": "cache", "hit": False, "key": "own"}]
    if rng.random() < 0.5:
        nodes.append({"kind": "accept", "impl": "accept"})
    return {"idx": idx, "mode": "direct", "tr": rng.choice(["udp", "tcp"]), "mal": "ok", "opt": None, "nodes": nodes,
            "chunk": "whole", "reps": 1, "follow": True,
            "id": rng.randint(0, 0xFFFF), "name": mk_name(rng, idx, "lower"), "target": "t%d.redirect-target.test." % idx,
            "qtype": rng.choice([1, 28]), "qclass": 1, "flags": 0x0100, "settle": 0, "expected": None, "beh": None}


PREEXISTING = "cache-stores-preexisting-response:hit-carries-other-question"


def preexisting_pattern(case, trace, line):
    """the rejected line is the snapshot behind a cache whose hit carries the ORIGINAL question of a redirected query (or, for
    the follow-up client, another client's question): the entry was stored from a response that was already in the slot"""
    if not (0 < line <= len(trace)):
        return False
    ev = trace[line - 1]
    if ev["ev"] != "Down" or ev["s"]["r"]["k"] != "msg" or ev["s"]["r"]["id"] != "own":
        return False
    nodes = case["nodes"]
    p = ev["pos"] - 1
    if ev.get("seq", "main") != "main" or not (1 <= p <= len(nodes)) or nodes[p - 1]["impl"] != "cache":
        return False
    if not any(n["impl"] == "redirect" and n.get("match") for n in nodes[:p - 1]):
        return False
    if case.get("follow"):
        return ev["s"]["qq"] == "own" and ev["s"]["r"]["qq"] == "other"
    return ev["s"]["qq"] == "redir" and ev["s"]["r"]["qq"] == "own"


def composite_case(rng, idx, prop):
    """chains around the composite components (dual_selector, fallback, forward) - validated by leg C only"""
    def up(c="ans", impl="terminal"):
        sc = {"c": c}
        if c == "ans":
            sc.update({"rcode": rng.choice([0, 0, 0, 3, 2]), "size": rng.choice([0, 200, 700, 2000]),
                       "opts": sorted(rng.sample(["uE", "uC", "uP"], rng.randint(0, 3))),
                       "pre": rng.randint(0, 2), "post": rng.randint(0, 2)})
        return {"kind": "up", "impl": impl, "script": sc}

    def outcome():
        return rng.choice(["ans", "ans", "ans", "none", "err"])
    pre = []
    for _ in range(rng.randint(0, 2)):
        k = rng.choice(["redirect", "cache", "ecs", "fwdopt", "ttl", "local"])
        if k == "redirect":
            pre.append({"kind": k, "impl": "redirect", "match": rng.random() < 0.7})
        elif k == "cache":
            pre.append({"kind": k, "impl": "cache", "hit": False})
        elif k == "ecs":
            pre.append({"kind": k, "impl": "ecs_handler", "forward": rng.random() < 0.5, "preset": rng.random() < 0.5})
        elif k == "fwdopt":
            pre.append({"kind": k, "impl": "forward_edns0opt", "arg": rng.choice(["10", "65001", "9 10"])})
        elif k == "ttl":
            pre.append({"kind": k, "impl": "ttl", "arg": "7"})
        else:
            pre.append({"kind": k, "impl": rng.choice(["hosts", "black_hole", "arbitrary"]), "ans": rng.random() < 0.3})
    which = rng.choice(["prefer_ipv4", "prefer_ipv6", "fallback", "fallback"])
    if which == "fallback":
        def branch(delay):
            # option-copying plugins INSIDE the copied context: what they forward stays in the copy
            seq = []
            r = rng.random()
            if r < 0.25:
                seq.append({"kind": "fwdopt", "impl": "forward_edns0opt", "arg": "10"})
            elif r < 0.45:
                seq.append({"kind": "ecs", "impl": "ecs_handler", "forward": True})
            elif r < 0.55:
                seq.append({"kind": "ttl", "impl": "ttl", "arg": "9"})
            u = up(outcome())
            if delay:
                u["script"]["delay"] = delay
            seq.append(u)
            return seq
        standby = rng.random() < 0.5
        sub = {"kind": "sub", "impl": "fallback", "standby": standby,
               "primary": branch(12 if standby and rng.random() < 0.6 else 0),      # a standing-by secondary finishes first
               "secondary": branch(0)}
        post = [{"kind": "ttl", "impl": "ttl", "arg": "3"}] if rng.random() < 0.5 else []
        nodes = pre + [sub] + post
    else:
        sub = {"kind": "sub", "impl": which}
        post = []
        if rng.random() < 0.4:
            post.append({"kind": "cache", "impl": "cache", "hit": False})
        if rng.random() < 0.4:
            post.append(rng.choice([{"kind": "ecs", "impl": "ecs_handler", "forward": True},
                                    {"kind": "fwdopt", "impl": "forward_edns0opt", "arg": "10"}]))
        post.append(up(outcome()))
        nodes = pre + [sub] + post
    opt = None
    if rng.random() < 0.7:
        opt = {"size": rng.choice([0, 512, 1232, 4096]), "do": rng.random() < 0.5, "ver": 0,
               "opts": sorted(rng.sample(["cE", "cC", "cP"], rng.randint(0, 3)))}
    tr = rng.choice(["udp", "tcp"])
    mode = "direct" if rng.random() < 0.7 else ("udp" if tr == "udp" else rng.choice(["tcp", "httppost"]))
    return {"idx": idx, "mode": mode, "tr": tr, "mal": "ok", "opt": opt, "nodes": nodes,
            "chunk": rng.choice(["whole", "prefix11", "prefix_body", "prefix1_rest", "bytes"]), "reps": rng.choice([1, 2]),
            "id": rng.randint(0, 0xFFFF), "name": mk_name(rng, idx, rng.choice(["lower", "mixed"])),
            "target": "t%d.Redirect-Target.test." % idx, "qtype": rng.choice([1, 28]), "qclass": 1,
            "flags": rng.choice([0x0100, 0x0000, 0x0110]), "settle": 400, "expected": None, "beh": None}


# ------------------------------------------------------------------ running and judging

def impls(case, seq="main"):
    return [n["impl"] for n in case["nodes"]]


def attribute(case, trace, line_in_trace, prop="C03"):
    """name the step TLC could not explain: (signature, text)"""
    ev = trace[line_in_trace - 1] if 0 < line_in_trace <= len(trace) else None
    prev = trace[line_in_trace - 2] if line_in_trace >= 2 else None
    head = trace[0]
    branch = head["ev"] == "Branch"
    nodes = case["nodes"]

    def impl_at(pos, ev):
        seq = ev.get("seq", "main") if ev else "main"
        if seq == "main" and 1 <= pos <= len(nodes):
            return nodes[pos - 1]["impl"]
        return "%s[%d]" % (seq, pos)
    if ev is None:
        return "trace:unexplained", "trace rejected"
    e = ev["ev"]
    where = "branch" if branch else "main"
    if e == "Down":
        if ev["pos"] == 1 and not branch:
            if case["mal"] not in ("ok", "ok1x"):
                return "handler:accepts-malformed:%s" % case["mal"], "malformed query (%s) reached the plugin chain" % case["mal"]
            return "handler:new-context", "state handed to the first plugin is not NewContext(query): %s" % json.dumps(ev["s"], sort_keys=True)
        who = impl_at(ev["pos"] - 1, ev)
        if prop == "C15" and ev["s"]["r"]["k"] == "msg" and ev["s"]["r"]["nopt"] > 0:
            return "context:response-slot-keeps-opt", "after %s set a response the slot still contains %d OPT record(s) (SetResponse must pop it)" % (
                who, ev["s"]["r"]["nopt"])
        return "plugin:%s:down:%s" % (who, where), "%s broke its contract before calling the rest of the chain: %s" % (
            who, json.dumps(ev["s"], sort_keys=True))
    if e == "Up":
        who = impl_at(ev["pos"], ev)
        return "plugin:%s:up:%s" % (who, where), "%s broke its contract on return (err=%s): %s" % (
            who, ev["err"], json.dumps(ev["s"], sort_keys=True))
    if e == "Seen":
        return "upstream-saw:nopt=%s:fresh=%s:opts=%s" % (ev["nopt"], ev["fresh"], ",".join(ev["opts"])), \
            "the upstream received a query that is not 'one fresh OPT, only explicitly forwarded options': %s" % json.dumps(ev)
    if e == "Reply":
        copt = "opt" if case["opt"] else "noopt"
        if prop == "C03":
            sig = "handle:reply:%s:%s:id=%s:qq=%s:qr=%s:ra=%s:tc=%s" % (
                case["tr"], copt, ev["id"], ev["qq"], int(ev["qr"]), int(ev["ra"]), int(ev["tc"]))
        else:
            sig = "handle:reply:%s:nopt=%s:do=%s:opts=%s" % (
                copt, ev["nopt"], ev["opt"].get("do"), ",".join(ev["opt"].get("opts", [])))
        if case["mal"] not in ("ok", "ok1x"):
            sig = "handle:reply-to-malformed:%s" % case["mal"]
        return sig, "the reply is not what Handle owes for the state the chain left (%s; last snapshot %s)" % (
            json.dumps(ev, sort_keys=True), json.dumps(prev.get("s") if prev else None, sort_keys=True))
    if e == "NoReply":
        return "handle:no-reply:%s" % case["mal"], "no reply although one is owed"
    if e == "CacheDump":
        return "cache:stored-opt", "a message stored by the cache contains %s OPT record(s)" % ev["nopt"]
    return "trace:%s" % e, "event %s cannot be explained" % e


def strip(case):
    return {k: v for k, v in case.items() if k not in ("expected", "beh")}


def run_cases(ctx, prop, binary, cases, label):
    """drive, validate (leg C), compare with the generator's expectation (leg B). Returns stats."""
    job = {"cases": [strip(c) for c in cases], "workers": 12}
    recs, stderr = vlib.run_driver(ctx, binary, stdin_obj=job, timeout=1200)
    if len(recs) != len(cases):
        raise vlib.Infra("driver returned %d results for %d cases (%s)" % (len(recs), len(cases), stderr[-500:]))
    traces, owner = [], []
    setup_fail = 0
    for c, r in zip(cases, recs):
        if r.get("panic"):
            ctx.violation("panic:%s" % ",".join(impls(c)), "the chain panicked: %s" % r["panic"], {"case": strip(c)})
            continue
        if r.get("why") and not r.get("traces"):
            setup_fail += 1
            continue
        for ti, t in enumerate(r["traces"]):
            if t and t[0]["ev"] in ("Query", "Branch"):
                traces.append(t)
                owner.append((c, r, ti))
    acc, rej = vlib.validate_traces(ctx, TRACE_SPEC, "Handler_Trace_%s.cfg" % prop, traces, label="%s %s" % (prop, label),
                                    chunk=2500, max_reject=8)
    for idx, info in rej:
        c, r, ti = owner[idx]
        sig, what = attribute(c, traces[idx], info.get("line_in_trace") or 0, prop)
        sig = classify_known(c, sig)
        if prop == "C03" and preexisting_pattern(c, traces[idx], info.get("line_in_trace") or 0):
            sig = PREEXISTING
            what = ("a cache entry holds a response for ANOTHER question: cache.Exec stored the response that was already in the "
                    "slot (hosts answer / outer cache hit) under the key of the redirected query; ") + what
        if c.get("pair"):
            sig = "interleaved-clients-on-stale-cache-entry:" + sig
            what = ("two clients (IDs id, id^0x1111) were both held behind the cache on the same stale lazy-cache entry; "
                    "this client's response slot / reply no longer carries its own ID or question: ") + what
        ctx.violation(sig, what + " [chain %s, mode %s]" % (",".join(impls(c)), c["mode"]),
                      {"case": strip(c), "trace": traces[idx], "line_in_trace": info.get("line_in_trace")})
    # leg B: the generator's expected reply vs the observed one (only meaningful if the real plugins took
    # the scripted choices; a different but contract-conforming run is accepted by leg C above)
    steered = mism = 0
    for c, r in zip(cases, recs):
        if not c.get("expected") or not r.get("traces"):
            continue
        main = r["traces"][0]
        got = [e for e in main if e["ev"] in ("Reply", "NoReply")]
        if len(got) != 1:
            continue
        g, x = got[0], c["expected"]
        if x["k"] == "none":
            ok = g["ev"] == "NoReply"
        elif prop == "C03":
            ok = g["ev"] == "Reply" and g["rcode"] == expected_rcode(c, x)
        else:
            ok = g["ev"] == "Reply" and g["nopt"] == x["nopt"] and (x["nopt"] == 0 or g["opt"].get("do") == x["do"])
        if ok:
            steered += 1
        else:
            mism += 1
    if setup_fail:
        log("note: %d cases could not be set up (config rejected by a plugin constructor)" % setup_fail)
    return {"cases": len(cases), "traces": len(traces), "accepted": acc, "rejected": len(rej),
            "steered": steered, "mismatch": mism, "setup_fail": setup_fail, "recs": recs}


def expected_rcode(case, x):
    """the generator's rcode is abstract for upstream answers: the concretization replaced it"""
    for n in reversed(case["nodes"]):
        if n["kind"] == "up" and n["script"].get("c") == "ans" and x["rcode"] not in (2, 5):
            return n["script"]["rcode"]
    return x["rcode"]


def classify_known(case, sig):
    """a cache hit that carries another question because the cache KEY collides is defect D3 / D4 of
    DESIGN §5 (property C04, cache/utils.go:getMsgKey), reported under its own signature"""
    for n in case["nodes"]:
        if n.get("impl") == "cache" and n.get("collide"):
            return "cache-key-collision:%s:hit-carries-other-question" % n["collide"]
    return sig


def corrupt_check(ctx, prop, recs):
    """rule 4: corrupting one recorded field of an accepted trace must make TLC reject it"""
    for r in recs:
        if not r.get("traces"):
            continue
        t = json.loads(json.dumps(r["traces"][0]))
        rep = [e for e in t if e["ev"] == "Reply"]
        ups = [e for e in t if e["ev"] == "Up" and e["s"]["r"]["k"] == "msg"]
        if not rep or not ups:
            continue
        if prop == "C03":
            rep[0]["id"] = "other"
        else:
            rep[0]["nopt"] = rep[0]["nopt"] + 1
        acc, rej = vlib.validate_traces(ctx, TRACE_SPEC, "Handler_Trace_%s.cfg" % prop, [t], label="corrupted copy")
        ctx.cov["traces_validated_against_impl"] -= acc
        if not rej:
            raise vlib.Infra("binding check failed: a trace with a corrupted reply field was accepted")
        ctx.cov["corrupted_trace_rejected"] = True
        return
    raise vlib.Infra("binding check: no trace with a reply to corrupt")


def replay(ctx, prop):
    d = json.load(open(ctx.replay))["replay"]
    binary = vlib.go_build(ctx, "drv_handler")
    case = d["case"]
    cases = []
    for i in range(3):
        c = dict(case)
        cases.append(c)
    st = run_cases(ctx, prop, binary, cases, "replay")
    ctx.cov["evaluations"] = len(cases)
    if st["recs"] and st["recs"][0].get("traces"):
        ctx.sample(st["recs"][0]["traces"][0][:6])
