"""C15 - EDNS0 is terminated, not leaked, between client and upstream.
spec/Handler.tla (+ Handler_Trace.tla, Prop = "C15"), harness/drv_handler, checks/handler_common.py."""
import random
import vlib
from vlib import log
import handler_common as hc

PROP = "C15"


def run(ctx):
    if ctx.replay:
        return hc.replay(ctx, PROP)
    T = ctx.thorough()
    ctx.assumptions += [
        "upstream replies carry at most one OPT",
        "the client's DO bit is only required to be mirrored in the reply (nothing is required of the upstream-side OPT's DO)",
        "'fresh' is observed as: not the client's OPT object (direct calls), EDNS version 0, and not the client's advertised size "
        "when that size is one no implementation would choose itself (0, 511, 513, 65535, ...)",
        "options are recognised by origin through their payload (client: ECS 198.51.100.0/24, cookie 0102..08, 7-octet padding; "
        "upstream: ECS 203.0.113.0/24, 16-octet cookie, 5-octet padding; ecs_handler preset 192.0.2.0/24)",
        "options a plugin forwards explicitly: ECS by ecs_handler(forward), the configured codes by forward_edns0opt",
        "ids / questions / reply header are property C03 and are not compared here",
    ]
    # ---- leg A
    if T:
        vlib.tlc_mc(ctx, "Handler", "Handler_edns_thorough.cfg", label="cache/ttl/ecs/fwdopt/up in any order, chains <= 4", timeout=1200)
    vlib.tlc_mc(ctx, "Handler", "Handler_edns_quick.cfg", label="cache/ttl/ecs/fwdopt/up in any order, chains <= 3, EDNS versions 0/1")
    hc.non_vacuity(ctx, PROP)

    # ---- leg B generator
    rng = random.Random(ctx.seed)
    behs = vlib.tlc_behaviours(ctx, "Handler", "Handler_gen_c15.cfg", simulate=3000 if T else 500, depth=26, timeout=900)
    cases, infeasible = [], 0
    for b in behs:
        c = hc.concretize(rng, len(cases), b, PROP)
        if c is None:
            infeasible += 1
            continue
        cases.append(c)
    cases += hc.c15_scenarios(rng, len(cases))
    n_scripted = len(cases)
    for _ in range(300 if T else 100):
        cases.append(hc.composite_case(rng, len(cases), PROP))
    log("%d cases: %d from %d TLC behaviours (%d infeasible for the real plugins), %d composite" % (
        len(cases), n_scripted, len(behs), infeasible, len(cases) - n_scripted))

    binary = vlib.go_build(ctx, "drv_handler")
    st = hc.run_cases(ctx, PROP, binary, cases, "all")
    ctx.cov["evaluations"] = st["traces"]
    ctx.cov["cases"] = st["cases"]
    ctx.cov["steered_replays"] = st["steered"]
    ctx.cov["replay_result_mismatches"] = st["mismatch"]
    ctx.cov["distinct_nontrivial"] = len({vlib.json.dumps([c["beh"]["cq"]["opt"], c["beh"]["chain"], c["beh"]["steps"]], sort_keys=True)
                                          for c in cases if c.get("beh") and any(s["kind"] in ("up", "ecs", "fwdopt", "cache") for s in c["beh"]["steps"])})
    ctx.cov["rule"] = ("evaluations = traces of real chains validated by TLC against Handler_Trace (Prop=C15); "
                       "distinct_nontrivial = distinct (client OPT, chain, plugin-choice script) behaviours of Handler.tla in which an "
                       "upstream, a cache or an option-copying plugin acted, replayed on real plugins")
    ctx.cov["exhaustive"] = False
    log("leg B: %d scripted cases gave the generator's reply OPT, %d took another contract-conforming path" % (st["steered"], st["mismatch"]))
    if not ctx.violations:
        if st["steered"] < max(1, n_scripted // 4):
            raise vlib.Infra("dead driver: only %d of %d scripted cases produced the generator's reply" % (st["steered"], n_scripted))
        hc.corrupt_check(ctx, PROP, st["recs"])
    for c, r in list(zip(cases, st["recs"]))[:3]:
        if r.get("traces"):
            ctx.sample({"chain": hc.impls(c), "mode": c["mode"], "trace": r["traces"][0][:4] + r["traces"][0][-1:]})
