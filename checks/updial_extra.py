"""Extra coverage for C07 (dial phases, dial timeout, Close) and C01 (UDP -> TCP fallback result) at the upstream level:
the real upstream.NewUpstream(addr, opt) for tcp / tls / tcp+pipeline / tls+pipeline / udp against harness loopback servers.
spec/UpDial.tla (+ _Trace), harness/drv_updial.  run_extra(ctx) is meant to be called from checks/C07.py (and C01.py)."""
import copy
import random
import re
import vlib
from vlib import log

SPEC = "UpDial"
TRACE = "UpDial_Trace"

NONVAC = [  # deviation switch -> invariant expected to fail (UpDial_nonvac.cfg)
    ("HANDSHAKE_IGNORES_CTX", "DialEndsOnTimeout"),
    ("HANDSHAKE_IGNORES_CTX", "CloseCancelsDial"),
    ("NO_DIAL_TIMEOUT", "ExchangeEndsOnDialTimeout"),
    ("CLOSE_KEEPS_DIAL", "CloseCancelsDial"),
    ("CLOSE_KEEPS_CONN", "CloseCancelsDial"),
    ("CLOSE_KEEPS_CALLS", "PendingCallsEndOnClose"),
    ("ACCEPT_AFTER_CLOSE", "LaterCallsFailImmediately"),
    ("TC_AS_SUCCESS", "ResultSound"),
]
TIMING_EVENTS = ("Late", "CLate")


def cfg_with(name, **kv):
    txt = open("%s/spec/%s" % (vlib.VERIF, name)).read()
    for k, v in kv.items():
        txt, n = re.subn(r"(?m)^(\s*%s\s*=\s*).*$" % re.escape(k), lambda m: m.group(1) + v, txt)
        if n != 1:
            raise vlib.Infra("cfg template %s has no constant %s" % (name, k))
    return txt


def acts(b):
    return [s["a"] for s in b["steps"]]


def shape(b):
    """stratification key: what the environment does, and where Close / the timeout fall relative to the dial phases"""
    a = acts(b)
    env = tuple(x for x in a if x in ("TcpAccept", "TcpRefuse", "HsComplete", "SrvClose", "Answer", "UdpAnswer", "UdpTimeout",
                                      "QueryTimeout", "Cancel", "Close", "Tick12", "CallLate", "Retry"))
    return (b["kind"], b["listen"], a.count("Call"), env)


def long_wait(b):
    """needs one of the transports' query liveness timeouts (6 / 10 s, with retries up to 30 s)"""
    a = acts(b)
    return "QueryTimeout" in a or "UdpTimeout" in a


def nontrivial(b):
    a = acts(b)
    return "Call" in a and ("DialAbort" in a or "ConnClose" in a or "TcpRefuse" in a or "SrvClose" in a)


def signature(rec, info):
    """labelling only: the verdict is TLC's rejection of the recorded trace"""
    ev = info.get("event") or {}
    line = info.get("line_in_trace", 0)
    events = rec["events"]
    before = [e["ev"] for e in events[:line]]
    k = ev.get("ev")
    phase = "handshake" if (rec["kind"].startswith("tls") and "HsComplete" not in before and "Accepted" in before) else (
        "connect" if "Accepted" not in before else "established")
    if k in ("StillOpen", "Pending", "Goroutines"):
        after = "after-close" if "CLate" in before else "after-dial-timeout"
        what = {"StillOpen": "connection-not-closed", "Pending": "exchange-still-pending", "Goroutines": "goroutines-left"}[k]
        return "%s:%s:%s:%s" % (rec["kind"], what, after, phase)
    if k == "Return":
        if ev.get("k") == "other":
            return "%s:unrecognizable-reply-returned" % rec["kind"]
        if ev.get("k") == "tc":
            return "%s:truncated-udp-reply-returned-as-success" % rec["kind"]
        if ev.get("c") == 3:
            return "%s:call-after-close:%s%s" % (rec["kind"], ev.get("k"), "" if ev.get("fast") else ":slow")
        return "%s:return-%s-not-explained:%s" % (rec["kind"], ev.get("k"), phase)
    if k in ("Late", "CLate"):
        nxt = [e["ev"] for e in events[line:line + 4]]
        what = "exchange-still-pending" if "Pending" in nxt else ("connection-not-closed" if "StillOpen" in nxt else "work-pending")
        return "%s:%s:%s:%s" % (rec["kind"], what, "after-close" if k == "CLate" else "after-dial-timeout", phase)
    return "%s:rejected-at:%s" % (rec["kind"], k)


def timing_based(rec, info):
    ev = info.get("event") or {}
    line = info.get("line_in_trace", 0)
    before = [e["ev"] for e in rec["events"][:line]]
    return ev.get("ev") in TIMING_EVENTS or any(x in TIMING_EVENTS for x in before) or (ev.get("ev") == "Return" and ev.get("c") == 3)


def run_driver(ctx, binary, behs, workers, hang_bound_s=45):
    recs, _ = vlib.run_driver(ctx, binary, stdin_obj={"behaviours": behs, "workers": workers, "hang_bound_s": hang_bound_s}, timeout=1500)
    if len(recs) != len(behs):
        raise vlib.Infra("drv_updial returned %d results for %d scenarios" % (len(recs), len(behs)))
    recs.sort(key=lambda r: r["idx"])
    return recs


def check_records(ctx, recs, binary, reconfirm=True):
    for r in recs:
        if r["hang"]:
            sig = "%s:%s" % (r["kind"], r["hang_what"])
            if r["hang_what"] == "exchange-does-not-return":
                evs_ = [e["ev"] for e in r["events"]]
                returned = {e["c"] for e in r["events"] if e["ev"] == "Return"}
                answered_udp = {e["c"] for e in r["events"] if e["ev"] == "UdpAnswer"}
                stuck = {e["c"] for e in r["events"] if e["ev"] in ("Call", "CallLate")} - returned
                if r["kind"] == "udp" and answered_udp and stuck and not (stuck & answered_udp):
                    sig += ":unanswered-udp-query-after-another-reply-was-read"
                elif "Accepted" not in evs_:
                    sig += ":connect"
                elif r["kind"].startswith("tls") and "HsComplete" not in evs_:
                    sig += ":handshake"
                else:
                    sig += ":established"
            ctx.violation(sig, "%s upstream: %s (listen=%s)" % (r["kind"], r["hang_what"], r["listen"]), r)
    acc, rej = vlib.validate_traces(ctx, TRACE, "UpDial_Trace.cfg", [r["events"] for r in recs], label="UpDial")
    done = set()
    for idx, info in rej:
        r = recs[idx]
        sig = signature(r, info)
        if sig in done:
            continue
        done.add(sig)
        if reconfirm and timing_based(r, info):
            # the rejection rests on a real-time claim: re-run the scenario 3x with nothing else running
            rr = run_driver(ctx, binary, [r["beh"]] * 3, 3, hang_bound_s=14)    # the probes are taken at 8 s
            _, rej2 = vlib.validate_traces(ctx, TRACE, "UpDial_Trace.cfg", [x["events"] for x in rr], label="UpDial reconfirm")
            n = len(rej2) + sum(1 for i, x in enumerate(rr) if x["hang"] and i not in [j for j, _ in rej2])
            ctx.cov.setdefault("timing_reconfirmations", []).append({"signature": sig, "rejected_again": n, "of": 3})
            if n < 2:
                log("timing-based rejection %s not reproduced (%d/3): treated as a scheduler stall" % (sig, n))
                continue
        ctx.violation(sig, "real %s trace (listen=%s) is not a behaviour of UpDial.tla (rejected at event %s: %s)" % (
            r["kind"], r["listen"], info.get("line_in_trace"), {k: v for k, v in (info.get("event") or {}).items() if k != "sample"}), r)
    return acc, rej


def replay(ctx):
    d = vlib.json.load(open(ctx.replay))["replay"]
    binary = vlib.go_build(ctx, "drv_updial")
    recs = run_driver(ctx, binary, [d["beh"]] * 3, 3)
    ctx.cov["evaluations"] += len(recs)
    check_records(ctx, recs, binary, reconfirm=False)
    ctx.sample(recs[0]["events"])


def run_extra(ctx):
    if ctx.replay:
        return replay(ctx)
    T = ctx.thorough()
    ctx.assumptions += [
        "updial: real time enters through two claims of the harness only: 'Late' = more than dial timeout (5 s, code constant) + 3 s "
        "have passed since the last early call / accepted connection, 'CLate' = Close returned more than 3 s ago; a dial goroutine is "
        "assumed to start within that slack of its call; rejections after such an event are re-run 3x (>= 2 must reproduce); a call "
        "after Close must fail within 1 s; any exchange must return within 45 s (quick: 25 s; HEAD: 5 s dial, 6 s / 10 s query liveness, <= 2 retries)",
        "updial: an established connection with an unanswered query may be given up at any time (the transports' own liveness "
        "timeouts are checked at the transport level by C07), a call may be retried on another connection; the server side sees a "
        "client close as EOF / reset on loopback within the slack; goroutines are attributed to an upstream by pprof labels",
        "updial: socks5, bootstrap, SO_MARK / bind-to-device, DoH / DoQ dialling and domain-name hosts are not exercised here",
    ]
    # ---- leg A
    vlib.tlc_mc(ctx, SPEC, "UpDial_design1.cfg", label="UpDial design (1 call + late call, all kinds x listen modes): invariants + Terminates",
                workers=4, coverage=True, allow_zero_actions=("RetTc", "Retry"))
    vlib.tlc_mc(ctx, SPEC, "UpDial_design2.cfg", label="UpDial design (2 calls sharing a lazy tls dial, retry): invariants", workers=8)
    if T:
        vlib.tlc_mc(ctx, SPEC, "UpDial_live2.cfg", label="UpDial design (1 call, 2 dials, retry): invariants + Terminates", workers=8, timeout=900)
        vlib.tlc_mc(ctx, SPEC, "UpDial_design.cfg", label="UpDial design (2 calls + late call + cancel, all kinds): invariants", workers=8, timeout=1200)
    nv_done = []
    for dev, inv in NONVAC:
        if not T and (dev, inv) in (("HANDSHAKE_IGNORES_CTX", "CloseCancelsDial"), ("CLOSE_KEEPS_CONN", "CloseCancelsDial")):
            continue
        txt = cfg_with("UpDial_nonvac.cfg", Deviation='"%s"' % dev)
        txt = re.sub(r"(?m)^INVARIANTS .*$", "INVARIANTS " + inv, txt)
        nv = vlib.run_tlc(ctx, SPEC, "nv.cfg", cfg_text=txt, expect_violation=True, workers=1, name="nv_%s_%s" % (dev, inv))
        if nv["violated"] != inv:
            raise vlib.Infra("UpDial non-vacuity: deviation %s should violate %s, TLC reports %r" % (dev, inv, nv["violated"]))
        nv_done.append("%s->%s" % (dev, inv))
    ctx.cov.setdefault("non_vacuity_extra", {})["updial"] = nv_done

    # ---- leg B: simulated complete scenarios, stratified by shape
    rng = random.Random(ctx.seed)
    pool_ = []
    for calls, num in (("{1}", 1500), ("{1, 2}", 1500)):
        pool_ += vlib.tlc_behaviours(ctx, SPEC, "UpDial_gen.cfg", simulate=num * (4 if T else 1), depth=80, label="gen calls=" + calls,
                                     name="gen_%d" % len(calls), cfg_text=cfg_with("UpDial_gen.cfg", InitCalls=calls))
    pool_ = [b for b in pool_ if "Call" in acts(b)]
    def d17_shape(b):
        """udp: the call that opened the socket is never answered while another call on the same socket is (defect D17)"""
        if b["kind"] != "udp" or "Cancel" in acts(b):
            return False
        st = b["steps"]
        calls = [s_["c"] for s_ in st if s_["a"] == "Call"]
        silent = [s_["c"] for s_ in st if s_["a"] == "UdpTimeout"]
        full = [i for i, s_ in enumerate(st) if s_["a"] == "UdpAnswer" and not s_["tc"]]
        to = [i for i, s_ in enumerate(st) if s_["a"] == "UdpTimeout"]
        return len(calls) == 2 and len(silent) == 1 and calls[0] == silent[0] and bool(full) and full[0] < to[0] and \
            acts(b).index("Close") > to[0] and not any(s_["a"] == "UdpAnswer" and s_["tc"] for s_ in st)
    udp2 = vlib.tlc_behaviours(ctx, SPEC, "UpDial_gen.cfg", simulate=400, depth=80, label="gen udp, 2 calls", name="gen_udp2",
                               cfg_text=cfg_with("UpDial_gen.cfg", Kinds='{"udp"}', Listens='{"refuse"}', LateCall="0", EnvCancel="FALSE"))
    d17 = [b for b in pool_ + udp2 if d17_shape(b)]
    if not d17:
        raise vlib.Infra("updial: the generator produced no scenario of the D17 shape")
    if not T:
        pool_ = [b for b in pool_ if not (long_wait(b) and acts(b).count("Call") > 1)]
    # strata: what kind of fault the scenario contains; the ones in which a dial hangs (the quantifier of the property) come first
    def stratum(b):
        a = acts(b)
        env = set(a)
        hs_silent = b["kind"].startswith("tls") and "TcpAccept" in env and "HsComplete" not in env and "SrvClose" not in env
        hangs = ("Call" in env or "UdpAnswer" in env) and (hs_silent or (b["listen"] == "hang" and (b["kind"] != "udp" or any(
            s_["a"] == "UdpAnswer" and s_["tc"] for s_ in b["steps"]))))
        close_early = "Close" in a and ("Tick12" not in a or a.index("Close") < a.index("Tick12"))
        return (b["kind"], b["listen"], a.count("Call"), hangs, close_early, "Cancel" in env and a.count("Call") == 1,
                ("Answer" in env) + 2 * ("SrvClose" in env))
    groups = {}
    for b in pool_:
        groups.setdefault(stratum(b), []).append(b)
    keys = sorted(groups, key=repr)
    rng.shuffle(keys)
    keys.sort(key=lambda k: (not k[3], k[5], k[2]))     # hanging dials first, without cancel first, single call first
    want = 700 if T else min(230, max(170, len(keys) + 10))      # every stratum at least once
    for k in keys:
        rng.shuffle(groups[k])
    behs, rnd = [], 0
    while len(behs) < want and any(len(groups[k]) > rnd for k in keys):
        for k in keys:
            if len(groups[k]) > rnd and len(behs) < want:
                behs.append(groups[k][rnd])
        rnd += 1
    # a few scenarios that need a query liveness timeout of the transports (6 / 10 s): one per kind in quick
    have = {b["kind"] for b in behs if long_wait(b)}
    extra = [b for b in pool_ if long_wait(b) and (T or acts(b).count("Call") == 1)]
    rng.shuffle(extra)
    for b in extra:
        if b["kind"] not in have and b not in behs:
            have.add(b["kind"])
            behs.append(b)
    if d17 and not any(d17_shape(b) for b in behs):
        behs.append(rng.choice(d17))
    behs.sort(key=lambda b: -(10 * ("Tick12" in acts(b)) + 20 * long_wait(b)))        # long ones first
    log("replaying %d scenarios (%d shapes, %d strata; %d wait for the dial timeout, %d for a query liveness timeout)" % (
        len(behs), len({shape(b) for b in behs}), len(keys), sum("Tick12" in acts(b) for b in behs), sum(long_wait(b) for b in behs)))

    binary = vlib.go_build(ctx, "drv_updial")
    recs = run_driver(ctx, binary, behs, 200, hang_bound_s=45 if T else 25)   # quick has no scenario that legitimately needs > 15 s

    # ---- leg C first (rule 9), then steering statistics
    acc, rej = check_records(ctx, recs, binary)
    steered = [r for r in recs if r["steered"]]
    ctx.cov["evaluations"] += len(recs)
    ctx.cov["distinct_nontrivial"] += len({vlib.json.dumps(r["beh"], sort_keys=True) for r in steered if nontrivial(r["beh"])})
    ctx.cov.setdefault("extra", {})["updial"] = {
        "replayed": len(behs), "steered": len(steered), "accepted": acc, "rejected": len(rej), "shapes": len({shape(b) for b in behs}),
        "by_kind": {k: sum(1 for b in behs if b["kind"] == k) for k in sorted({b["kind"] for b in behs})},
        "rule": "nontrivial = a call whose dial was aborted / refused / closed by the server or whose connection was closed"}

    # ---- binding self-check
    if not rej and not ctx.violations:
        def find(pred):
            for r in steered:
                if pred(r["events"]):
                    return r["events"]
            return None
        evs = lambda es: [e["ev"] for e in es]
        t_a = find(lambda es: "Late" in evs(es) and "SrvSawClose" in evs(es) and es[0]["kind"].startswith("tls")
                   and "HsComplete" not in evs(es) and "SrvClose" not in evs(es) and evs(es).count("Call") == 1 and "Cancel" not in evs(es)
                   and "Close" in evs(es) and evs(es).index("SrvSawClose") < evs(es).index("Late") < evs(es).index("Close"))
        t_b = find(lambda es: any(e["ev"] == "Return" and e["k"] == "ok" for e in es))
        t_c = find(lambda es: any(e["ev"] == "Goroutines" for e in es) and "Accepted" in evs(es) and "SrvClose" not in evs(es)
                   and "SrvSawClose" in evs(es) and evs(es).count("Accepted") == 1)
        if not (t_a and t_b and t_c):
            raise vlib.Infra("drv_updial: no accepted traces of the shapes needed for the binding self-check")
        c1 = copy.deepcopy(t_a)            # the connection is still open after the dial timeout
        i = evs(c1).index("Late")
        c1 = [e for e in c1 if e["ev"] != "SrvSawClose"]
        i = evs(c1).index("Late")
        c1.insert(i + 1, {"ev": "StillOpen", "s": 1})
        c2 = copy.deepcopy(t_a)            # the exchange is still pending after the dial timeout
        i = evs(c2).index("Late")
        c2 = [e for e in c2[:i + 1] if not (e["ev"] == "Return" and e["c"] == 1)] + [{"ev": "Pending", "c": 1}]
        c3 = copy.deepcopy(t_b)            # success without an answer
        c3 = [e for e in c3 if e["ev"] != "Answer" and not (e["ev"] == "UdpAnswer")]
        c4 = copy.deepcopy(t_c)            # goroutines left after Close
        for e in c4:
            if e["ev"] == "Goroutines":
                e["n"] = 2
        c5 = copy.deepcopy(t_c)            # connection not closed after Close
        i = evs(c5).index("CLate")
        c5 = [e for e in c5 if e["ev"] != "SrvSawClose"]
        i = evs(c5).index("CLate")
        c5.insert(i + 1, {"ev": "StillOpen", "s": 1})
        vlib.assert_rejects(ctx, TRACE, "UpDial_Trace.cfg", [c1, c2, c3, c4, c5],
                            "updial: StillOpen after Late; Pending after Late; ok without Answer; Goroutines n=2 after CLate; StillOpen after CLate")
    if not ctx.violations and not ctx.known_hits and len(steered) < len(behs) // 2:
        raise vlib.Infra("drv_updial: only %d of %d scenarios steered: %s" % (
            len(steered), len(behs), [r.get("why") for r in recs if not r["steered"]][:3]))
    for r in steered[:1] + steered[-1:]:
        ctx.sample({"updial_trace": r["kind"] + "/" + r["listen"], "events": [{k: v for k, v in e.items() if k != "sample"} for e in r["events"]]})


def run_udp_fallback(ctx):
    """Small slice for C01 (added by the lead): udp upstream, truncated UDP reply, TCP side refusing / answering:
    what the caller gets must be a reply the server produced for its own query or an error - never a released
    (poisoned) or foreign buffer.  Same spec, driver and trace validation as run_extra, udp scenarios only."""
    if ctx.replay:
        return replay(ctx)
    T = ctx.thorough()
    rng = random.Random(ctx.seed)
    behs = vlib.tlc_behaviours(ctx, SPEC, "UpDial_gen.cfg", simulate=1200 if T else 500, depth=80, label="gen udp fallback (C01 slice)",
                               name="gen_udp_c01", cfg_text=cfg_with("UpDial_gen.cfg", Kinds='{"udp"}', LateCall="0", EnvCancel="FALSE"))
    behs = [b for b in behs if "Call" in acts(b) and any(s_["a"] == "UdpAnswer" and s_.get("tc") for s_ in b["steps"])
            and not long_wait(b) and "Tick12" not in acts(b)]
    rng.shuffle(behs)
    behs = behs[:(120 if T else 36)]
    if not behs:
        raise vlib.Infra("updial (C01 slice): the generator produced no udp scenario with a truncated reply")
    binary = vlib.go_build(ctx, "drv_updial")
    recs = run_driver(ctx, binary, behs, 64, hang_bound_s=25)
    acc, rej = check_records(ctx, recs, binary)
    ctx.cov["evaluations"] += len(recs)
    ctx.cov["distinct_nontrivial"] += len({vlib.json.dumps(r["beh"], sort_keys=True) for r in recs if r["steered"]})
    ctx.cov.setdefault("extra", {})["updial_udp_fallback"] = {"replayed": len(behs), "accepted": acc, "rejected": len(rej)}
