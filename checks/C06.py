"""C06 — sequences execute exactly as their rules say.
spec/Sequence.tla (+ Sequence_Trace.tla), harness/drv_sequence."""
import copy
import json
import random
import re
import vlib
from vlib import log

ALLK = '{"T", "F", "E"}'
BOTH = '{TRUE, FALSE}'

# bounded program spaces (TLC chooses the program: build phase of Sequence.tla)
PROFILES = {
    # control flow between two sequences
    "flow": dict(MaxSeq=2, MaxRules=2, MaxMatch=0, MKinds='{"T"}', Negs='{FALSE}',
                 Acts='{"nop", "accept", "return", "jump", "goto", "wpost", "reject"}', MaxMulti=1, MaxConc=1),
    # matcher lists: order, short circuit, negation, errors
    "match": dict(MaxSeq=1, MaxRules=2, MaxMatch=2, MKinds=ALLK, Negs=BOTH,
                  Acts='{"nop", "perr"}', MaxMulti=1, MaxConc=1),
    # wrapping plugins and their continuations (incl. pending jump returns)
    "wrap1": dict(MaxSeq=2, MaxRules=2, MaxMatch=0, MKinds='{"T"}', Negs='{FALSE}',
                  Acts='{"nop", "wstop", "wcont", "wpost", "wtwice", "wconc", "wkeep", "jump", "return"}', MaxMulti=1, MaxConc=1),
    # continuations kept by a wrapper and run after the call returned (pending jump returns, errors, post-processing)
    "keep": dict(MaxSeq=2, MaxRules=2, MaxMatch=0, MKinds='{"T"}', Negs='{FALSE}',
                 Acts='{"nop", "wkeep", "wpost", "perr", "jump", "return"}', MaxMulti=1, MaxConc=1),
    "keep3": dict(MaxSeq=3, MaxRules=2, MaxMatch=0, MKinds='{"T"}', Negs='{FALSE}',
                  Acts='{"nop", "wkeep", "jump"}', MaxMulti=1, MaxConc=1),
    # nesting over three sequences
    "flow3": dict(MaxSeq=3, MaxRules=2, MaxMatch=0, MKinds='{"T"}', Negs='{FALSE}',
                  Acts='{"nop", "accept", "return", "jump", "goto"}', MaxMulti=1, MaxConc=1),
    # thorough only
    "wrap2": dict(MaxSeq=2, MaxRules=2, MaxMatch=0, MKinds='{"T"}', Negs='{FALSE}',
                  Acts='{"nop", "wstop", "wcont", "wpost", "wtwice", "wconc", "wkeep", "jump", "return"}', MaxMulti=2, MaxConc=1),
    "mixed": dict(MaxSeq=2, MaxRules=2, MaxMatch=1, MKinds='{"F", "E"}', Negs=BOTH,
                  Acts='{"set", "accept", "jump", "goto", "wtwice"}', MaxMulti=1, MaxConc=1),
    "resp": dict(MaxSeq=2, MaxRules=3, MaxMatch=0, MKinds='{"T"}', Negs='{FALSE}',
                 Acts='{"set", "drop", "reject", "wpost", "jump"}', MaxMulti=1, MaxConc=1),
    # sampled with -simulate: everything at the full bound of DESIGN §4 C06
    "big": dict(MaxSeq=3, MaxRules=3, MaxMatch=2, MKinds=ALLK, Negs=BOTH,
                Acts='{"nop", "set", "drop", "perr", "wstop", "wcont", "wpost", "wtwice", "wconc", "wkeep", "accept", '
                     '"return", "reject", "jump", "goto"}', MaxMulti=2, MaxConc=1),
}

# (deviation switch, invariant that must fail, MaxMatch, Acts)
NONVAC = [
    ("neg_lost", "ActionNeedsMatch", 1, '{"nop"}'),
    ("neg_lost", "ShortCircuit", 2, '{"nop"}'),
    ("merr_swallowed", "ErrorAborts", 1, '{"nop"}'),
    ("jump_not_advanced", "InOrder", 1, '{"nop", "jump"}'),
    ("k_consumed", "ContinuationReusable", 0, '{"nop", "wtwice"}'),
    ("join_one", "Quiescent", 0, '{"nop", "wconc"}'),
    ("late_drops_return", "ContinuationReusable", 0, '{"nop", "jump", "wkeep"}'),
]


def cfg_with(name, consts, invariants=None):
    txt = open(vlib.VERIF + "/spec/" + name).read()
    for k, v in consts.items():
        txt, n = re.subn(r"(?m)^  %s = .*$" % k, "  %s = %s" % (k, v), txt)
        if n != 1:
            raise vlib.Infra("cfg template %s has no constant %s" % (name, k))
    if invariants:
        txt = re.sub(r"(?m)^INVARIANTS .*$", "INVARIANTS " + invariants, txt)
    return txt


def signature(r):
    return "%s:exp=%s:got=%s" % (r["field"], (r.get("exp") or "")[:40], (r.get("got") or "").split("\n")[0][:60])


def drive(ctx, binary, behs, variants, trace_every, only_variant=-1):
    job = {"behaviours": behs, "variants": variants, "trace_every": trace_every, "workers": 8,
           "only_variant": only_variant}
    recs, _ = vlib.run_driver(ctx, binary, stdin_obj=job, timeout=1500)
    return recs


def report(ctx, behs, recs):
    per, total = {}, 0
    for r in recs:
        if not r["ok"]:
            # a drastic deviation fails thousands of programs: keep two replays per signature, 40 in all
            sig = signature(r)
            per[sig] = per.get(sig, 0) + 1
            if per[sig] > 2 or total >= 40:
                continue
            total += 1
            ctx.violation(signature(r), "%s (variant %d): %s; expected %s, got %s; rules %s" % (
                r["field"], r["variant"], r["diff"], r.get("exp"), (r.get("got") or "")[:200], r.get("text")),
                {"beh": behs[r["i"]], "variant": r["variant"], "text": r.get("text")})


def replay(ctx):
    d = json.load(open(ctx.replay))["replay"]
    binary = vlib.go_build(ctx, "drv_sequence")
    recs = drive(ctx, binary, [d["beh"]], d["variant"] + 1, 1, only_variant=d["variant"])
    ctx.cov["evaluations"] = len(recs)
    report(ctx, [d["beh"]], recs)
    traces = [r["events"] for r in recs if r.get("events")]
    acc, rej = vlib.validate_traces(ctx, "Sequence_Trace", "Sequence_Trace.cfg", traces)
    for idx, info in rej:
        ctx.violation("trace-rejected:%s" % ev_short(info.get("event")), "replayed run is not a behaviour of Sequence.tla "
                      "(rejected at %s)" % info.get("event"), d)


def ev_short(e):
    if not e:
        return "?"
    if e.get("ev") == "L":
        return "%s-%s" % (e.get("t"), e.get("v"))
    return str(e.get("ev"))


def run(ctx):
    if ctx.replay:
        return replay(ctx)
    T = ctx.thorough()
    rng = random.Random(ctx.seed)
    ctx.assumptions += [
        "harness wrappers propagate an error of their continuation unchanged and run no post-step after it",
        "jump/goto graphs are acyclic (targets must exist when a sequence is built, so cycles cannot be configured)",
        "built-in actions are observed only through their effect on what runs next and on the response",
        "concurrent runs of a continuation use query copies (Context.Copy); per-copy logs are compared, the "
        "interleaving is free",
        "a kept continuation is run later on the copy of the query taken when it was kept, after (and for some text variants "
        "concurrently with) a second top-level run of the same sequences and an unrelated program's jumps",
    ]
    profiles = ["flow", "match", "wrap1", "keep", "flow3"] + (["keep3", "wrap2", "mixed", "resp"] if T else [])

    # ---- leg A (+ leg B generator: the same exhaustive run exports every program with its expected logs;
    # the terminal state of a program does not depend on the interleaving of concurrent copies)
    behs, per = [], {}
    INV = "TypeOK ActionNeedsMatch ShortCircuit ErrorAborts InOrder ContinuationReusable Quiescent Emit"
    for p in profiles:
        res = vlib.tlc_mc(ctx, "Sequence", "Sequence_design.cfg", name="design-" + p,
                          cfg_text=cfg_with("Sequence_design.cfg", PROFILES[p], INV),
                          label="design, program space '%s': C06 invariants + termination, all interleavings" % p, timeout=1200)
        seen = set()
        for b in res["behaviours"]:
            k = json.dumps(b, sort_keys=True)
            if k not in seen:
                seen.add(k)
                behs.append(b)
        per[p] = len(seen)
        log("program space '%s': %d programs exported" % (p, len(seen)))
    nv = []
    for bug, inv, mm, acts in NONVAC:
        res = vlib.run_tlc(ctx, "Sequence", "Sequence_nonvac.cfg", name="nonvac-%s-%s" % (bug, inv), workers=2,
                           expect_violation=True, timeout=300,
                           cfg_text=cfg_with("Sequence_nonvac.cfg", {"Bug": '"%s"' % bug, "MaxMatch": mm, "Acts": acts}, inv))
        if res["violated"] != inv:
            raise vlib.Infra("non-vacuity: expected %s to fail with Bug=%s, got %r" % (inv, bug, res["violated"]))
        nv.append("%s fails with Bug=%s" % (inv, bug))
    ctx.cov["non_vacuity"] = nv

    # ---- leg B generator for sampled programs at the full bound
    nsim = 12000 if T else 1500
    b = vlib.tlc_behaviours(ctx, "Sequence", "Sequence_gen.cfg", name="gen-big", cfg_text=cfg_with("Sequence_gen.cfg", PROFILES["big"]),
                            label="generator 'big' (sampled programs, 3x3x2, all actions)", simulate=nsim, depth=600, timeout=1200)
    per["big(sampled)"] = len(b)
    behs += b
    ctx.cov["programs_per_space"] = per
    if not behs:
        raise vlib.Infra("generators produced no behaviour")

    # ---- drive the real code
    binary = vlib.go_build(ctx, "drv_sequence")
    variants = 4 if T else 2
    total = len(behs) * variants
    trace_every = max(1, total // (1500 if T else 350))
    recs = drive(ctx, binary, behs, variants, trace_every)
    ctx.cov["evaluations"] = len(recs)
    ctx.cov["log_entries_compared"] = sum(r.get("entries", 0) for r in recs)
    nontrivial = {json.dumps(b["prog"], sort_keys=True) for b in behs if sum(len(s) for s in b["prog"]) >= 2}
    ctx.cov["distinct_nontrivial"] = len(nontrivial)
    ctx.cov["rule"] = ("evaluation = one TLC-generated program rendered to one rule-text variant, built with sequence.NewSequence, "
                       "executed, and its per-run logs / response / error compared with the behaviour; distinct_nontrivial = "
                       "distinct programs with >= 2 rules")
    ctx.cov["exhaustive"] = False
    report(ctx, behs, recs)

    # ---- leg C
    traced = [r for r in recs if r.get("events")]
    ok_traced = [r for r in traced if r["ok"]]
    rng.shuffle(ok_traced)
    acc, rej = vlib.validate_traces(ctx, "Sequence_Trace", "Sequence_Trace.cfg", [r["events"] for r in traced])
    for idx, info in rej:
        r = traced[idx]
        if not r["ok"]:
            continue  # already reported by the comparison with its own signature
        ctx.violation("trace-rejected:%s" % ev_short(info.get("event")),
                      "real run is not a behaviour of Sequence.tla satisfying C06 (rejected at event %s: %s)" % (
                          info.get("line_in_trace"), info.get("event")),
                      {"beh": behs[r["i"]], "variant": r["variant"], "text": r.get("text")})

    # binding self-check of the trace spec: corrupt one field / drop one event of accepted traces
    if not ctx.violations:
        cand = [r["events"] for r in ok_traced if sum(1 for e in r["events"] if e["ev"] == "L" and e["t"] == "m" and e["v"] != "E") >= 1
                and sum(1 for e in r["events"] if e["ev"] == "L") >= 3]
        if cand:
            t1 = copy.deepcopy(cand[0])
            for e in t1:
                if e["ev"] == "L" and e["t"] == "m" and e["v"] != "E":
                    e["v"] = "F" if e["v"] == "T" else "T"
                    break
            t2 = copy.deepcopy(cand[0])
            k = [i for i, e in enumerate(t2) if e["ev"] == "L"][0]
            del t2[k]
            t3 = copy.deepcopy(cand[0])
            t3[-1]["resp"] = 7 if t3[-1]["resp"] != 7 else 8
            vlib.assert_rejects(ctx, "Sequence_Trace", "Sequence_Trace.cfg", [t1, t2, t3],
                                "matcher result flipped; first logged entry removed; returned response changed")

    # dead-driver check last (guide §3 rule 9)
    if not ctx.violations and not ctx.known_hits and len(recs) != total:
        raise vlib.Infra("driver returned %d results for %d evaluations" % (len(recs), total))
    for r in (ok_traced[:3]):
        ctx.sample({"rules": r.get("text"), "events": r["events"][1:]})
