"""C17 — truncated UDP replies are retried over TCP.
spec/UdpFallback.tla (+ UdpFallback_Trace.tla), harness/drv_udpfb.

Leg A: TLC checks C17Inv + termination for every (tc, other bits, TCP behaviour); three non-vacuity runs
       (wrong bit tested / always / never fall back).
Leg B: TLC exports the admissible results per (tcp mode, tc, oth); the Go driver sweeps concrete header
       flag words and sizes through the real upstream.NewUpstream("udp://...") against harness UDP/TCP
       servers on one loopback address; results compared here.
Leg C: every recorded exchange (UdpQuery, UdpReply, TcpAccept, TcpQuery, TcpReply|TcpClose, Result) is
       validated by UdpFallback_Trace.tla.
"""
import copy
import json
import random

import vlib
from vlib import log

MODES = ("answers", "refuses", "fails")
SIZES = (12, 13, 17, 40, 255, 256, 511, 512, 513, 1232, 1472, 1473, 4094, 4095)
TCP_SIZES = (100, 300, 4096, 65535)


def abstract(word):
    return bool(word & 0x0200), bool(word & 0xFDFF)


def spread(k):
    """15-bit value k -> 16-bit flag word with TC (0x0200) clear"""
    return ((k >> 9) << 10) | (k & 0x1FF)


def sig(c, kind):
    tc, _ = abstract(c["word"])
    return "tc=%d:tcp=%s:result=%s%s" % (tc, c["mode"], kind, ":after-a-failed-tcp-retry-on-the-same-upstream" if c.get("prime") else "")


def build_cases(ctx, rng, T):
    words = []
    if T:
        words = list(range(65536))
    else:
        others = {0, 0x7FFF} | {1 << i for i in range(15)} | {rng.randrange(1 << 15) for _ in range(100)}
        for k in sorted(others):
            words += [spread(k), spread(k) | 0x0200]
    cases = []
    for w in words:
        if T:
            # every flag word against an answering TCP server; every 16th (plus all with few bits set)
            # also against refusing / failing ones
            ms = MODES if (w % 16 == 5 or bin(w).count("1") <= 2) else ("answers",)
        else:
            ms = MODES
        for m in ms:
            cases.append({"mode": m, "word": w})
    # every size with both TC values and every mode
    for s in SIZES:
        for tcbit in (0, 0x0200):
            for m in MODES:
                cases.append({"mode": m, "word": spread(rng.randrange(1 << 15)) | tcbit, "size": s})
    # history independence: the same upstream has just had a truncated exchange whose TCP retry failed (not recorded);
    # the recorded exchange must still follow ITS OWN UDP reply (TC => TCP)
    for k in range(24 if T else 8):
        for tcbit in (0, 0x0200):
            cases.append({"mode": "answers", "word": spread(rng.randrange(1 << 15)) | tcbit, "prime": "tcpfail"})
    for i, c in enumerate(cases):
        c["id"] = i
        c.setdefault("size", rng.choice(SIZES))
        c["tcp_size"] = rng.choice(TCP_SIZES)
        c["qv"] = rng.randrange(1000)
    return cases


def evaluate(ctx, expected, cases, recs):
    recs.sort(key=lambda r: r["id"])
    skipped = [r for r in recs if r.get("skipped")]
    inconcl = [r for r in recs if r.get("inconclusive") and not r.get("skipped")]
    good = [r for r in recs if not r.get("skipped") and not r.get("inconclusive")]
    for r in good:
        c = cases[r["id"]]
        if r.get("panic"):
            ctx.violation(sig(c, "panic"), "exchange panicked: %s" % r["panic"][:200], {"case": c, "observed": r})
            continue
        tc, oth = abstract(c["word"])
        exp = expected[(c["mode"], tc, oth)]
        if r["kind"] not in exp["results"] or not r["idok"]:
            ctx.violation(sig(c, r["kind"] if r["idok"] else r["kind"] + "+wrong-id"),
                          "UDP reply flags 0x%04x (TC=%d, %d bytes), TCP server %s: caller got %s (id ok: %s, err: %s), "
                          "admissible: %s; TCP accepts: %d" % (c["word"], tc, c["size"], c["mode"], r["kind"], r["idok"],
                                                               r.get("err"), sorted(exp["results"]), r["tcp_accepts"]),
                          {"case": c, "observed": r})
        elif not tc and r["tcp_accepts"]:
            ctx.violation(sig(c, r["kind"] + "+tcp-opened"),
                          "UDP reply flags 0x%04x without TC, yet %d TCP connection(s) were opened" % (
                              c["word"], r["tcp_accepts"]), {"case": c, "observed": r})
    # leg C on distinct event lists (the verdict depends on the event list only)
    distinct = {}
    for r in good:
        if r.get("panic"):
            continue
        distinct.setdefault(json.dumps(r["events"], sort_keys=True), []).append(r)
    keys = sorted(distinct)
    before = ctx.cov["traces_validated_against_impl"]
    acc, rej = vlib.validate_traces(ctx, "UdpFallback_Trace", "UdpFallback_Trace.cfg",
                                    [json.loads(k) for k in keys], chunk=20000, max_reject=12)
    bad = {i for i, _ in rej}
    if len(bad) < 12:   # all event lists were looked at: count every exchange whose event list was accepted
        ctx.cov["traces_validated_against_impl"] = before + sum(len(distinct[k]) for i, k in enumerate(keys) if i not in bad)
    ctx.cov["distinct_event_lists"] = len(keys)
    for idx, info in rej:
        r = distinct[keys[idx]][0]
        c = cases[r["id"]]
        ctx.violation(sig(c, r["kind"]) + ":trace",
                      "real exchange is not a behaviour of UdpFallback.tla satisfying C17 (rejected at event %s: %s; "
                      "flags 0x%04x, TCP server %s; %d exchanges with this event list)" % (
                          info.get("line_in_trace"), info.get("event"), c["word"], c["mode"], len(distinct[keys[idx]])),
                      {"case": c, "observed": r})
    if not ctx.violations and not ctx.known_hits and len(skipped) + len(inconcl) > max(3, len(recs) // 50):
        raise vlib.Infra("too many exchanges without a verdict: %d skipped (%s), %d inconclusive (%s)" % (
            len(skipped), skipped[0]["skipped"] if skipped else "", len(inconcl),
            inconcl[0]["inconclusive"] if inconcl else ""))
    return good, skipped, inconcl


def seq_schedules(ctx, T):
    """environment schedules of UdpFallbackSeq.tla: (a) all start/cancel/late-answer schedules of 3 truncated exchanges,
    (b) all schedules of 3 consecutive exchanges of any TC-ness with a stale duplicate of a finished exchange's UDP reply,
    (c) sampled orders of the burst shape: 4 overlapping exchanges -> 4 pooled connections, server closes all, 5th exchange"""
    a = vlib.tlc_behaviours(ctx, "UdpFallbackSeq", "UdpFallbackSeq_gen.cfg")
    b = vlib.tlc_behaviours(ctx, "UdpFallbackSeq", "UdpFallbackSeq_gen_dup.cfg")
    b = [x for x in b if any(s[0] == "dup" for s in x["steps"])]
    c = vlib.tlc_behaviours(ctx, "UdpFallbackSeq", "UdpFallbackSeq_gen_burst.cfg", simulate=200 if T else 40, depth=100)
    if len(a) < 20 or len(b) < 10 or len(c) < 5:
        raise vlib.Infra("sequence generators exported only %d / %d / %d schedules" % (len(a), len(b), len(c)))
    return a + b + c


def seq_sig(b, what):
    shape = "".join({"start": "s", "cancel": "c", "answer": "a", "dup": "d", "sclose": "x"}[s[0]] + str(s[1]) for s in b["steps"])
    if len(shape) > 40:
        shape = "burst%d" % len(b["result"])
    return "seq:%s:%s" % (what, shape)


def evaluate_seqs(ctx, behs, jobs, recs):
    """several exchanges on one upstream: leg B (result kinds from the TLC schedule, own reply) + leg C"""
    recs.sort(key=lambda r: r["id"])
    good = [r for r in recs if not r.get("skipped") and not r.get("inconclusive")]
    bad = [r for r in recs if r.get("skipped") or r.get("inconclusive")]
    for r in good:
        b = behs[jobs[r["id"]]["beh"]]
        for xr in r.get("results") or []:
            exp = b["result"][xr["x"] - 1]
            ok = xr["kind"] == exp and (xr["kind"] not in ("tcp", "udp") or (xr["for"] == xr["x"] and xr["idok"]))
            if not ok:
                what = "result=%s-for-%s" % (xr["kind"], "own" if xr.get("for") == xr["x"] else "other")
                ctx.violation(seq_sig(b, what),
                              "exchange %d of schedule %s on one upstream: caller got %s (reply to query %s, id ok %s, err %s), "
                              "the spec's schedule gives %s for its own query" % (
                                  xr["x"], b["steps"], xr["kind"], xr.get("for"), xr["idok"], xr.get("err"), exp),
                              {"seq": jobs[r["id"]], "beh": b, "observed": r})
    distinct = {}
    for r in good:
        distinct.setdefault(json.dumps(r["events"], sort_keys=True), []).append(r)
    keys = sorted(distinct)
    before = ctx.cov["traces_validated_against_impl"]
    acc, rej = vlib.validate_traces(ctx, "UdpFallbackSeq_Trace", "UdpFallbackSeq_Trace.cfg",
                                    [json.loads(k) for k in keys], chunk=20000, max_reject=8)
    badi = {i for i, _ in rej}
    if len(badi) < 8:
        ctx.cov["traces_validated_against_impl"] = before + sum(len(distinct[k]) for i, k in enumerate(keys) if i not in badi)
    for idx, info in rej:
        r = distinct[keys[idx]][0]
        b = behs[jobs[r["id"]]["beh"]]
        e = info.get("event") or {}
        ctx.violation(seq_sig(b, "trace-%s" % e.get("ev")),
                      "exchanges on one upstream: recorded run is not a behaviour of UdpFallbackSeq.tla in which every caller gets "
                      "the reply to its own query (rejected at event %s: %s; schedule %s)" % (
                          info.get("line_in_trace"), e, b["steps"]),
                      {"seq": jobs[r["id"]], "beh": b, "observed": r})
    return good, bad, keys


def expectations(ctx):
    behs = vlib.tlc_behaviours(ctx, "UdpFallback", "UdpFallback_gen.cfg")
    exp = {}
    for b in behs:
        e = exp.setdefault((b["mode"], b["tc"], b["oth"]), {"results": set(), "tcp": set()})
        e["results"].add(b["result"])
        e["tcp"].add(b["tcp"])
    if len(exp) != 12:
        raise vlib.Infra("generator exported %d classes, expected 12" % len(exp))
    return exp


def replay(ctx):
    d = json.load(open(ctx.replay))["replay"]
    binary = vlib.go_build(ctx, "drv_udpfb")
    if "seq" in d:
        behs = [d["beh"]]
        seqs = [{"id": i, "n": len(d["beh"]["result"]), "tc": d["beh"].get("tc", []), "steps": d["beh"]["steps"], "beh": 0}
                for i in range(8)]
        recs, _ = vlib.run_driver(ctx, binary, stdin_obj={"cases": [], "seqs": seqs, "workers": 4}, timeout=600)
        ctx.cov["evaluations"] = len(recs)
        evaluate_seqs(ctx, behs, seqs, recs)
        return
    exp = expectations(ctx)
    cases = []
    for i in range(5):
        c = dict(d["case"])
        c["id"] = i
        cases.append(c)
    recs, _ = vlib.run_driver(ctx, binary, stdin_obj={"cases": cases, "workers": 2}, timeout=300)
    ctx.cov["evaluations"] = len(recs)
    evaluate(ctx, exp, cases, recs)


def run(ctx):
    if ctx.replay:
        return replay(ctx)
    T = ctx.thorough()
    rng = random.Random(ctx.seed)
    ctx.assumptions += [
        "one exchange per freshly created upstream; UDP and TCP harness servers share one loopback address and port",
        "all header bits other than TC are abstracted to one boolean in the spec; concretely every 16-bit flag word "
        "(thorough) or TC x {none, all, each single bit, 100 random} (quick) is swept",
        "TC => the caller gets the outcome of the TCP exchange: its reply or its error, never the truncated reply as a success",
        "several exchanges on one upstream run one after the other (unique question each); a cancelled one is cancelled by the "
        "harness after the TCP server has read its query; the TCP server answers late and in order per connection",
        "burst runs: 4 overlapping truncated exchanges (4 pooled TCP connections), the TCP server half-closes every idle "
        "connection and the next exchange starts only after the server has seen the client close each of them",
        "duplicate runs: a second copy of a finished exchange's UDP reply (its wire id) is sent right before the reply to a "
        "later exchange of different TC-ness",
        "a UDP reply may be lost/dropped and the query resent (C02 concerns the loss, not C17)",
        "errors caused by the harness context ending (4 s) are retried and then counted as inconclusive, never as a verdict",
    ]
    vlib.tlc_mc(ctx, "UdpFallback", "UdpFallback_design.cfg", workers=1,
                label="design: C17 invariants + termination, all reply classes x TCP behaviours")
    for b in ("oth", "always", "never", "giveup_udp"):
        nv = vlib.run_tlc(ctx, "UdpFallback", "UdpFallback_pinned_%s.cfg" % b, expect_violation=True, workers=1)
        if nv["violated"] != "C17Inv":
            raise vlib.Infra("non-vacuity (%s): expected C17Inv to fail, got %r" % (b, nv["violated"]))
    ctx.cov["non_vacuity"] = ("C17Inv violated by TLC when the decision tests another bit / always / never falls back / a failed "
                              "TCP retry returns the truncated reply; C17SeqInv violated when a cancelled exchange idles its connection, when a "
                              "noticed close leaves the connection pooled, when a stale UDP duplicate is taken for the current exchange")
    vlib.tlc_mc(ctx, "UdpFallbackSeq", "UdpFallbackSeq_design.cfg", workers=1,
                label="design, 3 consecutive exchanges on one upstream: TC or not, cancel after the TCP query, late in-order "
                      "answers, stale UDP duplicates, connection pool")
    vlib.tlc_mc(ctx, "UdpFallbackSeq", "UdpFallbackSeq_design_overlap.cfg", workers=1,
                label="design, 3 overlapping truncated exchanges, server closes pooled connections, bounded retry")
    for dev in ("idle", "forget", "dup"):
        nv = vlib.run_tlc(ctx, "UdpFallbackSeq", "UdpFallbackSeq_pinned_%s.cfg" % dev, expect_violation=True, workers=1)
        if nv["violated"] != "C17SeqInv":
            raise vlib.Infra("non-vacuity (%s): expected C17SeqInv to fail, got %r" % (dev, nv["violated"]))
    exp = expectations(ctx)

    cases = build_cases(ctx, rng, T)
    log("running %d exchanges (%d distinct flag words)" % (len(cases), len({c["word"] for c in cases})))
    binary = vlib.go_build(ctx, "drv_udpfb")
    behs = seq_schedules(ctx, T)
    seqs = []
    for rep in range(20 if T else 3):
        for bi, b in enumerate(behs):
            seqs.append({"id": len(seqs), "n": len(b["result"]), "tc": b["tc"], "steps": b["steps"], "beh": bi})
    log("and %d multi-exchange runs (%d schedules of UdpFallbackSeq.tla)" % (len(seqs), len(behs)))
    recs, _ = vlib.run_driver(ctx, binary, stdin_obj={"cases": cases, "seqs": seqs, "workers": 16}, timeout=1500)
    if len(recs) != len(cases) + len(seqs):
        raise vlib.Infra("driver returned %d results for %d cases" % (len(recs), len(cases) + len(seqs)))
    recs1 = [r for r in recs if not r.get("seq")]
    recs2 = [r for r in recs if r.get("seq")]
    good, skipped, inconcl = evaluate(ctx, exp, cases, recs1)
    sgood, sbad, skeys = evaluate_seqs(ctx, behs, seqs, recs2)
    if not ctx.violations and not ctx.known_hits and len(sbad) > max(3, len(seqs) // 20):
        raise vlib.Infra("too many multi-exchange runs without a verdict: %d of %d (%s)" % (
            len(sbad), len(seqs), sbad[0].get("inconclusive") or sbad[0].get("skipped")))

    if not ctx.violations:
        sb = next(json.loads(k) for k in skeys if '"Cancel"' in k and k.count('"tcp"') >= 1)
        s1 = copy.deepcopy(sb)
        e = next(e for e in s1 if e["ev"] == "Result" and e["kind"] == "tcp")
        e["for"] = e["x"] % 3 + 1
        s2 = [e for e in copy.deepcopy(sb) if e["ev"] != "TcpReply"]
        # burst: the last exchange fails although every close had been noticed
        s3 = copy.deepcopy(next(json.loads(k) for k in skeys if '"CClosed"' in k))
        last = [e for e in s3 if e["ev"] == "Result"][-1]
        s3 = [e for e in s3 if not (e["ev"] in ("TcpAccept", "TcpQuery", "TcpReply") and s3.index(e) > max(
            i for i, f in enumerate(s3) if f["ev"] == "CClosed"))]
        last["kind"], last["for"] = "err", 0
        # dup: a non-truncated exchange is reported with the TCP reply
        s4 = copy.deepcopy(next(json.loads(k) for k in skeys if '"UdpDup"' in k and '"udp"' in k))
        e4 = next(e for e in s4 if e["ev"] == "Result" and e["kind"] == "udp")
        e4["kind"] = "tcp"
        vlib.assert_rejects(ctx, "UdpFallbackSeq_Trace", "UdpFallbackSeq_Trace.cfg", [s1, s2, s3, s4],
                            "Result.for changed to another exchange; TcpReply events removed; exchange after noticed closes "
                            "ends in an error without a TCP attempt; non-TC exchange reported with a TCP reply")
        base = next(r["events"] for r in good if r["kind"] == "tcp")
        b1 = copy.deepcopy(base)
        for e in b1:
            if e["ev"] == "Result":
                e["kind"] = "udp"
        b2 = [e for e in copy.deepcopy(base) if e["ev"] not in ("TcpAccept",)]
        b3 = copy.deepcopy(base)
        for e in b3:
            if e["ev"] == "TcpQuery":
                e["same"] = False
        base2 = next(r["events"] for r in good if r["kind"] == "udp")
        b4 = copy.deepcopy(base2)
        b4.insert(len(b4) - 1, {"ev": "TcpAccept"})
        vlib.assert_rejects(ctx, "UdpFallback_Trace", "UdpFallback_Trace.cfg", [b1, b2, b3, b4],
                            "Result tcp->udp; TcpAccept removed; TcpQuery.same=false; TcpAccept inserted into a non-TC exchange")

    ctx.cov["evaluations"] = len(good) + len(sgood)
    ctx.cov["multi_exchange_runs"] = len(sgood)
    ctx.cov["multi_exchange_schedules"] = len(behs)
    ctx.cov["distinct_nontrivial"] = len({(c["mode"], c["word"]) for c in (cases[r["id"]] for r in good)
                                          if c["word"] & 0x0200})
    ctx.cov["flag_words"] = len({cases[r["id"]]["word"] for r in good})
    ctx.cov["skipped"] = len(skipped)
    ctx.cov["inconclusive"] = len(inconcl)
    ctx.cov["rule"] = ("evaluation = one ExchangeContext of a fresh real udp upstream against scripted UDP/TCP servers; "
                       "distinct_nontrivial = distinct (TCP behaviour, flag word) pairs with the TC bit set, i.e. exchanges "
                       "that exercise the fallback")
    ctx.cov["exhaustive"] = bool(T)
    for r in good[:2] + [r for r in good if r["kind"] == "tcp"][:2]:
        ctx.sample({"case": cases[r["id"]], "kind": r["kind"], "events": r["events"]})
