"""C04 — a cached answer is only served to the same question.
spec/CachePlugin.tla (+ CachePlugin_MC, CachePlugin_Trace), harness/drv_cache (mode c04)."""
import json
import random

import cachelib as cl
import vlib
from vlib import log

SPEC = "CachePlugin_MC"
FIELDS = ["name", "type", "class", "ad", "cd", "do"]


def differs(q, owner):
    d = []
    if q["n"] != owner["n"]:
        d.append("name")
    if q["t"] != owner["t"]:
        d.append("type")
    if q["c"] != owner["c"]:
        d.append("class")
    if owner["f"] >= 0:
        for bit, nm in ((1, "ad"), (2, "cd"), (4, "do")):
            if (q["f"] & bit) != (owner["f"] & bit):
                d.append(nm)
    return d


def signature(rec):
    """the failing history shape: what the served entry's question and the query differ in."""
    for s in rec.get("steps", []):
        if s.get("ok", True) and rec["kind"] == "replay":
            continue
        o = s["ao"]
        if o["res"] == "joined":
            d = differs(s["q"], o["owner"])
            return "miss-answered-by-another-querys-exchange:differs-in=" + ("+".join(d) or "nothing")
        if s["q"].get("k", "std") != "std" and o["res"] not in ("bypass", "anomaly"):
            return "bypass-kind-%s-answered-from-cache-or-stored" % s["q"]["k"]
        if o["res"] == "hit":
            d = differs(s["q"], o["owner"])
            if d:
                return "hit-for-different-question:differs-in=" + "+".join(d)
            if not o.get("idok", True):
                return "hit-with-wrong-id"
            return "hit-serves-wrong-answer"
        if o["res"] == "anomaly":
            return "anomaly:" + s["o"].get("note", "")[:40]
        if s["q"].get("k", "std") != "std" and o["res"] != "bypass":
            return "bypass-kind-%s-answered-%s" % (s["q"]["k"], o["res"])
    return "trace-rejected"


def trace_of(rec, lazy=0):
    t = [cl.ev_reset(lazy, loose=[1])]
    for s in rec["steps"]:
        r = s.get("r")
        if not r or r.get("ttls") is None:      # records of the sweeps carry no scripted answer of their own
            r = RESP
        t.append(cl.ev_exec(1, s["q"], r, s["sid"], s["ao"]))
    return t


RESP = {"rc": 0, "tc": False, "nan": 1, "ttls": [300], "opt": False}


def lazy_signature(rec, info):
    e = info.get("event") or {}
    if e.get("ev") == "Exec" and e["o"]["res"] == "hit":
        o = e["o"]
        if str(o["owner"]["n"]).startswith("?"):
            return "hit-for-different-question:refresh-fetched-another-name:%s" % rec["tag"]
        d = differs(e["q"], o["owner"])
        if d:
            return "hit-for-different-question:differs-in=%s:%s" % ("+".join(d), rec["tag"])
    return "lazy-trace-rejected:%s:%s" % (e.get("ev"), rec["tag"])


def judge_lazy(ctx, recs, job):
    acc, rej = vlib.validate_traces(ctx, "CachePlugin_Trace", "CachePlugin_Trace.cfg", [r["events"] for r in recs], label="C04 lazy")
    for idx, info in rej:
        r = recs[idx]
        j = {"mode": "c04", "c04": {"behaviours": [], "maps": [], "lazy_beh": [job["c04"]["lazy_beh"][r["beh"]]],
                                    "lazy_map": job["c04"]["lazy_map"], "lazy_rounds": 3}}
        ctx.violation(lazy_signature(r, info), "real run of [rewrite-wrapper,] cache(lazy), next (%s, GOMAXPROCS(1)=%s) is not a behaviour of "
                      "CachePlugin.tla satisfying NoSharing: rejected at event %s: %s" % (
                          r["tag"], r.get("extra", {}).get("procs1"), info.get("line_in_trace"), json.dumps(info.get("event"))[:400]),
                      {"lazy_job": j, "events": r["events"][:14]})
    return acc, rej


def judge_restart(ctx, recs, job):
    acc, rej = vlib.validate_traces(ctx, "CachePlugin_Trace", "CachePlugin_Trace.cfg", [r["events"] for r in recs], label="C04 dump/reload")
    for idx, info in rej:
        r = recs[idx]
        e = info.get("event") or {}
        sig = "dump-reload:%s-rejected" % e.get("ev")
        if e.get("ev") == "Exec" and e["o"]["res"] == "hit":
            d = differs(e["q"], e["o"]["owner"])
            sig = "hit-for-different-question:after-dump-reload:differs-in=" + ("+".join(d) or "answer")
        j = {"mode": "c04", "c04": {"behaviours": [], "maps": job["c04"]["maps"], "restart_beh": [job["c04"]["restart_beh"][r["beh"]]],
                                    "restart_maps": [r["step"]]}}
        ctx.violation(sig, "real run with GET /dump + POST /load_dump (%s) is not a behaviour of CachePlugin.tla satisfying NoSharing: rejected at "
                      "event %s: %s" % (r["tag"], info.get("line_in_trace"), json.dumps(e)[:400]), {"restart_job": j, "events": r["events"][:14]})
    return acc, rej


def judge(ctx, recs, what):
    """leg C on detailed records; every rejected trace is a deviation of the real code."""
    traces = [trace_of(r) for r in recs]
    acc, rej = vlib.validate_traces(ctx, "CachePlugin_Trace", "CachePlugin_Trace.cfg", traces, label=what)
    for idx, info in rej:
        r = recs[idx]
        sig = signature(r)
        if r["kind"] == "overlap":
            sig += ":overlapping-queries"
        elif r["kind"] != "replay":
            sig += ":%s-sweep" % r["tag"].split("-")[1] if r["kind"] == "sweep" else ":mass"
        ctx.violation(sig, "real cache.Exec run is not a behaviour of CachePlugin.tla satisfying NoSharing "
                           "(map %s, rejected at event %s: %s)" % (r.get("tag"), info.get("line_in_trace"),
                                                                    json.dumps(info.get("event"))[:300]),
                      {"rec": r})
    return acc, rej


def replay(ctx):
    d = json.load(open(ctx.replay))["replay"]
    binary = vlib.go_build(ctx, "drv_cache")
    if "restart_job" in d:
        out, _ = vlib.run_driver(ctx, binary, stdin_obj=d["restart_job"])
        tr = [r for r in out if r["kind"] == "trace" and not r["slow"]]
        ctx.cov["evaluations"] = len(tr)
        judge_restart(ctx, tr, d["restart_job"])
        return
    if "lazy_job" in d:
        out, _ = vlib.run_driver(ctx, binary, stdin_obj=d["lazy_job"])
        tr = [r for r in out if r["kind"] == "trace" and not r["slow"]]
        ctx.cov["evaluations"] = len(tr)
        judge_lazy(ctx, tr, d["lazy_job"])
        return
    rec = d["rec"]
    steps = [{"a": "Exec", "i": 1, "q": s["q"], "r": RESP, "o": {"res": "na", "owner": s["q"], "id": 0}} for s in rec["steps"]]
    m = rec.get("mapv") or d.get("map")
    job = {"mode": "c04", "c04": {"behaviours": [{"lazy": 0, "steps": steps}], "maps": [m], "detail": True}}
    if rec.get("kind") == "overlap":
        job["c04"]["pairs"] = [[0, 0]]
        job["c04"]["overlap"] = [[0, 0]] * 5
    out, _ = vlib.run_driver(ctx, binary, stdin_obj=job)
    recs = [r for r in out if r["kind"] in (("overlap",) if rec.get("kind") == "overlap" else ("replay",))]
    for r in recs:
        r["mapv"] = m
    ctx.cov["evaluations"] = len(recs)
    judge(ctx, recs, "replay")
    ctx.sample(recs[0]["steps"])


def run(ctx):
    if ctx.replay:
        return replay(ctx)
    T = ctx.thorough()
    rng = random.Random(ctx.seed)
    ctx.assumptions += [
        "'query' is the message the cache plugin receives (qCtx.Q()); DO is set on the query-side OPT",
        "names are compared byte-wise in presentation format; two spellings of one DNS name (case, \\DDD escapes) are never "
        "used as DISTINCT abstract names (sharing between equal questions is allowed, not required)",
        "a miss where the model could hit is accepted (a cache may forget); only served answers are judged",
        "mass sweep: 65536 values in one instance are judged by TLC's expectation for the 2-symbol behaviour "
        "S(a) S(b) L(a) L(b) (the spec treats types/classes as uninterpreted symbols)",
    ]
    # ---- leg A
    if T:
        vlib.tlc_mc(ctx, SPEC, "CachePlugin_c04.cfg", label="C04 design: 2 names x 3 types x 2 classes x 8 flag sets, <= 3 Exec")
        vlib.tlc_mc(ctx, SPEC, "c04_deep.cfg", cfg_text=cl.cfg(MaxOps="4", Names='{"n1"}', Kinds='{"std", "qr"}'),
                    label="C04 design: 1 name x 2 types x 2 classes x 8 flag sets x {std, qr}, <= 4 Exec")
    else:
        vlib.tlc_mc(ctx, SPEC, "c04_quick.cfg", cfg_text=cl.cfg(MaxOps="3"),
                    label="C04 design: 2 names x 2 types x 2 classes x 8 flag sets, <= 3 Exec")
    small = dict(Flags="{0, 1, 2, 4}", MaxOps="2")
    nv = []
    for f in (FIELDS if T else ["type", "class", "do"]):
        kf = "{" + ", ".join('"%s"' % x for x in FIELDS if x != f) + "}"
        res = vlib.run_tlc(ctx, SPEC, "nv_%s.cfg" % f, cfg_text=cl.cfg(inv="NoSharing", KeyFields=kf, **small),
                           expect_violation=True, workers=1)
        if res["violated"] != "NoSharing":
            raise vlib.Infra("non-vacuity: key without %s should violate NoSharing, got %r" % (f, res["violated"]))
        nv.append(f)
    LZ = dict(Names='{"n1", "n2"}', Types='{"t1"}', Classes='{"c1"}', Flags="{0}", Resps="<- RespsC04L", LazyTTLs="{50}", Ticks="{10}",
              MaxNow="30", OpKinds='{"exec", "tick", "refresh"}')
    vlib.tlc_mc(ctx, SPEC, "c04_lazy.cfg", cfg_text=cl.cfg(MaxOps="6" if T else "5", **LZ),
                label="C04 design: lazy cache, entries written by background refreshes")
    res = vlib.run_tlc(ctx, SPEC, "nv_refresh.cfg", cfg_text=cl.cfg(inv="NoSharing", MaxOps="5", **dict(LZ, RefreshOwner='"other"')),
                       expect_violation=True, workers=2)
    if res["violated"] != "NoSharing":
        raise vlib.Infra("non-vacuity: a refresh fetching another question should violate NoSharing, got %r" % res["violated"])
    ctx.cov["non_vacuity"] = ("NoSharing is violated by TLC when any one of %s is dropped from KeyFields, and when a background refresh "
                              "stores the answer to another question under the looked-up key" % nv)

    # ---- leg B generators
    g2 = vlib.tlc_behaviours(ctx, SPEC, "gen2.cfg", cfg_text=cl.cfg(gen=True, MaxOps="2"), label="C04 gen: all ordered pairs")
    g4 = vlib.tlc_behaviours(ctx, SPEC, "gen4.cfg", label="C04 gen: all 4-op sequences over 8 questions",
                             cfg_text=cl.cfg(gen=True, MaxOps="4", Names='{"n1"}', Flags="{0, 4}"))
    gb = vlib.tlc_behaviours(ctx, SPEC, "genb.cfg", label="C04 gen: bypass kinds",
                             cfg_text=cl.cfg(gen=True, MaxOps="3", Names='{"n1"}', Types='{"t1"}', Classes='{"c1"}', Flags="{0, 4}",
                                             Kinds='{"std", "qr", "opcode", "noq", "twoq"}'))
    gs = vlib.tlc_behaviours(ctx, SPEC, "gens.cfg", simulate=1500 if T else 200, depth=8, label="C04 gen: random 6-op",
                             cfg_text=cl.cfg(gen=True, MaxOps="6", Types='{"t1", "t2", "t3"}'))
    if len(g2) != 4096 or len(g4) != 4096:
        raise vlib.Infra("generator: expected 4096 + 4096 exhaustive behaviours, got %d + %d" % (len(g2), len(g4)))
    behs = g2 + g4 + gb + gs
    maps = cl.all_maps()
    if not T:
        # quick: every pair under every map; the longer sequences under a seeded third of the maps
        pairs = [(bi, mi) for bi in range(len(g2)) for mi in range(len(maps))]
        for bi in range(len(g2), len(behs)):
            for mi in rng.sample(range(len(maps)), 12):
                pairs.append((bi, mi))
    else:
        pairs = [(bi, mi) for bi in range(len(behs)) for mi in range(len(maps))]

    # sweeps: the same abstract behaviour per concrete value
    def pick(seq, dim):
        """index of the behaviour whose query sequence is `seq` over a/b differing only in dim"""
        a = {"n": "n1", "t": "t1", "c": "c1", "f": 0, "k": "std"}
        b = dict(a)
        b["t" if dim == "type" else "c"] = "t2" if dim == "type" else "c2"
        want = [a if ch == "a" else b for ch in seq]
        for i, x in enumerate(behs):
            if [s["q"] for s in x["steps"]] == want:
                return i
        raise vlib.Infra("generator did not produce the %s behaviour %s" % (dim, seq))
    partners = ["add256", "xor256", "xorhi", "xorlo", "swap", "lowonly", "hionly", "neg", "xor8000", "inc", "zero", "max", "shl8"]
    if not T:
        partners = partners[:9]
    seqs = ["ab"] if not T else ["ab", "abab", "abba", "aabb", "baab"]
    sweeps, mass = [], []
    base = cl.plain_map()
    for dim in ("type", "class"):
        for sq in seqs:
            sweeps.append({"dim": dim, "beh": pick(sq, dim), "base": base, "sym_a": "t1" if dim == "type" else "c1",
                           "sym_b": "t2" if dim == "type" else "c2", "partners": partners, "lo": 0, "hi": 65535})
        for rev in (False, True):
            mass.append({"dim": dim, "beh": pick("abab", dim), "base": base, "reverse": rev})

    # lazy composition: [rewrite-and-restore plugin,] cache(lazy), next
    gl = vlib.tlc_behaviours(ctx, SPEC, "gen_lazy.cfg", cfg_text=cl.cfg(gen=True, MaxOps="6", **LZ), label="C04 gen: lazy refresh (exhaustive)")

    def lazy_ok(b):
        st = b["steps"]
        f = [i for i, s in enumerate(st) if s["a"] == "Exec" and s["o"]["res"] == "stale"]
        if not f:
            return False
        rest = [s["a"] for s in st[f[0]:]]
        return "RefreshEnd" in rest and "Tick" not in rest[:rest.index("RefreshEnd") + 1]
    gl = [b for b in gl if lazy_ok(b)]
    rng.shuffle(gl)
    gl = gl[:150 if T else 30]
    if len(gl) < 20:
        raise vlib.Infra("lazy generator produced only %d usable behaviours" % len(gl))

    # overlapping queries: every ordered pair with the same name/type/class (equal or different flags) + seeded other pairs, held
    # inside `next` so that both are in flight at once
    same_ntc = [bi for bi in range(len(g2)) if all(g2[bi]["steps"][0]["q"][k] == g2[bi]["steps"][1]["q"][k] for k in ("n", "t", "c"))]
    other = rng.sample([bi for bi in range(len(g2)) if bi not in set(same_ntc)], 300)
    flagmaps = [mi for mi, mp in enumerate(maps) if mp["tag"].startswith(("flags:", "optpos:"))]
    overlap = [(bi, mi) for bi in same_ntc + other for mi in (rng.sample(flagmaps, 6 if T else 2) + [0])]
    # dump / reload between the operations (two instances)
    RS = dict(Names='{"n1"}', Types='{"t1", "t2"}', Classes='{"c1"}', Flags="{0}", Insts="{1, 2}", OpKinds='{"exec", "dump", "load"}')
    vlib.tlc_mc(ctx, SPEC, "c04_restart.cfg", cfg_text=cl.cfg(MaxOps="7" if T else "6", **RS), label="C04 design: dump/reload between operations")
    gr = vlib.tlc_behaviours(ctx, SPEC, "gen_restart.cfg", cfg_text=cl.cfg(gen=True, MaxOps="5", **RS), label="C04 gen: dump/reload (exhaustive)")

    def restart_ok(b):
        st = b["steps"]
        kinds = [s["a"] for s in st]
        if "Dump" not in kinds or "Load" not in kinds:
            return False
        d0 = kinds.index("Dump")
        if "Load" not in kinds[d0:]:
            return False
        l0 = d0 + kinds[d0:].index("Load")
        stored = {cl.beh_key(s["q"]) for s in st[:d0] if s["a"] == "Exec" and s["i"] == st[d0]["i"]}
        # at least two different stored questions, and one of them looked up on the reloaded instance
        return len(stored) >= 2 and any(s["a"] == "Exec" and s["i"] == st[l0]["j"] and cl.beh_key(s["q"]) in stored for s in st[l0:])
    gr = [b for b in gr if restart_ok(b)]
    rng.shuffle(gr)
    gr = gr[:400 if T else 60]
    if len(gr) < 8:
        raise vlib.Infra("dump/reload generator produced only %d usable behaviours" % len(gr))
    rmaps = [0] + rng.sample(range(len(maps)), 24 if T else 7)

    binary = vlib.go_build(ctx, "drv_cache")
    job = {"mode": "c04", "c04": {"behaviours": behs, "maps": maps, "pairs": pairs, "detail": False, "sweeps": sweeps, "mass": mass,
                                  "lazy_beh": gl, "lazy_map": cl.plain_map(), "lazy_rounds": 2 if T else 1,
                                  "overlap": overlap, "restart_beh": gr, "restart_maps": rmaps}}
    recs, _ = vlib.run_driver(ctx, binary, stdin_obj=job, timeout=1500)
    restart_tr = [r for r in recs if r["kind"] == "trace" and not r["slow"] and r["tag"].startswith("restart:")]
    lazy_tr = [r for r in recs if r["kind"] == "trace" and not r["slow"] and not r["tag"].startswith("restart:")]
    recs = [r for r in recs if r["kind"] != "trace"]
    summ = [r for r in recs if r["kind"] == "summary"]
    if len(summ) != 1:
        raise vlib.Infra("driver returned no summary")
    summ = summ[0]
    bad = [r for r in recs if r["kind"] != "summary"]
    log("replayed %d (behaviour x concretization) runs incl. sweeps, %d hits, %d not equal to TLC's expectation" % (
        summ["n"], summ.get("hits", 0), summ.get("mism", 0)))

    # ---- leg C: a seeded sample of all replays in detail + every mismatch; TLC decides
    sample = rng.sample(pairs, 400 if not T else 3000)
    job2 = {"mode": "c04", "c04": {"behaviours": behs, "maps": maps, "pairs": sample, "detail": True}}
    det, _ = vlib.run_driver(ctx, binary, stdin_obj=job2, timeout=900)
    det = [r for r in det if r["kind"] == "replay"]
    if len(det) != len(sample):
        raise vlib.Infra("driver returned %d detailed replays for %d" % (len(det), len(sample)))
    # group mismatches by signature so that one defect costs few TLC runs
    by_sig = {}
    for r in bad:
        by_sig.setdefault((signature(r), r["kind"], r["tag"].split(":")[0]), []).append(r)
    worst = [v[0] for v in by_sig.values()][:40]
    for r in worst + det:
        if r["kind"] == "replay":
            r["mapv"] = maps[r["map"]]
    acc, rej = judge(ctx, det + worst, "C04 replays")
    acc2, rej2 = judge_lazy(ctx, lazy_tr, job)
    acc3, rej3 = judge_restart(ctx, restart_tr, job)
    rej = rej + rej2 + rej3
    if not rej3 and len(restart_tr) < len(gr) * len(rmaps) * 3 // 4:
        raise vlib.Infra("dead dump/reload leg: %d traces for %d behaviours x %d maps" % (len(restart_tr), len(gr), len(rmaps)))
    ctx.cov["dump_reload_runs"] = len(restart_tr)
    ctx.cov["overlapping_pairs"] = len(overlap)
    if not rej2:
        nbg = sum(r.get("extra", {}).get("background", 0) for r in lazy_tr)
        if len(lazy_tr) < len(gl) or nbg < len(lazy_tr) // 2:
            raise vlib.Infra("dead lazy leg: %d traces for %d behaviours, %d background refreshes" % (len(lazy_tr), len(gl), nbg))
        ctx.cov["lazy_compositions"] = len(lazy_tr)
    if not rej:
        def corrupt(t):
            for e in t:
                if e["ev"] == "Exec" and e["o"]["res"] == "hit":
                    e["o"]["owner"]["t"] = "t2" if e["o"]["owner"]["t"] == "t1" else "t1"
                    return t
            return None
        cl.binding_selfcheck(ctx, [trace_of(r) for r in det], corrupt, "hit owner type")
    # liveness of the harness itself: only after leg C, so that a drastic mutant is a VIOLATION, not exit 2
    if not rej and summ.get("hits", 0) < summ["n"] // 50:
        raise vlib.Infra("dead driver: only %d hits in %d replays" % (summ.get("hits", 0), summ["n"]))
    ctx.cov["evaluations"] = summ["n"]
    ctx.cov["replay_mismatches"] = summ.get("mism", 0)
    ctx.cov["distinct_nontrivial"] = len({cl.beh_key([s["q"] for s in b["steps"]]) for b in behs
                                           if len({cl.beh_key(s["q"]) for s in b["steps"]}) >= 2})
    ctx.cov["rule"] = ("evaluations = (abstract behaviour x concretization map) replays through the real cache.Exec incl. the "
                       "per-value sweeps over all 65536 types and classes x %d partner functions and 4 mass runs; "
                       "distinct_nontrivial = distinct abstract behaviours with >= 2 different questions" % len(partners))
    ctx.cov["exhaustive"] = False
    ctx.cov["maps"] = len(maps)
    if bad and not rej:
        log("note: %d replays differ from the generator's expectation but are behaviours of the spec (miss instead of hit)" % len(bad))
    for r in (worst[:2] + det[:2]):
        ctx.sample({"tag": r["tag"], "match": r["match"], "steps": [{"q": s["q"], "cq": s["cq"], "obs": s["ao"]} for s in r["steps"]]})
