"""Extra coverage for C01 (and the termination part of C07): stream-per-query transports
pkg/upstream/doh/upstream.go (DoH / DoH3: one HTTP request per query) and pkg/upstream/transport/conn_quic.go (DoQ).
spec/StreamPerQuery.tla (+ _Trace), harness/drv_stream.  run_extra(ctx) is meant to be called from checks/C01.py."""
import copy
import random
import re
import vlib
from vlib import log

SPEC = "StreamPerQuery"
TRACE = "StreamPerQuery_Trace"

CANCEL_BOUND_MS = 3000

NONVAC = [  # (deviation switch, section, property expected to fail, cfg template)
    ("SHARED_REQUEST", "INVARIANTS", "RequestIsOwnQuery", "StreamPerQuery_nonvac.cfg"),
    ("SHARED_REQUEST", "INVARIANTS", "OwnReply", "StreamPerQuery_nonvac.cfg"),
    ("NO_ID_RESTORE", "INVARIANTS", "OwnReply", "StreamPerQuery_nonvac.cfg"),
    ("NO_WIRE_ZERO", "INVARIANTS", "WireIdZero", "StreamPerQuery_nonvac.cfg"),
    ("INPLACE_ZERO", "INVARIANTS", "CallerBufferUntouched", "StreamPerQuery_nonvac.cfg"),
    ("BAD_AS_OK", "INVARIANTS", "ErrOnBadReply", "StreamPerQuery_nonvac.cfg"),
    ("NO_CTX", "PROPERTIES", "CtxEnds", "StreamPerQuery_nonvac_ctx.cfg"),
    ("none", "PROPERTIES", "Terminates", "StreamPerQuery_nonvac_ctx.cfg"),   # silent server and no own timeout
]


def cfg_with(name, **kv):
    txt = open("%s/spec/%s" % (vlib.VERIF, name)).read()
    for k, v in kv.items():
        txt, n = re.subn(r"(?m)^(\s*%s\s*=\s*).*$" % re.escape(k), lambda m: m.group(1) + v, txt)
        if n != 1:
            raise vlib.Infra("cfg template %s has no constant %s" % (name, k))
    return txt


def owner_of(events, upto, serial):
    for e in events[:upto]:
        if e["ev"] == "ReqEntry" and e["s"] == serial:
            return e["c"] or e["q"]
    return 0


def signature(rec, info):
    """Names the failing history shape (labelling only: the verdict is TLC's rejection of the trace)."""
    tr = rec["transport"]
    ev = info.get("event") or {}
    events = rec["events"]
    line = info.get("line_in_trace", 0)
    kind = ev.get("ev")
    if kind in ("ReqEntry", "ReqRelease"):
        at = "entry" if kind == "ReqEntry" else "release"
        if not ev.get("bufok", True):
            return "%s:caller-buffer-modified:at-request-%s" % (tr, at)
        if ev.get("q") == 0:
            return "%s:request-not-decodable:at-%s" % (tr, at)
        if ev.get("wid") != 0:
            return "%s:wire-id-not-zero:at-%s" % (tr, at)
        own = ev.get("c") if kind == "ReqEntry" else owner_of(events, line, ev.get("s"))
        if own and ev.get("q") != own:
            return "%s:request-carries-another-calls-query:at-%s" % (tr, at)
        return "%s:request-not-explained:at-%s" % (tr, at)
    if kind == "Return":
        c = ev.get("c")
        if not ev.get("bufok", True):
            return "%s:caller-buffer-modified:at-return" % tr
        call = [e for e in events[:line] if e["ev"] == "Call" and e["c"] == c]
        if ev.get("k") in ("ok", "garbage"):
            srv = [e for e in events[:line] if e["ev"] in ("Respond", "Abort") and e["s"] == ev.get("s")]
            if ev.get("k") == "ok" and ev.get("q") != c:
                return "%s:foreign-reply-returned" % tr
            if srv and srv[-1]["k"] != ev.get("k"):
                return "%s:bad-reply-returned-as-success:%s" % (tr, srv[-1]["k"])
            if call and call[-1]["id"] != ev.get("id"):
                return "%s:caller-id-not-restored:%s" % (tr, "id0" if ev.get("id") == 0 else "other-id")
            return "%s:reply-of-another-stream-returned" % tr
        if ev.get("k") == "err":
            return "%s:error-without-fault" % tr
        return "%s:unrecognizable-reply-returned" % tr
    if kind == "End":
        return "%s:caller-buffer-modified:after-return" % tr
    return "%s:rejected-at:%s" % (tr, kind)


def concretize(behs, rng, transports=("doh", "doq")):
    out = []
    for b in behs:
        for tr in transports:
            b2 = dict(b)
            b2["transport"] = tr
            b2["variant"] = rng.randrange(4)
            out.append(b2)
    return out


def n_timeouts(b):
    return sum(1 for s in b["steps"] if s["a"] == "Abort" and s["k"] == "timeout")


def live_timeouts(b):
    """timeout steps the driver really has to wait for (the caller has not been cancelled before)"""
    gone, n = set(), 0
    for s in b["steps"]:
        if s["a"] in ("ReturnCtx", "Return"):
            gone.add(s["c"])
        elif s["a"] == "Abort" and s["k"] == "timeout" and s["c"] not in gone:
            n += 1
    return n


def nontrivial(b):
    """>= 2 calls whose requests are in the transport at the same time"""
    open_, best = set(), 0
    for s in b["steps"]:
        if s["a"] == "Send":
            open_.add(s["c"])
        elif s["a"] in ("Respond", "Abort"):
            open_.discard(s["c"])
        best = max(best, len(open_))
    return best >= 2


def check_records(ctx, recs, binary):
    """leg C + hang verdicts on driver records; returns rejected list"""
    for r in recs:
        if r["hang"]:
            ctx.violation("%s:%s" % (r["transport"], r["hang_what"]),
                          "%s exchange did not return (%s)" % (r["transport"], r["hang_what"]), r)
    acc, rej = vlib.validate_traces(ctx, TRACE, "StreamPerQuery_Trace.cfg", [r["events"] for r in recs], label="StreamPerQuery")
    for idx, info in rej:
        r = recs[idx]
        ctx.violation(signature(r, info),
                      "real %s trace is not a behaviour of StreamPerQuery.tla satisfying C01/C07 (rejected at event %s: %s)" % (
                          r["transport"], info.get("line_in_trace"), info.get("event")), r)
    # C07 "promptly after its context is cancelled": real time, generous (3 s; the transports' own timeout is 6 s),
    # re-confirmed serially so that a scheduler stall on a loaded machine cannot raise an alarm
    late = [r for r in recs if r["kind"] == "replay" and r.get("cancel_ms", 0) > CANCEL_BOUND_MS and not r["hang"]]
    seen = set()
    for r in late:
        if r["transport"] in seen:
            continue
        seen.add(r["transport"])
        rr, _ = vlib.run_driver(ctx, binary, stdin_obj={"behaviours": [r["beh"]] * 3, "random": 0, "workers": 1})
        n = sum(1 for x in rr if x.get("cancel_ms", 0) > CANCEL_BOUND_MS or x["hang"])
        ctx.cov.setdefault("timing_reconfirmations", []).append({"what": "cancel latency", "transport": r["transport"],
                                                                 "first_ms": r["cancel_ms"], "reproduced": n, "of": 3})
        if n >= 2:
            ctx.violation("%s:call-does-not-return-promptly-after-cancel" % r["transport"],
                          "%s exchange returned %d ms after its context was cancelled (bound %d ms; reproduced %d/3 serially)" % (
                              r["transport"], r["cancel_ms"], CANCEL_BOUND_MS, n), r)
        else:
            log("cancel latency %d ms not reproduced (%d/3): treated as a scheduler stall" % (r["cancel_ms"], n))
    return acc, rej


def replay(ctx):
    d = vlib.json.load(open(ctx.replay))["replay"]
    binary = vlib.go_build(ctx, "drv_stream")
    if d.get("beh"):
        job = {"behaviours": [d["beh"]] * 5, "random": 0, "workers": 5}
    else:
        job = {"behaviours": [], "random": 300, "workers": 16}
    recs, _ = vlib.run_driver(ctx, binary, stdin_obj=job)
    ctx.cov["evaluations"] += len(recs)
    check_records(ctx, recs, binary)
    ctx.sample(recs[0]["events"])


def run_extra(ctx):
    if ctx.replay:
        return replay(ctx)
    T = ctx.thorough()
    ctx.assumptions += [
        "stream-per-query: the harness RoundTripper / fake quic.Stream is the transport AND the server: a reply of another stream "
        "cannot appear on a stream (HTTP/2, HTTP/3 and QUIC stream demultiplexing is trusted); what is checked is what the mosdns "
        "code puts on its stream and what it returns from it.  DoH over HTTP/3 differs from HTTP/2 only in the RoundTripper handed "
        "to doh.NewUpstream, so one binding covers both",
        "stream-per-query: a request is identified by its question (a refactoring may pad or re-encode the query; GET ?dns= and POST "
        "bodies are both decoded); a reply is identified by its bytes after the ID",
        "stream-per-query: bytes that are no DNS message (>= 12 bytes) may be returned (ID overwritten) or rejected; an error on a "
        "call that took >= 1 s is accepted without a visible fault (own timers); the transport's own timeout must end a call on a "
        "silent server within 36 s real time (code constants: 6 s)",
    ]
    # ---- leg A
    vlib.tlc_mc(ctx, SPEC, "StreamPerQuery_design.cfg", label="StreamPerQuery design (2 callers): invariants + Terminates + CtxEnds",
                workers=4, coverage=True)
    vlib.tlc_mc(ctx, SPEC, "StreamPerQuery_live_silent.cfg", label="StreamPerQuery: silent server, no timeout: CtxEnds", workers=2)
    if T:
        vlib.tlc_mc(ctx, SPEC, "StreamPerQuery_design3.cfg", label="StreamPerQuery design (3 callers): invariants", workers=8)
    nv_done = []
    for dev, section, prop, tpl in NONVAC:
        txt = cfg_with(tpl, Deviation='"%s"' % dev)
        txt = re.sub(r"(?m)^(INVARIANTS|PROPERTIES) .*\n", "", txt)
        txt = txt.replace("CHECK_DEADLOCK", "%s %s\nCHECK_DEADLOCK" % (section, prop))
        nv = vlib.run_tlc(ctx, SPEC, "nv.cfg", cfg_text=txt, expect_violation=True, workers=1, name="nv_%s_%s" % (dev, prop))
        if nv["violated"] != prop:
            raise vlib.Infra("StreamPerQuery non-vacuity: deviation %s should violate %s, TLC reports %r" % (dev, prop, nv["violated"]))
        nv_done.append("%s->%s" % (dev, prop))
    ctx.cov.setdefault("non_vacuity_extra", {})["stream_per_query"] = nv_done

    # ---- leg B generators
    rng = random.Random(ctx.seed)
    behs = []
    scale = 4 if T else 1
    # pure reply orders: 2..4 callers, every reply good
    for callers, num in (("{1, 2}", 60), ("{1, 2, 3}", 120), ("{1, 2, 3, 4}", 120)):
        behs += vlib.tlc_behaviours(ctx, SPEC, "StreamPerQuery_gen.cfg", simulate=num * scale, depth=60, label="gen orders " + callers,
                                    name="gen_order_%d" % len(callers),
                                    cfg_text=cfg_with("StreamPerQuery_gen.cfg", Callers=callers, Kinds='{"ok"}', EnvCancel="FALSE", EnvAbort="FALSE"))
    # all reply kinds + cancel
    for callers, num in (("{1, 2}", 80), ("{1, 2, 3}", 160)):
        behs += vlib.tlc_behaviours(ctx, SPEC, "StreamPerQuery_gen.cfg", simulate=num * scale, depth=60, label="gen kinds " + callers,
                                    name="gen_kinds_%d" % len(callers),
                                    cfg_text=cfg_with("StreamPerQuery_gen.cfg", Callers=callers, EnvAbort="FALSE"))
    # everything incl. resets and the transport's own timeout (real 6 s: only a few of them)
    mixed = vlib.tlc_behaviours(ctx, SPEC, "StreamPerQuery_gen.cfg", simulate=500 * scale, depth=60, label="gen mixed")
    rng.shuffle(mixed)
    no_to = [b for b in mixed if n_timeouts(b) == 0]
    with_to = [b for b in mixed if live_timeouts(b) == 1 and n_timeouts(b) == 1]
    behs += no_to[:(600 if T else 150)]
    slow = with_to[:(24 if T else 6)]
    jobs = concretize(slow, rng) + concretize(behs, rng)          # slow ones first: they run in parallel with the rest
    log("replaying %d behaviours x {doh, doq} (%d with a real transport timeout)" % (len(behs) + len(slow), len(slow)))

    binary = vlib.go_build(ctx, "drv_stream")
    job = {"behaviours": jobs, "random": 1500 if T else 300, "workers": 24, "timeout_bound_s": 36}
    recs, _ = vlib.run_driver(ctx, binary, stdin_obj=job, timeout=1500)
    if len(recs) != len(jobs) + job["random"]:
        raise vlib.Infra("drv_stream returned %d results for %d jobs" % (len(recs), len(jobs) + job["random"]))
    recs.sort(key=lambda r: r["idx"])

    # ---- leg C (before any dead-driver verdict: rule 9)
    acc, rej = check_records(ctx, recs, binary)
    steered = [r for r in recs if r["kind"] == "replay" and r["steered"]]
    ctx.cov["evaluations"] += len(recs)
    ctx.cov["distinct_nontrivial"] += len({vlib.json.dumps(r["beh"], sort_keys=True) for r in steered if nontrivial(r["beh"])})
    ctx.cov.setdefault("extra", {})["stream_per_query"] = {
        "replayed": len(jobs), "steered": len(steered), "random": job["random"], "accepted": acc, "rejected": len(rej),
        "with_real_timeout": 2 * len(slow),
        "rule": "nontrivial = steered schedule with >= 2 requests inside the transport at the same time"}

    # ---- binding self-check: corrupt single fields of accepted traces
    if not rej and not ctx.violations:
        good = [r["events"] for r in steered if sum(1 for e in r["events"] if e["ev"] == "Return" and e["k"] == "ok") >= 2]
        if good:
            base = good[0]
            rets = [i for i, e in enumerate(base) if e["ev"] == "Return" and e["k"] == "ok"]
            t1 = copy.deepcopy(base)
            t1[rets[0]]["id"] = (t1[rets[0]]["id"] + 1) % 65536                      # ID not the caller's
            t2 = copy.deepcopy(base)
            t2[rets[0]]["s"], t2[rets[1]]["s"] = t2[rets[1]]["s"], t2[rets[0]]["s"]  # replies of two streams swapped
            t3 = copy.deepcopy(base)
            k = [i for i, e in enumerate(t3) if e["ev"] == "ReqRelease"][0]
            t3[k]["q"] = t3[k]["q"] % 2 + 1                                          # server received another call's question
            t4 = copy.deepcopy(base)
            k = [i for i, e in enumerate(t4) if e["ev"] == "ReqEntry"][0]
            t4[k]["wid"] = 7                                                         # wire ID not zero
            t5 = copy.deepcopy(base)
            k = [i for i, e in enumerate(t5) if e["ev"] == "Respond" and e["k"] == "ok"][0]
            t5[k]["k"] = "status"                                                    # success on a bad status
            t6 = copy.deepcopy(base)
            t6[-1]["bufok"] = False                                                  # caller's buffer modified
            vlib.assert_rejects(ctx, TRACE, "StreamPerQuery_Trace.cfg", [t1, t2, t3, t4, t5, t6],
                                "stream-per-query: Return id+1; Return streams swapped; ReqRelease question changed; ReqEntry wire id 7; "
                                "Respond ok->status; End bufok=false")
        else:
            raise vlib.Infra("drv_stream: no accepted trace with two successful calls to corrupt")
    if not ctx.violations and not ctx.known_hits and len(steered) < len(jobs) // 2:
        raise vlib.Infra("drv_stream: only %d of %d behaviours steered: %s" % (
            len(steered), len(jobs), [r.get("why") for r in recs if r["kind"] == "replay" and not r["steered"]][:3]))
    for r in steered[len(slow) * 2:len(slow) * 2 + 1] + [x for x in recs if x["kind"] == "random"][:1]:
        ctx.sample({"stream_per_query_trace": r["transport"], "events": r["events"]})
