"""Extra coverage (attached to C03): dual_selector (prefer_ipv4/prefer_ipv6).
spec/DualSelector.tla (+ _Trace), harness/drv_dualsel.  run_extra(ctx) can be called from C03."""
import copy
import random
import vlib
from vlib import log


def signature(events, bad_line):
    # the call that contains the rejected line
    call, k = [], None
    for i, e in enumerate(events):
        if e["ev"] == "Call":
            if i >= bad_line:
                break
            call, k = [], e["k"]
        call.append(e)
    d = {"k": k, "ref": "na", "org": "na", "dir": "na", "res": "none", "o": "", "qok": True}
    for e in call:
        if e["ev"] == "RefFinish":
            d["ref"] = e["o"]
        elif e["ev"] == "OrgFinish":
            d["org"] = e["o"]
        elif e["ev"] == "DirectFinish":
            d["dir"] = e["o"]
        elif e["ev"] == "Return":
            d["res"], d["o"], d["qok"] = e["res"], e.get("o", ""), e["qok"]
    return "dual_selector:kind=%(k)s:ref=%(ref)s:org=%(org)s:direct=%(dir)s:result=%(res)s/%(o)s:qok=%(qok)s" % d


def run_extra(ctx):
    T = ctx.thorough()
    ctx.assumptions += [
        "dual_selector: the 500 ms reference wait is a code constant; 'timer has not fired' is derived from events logged "
        "< 250 ms after the original query was released; cache TTL (1 h) and size are not exercised",
    ]
    vlib.tlc_mc(ctx, "DualSelector", "DualSelector_design.cfg", label="DualSelector design: invariants + CallEnds", workers=4, coverage=True)
    nv = vlib.run_tlc(ctx, "DualSelector", "DualSelector_nonvac.cfg", expect_violation=True, workers=1)
    if nv["violated"] != "CacheSound":
        raise vlib.Infra("DualSelector non-vacuity: expected CacheSound to fail, got %r" % nv["violated"])
    rng = random.Random(ctx.seed)
    b1 = vlib.tlc_behaviours(ctx, "DualSelector", "DualSelector_gen1.cfg")
    notimer = [b for b in b1 if not any(s["a"] == "TimerFire" for s in b["steps"])]
    timer = [b for b in b1 if any(s["a"] == "TimerFire" for s in b["steps"])]
    rng.shuffle(timer)
    b2 = vlib.tlc_behaviours(ctx, "DualSelector", "DualSelector_gen.cfg", simulate=4000 if T else 600, depth=30)
    b2 = [b for b in b2 if sum(1 for s in b["steps"] if s["a"] == "TimerFire") <= (1 if T else 0)]
    rng.shuffle(b2)
    behs = notimer + timer[:(len(timer) if T else 48)] + b2[:(1500 if T else 250)]
    binary = vlib.go_build(ctx, "drv_dualsel")
    job = {"behaviours": behs, "random": 1200 if T else 250, "workers": 16}
    recs, _ = vlib.run_driver(ctx, binary, stdin_obj=job, timeout=1500)
    if len(recs) != len(behs) + job["random"]:
        raise vlib.Infra("drv_dualsel returned %d results for %d jobs" % (len(recs), len(behs) + job["random"]))
    for r in recs:
        if r["hang"]:
            ctx.violation("dual_selector:call-does-not-return", "Selector.Exec did not return after its context ended", r)
    acc, rej = vlib.validate_traces(ctx, "DualSelector_Trace", "DualSelector_Trace.cfg", [r["events"] for r in recs])
    for idx, info in rej:
        r = recs[idx]
        ctx.violation(signature(r["events"], info.get("line_in_trace", 0)),
                      "real trace is not a behaviour of DualSelector.tla (rejected at event %s: %s)" % (
                          info.get("line_in_trace"), info.get("event")), r)
    steered = [r for r in recs if r["kind"] == "replay" and r["steered"]]
    ctx.cov["evaluations"] += len(recs)
    ctx.cov["distinct_nontrivial"] += len({vlib.json.dumps(r["beh"], sort_keys=True) for r in steered
                                            if any(s["a"] == "RefFinish" for s in r["beh"]["steps"])})
    ctx.cov.setdefault("extra", {})["dual_selector"] = {
        "replayed": len(behs), "steered": len(steered), "random": job["random"], "accepted": acc, "rejected": len(rej)}
    if not rej:
        good = [r["events"] for r in steered if any(e["ev"] == "Return" and e["res"] == "blocked" for e in r["events"])
                and any(e["ev"] == "RefFinish" for e in r["events"])]
        if good:
            t = copy.deepcopy(good[0])
            for e in t:
                if e["ev"] == "RefFinish":
                    e["o"] = "hasnot"
            vlib.assert_rejects(ctx, "DualSelector_Trace", "DualSelector_Trace.cfg", [t],
                                "RefFinish outcome has->hasnot in a blocked call")
    if not ctx.violations and len(steered) < len(behs) // 2:
        raise vlib.Infra("drv_dualsel: only %d of %d behaviours steered: %s" % (
            len(steered), len(behs), [r.get("why") for r in recs if not r["steered"]][:3]))
    for r in steered[:1] + [x for x in recs if x["kind"] == "random"][:1]:
        ctx.sample({"dual_selector_trace": r["events"]})


def run(ctx):
    ctx.cov["rule"] = "dual_selector schedules from DualSelector.tla replayed + random runs; nontrivial = has a reference query"
    run_extra(ctx)
