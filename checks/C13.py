"""C13 — IP sets contain exactly the addresses their prefixes cover.
spec/IPSet.tla (+ IPSet_Trace.tla), harness/drv_ipset.

Leg A: TLC proves Pipeline(list) == Contains(list, .) for every ordered list within bounds
       (normalise -> unstable sort -> merge -> binary search vs. the contract), plus non-vacuity runs.
Leg B: TLC enumerates every multiset of abstract prefixes with the expected answer for EVERY abstract
       address; drv_ipset replays each under all embeddings x load orders x APIs and compares.
Leg C: seeded random concrete runs (and a sample of the replays) are recorded as concrete strings, mapped
       back into the abstract universe HERE (inverse embedding, independent of the Go concretizer) and
       validated by TLC against IPSet_Trace.tla.
"""
import ipaddress
import json
import os
import re

import vlib
from vlib import log

os.environ.setdefault("JAVA_TOOL_OPTIONS", "-Xmn1g")   # TLC allocates fast; a tiny young generation thrashes the GC

L4 = 1


def cfg(name, **repl):
    txt = open(os.path.join(vlib.VERIF, "spec", name)).read()
    for k, v in repl.items():
        txt, n = re.subn(r"(?m)^(\s*%s\s*=\s*).*$" % re.escape(k), lambda m: m.group(1) + v, txt)
        if n != 1:
            raise vlib.Infra("cfg %s has no constant %s" % (name, k))
    return txt


# --------------------------------------------------------------------------- abstraction (leg C)
class Unmappable(Exception):
    pass


def _top(val, n, total):
    return val >> (total - n) if n > 0 else 0


def abstract_run(run):
    """concrete events -> abstract events of IPSet_Trace (raises Unmappable)."""
    E = run["emb"]
    W, l4, off, o4, mixed = E["W"], E["L4"], E["off"], E["o4"], E["kind"] == "mixed"
    w4 = W - l4
    base = int(ipaddress.IPv6Address(E["base"]))
    base4 = base & 0xFFFFFFFF
    b4 = (base >> (128 - off - l4)) & ((1 << l4) - 1) if mixed else 0
    out = []
    for ev in run["events"]:
        k = ev["ev"]
        if k == "New":
            out.append({"ev": "New", "b4": b4})
        elif k == "Sort":
            out.append({"ev": "Sort"})
        elif k == "Append":
            s = ev["p"]
            if "%" in s:
                raise Unmappable("zoned")
            a, _, n = s.partition("/")
            ip = ipaddress.ip_address(a)
            if ip.version == 4:
                n = int(n) if n else 32
                v = int(ip)
                if not mixed or n < o4 or n > o4 + w4:
                    raise Unmappable(s)
                if _top(v, o4, 32) == _top(base4, o4, 32):
                    out.append({"ev": "Append", "fam": "v4", "base": (v >> (32 - o4 - w4)) & ((1 << w4) - 1), "len": n - o4})
                elif o4 - l4 > 0 and _top(v, o4 - l4, 32) != _top(base4, o4 - l4, 32):
                    out.append({"ev": "AppendOutside"})
                else:
                    raise Unmappable(s)
            else:
                n = int(n) if n else 128
                v = int(ip)
                if n < off:
                    if _top(v, n, 128) == _top(base, n, 128):
                        out.append({"ev": "Append", "fam": "v6", "base": 0, "len": 0})
                    else:
                        out.append({"ev": "AppendOutside"})
                elif _top(v, off, 128) != _top(base, off, 128):
                    out.append({"ev": "AppendOutside"})
                elif n <= off + W:
                    out.append({"ev": "Append", "fam": "v6", "base": (v >> (128 - off - W)) & ((1 << W) - 1), "len": n - off})
                else:
                    raise Unmappable(s)
        elif k == "Contains":
            ip = ipaddress.ip_address(ev["a"])
            v = int(ip)
            if ip.version == 4:
                if not mixed or _top(v, o4, 32) != _top(base4, o4, 32):
                    continue   # outside the universe: not judged
                out.append({"ev": "Contains", "fam": "v4", "v": (v >> (32 - o4 - w4)) & ((1 << w4) - 1), "r": ev["r"]})
            else:
                if _top(v, off, 128) != _top(base, off, 128):
                    continue
                out.append({"ev": "Contains", "fam": "v6", "v": (v >> (128 - off - W)) & ((1 << W) - 1), "r": ev["r"]})
        else:
            raise vlib.Infra("unknown event %r" % ev)
    return out


def trace_signature(abs_events, line):
    ps = [[e["fam"], e["base"], e["len"]] for e in abs_events[:line] if e["ev"] == "Append"]
    ev = abs_events[line - 1] if 0 < line <= len(abs_events) else {}
    return "trace:ps=%s:q=%s/%s:got=%s" % (json.dumps(ps, separators=(",", ":")), ev.get("fam"), ev.get("v"), ev.get("r"))


def mismatch_signature(m):
    if not m.get("beh"):
        return "%s:%s" % (m["api"], m["got"][:60])
    return "%s:b4=%d:ps=%s:q=%s/%d:got=%s" % (m["api"], m["beh"]["b4"], json.dumps(m["beh"]["ps"], separators=(",", ":")),
                                              m["fam"], m["v"], m["got"][:40])


# --------------------------------------------------------------------------- driver rounds
def drive(ctx, binary, W, behs, random=0, trace_sample=0, perm_limit=24, seed=None, light=False):
    job = {"W": W, "L4": L4, "behaviours": behs, "random": random, "random_w": W, "trace_sample": trace_sample,
           "perm_limit": perm_limit, "max_mismatch": 40, "light": light}
    env = {"VERIF_SEED": str(seed)} if seed is not None else None
    recs, _ = vlib.run_driver(ctx, binary, stdin_obj=job, timeout=1700, env_extra=env)
    summ = [r for r in recs if r.get("kind") == "summary"]
    if len(summ) != 1 or summ[0]["behaviours"] != len(behs):
        raise vlib.Infra("driver returned no/incomplete summary")
    mism = [r for r in recs if r.get("kind") == "mismatch"]
    runs = [r for r in recs if r.get("kind") == "run"]
    return summ[0], mism, runs


def report_mismatches(ctx, W, mism):
    # smallest rule set first: the most specific failing input
    mism.sort(key=lambda m: (len((m.get("beh") or {}).get("ps") or []), json.dumps(m, sort_keys=True)))
    seen = set()
    for m in mism:
        key = (m["api"], json.dumps((m.get("beh") or {}).get("ps")))
        if key in seen:
            continue
        seen.add(key)
        if len(seen) > 3:
            break
        ctx.violation(mismatch_signature(m),
                      "%s: rules %s, address %s (abstract %s/%s): real code answered %s, IPSet.tla expects %s" % (
                          m["api"], m["rules"], m.get("addr"), m.get("fam"), m.get("v"), m["got"], m.get("want")),
                      {"mode": "beh", "W": W, "beh": m.get("beh"), "seed": ctx.seed, "mismatch": m})


def validate_runs(ctx, W, runs, label):
    """leg C; returns number of Contains events judged."""
    cfgname = "IPSet_Trace.cfg" if W == 4 else "IPSet_Trace_w5.cfg"
    traces, kept, unmapped, judged = [], [], 0, 0
    for r in runs:
        try:
            a = abstract_run(r)
        except Unmappable:
            unmapped += 1
            continue
        if r.get("beh"):
            # harness self-consistency: the abstraction must give back the behaviour's multiset
            got = sorted([int(e["fam"] == "v4"), e["base"] if e["len"] else 0, e["len"]] for e in a if e["ev"] == "Append")
            want = sorted([p[0], p[1] if p[2] else 0, p[2]] for p in r["beh"]["ps"])
            if got != want:
                raise vlib.Infra("abstraction of a replayed run does not give back its behaviour: %s vs %s" % (got, want))
        judged += sum(1 for e in a if e["ev"] == "Contains")
        traces.append(a)
        kept.append(r)
    acc, rej = vlib.validate_traces(ctx, "IPSet_Trace", cfgname, traces, label=label, chunk=20000)
    for idx, info in rej:
        line = info.get("line_in_trace") or 0
        ctx.violation(trace_signature(traces[idx], line),
                      "recorded run of netlist.List is not a behaviour of IPSet.tla (rejected at event %s %s; concrete run: %s)" % (
                          line, info.get("event"), json.dumps(kept[idx]["events"])[:600]),
                      {"mode": "trace", "W": W, "run": kept[idx], "abstract": traces[idx], "seed": ctx.seed})
    if not ctx.violations and runs and unmapped > len(runs) // 4:
        raise vlib.Infra("%d of %d recorded runs could not be mapped back to the abstract universe" % (unmapped, len(runs)))
    ctx.cov["runs_unmappable"] = ctx.cov.get("runs_unmappable", 0) + unmapped
    return judged, traces


def binding_selfcheck(ctx, W, traces):
    """guide rule 4: corrupting one recorded field of an accepted trace must make TLC reject it."""
    for t in traces:
        idx = [i for i, e in enumerate(t) if e["ev"] == "Contains"]
        if len(idx) >= 2 and any(e["ev"] == "Append" for e in t):
            bad = json.loads(json.dumps(t))
            i = idx[len(idx) // 2]
            bad[i]["r"] = not bad[i]["r"]
            path = os.path.join(ctx.work, "corrupt.ndjson")
            vlib.write_ndjson(path, bad)
            ok, info = vlib.tlc_trace(ctx, "IPSet_Trace", "IPSet_Trace.cfg" if W == 4 else "IPSet_Trace_w5.cfg", path, name="corrupt")
            if ok:
                raise vlib.Infra("trace spec does not bind: a trace with a flipped Contains result was accepted")
            ctx.cov["binding_selfcheck"] = "trace with one flipped Contains result rejected at line %s" % info.get("hwm")
            return
    raise vlib.Infra("no trace suitable for the binding self-check")


# --------------------------------------------------------------------------- replay
def replay(ctx):
    d = json.load(open(ctx.replay))["replay"]
    binary = vlib.go_build(ctx, "drv_ipset")
    if d["mode"] == "beh":
        summ, mism, _ = drive(ctx, binary, d["W"], [d["beh"]] if d.get("beh") else [], random=0 if d.get("beh") else 400,
                              seed=d["seed"])
        ctx.cov["evaluations"] = summ["queries"]
        report_mismatches(ctx, d["W"], mism)
    else:
        # re-run the same seeded random runs and the recorded run itself through TLC
        summ, mism, runs = drive(ctx, binary, d["W"], [], random=400, seed=d["seed"])
        report_mismatches(ctx, d["W"], mism)
        same = [r for r in runs if r["events"] == d["run"]["events"]]
        log("replay: the saved run was%s reproduced by the driver" % ("" if same else " NOT"))
        judged, _ = validate_runs(ctx, d["W"], runs, "replay")
        ctx.cov["evaluations"] = judged


# --------------------------------------------------------------------------- main
def run(ctx):
    if ctx.replay:
        return replay(ctx)
    T = ctx.thorough()
    ctx.assumptions += [
        "abstract universe: W-bit v6 space (W=4,5) with the v4 space identified with one half (L4=1) of it; "
        "expected answers come only from IPSet.tla (TLC); Go concretizes, drives, compares",
        "embeddings: v4 bit offsets {0,8,13,24,32-W4}, v6 bit offsets {0,60,64,96,128-W}; upper bits fixed per run, "
        "lower bits host bits (random / all 0 / all 1); a defect tied to a concrete bit pattern outside these maps can be missed",
        "zoned IPv6 addresses and invalid netip.Prefix values are outside the quantifier",
        "netip parsing/printing, sort.Sort and TLC are trusted",
    ]
    # ---- leg A
    vlib.tlc_mc(ctx, "IPSet", "IPSet_design.cfg", label="W=4, masked prefixes, ordered lists <= 3, any Append/Sort interleaving: Pipeline == Contains")
    vlib.tlc_mc(ctx, "IPSet", "IPSet_design_host.cfg", label="W=4, arbitrary host bits, ordered lists <= 2")
    if T:
        vlib.tlc_mc(ctx, "IPSet", "IPSet_design_host3.cfg", label="W=4, arbitrary host bits, ordered lists <= 3", timeout=1200)
        vlib.tlc_mc(ctx, "IPSet", "IPSet_design_w5.cfg", label="W=5, masked, ordered lists <= 3", timeout=1200)
        vlib.tlc_mc(ctx, "IPSet", "IPSet_design_w5.cfg", label="W=5, host bits, lists <= 6 (simulation)", simulate=1000, depth=12, workers=4,
                    cfg_text=cfg("IPSet_design_w5.cfg", MaxLen="6", HostBits="TRUE"))
    for c, what in (("IPSet_pinned_longer.cfg", "merge keeps the longer of two equal-base prefixes"),
                    ("IPSet_pinned_nomask.cfg", "Masked() omitted")):
        nv = vlib.run_tlc(ctx, "IPSet", c, expect_violation=True)
        if nv["violated"] != "PipelineOK":
            raise vlib.Infra("non-vacuity run %s: expected PipelineOK to fail, got %r" % (c, nv["violated"]))
    ctx.cov["non_vacuity"] = "PipelineOK is violated by TLC when the merge keeps the longer prefix and when masking is omitted"

    # ---- leg B generators
    gens = []   # (W, behaviours, exhaustive?)
    b = vlib.tlc_behaviours(ctx, "IPSet", "IPSet_gen.cfg", workers=8, label="all multisets <= 3 of masked prefixes, W=4")
    gens.append((4, b, True))
    nsim = 6000 if T else 1200
    b = vlib.tlc_behaviours(ctx, "IPSet", "IPSet_gen.cfg", simulate=nsim, depth=5, label="sampled lists <= 4 with host bits, W=4",
                            name="gen-sim4", cfg_text=cfg("IPSet_gen.cfg", HostBits="TRUE", MaxLen="4"))
    gens.append((4, b, False))
    b = vlib.tlc_behaviours(ctx, "IPSet", "IPSet_gen.cfg", simulate=nsim, depth=5, label="sampled lists <= 4 with host bits, W=5",
                            name="gen-sim5", cfg_text=cfg("IPSet_gen.cfg", HostBits="TRUE", MaxLen="4", W="5"))
    gens.append((5, b, False))
    if T:
        b = vlib.tlc_behaviours(ctx, "IPSet", "IPSet_gen.cfg", workers=8, timeout=1500, name="gen-host3",
                                label="all multisets <= 3 of prefixes with arbitrary host bits, W=4, b4=1",
                                cfg_text=cfg("IPSet_gen.cfg", HostBits="TRUE", B4s="{1}"))
        gens.append((4, b, True))
        b = vlib.tlc_behaviours(ctx, "IPSet", "IPSet_gen.cfg", workers=8, timeout=1500, name="gen-w5",
                                label="all multisets <= 3 of masked prefixes, W=5, b4=1",
                                cfg_text=cfg("IPSet_gen.cfg", W="5", B4s="{1}"))
        gens.append((5, b, True))

    binary = vlib.go_build(ctx, "drv_ipset")
    all_runs = {4: [], 5: []}
    tot = {"lists": 0, "queries": 0, "behaviours": 0, "skipped_embeddings": 0}
    nontrivial = set()
    for gi, (W, behs, exh) in enumerate(gens):
        if not behs:
            raise vlib.Infra("generator %d produced no behaviours" % gi)
        for x in behs:
            if len(x["ps"]) >= 2 and 0 < sum(x["x6"]) < len(x["x6"]):
                nontrivial.add((W, json.dumps(x, sort_keys=True)))
        summ, mism, runs = drive(ctx, binary, W, behs, random=(600 if T else 150) if gi == 0 or W == 5 and gi == 2 else 0,
                                 trace_sample=max(1, len(behs) * 8 // (400 if T else 120)),
                                 perm_limit=3 if gi >= 3 else 24, light=gi >= 3)
        for k in tot:
            tot[k] += summ[k]
        report_mismatches(ctx, W, mism)
        all_runs[W] += runs
        log("leg B round %d (W=%d, %d behaviours%s): %d lists built, %d answers compared, %d mismatches" % (
            gi, W, len(behs), ", exhaustive" if exh else "", summ["lists"], summ["queries"], summ["mismatches"]))
        if gi == 0:
            ctx.sample({"behaviour": behs[len(behs) // 2]})

    # ---- leg C
    judged = 0
    first_traces = None
    for W in (4, 5):
        if all_runs[W]:
            j, traces = validate_runs(ctx, W, all_runs[W], "W=%d, %d runs" % (W, len(all_runs[W])))
            judged += j
            if first_traces is None and traces:
                first_traces = (W, traces)
            rnd = [r for r in all_runs[W] if r["src"] == "random"]
            if rnd:
                ctx.sample({"random_run": rnd[0]["events"][:12], "emb": rnd[0]["emb"]})
    if not ctx.violations:
        if first_traces is None:
            raise vlib.Infra("no run was recorded for leg C")
        binding_selfcheck(ctx, *first_traces)

    ctx.cov["evaluations"] = tot["queries"] + judged
    ctx.cov["lists_built"] = tot["lists"]
    ctx.cov["behaviours"] = tot["behaviours"]
    ctx.cov["trace_contains_events"] = judged
    ctx.cov["distinct_nontrivial"] = len(nontrivial)
    ctx.cov["exhaustive"] = True
    ctx.cov["rule"] = ("evaluations = (real list built from a TLC behaviour under one embedding/load order/API, abstract address) "
                       "answers compared with the behaviour + Contains events validated by TLC; distinct_nontrivial = distinct "
                       "TLC behaviours with >= 2 prefixes whose expected answer is neither all-true nor all-false; exhaustive = "
                       "every multiset of <= 3 masked prefixes of the W=4 universe x every abstract address "
                       "(thorough: also host bits, and W=5), lists of 4 sampled")
