"""C20 — fallback prefers the primary and fails over only when it should.
spec/Fallback.tla (+ Fallback_Trace.tla), harness/drv_fallback."""
import random
import vlib
from vlib import log


def signature(events):
    d = {"standby": None, "timerMay": None, "prim": "na", "sec": "na", "res": "none"}
    for e in events:
        if e["ev"] == "Start":
            d["standby"], d["timerMay"] = e["standby"], e["timerMay"]
        elif e["ev"] == "PrimFinish":
            d["prim"] = e["o"]
        elif e["ev"] == "SecFinish":
            d["sec"] = e["o"]
        elif e["ev"] == "Return":
            d["res"] = e["res"]
    return "result=%(res)s:prim=%(prim)s:sec=%(sec)s:standby=%(standby)s:timer_may=%(timerMay)s" % d


def replay(ctx):
    """--replay <file>: re-run the saved schedule on the current tree (5 times) and re-validate."""
    d = vlib.json.load(open(ctx.replay))["replay"]
    binary = vlib.go_build(ctx, "drv_fallback")
    if d.get("beh"):
        job = {"behaviours": [d["beh"]] * 5, "random": 0, "threshold_ms": 120, "stretch_ms": 300, "workers": 1}
    else:
        job = {"behaviours": [], "random": 300, "threshold_ms": 120, "workers": 16}
    recs, _ = vlib.run_driver(ctx, binary, stdin_obj=job)
    ctx.cov["evaluations"] = len(recs)
    acc, rej = vlib.validate_traces(ctx, "Fallback_Trace", "Fallback_Trace.cfg", [r["events"] for r in recs])
    for idx, info in rej:
        ctx.violation(signature(recs[idx]["events"]), "replayed schedule rejected again at %s" % info.get("event"), recs[idx])
    for r in recs:
        if r["hang"]:
            ctx.violation("call-does-not-return", "Exec did not return", r)
    ctx.sample(recs[0]["events"])


def run(ctx):
    if ctx.replay:
        return replay(ctx)
    T = ctx.thorough()
    ctx.assumptions += [
        "threshold < the workers' 5 s deadline (DeadlineFire only after TimerFire)",
        "'within the threshold' is measured at the primary's first publication step (queue answer / signal done)",
        "harness primary/secondary ignore their context; Go timers and channel FIFO order are trusted",
        "TimerFire is unobservable: events logged before threshold/2 carry early=TRUE and forbid an earlier TimerFire; "
        "with the long threshold (30 s) TimerFire is disabled in the trace spec",
        "real-time urgency: an event logged later than threshold + max(0.4*threshold, 150 ms) after the call started (late=TRUE) "
        "requires the timer to have fired and a secondary that entered its select before the threshold to have left it; "
        "such rejections are re-confirmed 3x serially (>= 2 must reproduce)",
    ]
    # ---- leg A
    vlib.tlc_mc(ctx, "Fallback", "Fallback_design.cfg", label="design (queue answer, then signal): C20 invariants + liveness", coverage=True)
    nv = vlib.run_tlc(ctx, "Fallback", "Fallback_pinned.cfg", expect_violation=True, workers=1)
    if nv["violated"] != "PrimaryWins":
        raise vlib.Infra("non-vacuity run: expected PrimaryWins to fail for signal-first order, got %r" % nv["violated"])
    ctx.cov["non_vacuity"] = "PrimaryWins is violated by TLC for the signal-first order (Fallback_pinned.cfg)"

    # ---- leg B generators
    rng = random.Random(ctx.seed)
    behs = vlib.tlc_behaviours(ctx, "Fallback", "Fallback_gen_order.cfg")
    exhaustive_order = len(behs)
    # the same schedules with a caller that reaches its select only after both workers finished (gated ctx.Done)
    lazy = vlib.tlc_behaviours(ctx, "Fallback", "Fallback_gen_lazy.cfg")
    behs += lazy
    # concretization of the abstract outcome "err": plain error / error after a response was stored in the context
    import copy
    extra = []
    for b in behs:
        if any(s_.get("o") == "err" for s_ in b["steps"]):
            b2 = copy.deepcopy(b)
            b2["err_resp"] = True
            extra.append(b2)
    if not T:
        rng.shuffle(extra)
        extra = extra[:300]
    behs += extra
    # concretization of "no deadline pressure": the caller's context carries a deadline (20 s) that is far away but
    # not beyond the (30 s) threshold of the no-timer runs; nothing in the spec depends on it
    ddl = [dict(copy.deepcopy(b), ctx_ddl_ms=20000) for b in behs[:exhaustive_order] if not b["timerMay"]]
    if not T:
        rng.shuffle(ddl)
        ddl = ddl[:120]
    behs += ddl
    # concretization of "the primary answers within the threshold": it really takes 700 ms, the threshold is 30 s
    slow = [dict(copy.deepcopy(b), prim_delay_ms=700) for b in behs[:exhaustive_order]
            if not b["timerMay"] and any(s_.get("a") == "PrimFinish" and s_.get("o") == "ans" for s_ in b["steps"])]
    rng.shuffle(slow)
    slow = slow[:(60 if T else 24)]
    behs += slow
    tb = vlib.tlc_behaviours(ctx, "Fallback", "Fallback_gen_timer.cfg")
    if not T:
        rng.shuffle(tb)
        tb = tb[:240]
    behs += tb
    nsim = 3000 if T else 300
    cb = vlib.tlc_behaviours(ctx, "Fallback", "Fallback_gen.cfg", simulate=nsim, depth=40,
                             cfg_text=open(vlib.VERIF + "/spec/Fallback_gen.cfg").read().replace(
                                 "EnvDeadline = TRUE", "EnvDeadline = FALSE"))
    cb = [b for b in cb if any(s["a"] == "Cancel" for s in b["steps"])]
    behs += cb
    log("replaying %d behaviours (%d pure-order exhaustive, %d lazy-caller, %d error-after-response variants, %d with a far caller deadline, "
        "%d with a slow (700 ms) primary inside the 30 s threshold, %d timer, %d with cancel)" % (
        len(behs), exhaustive_order, len(lazy), len(extra), len(ddl), len(slow), len(tb), len(cb)))

    binary = vlib.go_build(ctx, "drv_fallback")
    job = {"behaviours": behs, "random": 1500 if T else 300, "threshold_ms": 120, "stretch_ms": 300, "workers": 16}
    recs, _ = vlib.run_driver(ctx, binary, stdin_obj=job, timeout=1500)
    if len(recs) != len(behs) + job["random"]:
        raise vlib.Infra("driver returned %d results for %d jobs" % (len(recs), len(behs) + job["random"]))

    steered = [r for r in recs if r["kind"] == "replay" and r["steered"]]
    mism = [r for r in steered if r["result"] != r["expected"]]
    ctx.cov["evaluations"] = len(recs)
    ctx.cov["steered_replays"] = len(steered)
    ctx.cov["replay_result_mismatches"] = len(mism)
    ctx.cov["distinct_nontrivial"] = len({vlib.json.dumps(r["beh"], sort_keys=True) for r in steered
                                           if len(r["beh"]["steps"]) >= 4})
    ctx.cov["rule"] = ("behaviours = complete schedules of Fallback.tla (exhaustive BFS for the pure-ordering generator, "
                       "sampled for timer/cancel generators) replayed through gates into fallback.Exec, plus unsteered random runs; "
                       "distinct_nontrivial = distinct fully steered schedules with >= 4 scripted steps")
    ctx.cov["exhaustive"] = False
    for r in recs:
        if r["hang"]:
            ctx.violation("call-does-not-return", "Exec did not return even after its context was cancelled", r)

    # ---- leg C
    traces = [r["events"] for r in recs]
    acc, rej = vlib.validate_traces(ctx, "Fallback_Trace", "Fallback_Trace.cfg", traces)
    for idx, info in rej:
        r = recs[idx]
        sig = signature(r["events"])
        ev = info.get("event") or {}
        if ev.get("late") and r.get("beh"):
            # rejected because of a real-time claim: re-confirm serially (a scheduler stall must not raise an alarm)
            rr, _ = vlib.run_driver(ctx, binary, stdin_obj={"behaviours": [r["beh"]] * 3, "random": 0, "threshold_ms": 120,
                                                           "stretch_ms": 300, "workers": 1})
            _, rej2 = vlib.validate_traces(ctx, "Fallback_Trace", "Fallback_Trace.cfg", [x["events"] for x in rr])
            ctx.cov.setdefault("timing_reconfirmations", []).append({"signature": sig, "rejected_again": len(rej2), "of": 3})
            if len(rej2) < 2:
                log("timing-based rejection not reproduced (%d/3): treated as a scheduler stall, not a violation" % len(rej2))
                continue
            sig += ":threshold-not-counted-from-call-start"
        if ev.get("ev") == "CancelIgnored":
            sig += ":call-does-not-end-when-context-ends"
        ctx.violation(sig, "real trace is not a behaviour of Fallback.tla satisfying C20 (rejected at event %s: %s)" % (
            info.get("line_in_trace"), info.get("event")), r)
    # binding self-check: flip the logged result of an accepted trace, drop a logged wake reason
    if not rej:
        import copy
        good = [r["events"] for r in steered if r["result"] == "P" and any(e["ev"] == "SecFinish" and e["o"] == "ans" for e in r["events"])]
        if good:
            t1 = copy.deepcopy(good[0])
            for e in t1:
                if e["ev"] == "Return":
                    e["res"] = "S"
            t2 = [e for e in copy.deepcopy(good[0]) if e["ev"] != "PrimFinish"]
            vlib.assert_rejects(ctx, "Fallback_Trace", "Fallback_Trace.cfg", [t1, t2],
                                "Return result flipped P->S; PrimFinish event removed")
    if not ctx.violations and not ctx.known_hits and len(steered) < len(behs) // 4:
        # nothing was rejected, but the schedules could not be forced either: no verdict
        raise vlib.Infra("dead driver: only %d of %d behaviours could be steered; first reasons: %s" % (
            len(steered), len(behs), [r.get("why") for r in recs if not r["steered"]][:5]))
    for r in (mism[:2] + steered[:2] + [x for x in recs if x["kind"] == "random"][:1]):
        ctx.sample({"kind": r["kind"], "expected": r.get("expected"), "result": r["result"], "events": r["events"]})
    if mism and not rej:
        log("note: %d steered replays returned another result than the generator expected but their traces are "
            "behaviours of the spec (nondeterministic select); not a violation" % len(mism))
