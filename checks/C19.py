"""C19 — cache dumps reload faithfully; damaged dumps are harmless.
spec/CachePlugin.tla (Dump/Load/LoadCut, RestartTransparent), harness/drv_cache (mode c19)."""
import json
import random
import re

import cachelib as cl
import vlib
from vlib import log

SPEC = "CachePlugin_MC"
C19 = dict(Names='{"n1"}', Types='{"t1", "t2"}', Classes='{"c1"}', Flags="{0}", Resps="<- RespsC19", Insts="{1, 2}",
           OpKinds='{"exec", "tick", "dump", "load", "cut"}', Ticks="{6, 25}", MaxNow="60", LazyTTLs="{0, 50}")


def signature(rec, info):
    e = info.get("event") or {}
    k = e.get("ev")
    if k == "Dump" and rec["tag"] == "file-restart" and e.get("status", 200) == 200:
        return "dump-file-differs-from-cache-after-close:inst=%s:entries=%d" % (e.get("i"), len(e.get("ents", [])))
    if k == "Dump":
        if e.get("status", 200) != 200:
            return "dump-request-fails:status=%s" % e.get("status")
        if any(x.get("age", 0) > 1000000000 for x in e.get("ents", [])):
            return "dump-entry:stored-time-not-written"
        if any(x.get("id", 0) == -1 for x in e.get("ents", [])):
            return "dump-entry:message-unreadable"
        return "dump-entry-differs-from-cache:inst=%s:%s" % (e.get("i"), rec["tag"])
    if k == "LoadCut":
        return "truncated-dump:status=%s" % e.get("status")
    if k == "Load":
        return "intact-dump-refused:status=%s" % e.get("status")
    if k == "Exec":
        o = e.get("o", {})
        return "lookup-after-reload-differs:inst=%s:res=%s" % (e.get("i"), o.get("res")) + (
            ":ttl" if o.get("res") == "hit" else "")
    return "trace-rejected:%s" % k


def usable(b):
    """behaviours the harness can realise: time only passes before the first dump; at least one dump and
    one load; no probe within 2 s of an expiry boundary (1-s wall-clock skew must not flip an outcome)."""
    steps = b["steps"]
    kinds = [s["a"] for s in steps]
    if "Dump" not in kinds or not ("Load" in kinds or "LoadCut" in kinds):
        return False
    d0 = kinds.index("Dump")
    if "Tick" in kinds[d0:] or "RefreshEnd" in kinds[d0:]:
        return False
    if kinds.index("Load" if "Load" in kinds else "LoadCut") < d0:
        return False
    now = steps[d0]["now"]
    for ents in steps[d0]["ec"]:
        for e in ents:
            if abs(e["msgExp"] - now) < 2 or abs(e["cacheExp"] - now) < 2:
                return False
    return True


def shapes_of(behs, lazy=0):
    seen, out = set(), []
    for b in behs:
        if b["lazy"] != lazy:
            continue
        for s in b["steps"]:
            if s["a"] != "Dump":
                continue
            for ents in s["ec"]:
                for e in ents:
                    sh = {"r": e["r"], "stored": e["stored"] - s["now"], "msgExp": e["msgExp"] - s["now"],
                          "cacheExp": e["cacheExp"] - s["now"]}
                    if abs(sh["msgExp"]) < 2 or abs(sh["cacheExp"]) < 2 or sh["cacheExp"] < 0:
                        continue
                    k = json.dumps(sh, sort_keys=True)
                    if k not in seen:
                        seen.add(k)
                        out.append(sh)
    return out


def replay_obj(r, job):
    j = json.loads(json.dumps(job))
    c = j["c19"]
    if r.get("beh", -1) >= 0:
        c["behaviours"] = [c["behaviours"][r["beh"]]]
        c["big_n"], c["garbage"], c["file_restart"] = 0, 0, 0
    else:
        c["behaviours"] = []
        c["garbage"] = 0
        if r.get("tag") == "file-restart":
            c["big_n"] = 0
        else:
            c["file_restart"] = 0
    return {"rec": {k: r[k] for k in ("tag", "beh", "extra") if k in r}, "job": j}


def judge(ctx, recs, job=None):
    traces = [r["events"] for r in recs]
    acc, rej = vlib.validate_traces(ctx, "CachePlugin_Trace", "CachePlugin_Trace.cfg", traces, label="C19", chunk=6000)
    for idx, info in rej:
        r = recs[idx]
        ctx.violation(signature(r, info), "real dump/load run (%s) is not a behaviour of CachePlugin.tla satisfying RestartTransparent / "
                      "LoadSubset: rejected at event %s: %s" % (r["tag"], info.get("line_in_trace"), json.dumps(info.get("event"))[:400]),
                      replay_obj(r, job) if job else {"rec": r})
    return acc, rej


def dumpfail_verdicts(ctx, recs, job=None):
    for d in recs:
        if d.get("kind") == "dumpfail":
            ctx.violation("dump-request-fails:status=%s" % d["status"], "GET /dump failed for a cache holding one legally stored question %s: %s" % (
                json.dumps(d["cq"]), d["body"][:200]), {"dumpfail": d, "job": job})


def garbage_verdicts(ctx, recs, job=None):
    gj = None
    if job:
        gj = json.loads(json.dumps(job))
        gj["c19"]["behaviours"], gj["c19"]["big_n"], gj["c19"]["file_restart"] = [], 0, 0
    for g in recs:
        g = dict(g, case=re.sub(r"-key\d+-msg\d+-times\d+$|-\d+$", "", g["case"]), case_full=g["case"])
        if g.get("panic"):
            ctx.violation("corrupt-dump-panics:" + g["case"], "POST /load_dump panicked: " + g["panic"][:200], {"garbage": g, "job": gj})
        elif g["hang"]:
            ctx.violation("corrupt-dump-hangs:" + g["case"], "POST /load_dump did not return within 5 s (%d bytes)" % g["len"], {"garbage": g, "job": gj})
        elif g["alloc_mb"] > 256:
            ctx.violation("corrupt-dump-allocates:" + g["case"], "POST /load_dump of %d bytes allocated %d MB" % (g["len"], g["alloc_mb"]),
                          {"garbage": g, "job": gj})


def replay(ctx):
    d = json.load(open(ctx.replay))["replay"]
    binary = vlib.go_build(ctx, "drv_cache")
    job = d.get("job")
    if job is None:
        raise vlib.Infra("replay file carries no job")
    recs, _ = vlib.run_driver(ctx, binary, stdin_obj=job)
    tr = [r for r in recs if r["kind"] == "trace" and not r["slow"]]
    ctx.cov["evaluations"] = len(tr)
    judge(ctx, tr, job)
    dumpfail_verdicts(ctx, recs, job)
    garbage_verdicts(ctx, [r for r in recs if r["kind"] == "garbage"], job)


def run(ctx):
    if ctx.replay:
        return replay(ctx)
    T = ctx.thorough()
    rng = random.Random(ctx.seed)
    ctx.assumptions += [
        "abstract time is realised by injecting TLC-exported states through POST /load_dump (keys harvested from a real GET /dump); "
        "no probe is placed within 2 s of an expiry boundary; TTLs/ages may read 1 s older (wall-clock skew), real phases "
        "longer than 0.9 s are discarded and repeated",
        "a truncated dump may add ANY subset of the intact dump's entries (where the decoder stops is not part of the property)",
        "file path: dump_file is written by plugin Close and read by Init; a missing file before any dump counts as an empty dump",
        "no panic / no hang (5 s watchdog) / bounded allocation (256 MB per request, inputs <= 1 MB) are observation premises "
        "checked by the harness, not by TLC",
    ]
    # ---- leg A
    vlib.tlc_mc(ctx, SPEC, "c19_design.cfg", cfg_text=cl.cfg(MaxOps="6" if T else "5", **C19),
                label="C19 design: 2 instances, dump/load/truncated load, ticks, lazy on/off")
    for drop, keep in (("stored", '{"msgexp", "cacheexp"}'), ("msgexp", '{"stored", "cacheexp"}')):
        res = vlib.run_tlc(ctx, SPEC, "c19_nv_%s.cfg" % drop, expect_violation=True, workers=4,
                           cfg_text=cl.cfg(inv="RestartTransparent", MaxOps="4", **dict(C19, DumpFields=keep)))
        if res["violated"] != "RestartTransparent":
            raise vlib.Infra("non-vacuity: dump without %s should violate RestartTransparent, got %r" % (drop, res["violated"]))
    ctx.cov["non_vacuity"] = "RestartTransparent is violated by TLC when Dump omits the stored time or the message expiry"

    # ---- leg B generator
    gen = vlib.tlc_behaviours(ctx, SPEC, "c19_gen.cfg", simulate=40000 if T else 8000, depth=12,
                              cfg_text=cl.cfg(gen=True, MaxOps="7", **C19), label="C19 gen")
    behs = [b for b in gen if usable(b)]
    shapes = shapes_of(gen)
    if len(behs) < 50 or len(shapes) < 4:
        raise vlib.Infra("generator produced only %d usable behaviours / %d entry shapes" % (len(behs), len(shapes)))
    rng.shuffle(behs)
    behs = behs[:2000 if T else 300]
    log("%d usable behaviours, %d entry shapes from TLC states" % (len(behs), len(shapes)))

    binary = vlib.go_build(ctx, "drv_cache")
    # behaviours alternate between a plain map and one whose keys contain bytes >= 0x80 (type 255 / 32769, class ANY, 140-octet name)
    hi = cl.plain_map()
    hi.update(tag="high-bytes", names={"n1": "a-rather-long-label-number-one." * 4 + "xn--mller-kva.example.", "n2": "\\195\\188ber.example."},
              types={"t1": 255, "t2": 32769, "t3": 128}, classes={"c1": 255, "c2": 1})
    job = {"mode": "c19", "c19": {"behaviours": behs, "map": cl.plain_map(), "maps": [cl.plain_map(), hi], "shapes": shapes, "big_n": 150, "big_exec": 12,
                                  "cuts": "all" if T else "quick", "garbage": 400 if T else 80, "lazy": 0,
                                  "file_restart": 3}}
    recs, _ = vlib.run_driver(ctx, binary, stdin_obj=job, timeout=1500)
    if T:
        # the multi-block restart once more in lazy mode (entries whose cache expiry differs from the message expiry)
        sh50 = shapes_of(gen, lazy=50)
        if sh50:
            job50 = {"mode": "c19", "c19": {"behaviours": [], "map": cl.plain_map(), "shapes": sh50, "big_n": 150, "big_exec": 12,
                                            "cuts": "none", "garbage": 0, "lazy": 50}}
            r50, _ = vlib.run_driver(ctx, binary, stdin_obj=job50, timeout=600)
            for r in r50:
                r["tag"] = r.get("tag", "") + "-lazy50"
            recs += r50
    tr = [r for r in recs if r["kind"] == "trace"]
    slow = [r for r in tr if r["slow"]]
    tr = [r for r in tr if not r["slow"]]
    gb = [r for r in recs if r["kind"] == "garbage"]
    acc, rej = judge(ctx, tr, job)
    dumpfail_verdicts(ctx, recs, job)
    rej = rej + [r for r in recs if r["kind"] == "dumpfail"]
    garbage_verdicts(ctx, gb, job)
    if not rej:
        def corrupt(t):
            for e in t:
                if e["ev"] == "Dump" and e["ents"]:
                    e["ents"][0]["rem"] += 5
                    return t
            return None
        cl.binding_selfcheck(ctx, [r["events"] for r in tr if r["tag"] == "behaviour"], corrupt, "dumped message expiry")
    if len(slow) > len(tr) // 5 and not rej:
        raise vlib.Infra("%d of %d real phases exceeded the 0.9 s skew budget (machine too loaded)" % (len(slow), len(tr) + len(slow)))
    if not rej and (len(tr) < len(behs) or not gb):
        raise vlib.Infra("driver returned %d traces for %d behaviours, %d garbage results" % (len(tr), len(behs), len(gb)))
    ncuts = sum(len(r["extra"]["cuts"]) for r in tr if r["tag"] == "truncation")
    ctx.cov["evaluations"] = len(tr) + ncuts + len(gb)
    ctx.cov["truncation_points"] = ncuts
    ctx.cov["garbage_inputs"] = len(gb)
    ctx.cov["max_alloc_mb"] = max(g["alloc_mb"] for g in gb) if gb else 0
    ctx.cov["distinct_nontrivial"] = len({cl.beh_key([(s["a"], s.get("i"), s.get("j"), s.get("q")) for s in b["steps"]]) for b in behs})
    ctx.cov["rule"] = ("evaluations = TLC behaviours replayed on two real plugin instances + truncation points of a real multi-block "
                       "dump + corrupted/arbitrary inputs; distinct_nontrivial = distinct abstract behaviours containing a dump "
                       "followed by an intact or truncated load")
    ctx.cov["exhaustive"] = False
    for r in tr[:2]:
        ctx.sample({"tag": r["tag"], "events": r["events"][:8]})
