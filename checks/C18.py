"""C18 — upstreams connect to exactly the address the user configured.
spec/Addr.tla (+ Addr_Trace.tla), harness/drv_addr.

Leg A: TLC checks that the token-level design of NewUpstream's address pipeline meets the contract
       (Expected / MayReject) for the whole product of the property's quantifier; two non-vacuity runs.
Leg B: TLC exports every address record with its token rendering and Expected(a); the Go driver renders
       the tokens, calls the real upstream.NewUpstream and observes destinations / SNI (SOCKS5 proxy,
       loopback listeners, harness TLS/QUIC servers); compared with Expected here.
Leg C: the recorded (Case, Reject | Created, Conn*, Done) traces are validated by Addr_Trace.tla.
"""
import copy
import json
import random

import vlib
from vlib import log

SOCKS_SCHEMES = ("tcp", "tcp+pipeline", "tls", "tls+pipeline", "https")
FAMILY = {"udp": "plain", "tcp": "plain", "tcp+pipeline": "plain", "tls": "tls", "tls+pipeline": "tls",
          "quic": "tls", "doq": "tls", "https": "http", "h3": "http"}


def pclass(p):
    return 0 if p == 0 else (2 if p > 65535 else 1)


def klass(a):
    """abstract class of an address: everything except the concrete (valid) port numbers and the path"""
    return (a["scheme"], a["hk"], a["form"], pclass(a["port"]), a["dial"], a["dform"], pclass(a["dport"]))


def klass_loop(a):
    """coarser (loopback cases run one at a time when they touch ::1): spellings ignored"""
    return (a["scheme"], a["hk"], pclass(a["port"]), a["dial"], pclass(a["dport"]))


def sig(a, what):
    """signature = kind of deviation + the address class that matters for it (not the scheme, spelling or
    concrete numbers), so that one root cause gives a handful of signatures"""
    dial = "none" if a["dial"] == "none" else ("with-port" if a["dport"] else "without-port")
    if a["dport"] > 65535:
        dial = "with-bad-port"
    s = "%s:host=%s:port=%s:dial_addr=%s" % (what, a["hk"], ("none", "set", "above-65535")[pclass(a["port"])], dial)
    if what.startswith("sni"):
        s += ":scheme=" + FAMILY[a["scheme"]]
    return s


def loop_ok(a):
    # only one IPv6 loopback address exists: URL host and dial host cannot both be ::1
    return not (a["hk"].startswith("v6") and a["dial"].startswith("ip6"))


def mk_job(cases, picks):
    """picks: list of (case index, mode, variant[, group id]); members of a group are upstreams of one
    configuration (same tls.Config instance, same bootstrap server), run one after the other"""
    out = []
    for n, pk in enumerate(picks):
        i, mode, variant = pk[:3]
        c = cases[i]
        grp = pk[3] if len(pk) > 3 else None
        out.append({"id": n, "cid": c.get("cid", n), "a": c["a"], "url": c["url"], "dial": c["dial"], "mode": mode, "variant": variant,
                    "unasserted": c["unasserted"], "group": None if grp == "refuse" else grp,
                    "refuse": grp == "refuse", "exp_host": c["exp"]["host"], "exp_port": c["exp"]["port"]})
    return out


def judge(ctx, c, r, job_case):
    """leg B comparison of one driver result with the TLC-exported expectation. Returns list of
    (signature, text)."""
    a, exp = c["a"], c["exp"]
    where = "%s dial_addr=%r (%s)" % (r["addr"], r["dial_addr"], r["mode"])
    if job_case.get("refuse"):
        where += " [nothing listens at the expected destination, decoys do]"
    if job_case.get("group") is not None:
        where += " [one of several upstreams sharing a tls.Config and a bootstrap server]"
    out = []
    if r.get("panic"):
        return [(sig(a, "panic"), "%s: NewUpstream/Exchange panicked: %s" % (where, r["panic"][:200]))]
    if c["unasserted"]:
        return []
    if c.get("mustReject"):
        if r["created"]:
            out.append((sig(a, "accepted-bad-port"), "%s: a port above 65535 cannot be honoured, yet the upstream was created%s" % (
                where, "".join("; connected to %s:%d" % (o["host_raw"], o["port"]) for o in r["obs"][:2]))))
        return out
    if not r["created"]:
        if not c["mayReject"]:
            out.append((sig(a, "rejected"), "%s: a supported address was refused: %s" % (where, r.get("err"))))
        return out
    if not r["obs"] and not job_case.get("refuse"):
        out.append((sig(a, "no-connection"), "%s: upstream created but no connection reached any candidate "
                    "(expected %s:%d); exchange error: %s" % (where, exp["host"], exp["port"], r.get("exch_err"))))
    for o in r["obs"]:
        if o["host"] != exp["host"]:
            out.append((sig(a, "host=" + o["host"]), "%s: connected to %s (%s host), expected the %s host" % (
                where, o["host_raw"], o["host"], exp["host"])))
        elif o["port"] != exp["port"]:
            out.append((sig(a, "wrong-port"),
                        "%s: connected to port %d, expected %d" % (where, o["port"], exp["port"])))
        elif o["sni"] != exp["sni"]:
            out.append((sig(a, "sni=" + o["sni"]), "%s: TLS server name %r (%s, handshake %s), expected the %s host" % (
                where, o["sni_raw"], o["sni"], o.get("hs"), exp["sni"])))
    return out


def drive(ctx, binary, cases, picks, timeout_ms=2000):
    jc = mk_job(cases, picks)
    import time
    t0 = time.time()
    groups = {}
    for c in jc:
        if c["group"] is not None:
            groups.setdefault(c["group"], []).append(c)
    recs, _ = vlib.run_driver(ctx, binary, stdin_obj={
        "cases": [c for c in jc if c["group"] is None], "groups": [groups[g] for g in sorted(groups)],
        "workers": 16, "timeout_ms": timeout_ms}, timeout=1500)
    if len(recs) != len(jc):
        raise vlib.Infra("driver returned %d results for %d cases" % (len(recs), len(jc)))
    recs.sort(key=lambda r: r["id"])
    slow = sorted(recs, key=lambda r: -(r["ms"] - r["lock_ms"]))[:6]
    log("driver: %d cases in %.1fs; slowest: %s" % (len(recs), time.time() - t0, [
        (r["ms"] - r["lock_ms"], r["mode"], r["addr"], r["dial_addr"], r["tries"]) for r in slow]))
    agg = {}
    for r in recs:
        k = (r["mode"], r["addr"].split(":")[0])
        n, t = agg.get(k, (0, 0))
        agg[k] = (n + 1, t + r["ms"] - r["lock_ms"])
    log("driver mean ms per case: %s" % {"%s/%s" % k: round(t / n) for k, (n, t) in sorted(agg.items())})
    return jc, recs


def evaluate(ctx, cases, picks, jc, recs):
    skipped = [r for r in recs if r.get("skipped")]
    inconcl = [r for r in recs if r.get("inconclusive") and not r.get("skipped")]
    good = [r for r in recs if not r.get("skipped") and not r.get("inconclusive")]
    nviol = 0
    for r in good:
        c = cases[picks[r["id"]][0]]
        for s, text in judge(ctx, c, r, jc[r["id"]]):
            nviol += 1
            ctx.violation(s, text, {"case": jc[r["id"]], "expected": c["exp"], "mayReject": c["mayReject"],
                                    "mustReject": c.get("mustReject", False), "unasserted": c["unasserted"], "observed": r})
    # leg C
    traces = [r["events"] for r in good]
    acc, rej = vlib.validate_traces(ctx, "Addr_Trace", "Addr_Trace.cfg", traces, chunk=24000, max_reject=40)
    for idx, info in rej:
        r = good[idx]
        c = cases[picks[r["id"]][0]]
        found = judge(ctx, c, r, jc[r["id"]])
        s = found[0][0] if found else sig(c["a"], "trace-rejected")
        ctx.violation(s, "real trace is not allowed by Addr.tla's contract (rejected at event %s: %s): %s dial_addr=%r" % (
            info.get("line_in_trace"), info.get("event"), r["addr"], r["dial_addr"]),
            {"case": jc[r["id"]], "expected": c["exp"], "mayReject": c["mayReject"],
             "mustReject": c.get("mustReject", False), "unasserted": c["unasserted"], "observed": r})
    # dead-driver check last (guide rule 9): only when nothing was rejected
    if not ctx.violations and not ctx.known_hits and len(skipped) + len(inconcl) > max(5, len(recs) // 20):
        raise vlib.Infra("too many unobservable cases: %d skipped (%s), %d inconclusive (%s)" % (
            len(skipped), skipped[0].get("skipped") if skipped else "", len(inconcl),
            inconcl[0].get("inconclusive") if inconcl else ""))
    return good, skipped, inconcl, nviol, len(rej)


def replay(ctx):
    d = json.load(open(ctx.replay))["replay"]
    binary = vlib.go_build(ctx, "drv_addr")
    case = {"cid": d["case"].get("cid", 0), "a": d["case"]["a"], "url": d["case"]["url"], "dial": d["case"]["dial"], "exp": d["expected"],
            "mayReject": d["mayReject"], "mustReject": d.get("mustReject", False), "unasserted": d["unasserted"]}
    picks = [(0, d["case"]["mode"], d["case"]["variant"]) + (("refuse",) if d["case"].get("refuse") else ())] * 3
    if d["case"].get("group") is not None:
        log("note: this case ran as a member of a group; --replay re-runs it alone (re-run the tier to reproduce a sibling effect)")
    jc, recs = drive(ctx, binary, [case], picks)
    ctx.cov["evaluations"] = len(recs)
    evaluate(ctx, [case], picks, jc, recs)
    ctx.sample({"addr": recs[0]["addr"], "dial_addr": recs[0]["dial_addr"], "obs": recs[0]["obs"]})


def run(ctx):
    if ctx.replay:
        return replay(ctx)
    import X_bootstrap
    _bg_bootstrap = vlib.background(ctx, X_bootstrap.run_extra, "X_bootstrap")
    T = ctx.thorough()
    rng = random.Random(ctx.seed)
    ctx.assumptions += [
        "address forms = the property's quantifier: 9 schemes (incl. the doq alias) x {v4, name, IPv6 bare/bracketed in 3 "
        "spellings} x {no port, 5 ports, 2 ports above 65535 (must be refused)} x {no dial_addr, ip4, ip6 (2 spellings), ip4:port, [ip6]:port, host} x {path, none}",
        "bare IPv6 followed by :port is ambiguous (RFC 3986 demands brackets): run for panics only, nothing asserted",
        "tcp/tls/https are observed through opt.Socks5 (CONNECT target) and directly on loopback; udp/quic/h3 only "
        "with loopback literals (127.a.b.c, ::1) or names resolved to loopback by a harness bootstrap server",
        "the server name of an IP host is observed through certificate verification (harness certificate valid for "
        "the URL host only), that of a name through the ClientHello SNI; crypto/tls, net/http, quic-go are trusted",
        "dial_addr without port keeps the URL's port (first defined of dial port, URL port, scheme default)",
        "groups of 3 upstreams are created one after the other in one process with one *tls.Config instance and one bootstrap "
        "server; each is judged on its own (the contract has no notion of siblings)",
    ]
    # ---- leg A
    vlib.tlc_mc(ctx, "Addr", "Addr_design.cfg", workers=2,
                label="design (exact bracket trimming, dial_addr keeps URL port) meets the C18 contract, full product")
    nv = vlib.run_tlc(ctx, "Addr", "Addr_pinned.cfg", expect_violation=True, workers=1)
    nv2 = vlib.run_tlc(ctx, "Addr", "Addr_pinned_port.cfg", expect_violation=True, workers=1)
    nv3 = vlib.run_tlc(ctx, "Addr", "Addr_pinned_bigport.cfg", expect_violation=True, workers=1)
    if nv["violated"] != "C18Inv" or nv2["violated"] != "C18Inv" or nv3["violated"] != "C18Inv":
        raise vlib.Infra("non-vacuity runs: expected C18Inv to fail, got %r / %r / %r" % (
            nv["violated"], nv2["violated"], nv3["violated"]))
    ctx.cov["non_vacuity"] = ("C18Inv is violated by TLC for TrimCut=2 (D8, Addr_pinned.cfg) and for "
                              "DialPortRule=default (D12, Addr_pinned_port.cfg) and for PortCheck=FALSE (Addr_pinned_bigport.cfg)")

    # ---- leg B generator: the whole product with Expected
    cases = vlib.tlc_behaviours(ctx, "Addr", "Addr_gen.cfg")
    if len(cases) < 29000:
        raise vlib.Infra("generator exported only %d cases" % len(cases))
    socks_idx = [i for i, c in enumerate(cases) if c["a"]["scheme"] in SOCKS_SCHEMES]
    loop_idx = [i for i, c in enumerate(cases) if loop_ok(c["a"])]

    def stratified(idx, per_class, key=klass):
        by = {}
        for i in idx:
            by.setdefault(key(cases[i]["a"]), []).append(i)
        out = []
        for k in sorted(by):
            l = by[k]
            rng.shuffle(l)
            out += l[:per_class]
        return out

    picks = []
    if T:
        # full product through the proxy (two concretizations); on loopback every (coarse) abstract class 6 times
        # (all cases touching ::1 run one at a time, the full product would take ~15 min)
        for v in range(2):
            picks += [(i, "socks", v) for i in socks_idx]
        picks += [(i, "loop", rng.randrange(6)) for i in stratified(loop_idx, 6, klass_loop)]
    else:
        picks += [(i, "socks", rng.randrange(6)) for i in stratified(socks_idx, 2)]
        picks += [(i, "loop", rng.randrange(6)) for i in stratified(loop_idx, 1, klass_loop)]
    # ---- groups: several upstreams of one configuration (shared *tls.Config, shared bootstrap server);
    # the contract is per address, siblings must not matter
    def effport(i):
        return cases[i]["exp"]["port"]
    tls_pool = [i for i in socks_idx if cases[i]["a"]["scheme"] in ("tls", "tls+pipeline", "https")
                and not cases[i]["unasserted"] and not cases[i]["mayReject"] and not cases[i]["mustReject"]]
    boot_pool = [i for i, c in enumerate(cases) if c["a"]["hk"] == "name" and c["a"]["dial"] == "none" and not c["mustReject"]
                 and c["a"]["scheme"] in ("tls", "tls+pipeline", "https", "quic", "doq", "h3")]
    gpicks, gid = [], 0
    for _ in range(400 if T else 40):
        # different URL hosts (names differ by variant, literals by case), one tls.Config
        ms = rng.sample(tls_pool, 3)
        gpicks += [(i, "socks", j, gid) for j, i in enumerate(ms)]
        gid += 1
        # the same name behind one bootstrap server, different ports / schemes
        a = rng.choice(boot_pool)
        others = [i for i in boot_pool if effport(i) != effport(a)]
        v = rng.randrange(6)
        gpicks += [(i, "loop", v, gid) for i in [a] + rng.sample(others, 2)]
        gid += 1

    # ---- fault cases on loopback: the expected destination refuses, every other candidate listens
    fault_pool = [i for i in loop_idx if not cases[i]["unasserted"] and not cases[i]["mayReject"] and not cases[i]["mustReject"]]
    by = {}
    for i in fault_pool:
        by.setdefault((cases[i]["a"]["scheme"], cases[i]["a"]["dial"]), []).append(i)
    fpicks = []
    for k in sorted(by):
        fpicks += [(i, "loop", rng.randrange(6), "refuse") for i in rng.sample(by[k], min(len(by[k]), 12 if T else 2))]
    gpicks += fpicks

    # unasserted addresses are only smoke-run (they cost a timeout each)
    un = [p for p in picks if cases[p[0]]["unasserted"]]
    rng.shuffle(un)
    keep_un = set(map(id, un[:(400 if T else 60)]))
    picks = [p for p in picks if not cases[p[0]]["unasserted"] or id(p) in keep_un]
    rng.shuffle(picks)
    picks += gpicks
    log("running %d cases (%d socks, %d loop) of %d exported" % (
        len(picks), sum(1 for p in picks if p[1] == "socks"), sum(1 for p in picks if p[1] == "loop"), len(cases)))
    log("%d loopback cases run with a refusing expected destination" % len(fpicks))
    log("of these %d run as %d groups of 3 upstreams sharing one tls.Config / bootstrap server" % (len(gpicks) - len(fpicks), gid))

    binary = vlib.go_build(ctx, "drv_addr")
    jc, recs = drive(ctx, binary, cases, picks)
    good, skipped, inconcl, nviol, nrej = evaluate(ctx, cases, picks, jc, recs)

    # ---- binding self-check: a corrupted field of an accepted trace must be rejected by TLC
    if not ctx.violations:
        base = next((r["events"] for r in good if any(e["ev"] == "Conn" for e in r["events"])
                     and not cases[picks[r["id"]][0]]["unasserted"]), None)
        if base is None:
            raise vlib.Infra("no accepted trace with a connection to corrupt")
        bads = []
        for field, f in (("port", lambda v: v % 65535 + 1), ("host", lambda v: "other")):
            bad = copy.deepcopy(base)
            for e in bad:
                if e["ev"] == "Conn":
                    e[field] = f(e[field])
            bads.append(bad)
        bads.append([e for e in copy.deepcopy(base) if e["ev"] != "Conn"])
        vlib.assert_rejects(ctx, "Addr_Trace", "Addr_Trace.cfg", bads,
                            "Conn.port changed; Conn.host -> other; all Conn events removed")

    asserted = [r for r in good if not cases[picks[r["id"]][0]]["unasserted"]]
    ctx.cov["evaluations"] = len(good)
    ctx.cov["distinct_nontrivial"] = len({klass(cases[picks[r["id"]][0]]["a"]) + (r["mode"],) for r in asserted
                                          if r["obs"] or not r["created"]})
    ctx.cov["classes_total"] = len({klass(c["a"]) for c in cases})
    ctx.cov["cases_exported"] = len(cases)
    ctx.cov["skipped_unobservable"] = len(skipped)
    ctx.cov["inconclusive"] = len(inconcl)
    ctx.cov["connections_observed"] = sum(len(r["obs"]) for r in good)
    ctx.cov["rule"] = ("evaluation = one address record (rendered from TLC's tokens under a seeded concretization) created "
                       "with the real NewUpstream and observed; distinct_nontrivial = distinct (scheme, host kind, "
                       "spelling, port given?, dial kind, dial spelling, observation mode) classes of asserted addresses "
                       "with an observed outcome (refusal or >= 1 connection)")
    ctx.cov["exhaustive"] = bool(T)
    for r in asserted[:4]:
        ctx.sample({"addr": r["addr"], "dial_addr": r["dial_addr"], "mode": r["mode"], "created": r["created"],
                    "obs": r["obs"], "expected": cases[picks[r["id"]][0]]["exp"]})

    # ---- extra coverage: pkg/upstream/bootstrap (the address a hostname upstream dials comes from here):
    # spec/Bootstrap.tla, harness/drv_bootstrap (built by the lead; also runnable as `bin/check X_bootstrap quick`)
    _bg_bootstrap.join()
