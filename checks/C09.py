"""C09 — per-connection concurrency limits hold and capacity never leaks.
spec/PipeConn.tla (+ PipeConn_Trace.tla), harness/simnet, harness/drv_pipeconn (TraditionalDnsConn),
harness/drv_pipeline (PipelineTransport / lazy dial: queries queued while the connection is dialing)."""
import random
import vlib
from vlib import log
import pipeconn_common as pc

TRACE_CFG = "PipeConn_Trace_C09.cfg"
TRACE_CFG_WIDE = "PipeConn_Trace_C09w.cfg"


def fill_script(L, rng, dgram, name):
    """limit L: admit until refused while every Write is held, then complete / cancel the queries in a
    random mix, re-reserving after each completion; finally count the admissions of the quiescent conn.
    (The 'o' values only steer the driver; whether the observed outcomes are right is decided by TLC.)"""
    st = [{"a": "ArmIdle"}]
    for c in range(L):
        st += [{"a": "Reserve", "c": c, "o": "ok"}, {"a": "Start", "c": c}, {"a": "Write", "c": c}]
    st += [{"a": "Reserve", "c": L, "o": "full"}]
    order = list(range(L))
    rng.shuffle(order)
    x = L + 1
    for c in order:
        mode = rng.choice(["reply", "reply_early", "cancel", "cancel_late"])
        if mode == "reply":
            st += [{"a": "ArmWaiting", "c": c}, {"a": "ReadMsg", "c": c, "g": 0, "n": 0}, {"a": "Dispatch"}, {"a": "ArmIdle"}]
        elif mode == "reply_early":
            st += [{"a": "ReadMsg", "c": c, "g": 0, "n": 0}, {"a": "Dispatch"}, {"a": "ArmIdle"}, {"a": "ArmWaiting", "c": c}]
        elif mode == "cancel":
            st += [{"a": "Cancel", "c": c}, {"a": "ArmWaiting", "c": c}]
        else:
            st += [{"a": "ArmWaiting", "c": c}, {"a": "Cancel", "c": c}]
        st += [{"a": "Return", "c": c}]
        # capacity must be back: one more is admitted (and one beyond that refused while the others are held)
        st += [{"a": "Reserve", "c": x, "o": "ok"}]
        if rng.random() < 0.5:
            st += [{"a": "Reserve", "c": L, "o": "full"}]
        st += [{"a": "Withdraw", "c": x}]
    return {"name": name, "maxCq": L, "dgram": dgram, "qid0": 0, "idpolicy": "random", "steps": st,
            "probe": True, "probe_c": L + 2, "grace_ms": 600 if dgram else 1500}


def wrap_fill_script(L, rng, dgram, name):
    """wire-id wrap with a query outstanding, then fill: caller 0 stays unanswered while 65535 unrecorded helper
    exchanges take the 16-bit id counter once around (Bulk event); then the connection is filled with every Write
    held: exactly L - 1 further queries may be admitted (their ids must skip the outstanding one), the next is
    refused; afterwards everything is answered and the quiescent connection is probed."""
    st = [{"a": "ArmIdle"}, {"a": "Reserve", "c": 0, "o": "ok"}, {"a": "Start", "c": 0}, {"a": "Write", "c": 0},
          {"a": "ArmWaiting", "c": 0}, {"a": "Bulk", "cnt": 65535}]
    for c in range(1, L):
        st += [{"a": "Reserve", "c": c, "o": "ok"}, {"a": "Start", "c": c}, {"a": "Write", "c": c}]
    st += [{"a": "Reserve", "c": L, "o": "full"}, {"a": "Reserve", "c": L, "o": "full"}]
    order = list(range(L))
    rng.shuffle(order)
    for c in order:
        if c != 0:
            st += [{"a": "ArmWaiting", "c": c}]
        st += [{"a": "ReadMsg", "c": c, "g": 0, "n": 0}, {"a": "Dispatch"}, {"a": "ArmIdle"}, {"a": "Return", "c": c},
               {"a": "Reserve", "c": L + 1, "o": "ok"}, {"a": "Withdraw", "c": L + 1}]
    return {"name": name, "maxCq": L, "dgram": dgram, "qid0": 0, "idpolicy": "random", "steps": st,
            "probe": True, "probe_c": L + 2, "grace_ms": 600 if dgram else 1500}


def run(ctx):
    T = ctx.thorough()
    if ctx.replay:
        _rp = vlib.json.load(open(ctx.replay)).get("replay")
        if isinstance(_rp, dict) and "mode" in _rp and "script" in _rp:   # a replay file of the pool extension (drv_pool)
            import poollib
            return poollib.replay(ctx)
        d = vlib.json.load(open(ctx.replay))["replay"]
        if d.get("driver") == "drv_pipeline":
            import pipeline_part
            return pipeline_part.replay(ctx, d)
        wide = d["script"]["maxCq"] > 4
        return pc.replay(ctx, TRACE_CFG_WIDE if wide else TRACE_CFG)
    rng = random.Random(ctx.seed)
    ctx.assumptions += [
        "'unanswered queries carried by the connection' = calls admitted by ReserveNewQuery whose ExchangeReserved / "
        "WithdrawReserved has not finished; the release point inside the call is free (silent step), so any accounting "
        "scheme with the same observable admissions is accepted",
        "ReserveNewQuery is called while holding the recorder mutex (it is non-blocking), so no event can separate its "
        "linearization point from its log line",
        "ReserveNewQuery reads the closed flag before it takes the lock: 'closed' is accepted only once the connection is "
        "closed, 'ok'/'full' are judged by the count alone (also shortly after a close); limits up to 64 are exercised on "
        "the real connection, the model checks limits 1 and 2 exhaustively",
    ]
    # ---- leg A
    cfgs = [("PipeConn_design_c09.cfg", "design, 3 callers x 1 call, limits 1 and 2", {})]
    if T:
        cfgs += [("PipeConn_design2.cfg", "design, 2 callers x 1 call, stream, all budgets", {}),
                 ("PipeConn_design_c09b.cfg", "design, 2 callers x 2 calls, limits 1 and 2", {"timeout": 1200}),
                 ("PipeConn_design2u.cfg", "design, 2 callers, datagram", {}),
                 ("PipeConn_design3.cfg", "design, 3 callers x 1 call, dup/cancel/fault", {"timeout": 1500})]
    # leg A runs concurrently with the generators / the Go driver (joined before leg C) to keep the quick tier short
    from concurrent.futures import ThreadPoolExecutor
    ex = ThreadPoolExecutor(max_workers=2)
    leg_a = ex.submit(pc.leg_a, ctx, cfgs, [("PipeConn_dev_d5.cfg", "ExactAccounting"), ("PipeConn_dev_d5b.cfg", "NoSpuriousRefusal"),
                                            ("PipeConn_dev_off1.cfg", "Limit"), ("PipeConn_dev_dblrel.cfg", "NoUnderflow"),
                                            ("PipeConn_dev_leak.cfg", "QuiescentFree"), ("PipeConn_dev_nodel.cfg", "QuiescentFree")])

    # ---- leg B
    nsim = 1000 if T else 160
    b1 = vlib.tlc_behaviours(ctx, "PipeConn", "PipeConn_gen.cfg", simulate=nsim, depth=250,
                             cfg_text=pc.gen_cfg(Callers="{0, 1, 2}", MaxCqs="{1, 2}", MaxCalls="2", MaxStray="0", MaxDup="0"),
                             label="generator: 3 callers x 2 calls, limits 1-2, withdraw / cancel / fault anywhere")
    b2 = vlib.tlc_behaviours(ctx, "PipeConn", "PipeConn_gen.cfg", simulate=nsim, depth=200,
                             cfg_text=pc.gen_cfg(Callers="{0, 1, 2, 3}", MaxCqs="{2, 3}", MaxCalls="1", MaxStray="0", MaxDup="0",
                                                 MaxFault="0"),
                             label="generator: 4 callers, limits 2-3, no faults")
    behs = b1 + b2
    scripts, meta = [], []
    for i, b in enumerate(behs):
        dgram = (i % 3 == 2)
        scripts.append(pc.script_of(b, "b%d" % i, dgram=dgram, probe=True, probe_c=4, grace_ms=600 if dgram else 1500,
                                    kinds=[["eof", "err", "timeout"][i % 3]]))
        meta.append({"beh": i, "refusal": any(s["a"] == "Reserve" and s["o"] == "full" for s in b["steps"])})
    narrow_n = len(scripts)
    for k in range(12 if T else 3):
        for L in (1, 2, 4):
            scripts.append(fill_script(L, rng, dgram=(k % 2 == 1), name="fill%d.%d" % (L, k)))
            meta.append({"beh": None, "refusal": True})
    for k in range(6 if T else 2):
        L = (2, 2, 3, 4)[k % 4]
        scripts.append(wrap_fill_script(L, rng, dgram=False, name="wrapfill%d.%d" % (L, k)))  # stream only: a UDP query outstanding > 1 s resends
        meta.append({"beh": None, "refusal": True})
    # bounded concurrent stress: ReserveNewQuery hammered while exchanges register their queries (Writes held)
    for k in range(4 if T else 2):
        L = (1, 2)[k % 2]
        scripts.append({"name": "stress%d.%d" % (L, k), "maxCq": L, "dgram": False, "qid0": 0, "idpolicy": "random",
                        "steps": [{"a": "Stress", "n": 8000 if T else 4000}], "probe": True, "probe_c": L + 2, "grace_ms": 1500})
        meta.append({"beh": None, "refusal": False})
    nrand = 500 if T else 40
    for i in range(nrand):
        L = rng.choice([1, 1, 2, 2, 3])
        scripts.append(pc.random_script("rnd%d" % i, callers=rng.choice([2, 3, 4]), calls=rng.choice([2, 3, 4]), maxcq=L,
                                        dgram=(i % 2 == 1), seed=rng.randrange(1, 2 ** 31), p_cancel=0.05, p_fault=0.1,
                                        p_withdraw=0.2, p_dup=0.1, probe=True, probe_c=4, grace_ms=600 if i % 2 == 1 else 1500))
        meta.append({"beh": None, "refusal": False})
    narrow = len(scripts)
    for k in range(6 if T else 2):
        scripts.append(fill_script(64, rng, dgram=(k % 2 == 1), name="fill64.%d" % k))
        meta.append({"beh": None, "refusal": True})
    log("replaying %d scripts (%d TLC behaviours, fill scripts for limits 1/2/4/64, %d random runs)" % (
        len(scripts), len(behs), nrand))
    recs = pc.run_scripts(ctx, scripts, workers=8)
    leg_a.result()   # design-level failures (Infra) surface here

    # ---- leg C
    rej = pc.validate(ctx, recs[:narrow], TRACE_CFG, "C09", max_reject=5)
    rej_w = pc.validate(ctx, recs[narrow:], TRACE_CFG_WIDE, "C09 (limit 64)", max_reject=4)
    rej += [(i + narrow, s, info) for i, s, info in rej_w]
    pc.report(ctx, recs, rej, TRACE_CFG, cfg_wide=TRACE_CFG_WIDE)
    st = pc.steering_stats(ctx, recs)

    # ---- part (ii): PipelineTransport / lazy dial
    import pipeline_part
    n_pipe = pipeline_part.run(ctx, rng)

    ctx.cov["evaluations"] = len(recs) + n_pipe
    nontriv = set()
    for r, m in zip(recs, meta):
        refusals = any(e["ev"] == "Reserve" and e["o"] == "full" for e in r["trace"])
        if r["steered"] and refusals:
            nontriv.add(vlib.json.dumps(r["script"]["steps"], sort_keys=True) + str(r["script"]["maxCq"]))
    ctx.cov["distinct_nontrivial"] = len(nontriv)
    ctx.cov["rule"] = ("evaluations = scripts executed on the real TraditionalDnsConn / PipelineTransport and validated by TLC; "
                       "distinct_nontrivial = distinct fully steered scripts in which the real connection refused at least "
                       "one reservation (the limit was reached) — every admission/refusal in them was checked against the spec")
    ctx.cov["exhaustive"] = False
    if not rej and len(st) < len(recs) // 3:
        raise vlib.Infra("dead driver: only %d of %d scripts could be steered: %s" % (
            len(st), len(recs), ctx.cov["unsteered_reasons"]))
    if not rej:
        pc.mutate_check(ctx, recs[:narrow], TRACE_CFG, rng)
    for r in [recs[i] for i, _, _ in rej[:2]] + recs[narrow_n:narrow_n + 1] + recs[:1]:
        ctx.sample({"name": r["name"], "steered": r["steered"], "trace": r["trace"][:60]})

    # ---- the same property on the connection pools (reuse.go, pipeline.go + conn_lazy_dial.go):
    # spec/ReuseConn.tla, spec/LazyPipeline.tla, harness/drv_pool (checks/pool_extra.py)
    import pool_extra
    _ev, _dn = ctx.cov.get("evaluations", 0), ctx.cov.get("distinct_nontrivial", 0)
    _recs = pool_extra.run_c09_reuse(ctx)
    _ran = [r for r in _recs if not r.get("skipped")]
    ctx.cov["evaluations"] = _ev + len(_ran)
    ctx.cov["distinct_nontrivial"] = _dn + len({r["name"].split("#")[0] for r in _ran if r["steered"]})
