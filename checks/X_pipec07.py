"""Standalone pseudo-check for the conn_traditional.go part of C07 (read-deadline arming, silent server):
`bin/check X_pipec07 quick`, `bin/selftest <patch> X_pipec07`.  The real entry point is pipeconn_c07.run_extra(ctx),
called from checks/C07.py."""
import pipeconn_c07


def run(ctx):
    ctx.cov["rule"] = ("schedules of PipeConnArm.tla + hand-written orders forced onto the real TraditionalDnsConn (every "
                       "SetReadDeadline held, virtual time), every trace validated by TLC with ArmedIsShortWhenOwed")
    recs = pipeconn_c07.run_extra(ctx)
    if recs is not None:
        ctx.cov["evaluations"] = len(recs)
        ctx.cov["distinct_nontrivial"] = len({r["name"].split(".")[0] + r["script"].get("kind", "") for r in recs
                                               if r["steered"] and any(e["ev"] == "Advance" for e in r["trace"])})
