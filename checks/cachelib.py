"""Shared helpers of the cache-plugin family (C04, C05, C10, C19): cfg texts for spec/CachePlugin*.tla,
concretization maps, trace-event construction.  Expectations always come from TLC."""
import json
import random

import vlib

BASE = {
    "Names": '{"n1", "n2"}', "Types": '{"t1", "t2"}', "Classes": '{"c1", "c2"}', "Flags": "{0, 1, 2, 3, 4, 5, 6, 7}",
    "Kinds": '{"std"}', "KeyFields": "<- AllKey", "Resps": "<- RespsOne", "LazyTTLs": "{0}", "Ticks": "{1}",
    "MaxNow": "0", "MaxOps": "2", "NxMax": "30", "SfMax": "5", "EmptyMax": "300", "StaleTTL": "5",
    "TTLMode": '"stored"', "Admit": '"rule"', "Dedup": "TRUE", "RefreshOwner": '"asked"', "Alias": '"none"', "DumpFields": "<- AllDump",
    "Insts": "{1}", "OpKinds": '{"exec"}', "MaxHandles": "0", "WithHist": "FALSE",
}
ALL_INV = ("TypeOK NoSharing BypassRule TTLRule StaleRule AdmissionRule NeverServedAfterExpiry AtMostOneRefresh "
           "Isolation HitId RestartTransparent")


def cfg(inv=ALL_INV, gen=False, view=True, **over):
    """cfg text for CachePlugin_MC. gen=True: behaviour export (INVARIANT Emit, history on)."""
    c = dict(BASE)
    c.update(over)
    if gen:
        c["WithHist"] = "TRUE"
    lines = ["SPECIFICATION Spec", "CONSTANTS"]
    for k, v in c.items():
        lines.append("  %s %s" % (k, v) if v.startswith("<-") else "  %s = %s" % (k, v))
    if gen:
        lines.append("INVARIANTS Emit")
    else:
        if view:
            lines.append("VIEW ViewNoHist")
        lines.append("INVARIANTS " + inv)
    lines.append("CHECK_DEADLOCK FALSE")
    return "\n".join(lines) + "\n"


# ---------------------------------------------------------------------------
# concretization maps (DESIGN §2.5): two DISTINCT abstract symbols -> adversarial concrete values

def _long_name(first, last, total=253):
    """presentation-format name of `total` octets (wire 255): labels of 63 octets."""
    labels = []
    left = total
    while left > 0:
        n = min(63, left - 1) if left > 64 else left - 1
        if n <= 0:
            break
        labels.append("x" * n)
        left -= n + 1
    labels[0] = first + labels[0][1:]
    labels[-1] = labels[-1][:-1] + last
    return ".".join(labels) + "."


NAME_PAIRS = [
    ("one-octet", "a.example.", "b.example."),
    ("last-octet", "www.example.com.", "www.example.con."),
    ("prefix-length", "a.example.", "aa.example."),
    ("parent-child", "example.", "a.example."),
    ("label-boundary", "ab.c.", "a.bc."),
    ("escaped-dot", "a\\.b.example.", "a.b.example."),
    ("root-vs-label", ".", "a."),
    ("one-vs-two-octets", "a.", "b."),
    ("digit-label", "1.0.0.127.in-addr.arpa.", "1.0.0.128.in-addr.arpa."),
    ("binary-octet", "\\000.example.", "\\001.example."),
    ("255-octets-last", _long_name("x", "y"), _long_name("x", "z")),
    ("255-octets-first", _long_name("y", "x"), _long_name("z", "x")),
    ("255-vs-short", _long_name("x", "x"), "x."),
    ("len-mod-256", "abc.", "\\001" * 63 + ".abcdef."),   # presentation lengths 4 and 260
    # escaped octets make the presentation form up to 4x longer than the wire form: equal in the first 255
    # characters (and far beyond), different only in the last octet of a 255-octet name / behind character 255
    ("escaped-255-octets-last", ".".join(["\\001" * 63] * 3 + ["\\001" * 60 + "\\002"]) + ".",
     ".".join(["\\001" * 63] * 3 + ["\\001" * 60 + "\\003"]) + "."),
    ("escaped-differs-behind-255", "\\001" * 63 + "." + "\\001" * 10 + "a.", "\\001" * 63 + "." + "\\001" * 10 + "b."),
    ("escaped-same-length-mid", "\\001" * 63 + ".a." + "\\001" * 20 + ".", "\\001" * 63 + ".b." + "\\001" * 20 + "."),
]
TYPE_TRIPLES = [
    ("mod256", 1, 257, 513), ("mod256-high", 1, 65281, 257), ("zero-max", 0, 65535, 255), ("high-byte-equal", 256, 257, 258),
    ("low-byte-equal-0", 256, 512, 0), ("adjacent", 1, 2, 28), ("any-opt", 255, 41, 65535 - 256), ("swap", 0x0102, 0x0201, 0x0101),
    ("aaaa-mod256", 28, 284, 28 + 512), ("top-bit", 1, 32769, 32768),
]
CLASS_PAIRS = [("in-ch", 1, 3), ("in-any", 1, 255), ("zero-in", 0, 1), ("in-257", 1, 257), ("in-256", 1, 256),
               ("any-254", 255, 254), ("zero-max", 0, 65535), ("hs-ch", 4, 3), ("none-in", 254, 1)]
PERMS = [[0, 1, 2], [0, 2, 1], [1, 0, 2], [1, 2, 0], [2, 0, 1], [2, 1, 0]]


def all_maps():
    """one map per adversarial choice in each dimension, the other dimensions at a plain default, plus
    all 8 xor masks x 6 bit permutations of the AD/CD/DO flags."""
    maps = []

    def mk(tag, names=None, types=None, classes=None, fxor=0, fperm=None):
        return {"tag": tag,
                "names": names or {"n1": "example.org.", "n2": "example.net."},
                "types": types or {"t1": 1, "t2": 28, "t3": 16},
                "classes": classes or {"c1": 1, "c2": 3},
                "fxor": fxor, "fperm": fperm or [0, 1, 2]}
    for tag, a, b in NAME_PAIRS:
        maps.append(mk("name:" + tag, names={"n1": a, "n2": b}))
        maps.append(mk("name:" + tag + ":rev", names={"n1": b, "n2": a}))
    for tag, a, b, c in TYPE_TRIPLES:
        maps.append(mk("type:" + tag, types={"t1": a, "t2": b, "t3": c}))
        maps.append(mk("type:" + tag + ":rev", types={"t1": b, "t2": a, "t3": c}))
    for tag, a, b in CLASS_PAIRS:
        maps.append(mk("class:" + tag, classes={"c1": a, "c2": b}))
        maps.append(mk("class:" + tag + ":rev", classes={"c1": b, "c2": a}))
    for x in range(8):
        for p in PERMS:
            maps.append(mk("flags:xor%d:perm%s" % (x, "".join(map(str, p))), fxor=x, fperm=p))
    # position of the OPT within the additional section of the query the plugin receives
    for pos in ("x-opt", "opt-x", "x-opt-y", "opt-tsig"):
        for x in range(8):
            mm = mk("optpos:%s:xor%d" % (pos, x), fxor=x, fperm=PERMS[x % 6])
            mm["optpos"] = pos
            maps.append(mm)
    # the answer (rcode / sections) as a concretization dimension; concrete types A/AAAA in both orders
    answers = {"nxdomain": {"rc": 3, "tc": False, "nan": 0, "ttls": [300], "opt": False},
               "nxdomain-bare": {"rc": 3, "tc": False, "nan": 0, "ttls": [], "opt": False},
               "nodata": {"rc": 0, "tc": False, "nan": 0, "ttls": [300], "opt": False},
               "answer+additional": {"rc": 0, "tc": False, "nan": 1, "ttls": [300, 600, 900], "opt": True}}
    for tag, r in answers.items():
        for ttag, ty in (("a-aaaa", {"t1": 1, "t2": 28, "t3": 16}), ("aaaa-a", {"t1": 28, "t2": 1, "t3": 16}), ("mod256", {"t1": 1, "t2": 257, "t3": 513})):
            mm = mk("answer:%s:%s" % (tag, ttag), types=ty)
            mm["resp"] = r
            maps.append(mm)
    # everything adversarial at once
    maps.append(mk("combo", names={"n1": NAME_PAIRS[2][1], "n2": NAME_PAIRS[2][2]}, types={"t1": 1, "t2": 257, "t3": 513},
                   classes={"c1": 1, "c2": 257}, fxor=5, fperm=[2, 0, 1]))
    return maps


def plain_map():
    return {"tag": "plain", "names": {"n1": "example.org.", "n2": "example.net."}, "types": {"t1": 1, "t2": 28, "t3": 16},
            "classes": {"c1": 1, "c2": 3}, "fxor": 0, "fperm": [0, 1, 2]}


# ---------------------------------------------------------------------------
# trace events (leg C)

def ev_reset(lazy, loose=(1, 2)):
    return {"ev": "Reset", "lazy": lazy, "loose": list(loose)}


def ev_exec(i, q, r, sid, ao):
    q = dict(q)
    q.setdefault("k", "std")
    o = {"res": ao["res"], "owner": {k: ao["owner"][k] for k in ("n", "t", "c", "f")}, "id": ao["id"],
         "ttls": ao.get("ttls") or [], "cont": ao.get("cont", "orig"), "idok": ao.get("idok", True)}
    return {"ev": "Exec", "i": i, "q": q, "r": r, "sid": sid, "o": o}


def beh_key(b):
    return json.dumps(b, sort_keys=True)


def binding_selfcheck(ctx, traces, corrupt, what):
    """Rule 4: an accepted real trace with ONE recorded field corrupted must be rejected by TLC.
    corrupt(trace) returns a corrupted deep copy or None if the trace has nothing to corrupt."""
    import copy
    import os
    for t in traces:
        c = corrupt(copy.deepcopy(t))
        if c is None:
            continue
        path = os.path.join(ctx.work, "selfcheck.ndjson")
        vlib.write_ndjson(path, c)
        ok, info = vlib.tlc_trace(ctx, "CachePlugin_Trace", "CachePlugin_Trace.cfg", path, name="selfcheck")
        if ok:
            raise vlib.Infra("trace validation is vacuous: a trace with a corrupted %s was accepted" % what)
        ctx.cov["binding_selfcheck"] = "accepted real trace with corrupted %s is rejected by TLC" % what
        return
    raise vlib.Infra("binding self-check: no trace with a %s to corrupt" % what)
