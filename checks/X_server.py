"""Standalone pseudo-check for the server connection-lifecycle extra coverage of C16/C03: `bin/check X_server quick`,
`bin/selftest <patch> X_server`.  The real entry point is server_extra.run_extra(ctx), called from checks/C16.py."""
import server_extra


def run(ctx):
    ctx.cov["rule"] = ("schedules of ServerConn.tla (client chunking / pipelining / garbage / half-close / virtual deadline expiry, "
                       "handler completion order and nil replies, listener close) replayed into the real server.ServeTCP over scripted "
                       "connections and server.ServeUDP over loopback, each also without waiting between client steps; nontrivial = "
                       ">= 2 concurrent handlers, a deadline expiry, garbage, a nil reply, a split frame or a listener close")
    server_extra.run_extra(ctx)
