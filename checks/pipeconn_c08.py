"""Extra coverage for C08 with the REAL TraditionalDnsConn under PipelineTransport: a reused connection that is killed
with a query in flight — while its Close() is slow (held) — must not take the retry; the query is retried on another
connection and succeeds.  spec/LazyPipe.tla (ConnDie / DieRetry, SingleFaultSurvives), harness/drv_pipeline (simnet
Close as a held rendezvous).  run_extra(ctx) is meant to be called from checks/C08.py; stand-alone: X_pipec08."""
import copy
import json
import vlib
from vlib import log
import pipeline_part as pp
import pipeconn_common as pc


def S(a, **kw):
    d = {"a": a}
    d.update(kw)
    return d


def kill_reused(name, dgram, variant):
    """connection 1 is established and used once; then query c1 is in flight on it when the peer closes it; Close()
    of the connection is held.  variant 'retry': c1 must be retried on a new connection (dial 2) and succeed;
    variant 'newcomer': additionally a new query c2 arrives inside the Close() window — it must not be put on the
    dead connection either."""
    st = [S("Call", c=0), S("WaitDial", k=1), S("DialOk", k=1), S("Finish", c=0),
          S("Call", c=1), S("WriteRet", c=1), S("Kill", k=1), S("WaitClose", k=1)]
    if variant == "newcomer":
        st += [S("Call", c=2)]
    st += [S("WaitDialOpt", k=2, n=1500), S("DialOk", k=2), S("WaitWrites", n=2 if variant == "newcomer" else 1),
           S("FinishAll"), S("ReleaseClose", k=1), S("Collect")]
    # afterwards the pool works normally
    st += [S("Call", c=3), S("WaitWrites", n=1), S("FinishAll")]
    return {"name": name, "q": 2, "l": 4, "dgram": dgram, "hold_close": True, "steps": st}


def run_extra(ctx):
    if ctx.replay:
        d = json.load(open(ctx.replay))["replay"]
        return pp.replay(ctx, d)
    T = ctx.thorough()
    ctx.assumptions += [
        "conn_traditional/C08: a connection whose close has begun (closeNotify closed) admits no reservation even while "
        "Close() of the net.Conn is still in progress (held by the harness); after the death of a REUSED connection a query "
        "is retried at least once on a connection that can take it; with a single death and working dials it succeeds",
    ]
    vlib.tlc_mc(ctx, "LazyPipe", "LazyPipe_design.cfg", label="LazyPipe design incl. connection death / retry (SingleFaultSurvives)",
                cfg_text=None if T else open(vlib.VERIF + "/spec/LazyPipe_design.cfg").read().replace("MaxCalls = 2", "MaxCalls = 1"),
                timeout=900)
    ctx.cov.setdefault("non_vacuity_extra", {})["pipeconn_c08"] = pc.nonvac_runs(
        ctx, "LazyPipe", [("LazyPipe_dev_dead.cfg", "SingleFaultSurvives")])
    scripts = []
    for k in range(4 if T else 2):
        for v in ("retry", "newcomer"):
            scripts.append(kill_reused("kill-reused.%s.%d" % (v, k), dgram=False, variant=v))
    recs = pp.run_scripts(ctx, scripts)
    rej = pp.validate_report(ctx, recs, prop="C08")
    st = [r for r in recs if r["steered"]]
    ctx.cov["pipeconn_c08_scripts"] = len(recs)
    if not rej and len(st) < len(recs):
        raise vlib.Infra("conn_traditional/C08: driver could not steer: %s" % [r.get("why") for r in recs if not r["steered"]][:3])
    ctx.sample({"name": recs[0]["name"], "steered": recs[0]["steered"], "trace": recs[0]["trace"]})
    return recs
