"""C07 — exchanges always terminate; Close releases everything (connection-pool part:
ReuseConnTransport, PipelineTransport + lazyDnsConn).
spec/ReuseConn.tla, spec/LazyPipeline.tla (+ *_Trace.tla), harness/drv_pool."""
import random

import vlib
from vlib import log
import poollib as pl

NV_SAFETY = (("ReuseConn", "ReuseConn_nv_lock.cfg", "NoLockCycle"),
             ("ReuseConn", "ReuseConn_nv_erronfault.cfg", "ErrOnFault"),
             ("ReuseConn", "ReuseConn_nv_closedrejects.cfg", "ClosedRejects"),
             ("ReuseConn", "ReuseConn_nv_closewakes.cfg", "CloseWakesAll"),
             ("ReuseConn", "ReuseConn_nv_armed.cfg", "ArmedIsShortWhenOwed"),
             ("LazyPipeline", "LazyPipeline_nv_erronfault.cfg", "ErrOnFault"),
             ("LazyPipeline", "LazyPipeline_nv_closedrejects.cfg", "ClosedRejects"),
             ("LazyPipeline", "LazyPipeline_nv_closecloses.cfg", "CloseClosesAll"))
NV_LIVE = (("ReuseConn", "ReuseConn_nv_lock_live.cfg", "Released"), ("ReuseConn", "ReuseConn_nv_callsend.cfg", "CallsEnd"),
           ("LazyPipeline", "LazyPipeline_nv_callsend.cfg", "CallsEnd"), ("LazyPipeline", "LazyPipeline_nv_released.cfg", "Released"))


def nonvacuity(ctx):
    for spec, cfg, inv in NV_SAFETY:
        nv = vlib.run_tlc(ctx, spec, cfg, expect_violation=True, workers=1)
        if nv["violated"] != inv:
            raise vlib.Infra("non-vacuity run %s: expected %s to fail, got %r" % (cfg, inv, nv["violated"]))
    for spec, cfg, prop in NV_LIVE:
        nv = vlib.run_tlc(ctx, spec, cfg, expect_violation=True, workers=2)
        if not nv["violated"] or not (prop in str(nv["violated"]) or "emporal" in str(nv["violated"])):
            raise vlib.Infra("non-vacuity run %s: expected a liveness counterexample, got %r" % (cfg, nv["violated"]))
    ctx.cov["non_vacuity"] = ("each safety invariant fails under its deviation switch (%s); CallsEnd / Released fail when a "
                              "waiter is not woken, when Close skips a connection, and with the pinned lock order of "
                              "closeWithErr (D15)" % ", ".join(c for _, c, _ in NV_SAFETY))


def run(ctx):
    if ctx.replay:
        # dispatch the replay file to the module that wrote it
        _rp = vlib.json.load(open(ctx.replay)).get("replay")
        if isinstance(_rp, dict) and "beh" in _rp and "listen" in _rp:          # updial_extra (drv_updial)
            import updial_extra
            return updial_extra.run_extra(ctx)
        if isinstance(_rp, dict) and _rp.get("mode") == "arm":                   # pipeconn_c07 (drv_pipeconn, deadline arming)
            import pipeconn_c07
            return pipeconn_c07.run_extra(ctx)
        if isinstance(_rp, dict) and _rp.get("driver") == "drv_pipeline":        # pipeconn_c08 / pipeline_part
            import pipeline_part
            return pipeline_part.replay(ctx, _rp)
        return pl.replay(ctx)
    # the upstream-level dial/lifecycle extension mostly waits for real 5 s dial timeouts: run it concurrently
    import updial_extra
    _bg_updial = vlib.background(ctx, updial_extra.run_extra, "updial_extra")
    import pipeconn_c07
    _bg_pipeconn_c07 = vlib.background(ctx, pipeconn_c07.run_extra, "pipeconn_c07")
    T = ctx.thorough()
    W = 8 if T else 4
    ctx.assumptions += [
        "scope: the two connection pools (reuse.go; pipeline.go + conn_lazy_dial.go). The pipelined connection itself "
        "(conn_traditional.go), DoH and DoQ belong to the transport-pipe checks",
        "'promptly' / 'tens of seconds': virtual time. Silence = no reply; the harness advances the connection's clock by "
        "30 s, which fires exactly the deadlines armed <= 30 s ahead (the 6 s query timeout; not the 5 min idle timeout). "
        "Real time is only used as generous bounds: a call that has been woken (cancel, Close) returns within 6 s, a call "
        "whose every pending operation was released within 12 s",
        "harness dial functions honour their context (as net.Dialer does); reuse DialTimeout is 30 s real time except "
        "in the hanging-dial script (300 ms); the lazy connection's dial context is the code's own 5 s (real time)",
        "a Write the harness still holds when the connection is closed fails with net.ErrClosed (socket semantics)",
        "garbage frames with a valid length are replies at this layer (no DNS validation in reuse.go): not scripted",
    ]
    # ---- leg A
    vlib.tlc_mc(ctx, "ReuseConn", "ReuseConn_close.cfg", workers=W, timeout=1500,
                label="reuse: transport Close at every point of 2 calls, silence: invariants + liveness")
    vlib.tlc_mc(ctx, "ReuseConn", "ReuseConn_cancel.cfg", workers=W, timeout=1500,
                label="reuse: cancellation at every point, silence: invariants + liveness")
    vlib.tlc_mc(ctx, "LazyPipeline", "LazyPipeline_design.cfg", workers=W, timeout=900,
                label="pipeline: 2 calls, faults, cancel, Close: invariants + liveness")
    if T:
        vlib.tlc_mc(ctx, "ReuseConn", "ReuseConn_close_t.cfg", workers=W, timeout=2400, label="reuse: Close + 1 fault, liveness")
        vlib.tlc_mc(ctx, "ReuseConn", "ReuseConn_cancel_t.cfg", workers=W, timeout=2400, label="reuse: cancel + 1 fault, liveness")
        vlib.tlc_mc(ctx, "LazyPipeline", "LazyPipeline_live3.cfg", workers=W, timeout=2400, label="pipeline: 3 calls, Close + 1 fault, liveness")
        vlib.tlc_mc(ctx, "LazyPipeline", "LazyPipeline_full.cfg", workers=W, timeout=2400, label="pipeline: 3 calls, everything (safety)")
    nonvacuity(ctx)

    # ---- leg B
    n = 1200 if T else 140
    rb = pl.gen_behaviours(ctx, "reuse", "ReuseConn_gen_eager.cfg", n, 150, label="reuse generator (environment waits for the code)")
    rb2 = pl.gen_behaviours(ctx, "reuse", "ReuseConn_gen.cfg", n // 3, 150, label="reuse generator (free interleaving)")
    pb = pl.gen_behaviours(ctx, "pipeline", "LazyPipeline_gen_eager.cfg", n, 120, label="pipeline generator (environment waits for the code)")
    pb2 = pl.gen_behaviours(ctx, "pipeline", "LazyPipeline_gen.cfg", n // 3, 120, label="pipeline generator (free interleaving)")
    life = lambda b: any(s["a"] in ("Cancel", "TClose") for s in b["steps"]) or pl.interesting(b)
    rb, rb2, pb, pb2 = [[b for b in x if life(b)] for x in (rb, rb2, pb, pb2)]
    rscripts = pl.expand_repeat(pl.reuse_lifecycle_scenarios(T) + [pl.reuse_cancel_scenarios(T)[k] for k in (
        "idle-deadline-held", "cancel-then-next-before-late-reply", "late-reply-then-reuse")]) + \
        [pl.beh_to_script("reuse", b, "tlc-%d" % i) for i, b in enumerate(rb)] + \
        [pl.beh_to_script("reuse", b, "tlcfree-%d" % i, 400) for i, b in enumerate(rb2)]
    pscripts = pl.expand_repeat(pl.pipeline_scenarios(T)) + \
        [pl.beh_to_script("pipeline", b, "tlc-%d" % i) for i, b in enumerate(pb)] + \
        [pl.beh_to_script("pipeline", b, "tlcfree-%d" % i, 400) for i, b in enumerate(pb2)]
    log("replaying %d reuse scripts and %d pipeline scripts" % (len(rscripts), len(pscripts)))
    binary = vlib.go_build(ctx, "drv_pool")
    rrecs, rrej = pl.run_scripts(ctx, "reuse", rscripts, binary)
    precs, prej = pl.run_scripts(ctx, "pipeline", pscripts, binary)

    recs, scripts = rrecs + precs, rscripts + pscripts
    ran = [r for r in recs if not r.get("skipped")]
    steered = [(r, s) for r, s in zip(recs, scripts) if not r.get("skipped") and r["steered"]]
    ctx.cov["evaluations"] = len(ran)
    ctx.cov["steered_replays"] = len(steered)
    ctx.cov["distinct_nontrivial"] = len({vlib.json.dumps(s["steps"], sort_keys=True) for r, s in steered})
    ctx.cov["rule"] = ("scripts = environment + boundary projection of TLC behaviours containing a fault, a cancellation or a "
                       "transport Close (generator with and without 'environment waits for the code'), plus hand-written "
                       "concretizations (Close racing a connection failure = TLC counterexample of the pinned lock order, "
                       "hanging dial x {timeout, cancel, Close}, silence, EOF / reset / short frame in flight, Close while "
                       "dialing / with queries in flight, dial succeeding after Close). After each script: woken calls must "
                       "return without help, everything pending is released, 30 s virtual time passes, the transport is "
                       "closed, a further call must fail at once, Close() must have been seen on every dialled connection "
                       "and no goroutine may keep a pkg/upstream/transport frame. distinct_nontrivial = distinct fully "
                       "steered scripts")
    ctx.cov["exhaustive"] = False

    # ---- binding self-check
    if not ctx.violations:
        def drop_close(t):
            idx = [i for i, e in enumerate(t) if e["ev"] == "CloseReq"]
            ret = [i for i, e in enumerate(t) if e["ev"] == "TCloseRet"]
            if idx and ret and idx[-1] < ret[0] and any(e["ev"] == "TClose" for e in t[:idx[-1]]):
                return t[:idx[-1]] + t[idx[-1] + 1:]
            return None

        def post_call_dials(t):
            nd = sum(1 for e in t if e["ev"] == "Dial")
            for i, e in enumerate(t):
                if e["ev"] == "Return" and e["c"] == 6:
                    return t[:i] + [{"ev": "Dial", "d": nd + 1}] + t[i:]
            return None

        def drop_uclose(t):
            idx = [i for i, e in enumerate(t) if e["ev"] == "UClose"]
            ret = [i for i, e in enumerate(t) if e["ev"] == "TCloseRet"]
            if idx and ret and idx[-1] < ret[0]:
                return t[:idx[-1]] + t[idx[-1] + 1:]
            return None
        pl.corrupt_and_check(ctx, "reuse", rrecs, drop_close, "reuse: the Close() of a connection during transport Close removed")
        pl.corrupt_and_check(ctx, "reuse", rrecs, post_call_dials, "reuse: a dial inserted into the call made after Close")
        pl.corrupt_and_check(ctx, "pipeline", precs, drop_uclose, "pipeline: the Close() of a live connection during transport Close removed")
    pl.dead_driver(ctx, rrecs, rscripts, "reuse")
    pl.dead_driver(ctx, precs, pscripts, "pipeline")
    for r, s in (steered[:1] + [x for x in steered if x[1]["name"].startswith("close-vs-read")][:1] +
                 [x for x in steered if x[1]["name"].startswith("close-while-dialing")][:1]):
        ctx.sample({"script": s["name"], "events": r["events"][:60]})

    # ---- the same property on the real TraditionalDnsConn (deadline arming / connection death under PipelineTransport):
    # spec/PipeConnArm.tla resp. LazyPipe.tla, harness/drv_pipeconn, drv_pipeline (checks/pipeconn_c07.py)
    _bg_pipeconn_c07.join()

    # ---- the layer above the transports: dial phases, dial timeout and Close through the real upstream.NewUpstream
    # against loopback servers (spec/UpDial.tla, harness/drv_updial, checks/updial_extra.py)
    _bg_updial.join()
