"""C10 — cached answers are isolated from every caller's mutations.
spec/CachePlugin.tla (handles, Mutate, Isolation, HitId), harness/drv_cache (mode c10, built with -race)."""
import json
import random
import re

import cachelib as cl
import vlib
from vlib import log

SPEC = "CachePlugin_MC"
C10 = dict(Names='{"n1"}', Types='{"t1", "t2"}', Classes='{"c1"}', Flags="{0}", Resps="<- RespsC10",
           OpKinds='{"exec", "mutate"}', MaxHandles="4")
RESP = {"rc": 0, "tc": False, "nan": 3, "ttls": [300] * 6, "opt": True}


def signature(rec, info):
    e = info.get("event") or {}
    if e.get("ev") == "Exec":
        o = e["o"]
        if o["res"] == "hit" and not o["idok"] and o["cont"] == "orig":
            return "hit-with-foreign-id"
        prior = sorted({x["kind"] for x in rec["events"][:info.get("line_in_trace", 1) - 1] if x["ev"] == "Mutate" and x.get("n", 0) > 0})
        if prior and (o["res"] == "anomaly" or o["cont"] != "orig" or o["res"] == "hit"):
            return "served-answer-corrupted-after-mutation-of:%s:%s" % ("+".join(prior), rec["tag"])
        if o["res"] == "hit" and o["cont"] != "orig":
            # which kind of handle had been mutated before?
            kinds = sorted({x["kind"] for x in rec["events"] if x["ev"] == "Mutate" and x.get("id") == o["id"] and x.get("n", 0) > 0})
            return "hit-changed-after-mutation-of:%s:%s" % ("+".join(kinds) or "none", rec["tag"])
        if o["res"] == "hit" and not o["idok"]:
            return "hit-with-foreign-id"
        return "exec-rejected:%s:%s" % (o["res"], rec["tag"])
    return "trace-rejected:%s" % e.get("ev")


def judge(ctx, recs, job):
    acc, rej = vlib.validate_traces(ctx, "CachePlugin_Trace", "CachePlugin_Trace.cfg", [r["events"] for r in recs], label="C10", chunk=8000)
    for idx, info in rej:
        r = recs[idx]
        j = json.loads(json.dumps(job))
        if r["beh"] >= 0:
            j["c10"]["behaviours"] = [j["c10"]["behaviours"][r["beh"]]]
            j["c10"]["concurrent"] = 0
            j["c10"]["lazy_beh"] = []
        elif r["beh"] <= -2:
            j["c10"]["behaviours"] = []
            j["c10"]["concurrent"] = 0
            j["c10"]["lazy_beh"] = [j["c10"].get("lazy_beh", [])[-2 - r["beh"]]] * 3
        else:
            j["c10"]["behaviours"] = []
            j["c10"]["lazy_beh"] = []
        ctx.violation(signature(r, info), "real cache run (%s) is not a behaviour of CachePlugin.tla satisfying Isolation/HitId: rejected at "
                      "event %s: %s" % (r["tag"], info.get("line_in_trace"), json.dumps(info.get("event"))[:400]),
                      {"rec": {"tag": r["tag"], "beh": r["beh"], "events": r["events"][:14]}, "job": j})
    return acc, rej


def race_verdict(ctx, stderr, job):
    if "WARNING: DATA RACE" not in stderr:
        return 0
    n = stderr.count("WARNING: DATA RACE")
    m = re.search(r"WARNING: DATA RACE\n(?:.*\n){1,3}?\s+([\w./()*\[\]-]+)\(\)", stderr)
    top = m.group(1) if m else "unknown"
    frames = re.findall(r"^\s+(github\.com/IrineSistiana/mosdns/v5/[\w./()*\[\]-]+)\(\)", stderr, re.M)
    site = frames[0].split("/v5/")[1] if frames else top
    j = json.loads(json.dumps(job))
    j["c10"]["behaviours"] = []
    ctx.violation("data-race:" + site, "race detector: %d report(s) while concurrent queries hit and mutate cached answers; first:\n%s" % (
        n, stderr[stderr.index("WARNING: DATA RACE"):][:1500]), {"job": j})
    return n


def drive(ctx, job):
    binary = vlib.go_build(ctx, "drv_cache", race=True)
    recs, stderr = vlib.run_driver(ctx, binary, stdin_obj=job, timeout=1200, env_extra={"GORACE": "exitcode=0 halt_on_error=0"})
    return recs, stderr


def replay(ctx):
    d = json.load(open(ctx.replay))["replay"]
    recs, stderr = drive(ctx, d["job"])
    tr = [r for r in recs if r["kind"] == "trace" and not r["slow"]]
    ctx.cov["evaluations"] = len(tr)
    judge(ctx, tr, d["job"])
    race_verdict(ctx, stderr, d["job"])


def run(ctx):
    if ctx.replay:
        return replay(ctx)
    T = ctx.thorough()
    rng = random.Random(ctx.seed)
    ctx.assumptions += [
        "Mutate = one reflective pass overwriting every reachable field of the real *dns.Msg (header, question, RR headers, all rdata "
        "incl. byte slices / net.IP in place, option slices), every slot of the section slices up to their capacity, then truncation",
        "a served answer is 'unchanged' iff its packed form (ID and TTLs normalised) equals the packed scripted answer without OPT",
        "the concurrent part consists of fresh hits only (they commute); race reports of the Go race detector are violations",
    ]
    vlib.tlc_mc(ctx, SPEC, "c10_design.cfg", cfg_text=cl.cfg(MaxOps="9" if T else "7", **C10),
                label="C10 design: 2 keys, <= 3 handles, store/hit/mutate interleavings")
    for alias, inv in (("store", "Isolation"), ("hit", "Isolation"), ("id", "HitId")):
        res = vlib.run_tlc(ctx, SPEC, "c10_nv_%s.cfg" % alias, expect_violation=True, workers=2,
                           cfg_text=cl.cfg(inv=inv, MaxOps="4", **dict(C10, Alias='"%s"' % alias)))
        if res["violated"] != inv:
            raise vlib.Infra("non-vacuity: Alias=%s should violate %s, got %r" % (alias, inv, res["violated"]))
    ctx.cov["non_vacuity"] = "Isolation is violated by TLC when the stored or the served message is shared (Alias), HitId when the ID is kept"

    behs = vlib.tlc_behaviours(ctx, SPEC, "c10_gen.cfg", cfg_text=cl.cfg(gen=True, MaxOps="7", **C10), label="C10 gen (exhaustive)")
    behs = [b for b in behs if any(s["a"] == "Mutate" for s in b["steps"])]
    nall = len(behs)
    if not T:
        rng.shuffle(behs)
        behs = behs[:600]
    if len(behs) < 100:
        raise vlib.Infra("generator produced only %d behaviours with a mutation" % len(behs))
    # lazy mode: a stale hit is served, the caller overwrites it, the background refresh yields no answer
    LZ = dict(Names='{"n1"}', Types='{"t1"}', Classes='{"c1"}', Flags="{0}", Resps="<- RespsC10L", LazyTTLs="{50}", Ticks="{10}", MaxNow="20",
              OpKinds='{"exec", "tick", "refresh", "mutate"}', MaxHandles="3")
    vlib.tlc_mc(ctx, SPEC, "c10_lazy.cfg", cfg_text=cl.cfg(MaxOps="6", **LZ), label="C10 design: lazy mode with mutations and empty refreshes")
    gl = vlib.tlc_behaviours(ctx, SPEC, "c10_gen_lazy.cfg", cfg_text=cl.cfg(gen=True, MaxOps="6", **LZ), label="C10 gen: lazy (exhaustive)")

    def lazy_ok(b):
        st = b["steps"]
        f = [i for i, s in enumerate(st) if s["a"] == "Exec" and s["o"]["res"] == "stale"]
        if not f:
            return False
        rest = st[f[0]:]
        kinds = [s["a"] for s in rest]
        if "Tick" in kinds or "RefreshEnd" not in kinds:
            return False
        re_i = kinds.index("RefreshEnd")
        # a mutation of a served message between the stale hit and the end of the refresh, and a lookup afterwards
        return any(s["a"] == "Mutate" and s["hd"]["kind"] == "hit" for s in rest[:re_i]) and "Exec" in kinds[re_i:]
    gl = [b for b in gl if lazy_ok(b)]
    rng.shuffle(gl)
    gl = gl[:400 if T else 60]
    if len(gl) < 20:
        raise vlib.Infra("lazy generator produced only %d usable behaviours" % len(gl))
    job = {"mode": "c10", "c10": {"map": cl.plain_map(), "behaviours": behs, "concurrent": 16, "rounds": 400 if T else 120, "r": RESP,
                                  "lazy_beh": gl}}
    recs, stderr = drive(ctx, job)
    tr = [r for r in recs if r["kind"] == "trace" and not r["slow"]]
    acc, rej = judge(ctx, tr, job)
    nr = race_verdict(ctx, stderr, job)
    if not rej and not nr:
        def corrupt(t):
            for e in t:
                if e["ev"] == "Exec" and e["o"]["res"] == "hit":
                    e["o"]["cont"] = "mut"
                    return t
            return None
        cl.binding_selfcheck(ctx, [r["events"] for r in tr], corrupt, "hit content")
        if len(tr) < len(behs) + len(gl):
            raise vlib.Infra("driver returned %d usable traces for %d behaviours" % (len(tr), len(behs)))
        hits = sum(1 for r in tr for e in r["events"] if e["ev"] == "Exec" and e["o"]["res"] == "hit")
        muts = sum(e.get("n", 0) for r in tr for e in r["events"] if e["ev"] == "Mutate")
        if hits < len(tr) or muts < len(tr):
            raise vlib.Infra("dead driver: %d hits, %d mutated messages in %d traces" % (hits, muts, len(tr)))
        ctx.cov["hits_checked"], ctx.cov["messages_mutated"] = hits, muts
    ctx.cov["evaluations"] = len(tr)
    ctx.cov["distinct_nontrivial"] = len({cl.beh_key(b) for b in behs})
    ctx.cov["rule"] = ("evaluations = TLC behaviours (exhaustive generator, %d with a Mutate; quick replays a seeded 600) replayed on the real "
                       "plugin + one concurrent run under -race; distinct_nontrivial = distinct behaviours containing a Mutate" % nall)
    ctx.cov["exhaustive"] = bool(T)
    ctx.cov["race_reports"] = nr
    for r in tr[:2]:
        ctx.sample({"tag": r["tag"], "events": r["events"][:8]})
