"""C16 — stream framing is exact in both directions.
spec/Framing.tla (+ Framing_Trace.tla), harness/drv_framing.

Leg A: TLC (B = 4) checks RoundTrip / OverMaxRefused / OneWriteOneFrame / MalformedIsError + termination for
       concurrent writers x all length classes x all chunkings x all cuts; four non-vacuity runs.
Leg B: (1) outcome table Class(len), len in 0..65537, printed by TLC from the same operators at B = 256 and
       swept through the real writers/readers; (2) TLC-generated behaviours replayed under class-preserving
       length maps with chunk positions mapped onto the concrete stream.
Leg C: reader traces (Read/EOF/Out/Err on seeded arbitrary and constructed streams) and writer traces (every
       Write call of the real writers, the client transports and server.ServeTCP with K concurrent pipelined
       replies) validated by Framing_Trace.tla.
"""
import copy
import json
import random

import vlib
from vlib import log


def valid_maps(b):
    lens = [s["n"] for s in b["steps"] if s["a"] == "W" and s["n"] < 16]
    out = []
    if all(n <= 6 and n != 1 for n in lens):     # n = 1 <-> 12 bytes: outside the property
        out.append("A")
    if all(2 <= n <= 6 for n in lens):
        out += ["B", "C"]
    return out


def category(bad):
    for key, cat in (("panicked", "panic"), ("must be refused", "not-refused"), ("Write calls", "write-calls"),
                     ("refused:", "wrongly-refused"), ("framed wrongly", "misframed"), ("was delivered", "short-delivered"),
                     ("not read back", "roundtrip"), ("spec delivers", "deliveries"), ("exchange of", "exchange-failed"),
                     ("spec: message", "write-outcome")):
        if key in bad:
            return cat
    return "other"


def trace_kind(events):
    return "reader" if events and events[0]["ev"] == "Stream" else "writer"


def split_traces(events):
    """a driver record may carry a writer trace followed by a reader trace"""
    out, cur = [], []
    for e in events:
        if e["ev"] in ("Stream", "Conn") and cur:
            out.append(cur)
            cur = []
        cur.append(e)
    if cur:
        out.append(cur)
    return out


def evaluate(ctx, recs):
    for r in recs:
        if r.get("bad"):
            what = r.get("what") or r["kind"]
            s = "%s:%s:%s" % (what, r.get("class") or ("map=" + r["map"] if r.get("map") else "k=%s" % r.get("n")),
                              category(r["bad"]))
            ctx.violation(s, r["bad"], {"rec": {k: v for k, v in r.items() if k != "events"}, "events": r.get("events")})
    # leg C on distinct event lists
    distinct = {}
    for r in recs:
        for t in split_traces(r.get("events") or []):
            distinct.setdefault(json.dumps(t, sort_keys=True), []).append(r)
    keys = sorted(distinct, key=lambda k: (len(k), k))
    before = ctx.cov["traces_validated_against_impl"]
    acc, rej = vlib.validate_traces(ctx, "Framing_Trace", "Framing_Trace.cfg", [json.loads(k) for k in keys],
                                    chunk=20000, max_reject=10)
    bad = {i for i, _ in rej}
    if len(bad) < 10:
        ctx.cov["traces_validated_against_impl"] = before + sum(len(distinct[k]) for i, k in enumerate(keys) if i not in bad)
    ctx.cov["distinct_event_lists"] = ctx.cov.get("distinct_event_lists", 0) + len(keys)
    for idx, info in rej:
        t = json.loads(keys[idx])
        r = distinct[keys[idx]][0]
        e = info.get("event") or {}
        what = r.get("what") or r["kind"]
        s = "%s:trace-%s:%s" % (what, trace_kind(t), e.get("ev"))
        ctx.violation(s, "recorded %s run of %s is not a behaviour of Framing.tla satisfying C16: rejected at event %s: %s" % (
            trace_kind(t), what, info.get("line_in_trace"), json.dumps(e)[:300]),
            {"rec": {k: v for k, v in r.items() if k != "events"}, "trace": t[:200]})
    return keys


def sim_behaviours(ctx, n):
    behs = vlib.tlc_behaviours(ctx, "Framing", "Framing_gen.cfg", simulate=n, depth=60)
    behs = [b for b in behs if "steps" in b]    # (TLC pre-evaluates the constant EmitTable once: drop that line)
    out = []
    for i, b in enumerate(behs):
        for m in valid_maps(b):
            c = dict(b)
            c["map"], c["idx"] = m, i
            out.append(c)
    return behs, out


def get_table(ctx):
    t = [b for b in vlib.tlc_behaviours(ctx, "Framing", "Framing_table.cfg") if "table" in b]
    if len(t) != 1:
        raise vlib.Infra("outcome table: expected one export, got %d" % len(t))
    table = sorted(t[0]["table"], key=lambda r: r["from"])
    if table[0]["from"] != 0 or table[-1]["to"] != 65537 or any(a["to"] + 1 != b["from"] for a, b in zip(table, table[1:])):
        raise vlib.Infra("outcome table does not partition 0..65537: %s" % table)
    return table


def replay(ctx):
    d = json.load(open(ctx.replay))["replay"]
    table = get_table(ctx)
    binary = vlib.go_build(ctx, "drv_framing")
    rec = d["rec"]
    job = {"table": table, "trace_every": 1}
    if rec["kind"] == "sweep":
        n = rec["len"]
        job.update({"lens": [n], "pack_lens": [n], "trans_lens": [n]})
    elif rec["kind"] == "server":
        job.update({"server_runs": 30, "server_k": rec.get("n", 8)})
    elif rec["kind"] == "stall":
        job.update({"stall_runs": 32})
    else:
        # behaviours and random streams are regenerated from the seed: re-run the quick tier's set
        behs, jb = sim_behaviours(ctx, 300)
        job.update({"behaviours": jb, "streams": 400})
    recs, _ = vlib.run_driver(ctx, binary, stdin_obj=job, timeout=600)
    ctx.cov["evaluations"] = len(recs)
    evaluate(ctx, recs)


def run(ctx):
    if ctx.replay:
        _rp = vlib.json.load(open(ctx.replay)).get("replay")
        _sig = vlib.json.load(open(ctx.replay)).get("signature", "")
        if _sig.startswith(("server:", "serverconn:", "X_server")) or (isinstance(_rp, dict) and "beh" in _rp and _rp.get("kind") in ("tcp", "udp")):
            import server_extra
            return server_extra.run_extra(ctx)
        if _sig.startswith("reuse:"):
            import poollib
            return poollib.replay(ctx)
        return replay(ctx)
    # extra coverage: connection lifecycle of pkg/server (spec/ServerConn.tla, harness/drv_server), run concurrently
    import server_extra
    _bg_server = vlib.background(ctx, server_extra.run_extra, "server_extra")
    # extra coverage: frames written by the reuse transport on retries (spec/ReuseConn_Trace.tla, harness/drv_pool)
    import pool_extra
    _bg_reuse = vlib.background(ctx, pool_extra.run_c16_reuse, "reuse_retry_frames")
    T = ctx.thorough()
    rng = random.Random(ctx.seed)
    ctx.assumptions += [
        "abstract digits base 4, MIN = 1 <-> 12 bytes, MAX = 15 <-> 65535; a length of exactly 12 bytes is outside the "
        "property and not asserted (class 'open'; behaviours containing it are not replayed under the +11 map)",
        "DoQ streams use the same helpers (copyMsgWithLenHdr, ReadRawMsgFromTCP, PackTCPBuffer); quic-go itself is not driven",
        "PackTCPBuffer is driven with messages of an exact packed size built from NULL records; miekg/dns Pack is trusted",
        "a read deadline that fires inside a frame loses the stream (error) unless the reader keeps its partial state; "
        "driven on the real pipeline transport with a harness conn that has real deadlines (idle timeout 250 ms)",
        "the server part uses the real server.ServeTCP on a harness listener/conn (no kernel socket): one Write call "
        "= one recorded chunk",
    ]
    # ---- leg A
    vlib.tlc_mc(ctx, "Framing", "Framing_design3.cfg" if T else "Framing_design.cfg", workers=8,
                label="design: %d concurrent writers x lengths {0,1,2,3,5,16} x all chunkings x cuts" % (3 if T else 2))
    for d in ("SplitWrite", "NoMaxCheck", "NoMinCheck", "NoReadFull", "ResumeFresh"):
        nv = vlib.run_tlc(ctx, "Framing", "Framing_pinned_%s.cfg" % d, expect_violation=True, workers=1)
        if nv["violated"] != "C16Inv":
            raise vlib.Infra("non-vacuity (%s): expected C16Inv to fail, got %r" % (d, nv["violated"]))
    ctx.cov["non_vacuity"] = "C16Inv violated by TLC for each of SplitWrite, NoMaxCheck, NoMinCheck, NoReadFull, ResumeFresh"
    table = get_table(ctx)
    ctx.cov["outcome_table"] = table

    # ---- leg B inputs
    edges = set()
    for r in table:
        for x in (r["from"] - 1, r["from"], r["from"] + 1, r["to"] - 1, r["to"], r["to"] + 1):
            if 0 <= x <= 65537:
                edges.add(x)
    for c in (255, 256, 257, 511, 512, 513, 4095, 4096, 8189, 8190, 8191, 8192, 16383, 16384, 32767, 32768, 65280):
        edges |= {c - 1, c, c + 1}
    if T:
        lens = list(range(65538))
        pack_lens = sorted(set(range(0, 65538, 7)) | edges | set(range(28, 600)))
        trans_lens = sorted(edges | {rng.randrange(12, 65538) for _ in range(500)})
        nsim, nstreams, sruns, sk, te, stalls = 10000, 20000, 300, 16, 29, 160
    else:
        lens = sorted(edges | set(range(0, 300)) | {rng.randrange(65538) for _ in range(1500)})
        pack_lens = sorted(edges | set(range(12, 60)) | {rng.randrange(28, 65538) for _ in range(150)})
        trans_lens = sorted({x for x in edges if x < 300 or x > 65000} | {rng.randrange(12, 65538) for _ in range(25)})
        nsim, nstreams, sruns, sk, te, stalls = 300, 400, 20, 8, 7, 32
    behs, jb = sim_behaviours(ctx, nsim)
    log("sweep %d lengths (raw), %d (pack), %d (transports); %d behaviours -> %d replays; %d streams; %d server runs x %d" % (
        len(lens), len(pack_lens), len(trans_lens), len(behs), len(jb), nstreams, sruns, sk))
    job = {"table": table, "lens": lens, "pack_lens": pack_lens, "trans_lens": trans_lens, "behaviours": jb,
           "streams": nstreams, "server_runs": sruns, "server_k": sk, "trace_every": te, "stall_runs": stalls}
    binary = vlib.go_build(ctx, "drv_framing")
    recs, _ = vlib.run_driver(ctx, binary, stdin_obj=job, timeout=1500)
    keys = evaluate(ctx, recs)

    kinds = {}
    for r in recs:
        k = r.get("what") or r["kind"]
        kinds[k] = kinds.get(k, 0) + 1
    # dead-driver checks last
    if not ctx.violations and not ctx.known_hits:
        need = {"WriteRawMsgToTCP": len(lens), "replay": len(jb), "stream": nstreams}
        for k, n in need.items():
            if kinds.get(k, 0) != n:
                raise vlib.Infra("driver returned %d '%s' results, expected %d" % (kinds.get(k, 0), k, n))
        if kinds.get("transport-inconclusive", 0) > max(2, len(trans_lens) // 10):
            raise vlib.Infra("%d transport exchanges ended without a verdict" % kinds["transport-inconclusive"])
        if kinds.get("stall", 0) < stalls // 2:
            raise vlib.Infra("only %d of %d stalled-reply runs completed (%d inconclusive)" % (
                kinds.get("stall", 0), stalls, kinds.get("stall-inconclusive", 0)))
        if kinds.get("server", 0) < sruns * 3 // 4:
            raise vlib.Infra("only %d of %d ServeTCP runs completed (%d inconclusive)" % (
                kinds.get("server", 0), sruns, kinds.get("server-inconclusive", 0)))
        if kinds.get("WriteMsgToTCP/PackTCPBuffer", 0) < len(pack_lens) // 3:
            raise vlib.Infra("PackTCPBuffer sweep mostly skipped: %s" % kinds)
        # binding self-check
        rd = next(json.loads(k) for k in keys if '"Out"' in k and '"Stream"' in k)
        wr = next(json.loads(k) for k in keys if '"Write"' in k)
        b1 = copy.deepcopy(rd)
        next(e for e in b1 if e["ev"] == "Out")["len"] += 1
        b2 = copy.deepcopy(rd)
        b2.remove(next(e for e in b2 if e["ev"] == "Read"))
        b3 = copy.deepcopy(wr)
        next(e for e in b3 if e["ev"] == "Write")["n"] += 1
        b4 = copy.deepcopy(wr)
        w = next(e for e in b4 if e["ev"] == "Write")
        b4.insert(b4.index(w), {"ev": "Write", "n": 2, "h": w["h"], "eq": True})   # header written separately
        w["n"] -= 2
        vlib.assert_rejects(ctx, "Framing_Trace", "Framing_Trace.cfg", [b1, b2, b3, b4],
                            "Out.len+1; one Read removed; Write.n+1; header and body as two Write calls")

    ctx.cov["evaluations"] = len([r for r in recs if r.get("what") != "skip-pack"])
    ctx.cov["by_kind"] = kinds
    ctx.cov["distinct_nontrivial"] = len({json.dumps(b["steps"]) for b in behs if any(s["a"] == "D" for s in b["steps"])}) \
        + len({r["len"] for r in recs if r["kind"] == "sweep" and r.get("class") in ("ok", "refused")})
    ctx.cov["rule"] = ("evaluation = one length through one real writer/reader, one replayed behaviour under one length map, "
                       "one arbitrary stream, or one ServeTCP connection with K concurrent replies; distinct_nontrivial = "
                       "distinct generated behaviours with at least one delivery + distinct swept lengths of class ok/refused")
    ctx.cov["exhaustive"] = bool(T)
    for r in [r for r in recs if r["kind"] == "replay"][:2] + [r for r in recs if r["kind"] == "server"][:1]:
        ctx.sample({"kind": r["kind"], "map": r.get("map"), "events": (r.get("events") or [])[:12]})
    try:
        _bg_reuse.join()
    except vlib.Infra as e:
        if not (ctx.violations or ctx.known_hits):
            raise
        log("note: reuse_retry_frames ended with an infrastructure error, violations are already recorded: %s" % str(e)[:300])
    try:
        _bg_server.join()
    except vlib.Infra as e:
        # guide rule 9: an infrastructure problem of the extension (e.g. its driver dying on a message a
        # mutated reader mis-delivered) must not turn recorded violations into exit 2
        if not (ctx.violations or ctx.known_hits):
            raise
        log("note: server_extra ended with an infrastructure error, violations are already recorded: %s" % str(e)[:300])
