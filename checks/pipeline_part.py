"""C09 part (ii): queries queued while a pipeline connection is dialing (conn_lazy_dial.go, pipeline.go,
conn_traditional.go together).  spec/LazyPipe.tla (+ LazyPipe_Trace.tla), harness/drv_pipeline."""
import copy
import json
import vlib
from vlib import log

TRACE_CFG = "LazyPipe_Trace.cfg"


def S(a, **kw):
    d = {"a": a}
    d.update(kw)
    return d


def burst(name, q, l, extra, dgram):
    """q + extra calls while the first dial is held (the (q+1)-th call can only be taken by a second dial, whose
    appearance tells that q calls are queued on the first connection); then the dial succeeds, every Write is
    held; then everything is answered; finally l more calls probe the capacity of the used connections."""
    n = q + max(1, extra)
    st = [S("Call", c=c) for c in range(n)]
    st += [S("WaitDial", k=2), S("DialOk", k=1), S("WaitWrites", n=min(q, l)), S("Collect"), S("FinishAll")]
    st += [S("Call", c=c) for c in range(n, n + l)]
    st += [S("WaitWrites", n=l), S("FinishAll")]
    return {"name": name, "q": q, "l": l, "dgram": dgram, "steps": st}


def dial_fail(name, q, l, dgram):
    st = [S("Call", c=c) for c in range(q + 1)]
    st += [S("WaitDial", k=2), S("DialFail", k=1), S("Collect"), S("FinishAll")]
    st += [S("Call", c=c) for c in range(q + 1, q + 1 + l)] + [S("WaitWrites", n=l), S("FinishAll")]
    return {"name": name, "q": q, "l": l, "dgram": dgram, "steps": st}


def overtake(name, q, dgram):
    """limits equal (q = l): q queries are queued while dial 1 is held (dial 2 proves it); dial 1 returns a connection
    whose ReserveNewQuery is gated; the q early callers arrive at the gate (held); a LATE call is started and the
    harness observes for 300 ms whether it gets through to the dialed connection while the early ones are held
    (it must not: earlyReserveCallWg); then everybody is released, the newest arrival first."""
    st = [S("Call", c=c) for c in range(q + 1)]
    # (the second connection's dial fails, so that the late call can only go to connection 1)
    st += [S("WaitDial", k=2), S("DialFail", k=2), S("Collect"), S("DialOkGated", k=1), S("WaitGate", n=q), S("Call", c=q + 1),
           S("WaitGateMore", n=q + 1, k=300), S("ReleaseGates"), S("WaitWrites", n=q), S("Collect"), S("FinishAll")]
    return {"name": name, "q": q, "l": q, "dgram": dgram, "steps": st}


def slow_reply(name, nq, dgram, dial_timeout_ms=300, factor=3):
    """C02 for queries queued while dialing: nq calls while the dial is held, dial succeeds at once, the Writes return,
    the replies arrive only after factor x DialTimeout (the callers' own contexts have no deadline): every call must
    return its reply."""
    st = [S("Call", c=c) for c in range(nq)]
    st += [S("WaitDial", k=1), S("Sleep", n=20), S("DialOk", k=1)]
    st += [S("WriteRet", c=c) for c in range(nq)]
    # UDP: stay well below the 1 s resend tick of conn_traditional (a resend would be a second ConnWrite)
    st += [S("Sleep", n=(2 * dial_timeout_ms + 50) if dgram else dial_timeout_ms * factor)]
    st += [S("Finish", c=c) for c in range(nq)]
    # a query on the now established connection, same delay
    st += [S("Call", c=nq), S("WriteRet", c=nq), S("Sleep", n=dial_timeout_ms + 100), S("Finish", c=nq)]
    return {"name": name, "q": max(nq, 2), "l": 4, "dgram": dgram, "dial_timeout_ms": dial_timeout_ms, "steps": st}


def to_trace(events):
    out = []
    for e in events:
        ev = e["ev"]
        if ev == "reset":
            out.append({"ev": "reset", "q": e["q"], "l": e["l"]})
        elif ev == "Call":
            out.append({"ev": "Call", "c": e["c"]})
        elif ev == "Dial":
            out.append({"ev": "Dial", "k": e["id"]})
        elif ev == "DialRet":
            out.append({"ev": "DialRet", "k": e["id"], "ok": e["ok"]})
        elif ev == "ConnWrite" and not e.get("dead") and e.get("c", -1) >= 0:
            out.append({"ev": "ConnWrite", "c": e["c"], "k": e["k"]})
        elif ev == "ReadFail" and e.get("kind") in ("eof", "err") and str(e.get("conn", "")).startswith("k"):
            out.append({"ev": "ConnDie", "k": int(e["conn"][1:])})
        elif ev == "Deliver" and "c" in e:
            out.append({"ev": "Deliver", "c": e["c"]})
        elif ev == "ExchangeEnd":
            out.append({"ev": "ExchangeEnd", "c": e["c"], "r": e["r"], "e": e["e"]})
    return out


def classify(trace, info):
    ev = info.get("event") or {}
    if ev.get("ev") == "ExchangeEnd" and ev.get("r") == "err" and any(e["ev"] == "ConnDie" for e in trace[:info.get("line_in_trace") or 0]):
        return "pipeline:query-fails-after-single-connection-death:not-retried-on-another-connection"
    if ev.get("ev") == "ExchangeEnd" and ev.get("r") == "err":
        line = info.get("line_in_trace") or len(trace)
        c = ev.get("c")
        written = False
        for e in trace[:line - 1]:
            if e.get("c") == c and e["ev"] == "Call":
                written = False
            if e.get("c") == c and e["ev"] == "ConnWrite":
                written = True
        if written:
            return "pipeline:written-query-fails-without-fault:%s" % ev.get("e")
        return "pipeline:queued-query-fails:%s" % ev.get("e")
    if ev.get("ev") == "Dial":
        return "pipeline:extra-dial-although-capacity-left"
    if ev.get("ev") == "ConnWrite":
        return "pipeline:query-written-on-unexpected-connection"
    return "pipeline:%s-unexplained" % ev.get("ev")


def run_scripts(ctx, scripts):
    binary = vlib.go_build(ctx, "drv_pipeline")
    recs, err = vlib.run_driver(ctx, binary, stdin_obj={"scripts": scripts, "workers": 8}, timeout=900)
    if len(recs) != len(scripts):
        raise vlib.Infra("drv_pipeline returned %d results for %d scripts\n%s" % (len(recs), len(scripts), err[-2000:]))
    for r, s in zip(recs, scripts):
        r["script"] = s
        r["trace"] = to_trace(r["events"])
        r["driver"] = "drv_pipeline"
    return recs


def validate_report(ctx, recs, prop="C09"):
    acc, rej = vlib.validate_traces(ctx, "LazyPipe_Trace", TRACE_CFG, [r["trace"] for r in recs], max_reject=8,
                                    label="%s pipeline / lazy dial" % prop)
    by_sig = {}
    for idx, info in rej:
        by_sig.setdefault(classify(recs[idx]["trace"], info), []).append((idx, info))
    for r in recs:
        if r.get("panic"):
            by_sig.setdefault("pipeline:panic", []).append((r["idx"], {"event": r["panic"]}))
    for sig, lst in by_sig.items():
        idx, info = lst[0]
        r = recs[idx]
        ctx.violation(sig, "real trace of PipelineTransport is not a behaviour of LazyPipe.tla "
                           "(%d traces; first: %s rejected at event %s: %s)" % (
                               len(lst), r["name"], info.get("line_in_trace"), json.dumps(info.get("event"))),
                      {"script": r["script"], "trace": r["trace"], "driver": "drv_pipeline"})
    return rej


def run(ctx, rng):
    T = ctx.thorough()
    vlib.tlc_mc(ctx, "LazyPipe", "LazyPipe_design.cfg", label="LazyPipe design: 3 callers, limits {1,2}x{1,2}, dial failure",
                cfg_text=None if T else open(vlib.VERIF + "/spec/LazyPipe_design.cfg").read().replace("MaxCalls = 2", "MaxCalls = 1"),
                timeout=900)
    import pipeconn_common
    ctx.cov["non_vacuity"] += pipeconn_common.nonvac_runs(ctx, "LazyPipe", [("LazyPipe_dev_d5.cfg", "NoRefusalIfEqual"),
                                                                        ("LazyPipe_dev_wg.cfg", "NoRefusalIfEqual")])
    ctx.assumptions += [
        "pipeline part: a new connection is dialed only when no existing one can take the query (DESIGN C09 binding ii); "
        "which existing connection takes it is free; retries after a failure on a shared connection are allowed up to 2",
    ]
    scripts = []
    reps = 12 if T else 2
    for k in range(reps):
        for q, l in ((1, 1), (2, 2), (4, 4), (2, 4), (3, 2)):
            scripts.append(burst("burst.q%d.l%d.%d" % (q, l, k), q, l, extra=k % 3, dgram=(k % 2 == 1)))
        scripts.append(dial_fail("dialfail.%d" % k, 2, 2, dgram=(k % 2 == 1)))
        for q in (1, 2, 3):
            scripts.append(overtake("overtake.q%d.%d" % (q, k), q, dgram=(k % 2 == 1)))
    scripts = [s for s in scripts if s["l"] <= 8]  # the trace cfg has 12 callers
    for i in range(300 if T else 12):
        # (5 callers with queue limit 1 would make trace validation enumerate 5! caller->connection assignments)
        ncall = rng.choice([2, 3, 4, 4]) if T else rng.choice([2, 3, 3, 4])
        q = rng.choice([1, 2, 3]) if (T or ncall < 4) else rng.choice([2, 3])   # quick: keep trace validation cheap
        scripts.append({"name": "rnd%d" % i, "q": q, "l": rng.choice([1, 2, 3, 4]), "dgram": i % 2 == 1,
                        "steps": [], "random": {"callers": ncall, "calls": rng.choice([1, 2]) if ncall < 4 else 1,
                                                "p_dialfail": 0.15, "seed": rng.randrange(1, 2 ** 31)}})
    recs = run_scripts(ctx, scripts)
    rej = validate_report(ctx, recs)
    st = [r for r in recs if r["steered"]]
    ctx.cov["pipeline_scripts"] = len(recs)
    ctx.cov["pipeline_scripts_steered"] = len(st)
    if not rej and len(st) < len(recs) // 2:
        raise vlib.Infra("dead pipeline driver: %d of %d steered; e.g. %s" % (
            len(st), len(recs), [r["why"] for r in recs if not r["steered"]][:3]))
    ctx.sample({"name": recs[1]["name"], "steered": recs[1]["steered"], "trace": recs[1]["trace"][:50]})
    return len(recs)


def run_c02(ctx, rng):
    """C02 through PipelineTransport: a query queued while the connection is dialing gets its reply however late it
    arrives (within the caller's own deadline) — in particular later than PipelineOpts.DialTimeout."""
    T = ctx.thorough()
    vlib.tlc_mc(ctx, "LazyPipe", "LazyPipe_design.cfg", label="LazyPipe design (an admitted query ends only with its reply)",
                cfg_text=open(vlib.VERIF + "/spec/LazyPipe_design.cfg").read().replace("MaxCalls = 2", "MaxCalls = 1"), timeout=900)
    ctx.assumptions += [
        "pipeline part: LazyPipe.tla has no failure step for a query that was written on a healthy connection: without "
        "fault, cancellation or caller deadline the only way out is its reply (however late; real-time waits of "
        "3..6 x DialTimeout on TCP framing, 2 x DialTimeout + 50 ms on UDP — below the 1 s resend tick; DialTimeout = 300 ms)",
    ]
    scripts = []
    for k in range(4 if T else 1):
        for nq in (1, 2):
            for dgram in (False, True):
                scripts.append(slow_reply("slowreply.n%d.%s.%d" % (nq, "udp" if dgram else "tcp", k), nq, dgram,
                                          factor=3 + k))
    recs = run_scripts(ctx, scripts)
    rej = validate_report(ctx, recs, prop="C02")
    st = [r for r in recs if r["steered"]]
    ctx.cov["pipeline_scripts"] = len(recs)
    ctx.cov["pipeline_scripts_steered"] = len(st)
    if not rej and len(st) < len(recs):
        raise vlib.Infra("pipeline driver could not steer: %s" % [r["why"] for r in recs if not r["steered"]][:3])
    ctx.sample({"name": recs[0]["name"], "steered": recs[0]["steered"], "trace": recs[0]["trace"]})
    return len(recs)


def replay(ctx, d):
    scripts = []
    for i in range(12):
        s = copy.deepcopy(d["script"])
        s["name"] = "replay%d" % i
        scripts.append(s)
    recs = run_scripts(ctx, scripts)
    ctx.cov["evaluations"] = len(recs)
    validate_report(ctx, recs)
    ctx.sample(recs[0]["trace"])
