"""Standalone pseudo-check for the upstream-level dial / lifecycle extra coverage of C07 (and C01 for the udp -> tcp fallback):
`bin/check X_updial quick`, `bin/selftest <patch> X_updial`.  The real entry point is updial_extra.run_extra(ctx)."""
import updial_extra


def run(ctx):
    ctx.cov["rule"] = ("scenarios of UpDial.tla (server behaviour per dial phase x dial timeout x Close x cancel) replayed through the real "
                       "upstream.NewUpstream against loopback servers; nontrivial = a dial / connection that was aborted, refused or closed")
    updial_extra.run_extra(ctx)
