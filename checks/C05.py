"""C05 — cached answers age correctly and expire on time.
spec/CachePlugin.tla (admission, lifetimes, TTL rule, lazy refresh), harness/drv_cache (mode c05)."""
import json
import random

import cachelib as cl
import vlib
from vlib import log

SPEC = "CachePlugin_MC"
ONEQ = dict(Names='{"n1"}', Types='{"t1"}', Classes='{"c1"}', Flags="{0}")
TICKS = "{1, 3, 4, 7, 8, 10, 18, 28, 32, 48, 52, 298}"
INV = "TypeOK TTLRule StaleRule AdmissionRule NeverServedAfterExpiry AtMostOneRefresh NoSharing"


def key_of(q):
    return (q["n"], q["t"], q["c"], q["f"])


def near_boundary(step):
    """an Exec whose looked-up entry is within 2 s of an expiry boundary (wall-clock skew could flip it)"""
    now = step["now"]
    for e in step["e"]:
        o = e["owner"]
        if (o["n"], o["t"], o["c"], o["f"]) == key_of(step["q"]):
            if abs(e["msgExp"] - now) < 2 or abs(e["cacheExp"] - now) < 2:
                return True
    return False


def signature(rec, info):
    e = info.get("event") or {}
    tag = rec["tag"].split("-")[0]
    k = e.get("ev")
    if k == "Exec" and "skew" in e:
        return "straddle:ttl-lowered-although-less-than-a-second-elapsed"
    if k == "Exec":
        o = e["o"]
        src = None
        for x in rec["events"]:
            if x["ev"] == "Inject":
                for en in x["ents"]:
                    if en["id"] == o["id"]:
                        src = en["r"]
            if x["ev"] in ("Exec", "RefreshEnd") and x.get("sid") == o["id"]:
                src = x["r"]
        if o["res"] == "hit" and src is not None:
            return "%s:served:rc=%d:tc=%s:answers=%d:minttl=%s:opt=%s" % (
                tag, src["rc"], src["tc"], src["nan"], min(src["ttls"]) if src["ttls"] else "none", src["opt"])
        return "%s:exec:%s" % (tag, o["res"])
    if k == "Dump":
        return "%s:lifetime-in-dump-exceeds-bound" % tag
    if k == "RefreshStart":
        if e.get("hasresp"):
            return "lazy:refresh-chain-started-with-the-stale-response"
        return "lazy:second-refresh-in-flight"
    if k == "Exec" and "skew" in e:
        return "straddle:ttl-lowered-although-less-than-a-second-elapsed"
    return "%s:rejected:%s" % (tag, k)


def judge(ctx, recs, job=None):
    acc, rej = vlib.validate_traces(ctx, "CachePlugin_Trace", "CachePlugin_Trace.cfg", [r["events"] for r in recs], label="C05")
    for idx, info in rej:
        r = recs[idx]
        if r["tag"] == "lazy" and job is not None and not ctx.replay:
            # lazy behaviours run bursts of concurrent Execs plus background refreshes: the order in which their events reach
            # the recorder depends on the scheduler. A rejection is re-confirmed by running that behaviour alone three times
            # (observed once under load 60+: not reproduced, see DESIGN 12.8); a defect of the code reproduces.
            sj = sub_job(job, r)
            again = 0
            for _ in range(3):
                rr, _ = vlib.run_driver(ctx, vlib.go_build(ctx, "drv_cache"), stdin_obj=sj)
                t2 = [x for x in rr if x["kind"] == "trace" and not x["slow"]]
                _, rej2 = vlib.validate_traces(ctx, "CachePlugin_Trace", "CachePlugin_Trace.cfg", [x["events"] for x in t2], label="C05 reconfirm")
                again += 1 if rej2 else 0
            ctx.cov.setdefault("ordering_reconfirmations", []).append({"signature": signature(r, info), "rejected_again": again, "of": 3})
            if again < 2:
                vlib.log("lazy-burst rejection not reproduced (%d/3) when the behaviour runs alone: scheduler artefact of the recorder, not a violation" % again)
                continue
        ctx.violation(signature(r, info), "real cache run (%s) is not a behaviour of CachePlugin.tla satisfying the C05 rules: rejected at "
                      "event %s: %s" % (r["tag"], info.get("line_in_trace"), json.dumps(info.get("event"))[:500]),
                      {"rec": {"tag": r["tag"], "beh": r["beh"], "step": r["step"], "events": r["events"][:12]}, "job": sub_job(job, r)})
    return acc, rej


def sub_job(job, r):
    if not job:
        return None
    c = job["c05"]
    j = {"mode": "c05", "c05": {"map": c["map"], "inject": [], "real": [], "lazy_beh": [], "burst": c["burst"], "realtime": False,
                                "opt_ttls": c["opt_ttls"], "straddle": 0}}
    tag = r["tag"]
    if tag == "inject":
        j["c05"]["inject"] = [x for x in c["inject"] if x["beh"] == r["beh"] and x["step"] == r["step"]]
    elif tag == "real":
        j["c05"]["real"] = [c["real"][r["beh"]]]
    elif tag == "lazy":
        j["c05"]["lazy_beh"] = [c["lazy_beh"][r["beh"]]] * 3
    elif tag == "straddle":
        j["c05"]["straddle"] = 4
    else:
        j["c05"]["realtime"] = True
    return j


def replay(ctx):
    d = json.load(open(ctx.replay))["replay"]
    if not d.get("job"):
        raise vlib.Infra("replay file carries no job")
    binary = vlib.go_build(ctx, "drv_cache")
    recs, _ = vlib.run_driver(ctx, binary, stdin_obj=d["job"])
    tr = [r for r in recs if r["kind"] == "trace" and not r["slow"]]
    ctx.cov["evaluations"] = len(tr)
    judge(ctx, tr, d["job"])


def run(ctx):
    if ctx.replay:
        return replay(ctx)
    T = ctx.thorough()
    rng = random.Random(ctx.seed)
    ctx.assumptions += [
        "lifetimes are upper bounds (a miss where the model could hit is accepted; served answers, stored lifetimes and refreshes are judged)",
        "abstract time is realised by injecting TLC-exported states through POST /load_dump; no probe within 2 s of an expiry "
        "boundary; served TTLs may read 1 s older (wall-clock skew); real phases longer than 0.9 s are discarded and repeated",
        "TTLs above 2^31-1 are outside TLC's integers and not exercised; NXDOMAIN/SERVFAIL answers whose own records have a TTL "
        "below 30/5 s are judged by the 30/5 s bound and the max(1, ttl - elapsed) rule only",
        "second-boundary scenario: store at x.8 s, lookup at (x+1).15 s of the wall clock; judged without the 1-s band only if the harness "
        "measured < 0.95 s around both calls",
        "the background refresh chain behaves like `has_resp -> accept` before the upstream and must be started on a context without response",
        "lazy bursts are executed in phases (all calls of a burst return while the background `next` is held), so calls commute",
    ]
    # ---- leg A
    vlib.tlc_mc(ctx, SPEC, "c05_design.cfg", label="C05 design: admission, lifetimes, TTL rule, lazy refresh",
                cfg_text=cl.cfg(inv=INV, MaxOps="5" if T else "4", Resps="<- RespsC05" if T else "<- RespsC05small", LazyTTLs="{0, 50}",
                                Ticks="{3, 7, 28, 32}", MaxNow="80", OpKinds='{"exec", "tick", "refresh"}',
                                **(dict(ONEQ, Types='{"t1", "t2"}') if T else ONEQ)))
    nvs = [("TTLMode", '"expiry"', "TTLRule"), ("TTLMode", '"noclamp"', "TTLRule"), ("TTLMode", '"staleaged"', "StaleRule"),
           ("Admit", '"tc"', "AdmissionRule"), ("Admit", '"rcode"', "AdmissionRule"), ("Admit", '"zero"', "AdmissionRule"),
           ("Admit", '"nxlong"', "AdmissionRule"), ("Admit", '"nxlong"', "NeverServedAfterExpiry"), ("Dedup", "FALSE", "AtMostOneRefresh")]
    for const, val, inv in (nvs if T else nvs[:1] + nvs[2:4] + nvs[7:]):
        res = vlib.run_tlc(ctx, SPEC, "c05_nv.cfg", expect_violation=True, workers=4,
                           cfg_text=cl.cfg(inv=inv, MaxOps="4", Resps="<- RespsC05small", LazyTTLs="{0, 50}", Ticks="{3, 7, 28, 32}",
                                           MaxNow="80", OpKinds='{"exec", "tick", "refresh"}', **dict(ONEQ, **{const: val})))
        if res["violated"] != inv:
            raise vlib.Infra("non-vacuity: %s=%s should violate %s, got %r" % (const, val, inv, res["violated"]))
    ctx.cov["non_vacuity"] = "TLC violates " + ", ".join("%s under %s=%s" % (i, c, v) for c, v, i in nvs)

    # ---- leg B generators
    gi = vlib.tlc_behaviours(ctx, SPEC, "c05_gen_inj.cfg", simulate=12000 if T else 2500, depth=14, label="C05 gen: ageing",
                             cfg_text=cl.cfg(gen=True, MaxOps="6", Resps="<- RespsC05", LazyTTLs="{0, 50}", Ticks=TICKS, MaxNow="400",
                                             OpKinds='{"exec", "tick", "refresh"}', Names='{"n1"}', Types='{"t1", "t2"}',
                                             Classes='{"c1"}', Flags="{0}"))
    cases, seen = [], set()
    for bi, b in enumerate(gi):
        for si, s in enumerate(b["steps"]):
            if s["a"] != "Exec" or near_boundary(s):
                continue
            c = {"lazy": b["lazy"], "now": s["now"], "e": s["e"], "q": s["q"], "r": s["r"]}
            k = json.dumps(c, sort_keys=True)
            if k in seen:
                continue
            seen.add(k)
            c["beh"], c["step"] = bi, si
            c["exp"] = s["o"]["res"]
            cases.append(c)
    # the clamp boundary (elapsed = ttl - 1, ttl, ttl + 1 for answers kept longer than their records' TTL): exhaustive, never sampled out
    gc = vlib.tlc_behaviours(ctx, SPEC, "c05_gen_clamp.cfg", label="C05 gen: clamp boundary (exhaustive)",
                             cfg_text=cl.cfg(gen=True, MaxOps="3", Resps="<- RespsClamp", LazyTTLs="{0}", Ticks="{1, 2, 3, 7, 8, 9, 12}",
                                             MaxNow="30", OpKinds='{"exec", "tick"}', **ONEQ))
    clamp = []
    for bi, b in enumerate(gc):
        for si, s in enumerate(b["steps"]):
            if s["a"] != "Exec" or s["o"]["res"] != "hit" or near_boundary(s):
                continue
            c = {"lazy": b["lazy"], "now": s["now"], "e": s["e"], "q": s["q"], "r": s["r"]}
            k = json.dumps(c, sort_keys=True)
            if k in seen:
                continue
            seen.add(k)
            c["beh"], c["step"], c["exp"] = 100000 + bi, si, "hit"
            clamp.append(c)
    if len(clamp) < 10:
        raise vlib.Infra("clamp generator produced only %d cases" % len(clamp))
    served = [c for c in cases if c["exp"] != "miss"]
    missed = [c for c in cases if c["exp"] == "miss" and c["e"]]
    rng.shuffle(served)
    rng.shuffle(missed)
    cases = clamp + served[:6000 if T else 1200] + missed[:2000 if T else 400]
    gr = vlib.tlc_behaviours(ctx, SPEC, "c05_gen_real.cfg", simulate=1500 if T else 300, depth=6, label="C05 gen: store path",
                             cfg_text=cl.cfg(gen=True, MaxOps="4", Resps="<- RespsC05", LazyTTLs="{0, 50}", Names='{"n1"}',
                                             Types='{"t1", "t2"}', Classes='{"c1"}', Flags="{0}"))
    gl = vlib.tlc_behaviours(ctx, SPEC, "c05_gen_lazy.cfg", simulate=6000 if T else 1500, depth=14, label="C05 gen: lazy refresh",
                             cfg_text=cl.cfg(gen=True, MaxOps="7", Resps="<- RespsC05small", LazyTTLs="{50}", Ticks="{10, 25}", MaxNow="60",
                                             OpKinds='{"exec", "tick", "refresh"}', Names='{"n1"}', Types='{"t1", "t2"}',
                                             Classes='{"c1"}', Flags="{0}"))

    def lazy_ok(b):
        st = b["steps"]
        f = [i for i, s in enumerate(st) if s["a"] == "Exec" and s["o"]["res"] == "stale"]
        if not f or near_boundary(st[f[0]]):
            return False
        rest = [s["a"] for s in st[f[0]:]]
        return "RefreshEnd" in rest and "Tick" not in rest[:rest.index("RefreshEnd") + 1]
    gl = [b for b in gl if lazy_ok(b)]
    rng.shuffle(gl)
    gl = gl[:300 if T else 60]
    if len(cases) < 300 or len(gr) < 100 or len(gl) < 20:
        raise vlib.Infra("generators too thin: %d injection cases, %d store behaviours, %d lazy behaviours" % (len(cases), len(gr), len(gl)))
    log("%d injection cases (%d served by the model), %d store-path behaviours, %d lazy behaviours" % (
        len(cases), min(len(served), 6000 if T else 1200), len(gr), len(gl)))

    binary = vlib.go_build(ctx, "drv_cache")
    job = {"mode": "c05", "c05": {"map": cl.plain_map(), "inject": cases, "real": gr, "lazy_beh": gl, "burst": 4,
                                  "realtime": T, "opt_ttls": [0x8000, 0], "straddle": 8 if T else 3}}
    recs, _ = vlib.run_driver(ctx, binary, stdin_obj=job, timeout=1500)
    tr = [r for r in recs if r["kind"] == "trace"]
    slow = [r for r in tr if r["slow"]]
    tr = [r for r in tr if not r["slow"]]
    acc, rej = judge(ctx, tr, job)
    if not rej:
        def corrupt(t):
            for e in t:
                if e["ev"] == "Exec" and e["o"]["res"] == "hit" and e["o"]["ttls"]:
                    e["o"]["ttls"][0] += 3
                    return t
            return None
        cl.binding_selfcheck(ctx, [r["events"] for r in tr], corrupt, "served TTL")
        if len(slow) > len(tr) // 5:
            raise vlib.Infra("%d of %d real phases exceeded the 0.9 s skew budget" % (len(slow), len(tr) + len(slow)))
        hits = sum(1 for r in tr if r["tag"] == "inject" and r["events"][-1]["o"]["res"] == "hit")
        want = sum(1 for c in cases if c["exp"] != "miss")
        if hits < want // 2:
            raise vlib.Infra("dead driver: only %d of %d injected live entries were served" % (hits, want))
        if not [r for r in tr if r["tag"] == "straddle"]:
            raise vlib.Infra("no second-boundary (straddle) round could be measured within 0.95 s")
        nbg = [r["extra"]["background"] for r in tr if r["tag"] == "lazy" and r.get("extra")]
        if not nbg or max(nbg) == 0:
            raise vlib.Infra("dead driver: no lazy refresh ever reached the harness next")
        ctx.cov["injected_served"] = hits
        ctx.cov["lazy_background_calls"] = sum(nbg)
    ctx.cov["evaluations"] = len(tr)
    ctx.cov["distinct_nontrivial"] = len(served[:6000 if T else 1200]) + len({cl.beh_key(b) for b in gl}) + len({cl.beh_key(b) for b in gr})
    ctx.cov["rule"] = ("evaluations = real runs validated by TLC (one per injected TLC state x lookup, store-path behaviour x OPT variant, "
                       "lazy burst behaviour, real-time scenario); distinct_nontrivial = distinct (state, lookup) cases served from cache "
                       "by the model + distinct store-path and lazy behaviours")
    ctx.cov["exhaustive"] = False
    for r in tr[:1] + [r for r in tr if r["tag"] == "lazy"][:1] + [r for r in tr if r["tag"] == "real"][:1]:
        ctx.sample({"tag": r["tag"], "events": r["events"][:8]})
