"""C12 — domain rules match exactly the names they describe.
spec/DomainSet.tla (+ DomainSet_Trace.tla), harness/drv_domain.

Leg A: TLC proves DesignOK (maps + label trie + precedence == contract) for every ordered rule list within
       bounds and every name; non-vacuity runs (string suffix, precedence, deepest value).
Leg B: the same TLC runs export (rule list, for every name the set of rule indices whose value may be
       returned); drv_domain replays them on MixMatcher / loaders / domain_set / hosts / redirect under five
       fragment maps, random case and trailing dots, and compares.
Leg C: seeded random concrete runs (and a sample of the replays) are mapped back into the abstract universe
       HERE (inverse fragment map, independent of the Go concretizer) and validated by TLC (DomainSet_Trace).
"""
import json
import os
import re

import vlib
from vlib import log

os.environ.setdefault("JAVA_TOOL_OPTIONS", "-Xmn1g")

MAXNAME, MAXPAT, MAXREPAT, KWLEN = 4, 3, 2, 3       # universe of DomainSet_Trace.cfg
LABELS = {("E", "B"): "a", ("B",): "b", ("C",): "c"}
LCHARS = {"a": ["E", "B"], "b": ["B"], "c": ["C"]}


def cfg(name, **repl):
    txt = open(os.path.join(vlib.VERIF, "spec", name)).read()
    for k, v in repl.items():
        txt, n = re.subn(r"(?m)^(\s*%s\s*=\s*).*$" % re.escape(k), lambda m: m.group(1) + v, txt)
        if n != 1:
            raise vlib.Infra("cfg %s has no constant %s" % (name, k))
    return txt


# --------------------------------------------------------------------------- abstraction (leg C)
class Unmappable(Exception):
    pass


def _kwpats():
    out = set()
    names = [[x] for x in "abc"] + [[x, y] for x in "abc" for y in "abc"]
    for n in names:
        s = []
        for i, l in enumerate(n):
            if i:
                s.append(".")
            s += LCHARS[l]
        for i in range(len(s)):
            for j in range(i + 1, len(s) + 1):
                k = s[i:j]
                if len(k) <= KWLEN and k[-1] != ".":
                    out.add(tuple(k))
    return out


KWPATS = _kwpats()


def tokenize(s, fm):
    """normalised concrete string -> abstract characters"""
    frags = sorted(((fm[c], c) for c in "EBC"), key=lambda t: -len(t[0]))
    out, i = [], 0
    while i < len(s):
        if s[i] == ".":
            out.append(".")
            i += 1
            continue
        for f, c in frags:
            if s.startswith(f, i):
                out.append(c)
                i += len(f)
                break
        else:
            raise Unmappable(s)
    return out


def to_labels(chars, lo, hi):
    if not chars:
        labels = []
    else:
        labels, cur = [], []
        for c in chars + ["."]:
            if c == ".":
                if tuple(cur) not in LABELS:
                    raise Unmappable(str(chars))
                labels.append(LABELS[tuple(cur)])
                cur = []
            else:
                cur.append(c)
    if not lo <= len(labels) <= hi:
        raise Unmappable(str(chars))
    return labels


def normalise(s):
    if s.endswith("."):
        s = s[:-1]
    return s.lower()


def abstract_rule(s, fm, deflt):
    typ, sep, pat = s.partition(":")
    if not sep:
        typ, pat = "none", s
    eff = deflt if typ == "none" else typ
    if eff == "regexp":
        if typ == "none":
            raise Unmappable(s)          # default type regexp is not part of the trace universe
        maxre = MAXREPAT
        m = re.match(r"^\\S\+\\\.(.*)\$$", pat)
        m2 = re.match(r"^\^(.*)\\\.\\S\+\$$", pat)
        if m:
            form, body, maxre = "ssuf", m.group(1), 1
        elif m2:
            form, body, maxre = "spre", m2.group(1), 1
        elif pat.startswith("^") and pat != pat.lower() and pat == pat.upper() and not pat.endswith("$"):
            form, body, maxre = "upper", pat[1:].lower(), 1
        else:
            for form, rx in (("bsuf", r"^\(\^\|\\\.\)(.*)\$$"), ("eq", r"^\^(.*)\$$"), ("pre", r"^\^(.*)$"),
                             ("suf", r"^(.*)\$$"), ("sub", r"^(.*)$")):
                m = re.match(rx, pat)
                if m:
                    body = m.group(1)
                    break
        if body != body.lower():
            raise Unmappable(s)
        if re.search(r"[\^\$\(\)\|\*\+\?\[\]]", body):
            raise Unmappable(s)
        if "." in body.replace("\\.", ""):
            raise Unmappable(s)
        chars = tokenize(body.replace("\\.", "."), fm)
        return {"t": "regexp", "f": form, "ls": to_labels(chars, 1, maxre), "k": []}
    chars = tokenize(normalise(pat), fm)
    if typ == "keyword":
        if tuple(chars) not in KWPATS:
            raise Unmappable(s)
        return {"t": "keyword", "f": "-", "ls": [], "k": chars}
    if typ not in ("full", "domain", "none"):
        raise Unmappable(s)
    return {"t": typ, "f": "-", "ls": to_labels(chars, 0 if typ == "domain" else 1, MAXPAT), "k": []}


def abstract_run(run):
    fm = run["map"]
    out, deflt, n = [], None, 0
    for ev in run["events"]:
        k = ev["ev"]
        if k == "New":
            deflt, n = ev["def"], 0
            if deflt not in ("domain", "full", "keyword"):
                raise Unmappable("default type " + deflt)
            out.append({"ev": "New", "def": deflt})
        elif k == "Add":
            n += 1
            if ev.get("v", 0) != n:
                raise Unmappable("value is not the rule number")
            r = abstract_rule(ev["s"], fm, deflt)
            r["ev"] = "Add"
            out.append(r)
        elif k == "Match":
            labels = to_labels(tokenize(normalise(ev["name"]), fm), 1, MAXNAME)
            out.append({"ev": "Match", "name": labels, "ok": ev["ok"], "v": ev.get("v", 0)})
        else:
            raise vlib.Infra("unknown event %r" % ev)
    return out


def rule_str(r):
    p = r.get("p")
    if p is None:
        p = r["k"] if r["t"] == "keyword" else ".".join("".join(LCHARS[x]) for x in r["ls"])
    if isinstance(p, list):
        p = "".join(p)
    return "%s%s:%s" % (r["t"], "/" + r["f"] if r["f"] != "-" else "", p)


def trace_signature(abs_events, line):
    rules = [rule_str(e) for e in abs_events[:line] if e["ev"] == "Add"]
    d = [e["def"] for e in abs_events[:line] if e["ev"] == "New"]
    ev = abs_events[line - 1] if 0 < line <= len(abs_events) else {}
    return "trace:def=%s:rules=[%s]:name=%s:got=ok=%s,v=%s" % (d[-1] if d else "?", ",".join(rules),
                                                                 ".".join(ev.get("name", [])), ev.get("ok"), ev.get("v"))


def mismatch_signature(m, names):
    if not m.get("beh"):
        return "%s:%s" % (m["api"], m["got"][:60])
    b = m["beh"]
    return "%s:def=%s:rules=[%s]:name=%s:got=%s" % (m["api"], b["def"], ",".join(rule_str(r) for r in b["rules"]),
                                                     ".".join(names[m["name_i"]]), m["got"][:40])


# --------------------------------------------------------------------------- driver rounds
def drive(ctx, binary, names, behs, random=0, trace_sample=0, seed=None, maps_per=0):
    job = {"names": names, "behaviours": behs, "random": random, "trace_sample": trace_sample, "max_mismatch": 60,
           "maps_per": maps_per}
    env = {"VERIF_SEED": str(seed)} if seed is not None else None
    recs, _ = vlib.run_driver(ctx, binary, stdin_obj=job, timeout=1700, env_extra=env)
    summ = [r for r in recs if r.get("kind") == "summary"]
    if len(summ) != 1 or summ[0]["behaviours"] != len(behs):
        raise vlib.Infra("driver returned no/incomplete summary")
    return summ[0], [r for r in recs if r.get("kind") == "mismatch"], [r for r in recs if r.get("kind") == "run"]


def report_mismatches(ctx, names, mism):
    mism.sort(key=lambda m: (len((m.get("beh") or {}).get("rules", [])), m["api"], json.dumps(m, sort_keys=True)))
    seen = {}
    for m in mism:
        # one report per (api, smallest rule list): the most specific failing input
        key = m["api"]
        if key in seen:
            continue
        seen[key] = 1
        ctx.violation(mismatch_signature(m, names),
                      "%s: rules %s, name %r: real code answered %s, DomainSet.tla allows value set mask %s" % (
                          m["api"], m["rules"], m.get("name"), m["got"], m.get("want_mask")),
                      {"mode": "beh", "names": names, "beh": m.get("beh"), "seed": ctx.seed, "mismatch": m})


def validate_runs(ctx, runs, label):
    traces, kept, unmapped, judged = [], [], 0, 0
    for r in runs:
        try:
            a = abstract_run(r)
        except Unmappable:
            unmapped += 1
            continue
        if r.get("beh"):
            got = [rule_str(e) for e in a if e["ev"] == "Add"]
            want = [rule_str(x) for x in r["beh"]["rules"]]
            if got != want:
                raise vlib.Infra("abstraction of a replayed run does not give back its behaviour: %s vs %s" % (got, want))
        judged += sum(1 for e in a if e["ev"] == "Match")
        traces.append(a)
        kept.append(r)
    acc, rej = vlib.validate_traces(ctx, "DomainSet_Trace", "DomainSet_Trace.cfg", traces, label=label, chunk=20000)
    for idx, info in rej:
        line = info.get("line_in_trace") or 0
        ctx.violation(trace_signature(traces[idx], line),
                      "recorded run of domain.MixMatcher is not a behaviour of DomainSet.tla (rejected at event %s %s; concrete run: %s)" % (
                          line, info.get("event"), json.dumps(kept[idx]["events"])[:700]),
                      {"mode": "trace", "run": kept[idx], "abstract": traces[idx], "seed": ctx.seed})
    if not ctx.violations and not ctx.known_hits and runs and unmapped > len(runs) // 4:
        raise vlib.Infra("%d of %d recorded runs could not be mapped back to the abstract universe" % (unmapped, len(runs)))
    ctx.cov["runs_unmappable"] = ctx.cov.get("runs_unmappable", 0) + unmapped
    return judged, traces


def binding_selfcheck(ctx, traces):
    """guide rule 4: corrupting one recorded field of an accepted trace must make TLC reject it."""
    for t in traces:
        idx = [i for i, e in enumerate(t) if e["ev"] == "Match"]
        if len(idx) >= 2 and any(e["ev"] == "Add" for e in t):
            bad = json.loads(json.dumps(t))
            i = idx[len(idx) // 2]
            bad[i]["ok"] = not bad[i]["ok"]
            path = os.path.join(ctx.work, "corrupt.ndjson")
            vlib.write_ndjson(path, bad)
            ok, info = vlib.tlc_trace(ctx, "DomainSet_Trace", "DomainSet_Trace.cfg", path, name="corrupt")
            if ok:
                raise vlib.Infra("trace spec does not bind: a trace with a flipped Match result was accepted")
            ctx.cov["binding_selfcheck"] = "trace with one flipped Match result rejected at line %s" % info.get("hwm")
            return
    raise vlib.Infra("no trace suitable for the binding self-check")


def split_names(behs):
    """the behaviour of the initial state carries the name list"""
    names = None
    for b in behs:
        if b.get("names"):
            names = b["names"]
        b.pop("names", None)
        if not isinstance(b["rules"], list):
            b["rules"] = []
    if names is None:
        raise vlib.Infra("generator did not export the name list")
    return names


# --------------------------------------------------------------------------- replay
def replay(ctx):
    d = json.load(open(ctx.replay))["replay"]
    binary = vlib.go_build(ctx, "drv_domain")
    if d["mode"] == "beh" and d.get("beh"):
        summ, mism, _ = drive(ctx, binary, d["names"], [d["beh"]], seed=d["seed"])
        ctx.cov["evaluations"] = summ["queries"]
        report_mismatches(ctx, d["names"], mism)
    else:
        summ, mism, runs = drive(ctx, binary, [], [], random=400, seed=d["seed"])
        report_mismatches(ctx, [], mism)
        judged, _ = validate_runs(ctx, runs, "replay")
        ctx.cov["evaluations"] = judged


# --------------------------------------------------------------------------- main
def run(ctx):
    if ctx.replay:
        return replay(ctx)
    T = ctx.thorough()
    ctx.assumptions += [
        "abstract universe: labels a=<<E,B>>, b=<<B>>, c=<<C>> (b is a string suffix of a), names <= 4 labels, patterns <= 3 labels, "
        "keywords <= 3 characters, regular expressions restricted to ^p, p$, (^|\\.)p$, ^p$, p with p a dotted label string, plus "
        "\\S+\\.p$, ^p\\.\\S+$ and ^P (p in upper case) with p one label (expression text is never case-folded); "
        "expected answers come only from DomainSet.tla (TLC); Go concretizes, drives, compares",
        "duplicates of a full / domain rule: the later rule's value is the expected one (hosts-file semantics); any matching "
        "regexp / keyword rule's value is accepted",
        "concretization: five admissible fragment maps (quick: three of them per exhaustive behaviour, rotating) (single letters, words, 63-octet label, digit-first / hyphen, 63-octet TLD), "
        "random case on rule side (except regular expressions) and name side, one optional trailing dot on both sides; a defect tied "
        "to a concrete string outside these maps can be missed",
        "names with empty labels, the root name and rule text containing white space are outside the quantifier",
        "Go regexp, strings and TLC are trusted",
    ]
    # ---- leg A non-vacuity
    for c, what in (("DomainSet_pinned_suffix.cfg", "string suffix"), ("DomainSet_pinned_order.cfg", "precedence"),
                    ("DomainSet_pinned_deepest.cfg", "deepest value")):
        nv = vlib.run_tlc(ctx, "DomainSet", c, expect_violation=True)
        if nv["violated"] != "DesignOK":
            raise vlib.Infra("non-vacuity run %s: expected DesignOK to fail, got %r" % (c, nv["violated"]))
    ctx.cov["non_vacuity"] = ("DesignOK is violated by TLC when domain rules match by string suffix, when keyword is consulted "
                              "before regexp, and when the trie walk keeps the first value")

    # ---- leg A + leg B generators (CheckEmit = DesignOK + export, one pass)
    gens = []
    b = vlib.tlc_behaviours(ctx, "DomainSet", "DomainSet_pairs.cfg" if T else "DomainSet_pairs_small.cfg", workers=8, timeout=1500,
                            label="DesignOK + export: all ordered lists of <= 2 rules x all names (%s universe)" % ("full" if T else "small"))
    gens.append((split_names(b), b, True))
    if T:
        b = vlib.tlc_behaviours(ctx, "DomainSet", "DomainSet_triples.cfg", workers=8, timeout=1500,
                                label="DesignOK + export: all ordered lists of <= 3 rules over 1-label patterns x all names <= 3 labels")
        gens.append((split_names(b), b, True))
    b = vlib.tlc_behaviours(ctx, "DomainSet", "DomainSet_sim.cfg", simulate=3000 if T else 400, depth=5, workers=8 if T else 4,
                            label="DesignOK + export: sampled ordered lists of <= 4 rules, full universe, default types domain/full/keyword")
    gens.append((split_names(b), b, False))

    binary = vlib.go_build(ctx, "drv_domain")
    all_runs = []
    tot = {"sets": 0, "queries": 0, "behaviours": 0}
    nontrivial = set()
    for gi, (names, behs, exh) in enumerate(gens):
        for x in behs:
            if len(x["rules"]) >= 2 and any(v for v in x["x"]) and not all(v for v in x["x"]):
                nontrivial.add(json.dumps(x, sort_keys=True))
        summ, mism, runs = drive(ctx, binary, names, behs, random=(1500 if T else 300) if gi == 0 else 0,
                                 trace_sample=max(1, len(behs) * (5 if T else 3) // (300 if T else 80)),
                                 maps_per=0 if T or not exh else 3)
        for k in tot:
            tot[k] += summ[k]
        report_mismatches(ctx, names, mism)
        all_runs += runs
        log("leg B round %d (%d behaviours%s, %d names): %d matchers built, %d answers compared, %d mismatches" % (
            gi, len(behs), ", exhaustive" if exh else "", len(names), summ["sets"], summ["queries"], summ["mismatches"]))
        if gi == 0:
            ctx.sample({"behaviour": behs[len(behs) // 2], "names": names[:12]})

    # ---- leg C
    judged, traces = validate_runs(ctx, all_runs, "%d runs" % len(all_runs))
    rnd = [r for r in all_runs if r["src"] == "random"]
    if rnd:
        ctx.sample({"random_run": rnd[0]["events"][:10], "map": rnd[0]["map"]})
    if not ctx.violations and not ctx.known_hits:
        if not traces:
            raise vlib.Infra("no run was recorded for leg C")
        binding_selfcheck(ctx, traces)

    ctx.cov["evaluations"] = tot["queries"] + judged
    ctx.cov["matchers_built"] = tot["sets"]
    ctx.cov["behaviours"] = tot["behaviours"]
    ctx.cov["trace_match_events"] = judged
    ctx.cov["distinct_nontrivial"] = len(nontrivial)
    ctx.cov["exhaustive"] = True
    ctx.cov["rule"] = ("evaluations = (real matcher built from a TLC behaviour under one fragment map / API, abstract name) answers "
                       "compared with the behaviour + Match events validated by TLC; distinct_nontrivial = distinct TLC behaviours "
                       "with >= 2 rules that match some but not all names; exhaustive = every ordered list of <= 2 rules of the "
                       "universe (quick: patterns <= 2 labels, names <= 3; thorough: patterns <= 3, names <= 4) and every ordered "
                       "list of <= 3 one-label rules, x every name; lists of 4 sampled")
