"""Standalone pseudo-check for the stream-per-query extra coverage of C01/C07 (DoH, DoQ): `bin/check X_stream quick`,
`bin/selftest <patch> X_stream`.  The real entry point is stream_extra.run_extra(ctx), called from checks/C01.py."""
import stream_extra


def run(ctx):
    ctx.cov["rule"] = ("schedules of StreamPerQuery.tla replayed through a gate RoundTripper (doh.Upstream) and a fake quic.Stream "
                       "(QuicDnsConn) + unsteered concurrent runs; nontrivial = >= 2 requests inside the transport at the same time")
    stream_extra.run_extra(ctx)
