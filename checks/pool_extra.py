"""Additional coverage of C01 / C02 / C09 on the connection pools (reuse.go; lazy part of pipeline.go).
The owning checks (checks/C01.py, C02.py, C09.py of the transport-pipe family) may call

    import pool_extra
    pool_extra.run_c01_reuse(ctx); pool_extra.run_c02_reuse(ctx); pool_extra.run_c09_reuse(ctx)

Each function runs leg A of the relevant ReuseConn / LazyPipeline configs, the non-vacuity configs of the
invariants it relies on, replays scripts on the real transports through harness/drv_pool and validates
the traces (violations are recorded on ctx with signatures starting with "reuse:" / "pipeline:").
Stand-alone: `bin/check pool_extra quick` runs all three.
"""
import vlib
from vlib import log
import poollib as pl


def _nv(ctx, items):
    for spec, cfg, inv in items:
        nv = vlib.run_tlc(ctx, spec, cfg, expect_violation=True, workers=1)
        if nv["violated"] != inv:
            raise vlib.Infra("non-vacuity run %s: expected %s to fail, got %r" % (cfg, inv, nv["violated"]))


def _fresh(c, d):
    return pl._fresh_ok(c, d)


def run_c02_reuse(ctx, binary=None):
    """C02 on the reuse transport: a reply that was read in time is returned (NoLoss).  D2: the final select of
    reusableConn.exchange could pick closeNotify although the reply was in respChan."""
    T = ctx.thorough()
    vlib.tlc_mc(ctx, "ReuseConn", "ReuseConn_design.cfg", workers=8 if T else 4, timeout=1500,
                label="reuse: NoLoss with replies racing kills (2 calls, <= 2 killed connections)")
    _nv(ctx, (("ReuseConn", "ReuseConn_nv_select.cfg", "NoLoss"), ("ReuseConn", "ReuseConn_nv_strict.cfg", "NoLossStrict"),
              ("ReuseConn", "ReuseConn_nv_ctx_clear.cfg", "NoSpuriousUnexpected")))
    ctx.assumptions += [
        "reuse NoLoss exempts a call whose connection was taken from the idle pool by another call before the reply was "
        "handed over (readLoop calls setIdle before the hand-over on purpose; TLC shows that the other call can then "
        "close the connection first: ReuseConn_nv_strict.cfg). That window has no harness boundary inside and is reported "
        "as a design-level observation only",
        "the reply-then-close race is decided by Go's select: each script is repeated N = 24 (quick) / 200 (thorough) "
        "times, miss probability 2^-N for the pinned code",
    ]
    scripts = pl.expand_repeat([s for s in pl.reuse_scenarios(T) if s["name"].startswith("reply-then-close")] +
                               [pl.reuse_cancel_scenarios(T)["early-reply-reuse-then-cancel"]])
    recs, rej = pl.run_scripts(ctx, "reuse", scripts, binary, label="reuse C02")
    pl.dead_driver(ctx, recs, scripts, "reuse C02", min_frac=0.8)
    return recs


def run_c01_reuse(ctx, binary=None):
    """C01 on the reuse transport: a successful call returns the reply to its own query (token = call, write
    ordinal), also with several connections answering in any order and after retries; a message that arrives
    on an idle pooled connection closes it."""
    T = ctx.thorough()
    vlib.tlc_mc(ctx, "ReuseConn", "ReuseConn_surplus.cfg", workers=8 if T else 4, timeout=1500,
                label="reuse: ErrOnFault / own reply with a surplus message on an idle connection")
    _nv(ctx, (("ReuseConn", "ReuseConn_nv_erronfault.cfg", "ErrOnFault"),))
    ctx.assumptions += [
        "reuse: the harness server sends exactly one reply per received query; a surplus message is only injected while "
        "the connection is idle and the harness then waits for the connection to be closed (the race 'surplus message "
        "read while the connection is handed to the next call' delivers it as that call's reply: ReuseConn_nv_surplus_race.cfg, "
        "not claimed, DESIGN C01 guard)",
    ]
    n = 600 if T else 120
    beh = [b for b in pl.gen_behaviours(ctx, "reuse", "ReuseConn_gen_c08.cfg", n, 150)
           if sum(1 for s in b["steps"] if s["a"] == "ReadRet" and s.get("k") == "reply") >= 2]
    scripts = []
    # surplus on an idle connection: closed, the next call uses a fresh one
    scripts.append({"name": "surplus-on-idle", "origin": "scenario",
                    "steps": _fresh(1, 1) + [{"a": "Surplus", "x": 1}, {"a": "CloseReq", "x": 1}] + _fresh(2, 2)})
    # replies of three concurrent calls delivered in reverse order
    st = []
    for c in (1, 2, 3):
        st += [{"a": "Start", "c": c}, {"a": "Dial", "d": c}]
    for c in (1, 2, 3):
        st += [{"a": "DialRet", "d": c, "ok": True}, {"a": "WriteReq", "x": c, "c": c}, {"a": "WriteRet", "x": c, "c": c, "ok": True}]
    for c in (3, 2, 1):
        st += [{"a": "ReadRet", "x": c, "k": "reply", "c": c}, {"a": "Return", "c": c}]
    scripts.append({"name": "three-conns-reverse-replies", "origin": "scenario", "steps": st})
    # a retry must carry the call's own framed query again (released buffers are poisoned by the harness)
    scripts += [s for s in pl.reuse_scenarios(T) if s["name"] in ("stale2-write_ok_then_eof", "stale1-reset_on_write")]
    # a cancelled query's late reply must not be taken for the reply of the next query on the reused connection
    scripts += pl.expand_repeat([dict(pl.reuse_cancel_scenarios(T)["late-reply-then-reuse"], repeat=3),
                                 pl.reuse_cancel_scenarios(T)["cancel-then-next-before-late-reply"]])
    scripts += [pl.beh_to_script("reuse", b, "tlc-%d" % i) for i, b in enumerate(beh)]
    recs, rej = pl.run_scripts(ctx, "reuse", scripts, binary, label="reuse C01")
    if not ctx.violations:
        def wrong_owner(t):
            for e in t:
                if e["ev"] == "Return" and e["res"] == "ok" and e["c"] in (1, 2):
                    e["vc"] = 3 - e["c"]
                    return t
            return None
        pl.corrupt_and_check(ctx, "reuse", recs, wrong_owner, "reuse: the returned reply names another call")
    pl.dead_driver(ctx, recs, scripts, "reuse C01")
    return recs


def run_c09_reuse(ctx, binary=None):
    """C09 on the pools: reuse — at most one unanswered query per connection, idle connections are not busy;
    lazy connection — early reservations <= queue limit, early callers re-reserve before later callers, capacity
    of the dialled connection respected and released on every path."""
    T = ctx.thorough()
    vlib.tlc_mc(ctx, "LazyPipeline", "LazyPipeline_three.cfg", workers=8 if T else 4, timeout=900,
                label="lazy conn: QueueBound, CapBound, NoSpuriousRefusal, NoLeak (3 calls)")
    if T:
        vlib.tlc_mc(ctx, "LazyPipeline", "LazyPipeline_cap1.cfg", workers=8, timeout=1500, label="lazy conn: capacity 1 < queue limit 2")
    _nv(ctx, (("ReuseConn", "ReuseConn_nv_oneatatime.cfg", "OneAtATime"), ("ReuseConn", "ReuseConn_nv_ctx_idle.cfg", "OneAtATime"),
              ("ReuseConn", "ReuseConn_nv_idlesound.cfg", "IdleSound"),
              ("LazyPipeline", "LazyPipeline_nv_wg.cfg", "NoSpuriousRefusal"), ("LazyPipeline", "LazyPipeline_nv_queue.cfg", "QueueBound"),
              ("LazyPipeline", "LazyPipeline_nv_cap.cfg", "CapBound"), ("LazyPipeline", "LazyPipeline_nv_leak.cfg", "NoLeak")))
    n = 600 if T else 60
    rbeh = pl.gen_behaviours(ctx, "reuse", "ReuseConn_gen_c08.cfg", n, 150)
    rscripts = [pl.beh_to_script("reuse", b, "tlc-%d" % i) for i, b in enumerate(rbeh) if
                len({s["c"] for s in b["steps"] if s["a"] == "Start"}) >= 3]
    # five concurrent callers on a pool of two idle connections
    st = pl._idle_conns(2) + [{"a": "Start", "c": c} for c in (3, 4, 5)]
    rscripts.append({"name": "five-callers-two-idle", "origin": "scenario", "steps": st})
    # a cancelled, still unanswered query keeps its connection out of the pool (limit 1 per connection)
    rscripts += pl.expand_repeat([dict(pl.reuse_cancel_scenarios(T)["cancel-then-next-before-late-reply"], repeat=3),
                                  pl.reuse_cancel_scenarios(T)["late-reply-then-reuse"]])
    pbeh = pl.gen_behaviours(ctx, "pipeline", "LazyPipeline_gen_eager.cfg", n, 120)
    # capacity never leaks through calls whose context has already ended; the dial queue limit holds after a
    # cancellation while dialing; refused early callers are retried (scenarios first: they are the cheap ones)
    pscripts = pl.expand_repeat([s for s in pl.pipeline_scenarios(T) if s["name"] in (
        "precancelled-on-established", "precancelled-while-dialing", "queue-limit-after-cancel-while-dialing",
        "dead-on-arrival-with-early-callers")])
    pscripts += [pl.beh_to_script("pipeline", b, "tlc-%d" % i) for i, b in enumerate(pbeh)]
    pbeh1 = pl.gen_behaviours(ctx, "pipeline", "LazyPipeline_gen_cap1.cfg", n // 2, 120,
                              overrides={"Eager": "TRUE"})
    pscripts1 = pl.expand_repeat(pl.pipeline_cap1_scenarios(T)) + \
        [dict(pl.beh_to_script("pipeline", b, "tlc-cap1-%d" % i), cap=1) for i, b in enumerate(pbeh1)]
    rrecs, _ = pl.run_scripts(ctx, "reuse", rscripts, binary, label="reuse C09")
    precs, _ = pl.run_scripts(ctx, "pipeline", pscripts, binary, label="lazy C09")
    precs1, _ = pl.run_scripts(ctx, "pipeline", pscripts1, binary, label="lazy C09 (capacity 1)", trace_cfg="LazyPipeline_Trace_cap1.cfg")
    pl.dead_driver(ctx, rrecs, rscripts, "reuse C09")
    pl.dead_driver(ctx, precs, pscripts, "lazy C09")
    pl.dead_driver(ctx, precs1, pscripts1, "lazy C09 cap1", min_frac=0.3)
    return rrecs + precs + precs1


def run_c16_reuse(ctx, binary=None):
    """C16 on the reuse transport's retry path: every frame that reaches a connection -- first attempt or retry
    after a stale pooled connection -- is exactly the 2-byte length + the call's own query (the trace spec's
    WriteReq carries wok = 'the bytes written equal the framed query of call c'; the harness poisons every
    buffer handed back through pool.ReleaseBuf, so a retry that re-sends a released buffer writes garbage)."""
    T = ctx.thorough()
    scripts = [s for s in pl.reuse_scenarios(T) if s["name"].startswith("stale") and not s["name"].endswith("silence")
               and s["name"][5] in "123"]
    n = 300 if T else 40
    beh = [b for b in pl.gen_behaviours(ctx, "reuse", "ReuseConn_gen_c08.cfg", n, 150)
           if sum(1 for s in b["steps"] if s["a"] == "WriteReq") >= 3]
    scripts += [pl.beh_to_script("reuse", b, "tlc-%d" % i) for i, b in enumerate(beh)]
    ctx.assumptions += [
        "reuse retries: the frame written on every attempt is compared with the call's framed query inside the driver "
        "(WriteReq.wok); released pool buffers are overwritten by the harness before they are handed out again",
    ]
    recs, rej = pl.run_scripts(ctx, "reuse", scripts, binary, label="reuse C16 (frames on retries)")
    pl.dead_driver(ctx, recs, scripts, "reuse C16")
    ctx.cov["reuse_retry_frames"] = {"scripts": len(scripts), "ran": sum(1 for r in recs if not r.get("skipped"))}
    return recs


def run(ctx):
    """stand-alone entry (bin/check pool_extra <tier>)"""
    if ctx.replay:
        return pl.replay(ctx)
    binary = vlib.go_build(ctx, "drv_pool")
    recs = run_c02_reuse(ctx, binary) + run_c01_reuse(ctx, binary) + run_c09_reuse(ctx, binary)
    ran = [r for r in recs if not r.get("skipped")]
    ctx.cov["evaluations"] = len(ran)
    ctx.cov["distinct_nontrivial"] = len({r["name"].split("#")[0] for r in ran if r["steered"]})
    ctx.cov["rule"] = "distinct fully steered scripts (repeats of a probabilistic script count once)"
