// Package simnet is a scripted implementation of mosdns' transport.NetConn (and a gated dial
// helper) for the model-based checks: every call the code under test makes on the connection is a
// rendezvous with a single controller goroutine which decides WHEN the call returns and WHAT it
// returns.  Nothing here depends on wall-clock time except the classification of deadlines.
//
// Concepts
//
//   - Recorder: one mutex, one sequence counter.  Every boundary event is logged at the instant
//     the harness observes or causes it ("post" events are logged inside the call, before it
//     blocks; completion events are logged by the controller at the instant it completes a
//     call).  Controller-side API events (Reserve, Cancel, ...) are logged through the same
//     recorder, so one total order exists and it is a real-time order of the logging instants.
//     Recorder.Atomic runs a short non-blocking call of the code under test while holding the
//     recorder mutex, so that no other event can be logged between the call's linearization
//     point and its log line.
//
//   - Conn: implements Read / Write / SetDeadline / SetReadDeadline / SetWriteDeadline / Close.
//     Each call becomes an *Op.  Ops for which Options.Manual returns true stay pending until
//     the controller completes them (Deliver, FailRead, Op.Complete, Advance ...); the others
//     complete immediately with their default effect (still logged).  Default: Read and Write
//     are manual, everything else is automatic.
//     Two framings: stream (Deliver writes a 2-byte length prefix; the reader may fetch the
//     frame with any number of Reads; the Deliver event is logged when the LAST byte has been
//     returned) and datagram (one Deliver = one Read).  DeliverLast makes the Read that returns the last byte
//     also return an error (n > 0, io.EOF in one call).
//     Close makes the pending Read and every later Read/Write fail with net.ErrClosed, like a
//     socket. A Write that is already pending stays with the controller: its bytes may have
//     left before the close, so it may still return nil (or an error, the controller decides).
//
//   - Virtual deadlines: the conn remembers the armed read deadline and classifies its kind
//     by its distance from time.Now() (Options.Kinds, e.g. "idle" / "waiting" / "query").
//     Time never passes by itself: Advance(d) moves the conn's virtual clock and fails the
//     pending Read with a timeout error iff its armed deadline is within the elapsed virtual
//     time; InjectTimeout fails it unconditionally.
//
//   - Dialer: a gate for dial functions.  Await posts a "Dial" op and blocks until the
//     controller completes it (or the dial context ends, which it honours like net.Dialer).
//
//   - Gate: a generic hold point (Pass / WaitN / Release / Open) for wrappers around objects the
//     harness hands to the code under test.
//
// Event lines (Event = map): "seq" sequence number, "ev" name, "conn" conn name, "ms" real
// milliseconds since the recorder was created (diagnostics and generous bounds only), plus
//
//	ConnWrite{len, dead}  ConnRead{dead}  SetReadDeadline{kind, dur_ms, dead}  SetDeadline{..}
//	SetWriteDeadline{..}  ConnClose{}     (posted by the code under test; when such a call is held, its effect
//	takes place at completion: SetReadDeadlineRet{kind, ok}, ConnCloseRet{ok})
//	WriteRet{ok}  Deliver{len}  ReadFail{kind}  ReadTimeout{kind}  (caused by the controller;
//	Close() fails the pending Read: ReadFail{kind:"closed"})
//	Dial{id}  DialRet{id, ok}  DialCtxDone{id}
//
// Options.Annotate may add fields to the events of an op (e.g. the DNS id / question of the
// payload) — it runs under the conn's mutex and must not call back into the conn.
package simnet

import (
	"context"
	"encoding/binary"
	"errors"
	"io"
	"net"
	"os"
	"sync"
	"time"
)

// ---------------------------------------------------------------------------
// Recorder

type Event map[string]any

type Recorder struct {
	mu  sync.Mutex
	seq int
	evs []Event
	t0  time.Time
	// Off suppresses recording (sequence numbers still advance); used for warm-up phases.
	Off bool
}

func NewRecorder() *Recorder { return &Recorder{t0: time.Now()} }

func (r *Recorder) logLocked(ev string, kv ...any) int {
	r.seq++
	if r.Off {
		return r.seq
	}
	e := Event{"seq": r.seq, "ev": ev, "ms": float64(time.Since(r.t0).Microseconds()) / 1000}
	for i := 0; i+1 < len(kv); i += 2 {
		e[kv[i].(string)] = kv[i+1]
	}
	r.evs = append(r.evs, e)
	return r.seq
}

// Log appends one event and returns its sequence number.
func (r *Recorder) Log(ev string, kv ...any) int {
	r.mu.Lock()
	defer r.mu.Unlock()
	return r.logLocked(ev, kv...)
}

// Atomic runs fn while holding the recorder mutex; fn logs through the function it is given.
// fn must not block on anything that itself logs (it may call short, non-blocking methods of
// the code under test such as ReserveNewQuery on an established connection).
func (r *Recorder) Atomic(fn func(log func(ev string, kv ...any))) {
	r.mu.Lock()
	defer r.mu.Unlock()
	fn(func(ev string, kv ...any) { r.logLocked(ev, kv...) })
}

// Events returns a copy of the events recorded so far.
func (r *Recorder) Events() []Event {
	r.mu.Lock()
	defer r.mu.Unlock()
	return append([]Event(nil), r.evs...)
}

// Len returns the number of events currently held; Truncate(n) drops the events recorded after the n-th
// (used by stress drivers to keep only the interesting rounds of a long run).
func (r *Recorder) Len() int {
	r.mu.Lock()
	defer r.mu.Unlock()
	return len(r.evs)
}

func (r *Recorder) Truncate(n int) {
	r.mu.Lock()
	defer r.mu.Unlock()
	if n >= 0 && n < len(r.evs) {
		r.evs = r.evs[:n]
	}
}

// Take returns the recorded events and clears the buffer (sequence numbers keep growing).
func (r *Recorder) Take() []Event {
	r.mu.Lock()
	defer r.mu.Unlock()
	e := r.evs
	r.evs = nil
	return e
}

func (r *Recorder) SetOff(off bool) {
	r.mu.Lock()
	r.Off = off
	r.mu.Unlock()
}

// ---------------------------------------------------------------------------
// Ops

type OpKind string

const (
	OpRead             OpKind = "ConnRead"
	OpWrite            OpKind = "ConnWrite"
	OpSetReadDeadline  OpKind = "SetReadDeadline"
	OpSetDeadline      OpKind = "SetDeadline"
	OpSetWriteDeadline OpKind = "SetWriteDeadline"
	OpClose            OpKind = "ConnClose"
)

// Op is one call of the code under test on a Conn.
type Op struct {
	Kind OpKind
	Conn *Conn
	Seq  int    // sequence number of the post event
	Data []byte // Write: copy of the payload exactly as written
	buf  []byte // Read: destination
	// Set*Deadline: requested deadline, its distance from now at the call, and its kind
	Deadline time.Time
	Dur      time.Duration
	DKind    string
	Dead     bool  // posted on a closed conn: failed immediately
	Note     []any // annotation fields (Options.Annotate)

	done chan struct{}
	n    int
	err  error
	fin  bool
}

// DeadlineKind classifies a deadline by its distance from time.Now(): Min <= d < Max.
type DeadlineKind struct {
	Name     string
	Min, Max time.Duration
}

type Options struct {
	Name     string
	Datagram bool
	Kinds    []DeadlineKind
	// Manual reports whether op must wait for the controller. nil: Read and Write only.
	Manual func(op *Op) bool
	// Annotate returns extra key/value fields for the events of op (called once, at post time).
	Annotate func(op *Op) []any
}

type timeoutError struct{}

func (timeoutError) Error() string   { return "simnet: i/o timeout" }
func (timeoutError) Timeout() bool   { return true }
func (timeoutError) Temporary() bool { return true }
func (timeoutError) Is(t error) bool { return t == os.ErrDeadlineExceeded }

// ErrTimeout is what a Read returns when its (virtual) deadline passed.
var ErrTimeout net.Error = timeoutError{}

// ---------------------------------------------------------------------------
// Conn

type Conn struct {
	rec  *Recorder
	opt  Options
	mu   sync.Mutex
	wake chan struct{}

	pending []*Op
	closed  bool
	nClose  int

	// stream/datagram delivery in progress
	rbuf     []byte
	rnote    []any
	rlen     int
	rdrained chan struct{}
	// DeliverLast: error returned together with the last chunk, then by every later Read
	rfinalErr, stickyErr   error
	rfinalKind, stickyKind string

	// virtual clock and armed read deadline
	vnow     time.Duration
	rdArmed  bool
	rdDur    time.Duration
	rdKind   string
	rdArmedV time.Duration
}

func NewConn(rec *Recorder, opt Options) *Conn {
	return &Conn{rec: rec, opt: opt, wake: make(chan struct{}, 1)}
}

func (c *Conn) Name() string { return c.opt.Name }

func (c *Conn) kick() {
	select {
	case c.wake <- struct{}{}:
	default:
	}
}

func (c *Conn) classify(t time.Time) (time.Duration, string) {
	if t.IsZero() {
		return 0, "none"
	}
	d := time.Until(t)
	for _, k := range c.opt.Kinds {
		if d >= k.Min && d < k.Max {
			return d, k.Name
		}
	}
	return d, "other"
}

func (c *Conn) manual(op *Op) bool {
	if c.opt.Manual != nil {
		return c.opt.Manual(op)
	}
	return op.Kind == OpRead || op.Kind == OpWrite
}

func (c *Conn) log(ev string, op *Op, kv ...any) int {
	all := append([]any{"conn", c.opt.Name}, kv...)
	if op != nil {
		all = append(all, op.Note...)
	}
	return c.rec.Log(ev, all...)
}

// serveRead copies buffered bytes into op (c.mu held). Returns true if op got data.
func (c *Conn) serveRead(op *Op) bool {
	if len(c.rbuf) == 0 {
		return false
	}
	n := copy(op.buf, c.rbuf)
	if c.opt.Datagram {
		c.rbuf = nil // the rest of a datagram is discarded
	} else {
		c.rbuf = c.rbuf[n:]
	}
	op.n = n
	if len(c.rbuf) == 0 {
		c.rbuf = nil
		if c.rfinalErr != nil {
			// "last chunk together with EOF/error": this Read returns (n > 0, err); every later Read fails with
			// the same error at once (logged as ReadFail when it happens)
			op.err, c.stickyErr, c.stickyKind = c.rfinalErr, c.rfinalErr, c.rfinalKind
			c.rfinalErr = nil
			c.log("Deliver", nil, append([]any{"len", c.rlen, "with_err", c.stickyKind}, c.rnote...)...)
		} else {
			c.log("Deliver", nil, append([]any{"len", c.rlen}, c.rnote...)...)
		}
		if c.rdrained != nil {
			close(c.rdrained)
			c.rdrained = nil
		}
	}
	return true
}

// applyLocked performs the default effect of a successfully completed op (c.mu held).
func (c *Conn) applyLocked(op *Op) {
	switch op.Kind {
	case OpWrite:
		op.n = len(op.Data)
	case OpSetReadDeadline, OpSetDeadline:
		if op.Deadline.IsZero() {
			c.rdArmed = false
		} else {
			c.rdArmed, c.rdDur, c.rdKind, c.rdArmedV = true, op.Dur, op.DKind, c.vnow
		}
	case OpClose:
		c.closeLocked()
	}
}

func (c *Conn) closeLocked() {
	if c.closed {
		return
	}
	c.closed = true
	rest := c.pending[:0]
	for _, p := range c.pending {
		if p.Kind == OpRead {
			p.err = net.ErrClosed
			p.fin = true
			c.log("ReadFail", p, "kind", "closed")
			close(p.done)
		} else {
			rest = append(rest, p)
		}
	}
	c.pending = rest
	c.rbuf = nil
	if c.rdrained != nil {
		close(c.rdrained)
		c.rdrained = nil
	}
}

func (c *Conn) removeLocked(op *Op) bool {
	for i, p := range c.pending {
		if p == op {
			c.pending = append(c.pending[:i], c.pending[i+1:]...)
			return true
		}
	}
	return false
}

func (c *Conn) do(op *Op) (int, error) {
	op.Conn = c
	op.done = make(chan struct{})
	c.mu.Lock()
	if c.opt.Annotate != nil {
		op.Note = c.opt.Annotate(op)
	}
	op.Dead = c.closed && op.Kind != OpClose
	kv := []any{"dead", op.Dead}
	switch op.Kind {
	case OpWrite:
		kv = append(kv, "len", len(op.Data))
	case OpSetReadDeadline, OpSetDeadline, OpSetWriteDeadline:
		kv = append(kv, "kind", op.DKind, "dur_ms", op.Dur.Milliseconds())
	case OpClose:
		c.nClose++
		kv = append(kv, "again", c.nClose > 1)
	}
	op.Seq = c.log(string(op.Kind), op, kv...)
	if op.Dead {
		c.mu.Unlock()
		c.kick()
		return 0, net.ErrClosed
	}
	if op.Kind == OpRead && c.serveRead(op) {
		c.mu.Unlock()
		c.kick()
		return op.n, op.err
	}
	if op.Kind == OpRead && c.stickyErr != nil { // the stream ended together with the last delivered chunk
		c.log("ReadFail", op, "kind", c.stickyKind)
		err := c.stickyErr
		c.mu.Unlock()
		c.kick()
		return 0, err
	}
	if !c.manual(op) {
		c.applyLocked(op)
		c.mu.Unlock()
		c.kick()
		return op.n, nil
	}
	c.pending = append(c.pending, op)
	c.mu.Unlock()
	c.kick()
	<-op.done
	return op.n, op.err
}

func (c *Conn) Read(p []byte) (int, error) {
	if len(p) == 0 {
		return 0, nil
	}
	return c.do(&Op{Kind: OpRead, buf: p})
}

func (c *Conn) Write(p []byte) (int, error) {
	return c.do(&Op{Kind: OpWrite, Data: append([]byte(nil), p...)})
}

func (c *Conn) setDeadline(k OpKind, t time.Time) error {
	d, kind := c.classify(t)
	_, err := c.do(&Op{Kind: k, Deadline: t, Dur: d, DKind: kind})
	return err
}

func (c *Conn) SetDeadline(t time.Time) error      { return c.setDeadline(OpSetDeadline, t) }
func (c *Conn) SetReadDeadline(t time.Time) error  { return c.setDeadline(OpSetReadDeadline, t) }
func (c *Conn) SetWriteDeadline(t time.Time) error { return c.setDeadline(OpSetWriteDeadline, t) }

func (c *Conn) Close() error {
	_, err := c.do(&Op{Kind: OpClose})
	return err
}

// ---------------------------------------------------------------------------
// controller side

// IsClosed reports whether Close() took effect on the conn.
func (c *Conn) IsClosed() bool {
	c.mu.Lock()
	defer c.mu.Unlock()
	return c.closed
}

// IsClosedLocked is IsClosed for use inside WaitCond's stop function (conn mutex already held).
func (c *Conn) IsClosedLocked() bool { return c.closed }

// Pending returns the ops currently waiting for the controller.
func (c *Conn) Pending() []*Op {
	c.mu.Lock()
	defer c.mu.Unlock()
	return append([]*Op(nil), c.pending...)
}

// Find returns the first pending op satisfying pred (nil if none), without waiting.
func (c *Conn) Find(pred func(*Op) bool) *Op {
	c.mu.Lock()
	defer c.mu.Unlock()
	for _, p := range c.pending {
		if pred(p) {
			return p
		}
	}
	return nil
}

// Wait blocks until a pending op satisfies pred, the conn is closed (returns nil) or the
// timeout expires (returns nil).
func (c *Conn) Wait(pred func(*Op) bool, timeout time.Duration) *Op {
	return c.WaitCond(func() bool { return false }, pred, timeout)
}

// WaitCond is Wait with an additional stop condition evaluated under the conn's mutex.
func (c *Conn) WaitCond(stop func() bool, pred func(*Op) bool, timeout time.Duration) *Op {
	deadline := time.NewTimer(timeout)
	defer deadline.Stop()
	for {
		c.mu.Lock()
		for _, p := range c.pending {
			if pred(p) {
				c.mu.Unlock()
				return p
			}
		}
		st := stop()
		c.mu.Unlock()
		if st {
			return nil
		}
		select {
		case <-c.wake:
		case <-deadline.C:
			return nil
		}
	}
}

// WaitClosed waits until the code under test has called Close() on the conn.
func (c *Conn) WaitClosed(timeout time.Duration) bool {
	deadline := time.NewTimer(timeout)
	defer deadline.Stop()
	for {
		if c.IsClosed() {
			return true
		}
		select {
		case <-c.wake:
		case <-deadline.C:
			return c.IsClosed()
		}
	}
}

func IsKind(k OpKind) func(*Op) bool { return func(o *Op) bool { return o.Kind == k } }

// Complete finishes a pending Write / Set*Deadline / Close op. err == nil applies the op's
// default effect. Returns false if the op is no longer pending (e.g. failed by Close).
func (op *Op) Complete(err error) bool {
	c := op.Conn
	c.mu.Lock()
	if op.fin || !c.removeLocked(op) {
		c.mu.Unlock()
		return false
	}
	op.fin = true
	op.err = err
	if err == nil {
		c.applyLocked(op)
	}
	switch op.Kind {
	case OpWrite:
		c.log("WriteRet", op, "ok", err == nil)
	case OpRead:
		c.log("ReadFail", op, "kind", "err")
	case OpSetReadDeadline, OpSetDeadline, OpSetWriteDeadline:
		c.log(string(op.Kind)+"Ret", op, "ok", err == nil, "kind", op.DKind)
	default:
		c.log(string(op.Kind)+"Ret", op, "ok", err == nil)
	}
	close(op.done)
	c.mu.Unlock()
	return true
}

// Deliver hands one message to the reader: it waits (up to timeout) for a pending Read,
// makes the framed message readable and returns once its last byte has been returned by Read
// (the "Deliver" event is logged at that instant with the note fields). False if there was no
// pending Read in time or the conn was closed first.
func (c *Conn) Deliver(msg []byte, timeout time.Duration, note ...any) bool {
	op := c.WaitCond(func() bool { return c.closed }, IsKind(OpRead), timeout)
	if op == nil {
		return false
	}
	c.mu.Lock()
	if op.fin || c.closed || !c.removeLocked(op) {
		c.mu.Unlock()
		return false
	}
	if c.opt.Datagram {
		c.rbuf = append([]byte(nil), msg...)
	} else {
		c.rbuf = make([]byte, 2+len(msg))
		binary.BigEndian.PutUint16(c.rbuf, uint16(len(msg)))
		copy(c.rbuf[2:], msg)
	}
	c.rnote, c.rlen = note, len(msg)
	drained := make(chan struct{})
	c.rdrained = drained
	c.serveRead(op)
	op.fin = true
	close(op.done)
	c.mu.Unlock()
	t := time.NewTimer(timeout)
	defer t.Stop()
	select {
	case <-drained:
		return !c.IsClosed()
	case <-t.C:
		return false
	}
}

// DeliverLast is Deliver, but the Read that returns the LAST byte of the message also returns err (n > 0 and
// err != nil in ONE call, as tls.Conn does when close_notify follows the data record, or a QUIC stream with FIN);
// every later Read fails with err immediately ("ReadFail{kind}" is logged then). Stream and datagram framing.
func (c *Conn) DeliverLast(msg []byte, err error, kind string, timeout time.Duration, note ...any) bool {
	c.mu.Lock()
	c.rfinalErr, c.rfinalKind = err, kind
	c.mu.Unlock()
	ok := c.Deliver(msg, timeout, note...)
	if !ok {
		c.mu.Lock()
		c.rfinalErr = nil
		c.mu.Unlock()
	}
	return ok
}

// FailRead completes the pending Read with err (io.EOF, a reset, ...). kind is logged.
func (c *Conn) FailRead(err error, kind string, timeout time.Duration) bool {
	op := c.WaitCond(func() bool { return c.closed }, IsKind(OpRead), timeout)
	if op == nil {
		return false
	}
	c.mu.Lock()
	defer c.mu.Unlock()
	if op.fin || !c.removeLocked(op) {
		return false
	}
	op.fin, op.err = true, err
	c.log("ReadFail", op, "kind", kind)
	close(op.done)
	return true
}

// EOF is FailRead(io.EOF).
func (c *Conn) EOF(timeout time.Duration) bool { return c.FailRead(io.EOF, "eof", timeout) }

// Armed returns the kind of the armed read deadline ("" if none) and its remaining virtual time.
func (c *Conn) Armed() (string, time.Duration) {
	c.mu.Lock()
	defer c.mu.Unlock()
	if !c.rdArmed {
		return "", 0
	}
	return c.rdKind, c.rdDur - (c.vnow - c.rdArmedV)
}

// Advance moves the conn's virtual clock by d. If a Read is pending and the armed read
// deadline has thereby passed, that Read fails with ErrTimeout ("ReadTimeout" is logged with
// the kind of the deadline). Returns whether a timeout was delivered.
func (c *Conn) Advance(d time.Duration) bool {
	c.mu.Lock()
	defer c.mu.Unlock()
	c.vnow += d
	c.log("Advance", nil, "d_ms", d.Milliseconds())
	if !c.rdArmed || c.vnow-c.rdArmedV < c.rdDur {
		return false
	}
	return c.timeoutLocked()
}

// InjectTimeout fails the pending Read with ErrTimeout regardless of the virtual clock.
func (c *Conn) InjectTimeout() bool {
	c.mu.Lock()
	defer c.mu.Unlock()
	return c.timeoutLocked()
}

func (c *Conn) timeoutLocked() bool {
	for _, p := range c.pending {
		if p.Kind == OpRead {
			c.removeLocked(p)
			p.fin, p.err = true, ErrTimeout
			c.log("ReadTimeout", p, "kind", c.rdKind)
			close(p.done)
			return true
		}
	}
	return false
}

// ---------------------------------------------------------------------------
// Dialer: a gate for dial functions

type DialOp struct {
	ID   int
	Ctx  context.Context
	d    *Dialer
	done chan struct{}
	val  any
	err  error
	fin  bool
}

type Dialer struct {
	rec     *Recorder
	name    string
	mu      sync.Mutex
	wake    chan struct{}
	pending []*DialOp
	n       int
}

func NewDialer(rec *Recorder, name string) *Dialer {
	return &Dialer{rec: rec, name: name, wake: make(chan struct{}, 1)}
}

// Await is called from the dial function handed to the code under test: it posts a "Dial"
// event and blocks until the controller completes the op or ctx ends (then ctx's error is
// returned and "DialCtxDone" is logged).
func (d *Dialer) Await(ctx context.Context) (any, error) {
	d.mu.Lock()
	d.n++
	op := &DialOp{ID: d.n, Ctx: ctx, d: d, done: make(chan struct{})}
	d.pending = append(d.pending, op)
	d.rec.Log("Dial", "dialer", d.name, "id", op.ID)
	d.mu.Unlock()
	select {
	case d.wake <- struct{}{}:
	default:
	}
	select {
	case <-op.done:
		return op.val, op.err
	case <-ctx.Done():
		d.mu.Lock()
		if op.fin { // completed concurrently
			d.mu.Unlock()
			return op.val, op.err
		}
		op.fin = true
		d.remove(op)
		d.rec.Log("DialCtxDone", "dialer", d.name, "id", op.ID)
		d.mu.Unlock()
		return nil, context.Cause(ctx)
	}
}

func (d *Dialer) remove(op *DialOp) {
	for i, p := range d.pending {
		if p == op {
			d.pending = append(d.pending[:i], d.pending[i+1:]...)
			return
		}
	}
}

// Wait returns the oldest pending dial (nil after timeout).
func (d *Dialer) Wait(timeout time.Duration) *DialOp {
	t := time.NewTimer(timeout)
	defer t.Stop()
	for {
		d.mu.Lock()
		if len(d.pending) > 0 {
			op := d.pending[0]
			d.mu.Unlock()
			return op
		}
		d.mu.Unlock()
		select {
		case <-d.wake:
		case <-t.C:
			return nil
		}
	}
}

// Pending returns the dials currently waiting for the controller (oldest first).
func (d *Dialer) Pending() []*DialOp {
	d.mu.Lock()
	defer d.mu.Unlock()
	return append([]*DialOp(nil), d.pending...)
}

// Count returns the number of Dial calls seen so far.
func (d *Dialer) Count() int {
	d.mu.Lock()
	defer d.mu.Unlock()
	return d.n
}

// Complete lets the dial return (val, err). False if the dial already ended (ctx).
func (op *DialOp) Complete(val any, err error) bool {
	d := op.d
	d.mu.Lock()
	defer d.mu.Unlock()
	if op.fin {
		return false
	}
	op.fin, op.val, op.err = true, val, err
	d.remove(op)
	d.rec.Log("DialRet", "dialer", d.name, "id", op.ID, "ok", err == nil)
	close(op.done)
	return true
}

var ErrRefused = errors.New("simnet: connection refused")

// ---------------------------------------------------------------------------
// Gate: a named rendezvous point for harness wrappers around objects handed to the code under
// test (e.g. a DnsConn wrapper whose ReserveNewQuery must be held at entry).  Pass blocks until
// the controller releases the arrival (or the gate is open); arrivals are numbered in order and
// logged as Gate{gate,id} / GateRelease{gate,id}.

type GateOp struct {
	ID   int
	g    *Gate
	done chan struct{}
	fin  bool
}

type Gate struct {
	rec     *Recorder
	name    string
	mu      sync.Mutex
	wake    chan struct{}
	open    bool
	n       int
	pending []*GateOp
}

// NewGate returns a closed gate (arrivals are held) unless open is true.
func NewGate(rec *Recorder, name string, open bool) *Gate {
	return &Gate{rec: rec, name: name, open: open, wake: make(chan struct{}, 1)}
}

// Pass is called by the wrapper inside the code under test.
func (g *Gate) Pass() {
	g.mu.Lock()
	if g.open {
		g.mu.Unlock()
		return
	}
	g.n++
	op := &GateOp{ID: g.n, g: g, done: make(chan struct{})}
	g.pending = append(g.pending, op)
	g.rec.Log("Gate", "gate", g.name, "id", op.ID)
	g.mu.Unlock()
	select {
	case g.wake <- struct{}{}:
	default:
	}
	<-op.done
}

// Pending returns the held arrivals, oldest first.
func (g *Gate) Pending() []*GateOp {
	g.mu.Lock()
	defer g.mu.Unlock()
	return append([]*GateOp(nil), g.pending...)
}

// WaitN waits until at least n arrivals are held; returns whether that happened in time.
func (g *Gate) WaitN(n int, timeout time.Duration) bool {
	t := time.NewTimer(timeout)
	defer t.Stop()
	for {
		if len(g.Pending()) >= n {
			return true
		}
		select {
		case <-g.wake:
		case <-t.C:
			return len(g.Pending()) >= n
		}
	}
}

// Release lets one held arrival continue.
func (op *GateOp) Release() {
	g := op.g
	g.mu.Lock()
	defer g.mu.Unlock()
	if op.fin {
		return
	}
	op.fin = true
	for i, p := range g.pending {
		if p == op {
			g.pending = append(g.pending[:i], g.pending[i+1:]...)
			break
		}
	}
	g.rec.Log("GateRelease", "gate", g.name, "id", op.ID)
	close(op.done)
}

// Open releases everything held (newest first) and lets later arrivals pass unlogged.
func (g *Gate) Open() {
	ps := g.Pending()
	for i := len(ps) - 1; i >= 0; i-- {
		ps[i].Release()
	}
	g.mu.Lock()
	g.open = true
	g.mu.Unlock()
}
