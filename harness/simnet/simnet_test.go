package simnet

import (
	"context"
	"errors"
	"io"
	"net"
	"os"
	"testing"
	"time"
)

const tw = 2 * time.Second

var testKinds = []DeadlineKind{
	{Name: "waiting", Min: 5 * time.Second, Max: 20 * time.Second},
	{Name: "idle", Min: 100 * time.Second, Max: 1000 * time.Second},
}

func names(evs []Event) (out []string) {
	for _, e := range evs {
		out = append(out, e["ev"].(string))
	}
	return
}

// usage example: stream framing, one Deliver = length prefix + body fetched by two Reads
func TestStreamDeliver(t *testing.T) {
	rec := NewRecorder()
	c := NewConn(rec, Options{Name: "k", Kinds: testKinds})
	got := make(chan []byte, 1)
	go func() {
		h := make([]byte, 2)
		if _, err := io.ReadFull(c, h); err != nil {
			got <- nil
			return
		}
		b := make([]byte, int(h[0])<<8|int(h[1]))
		io.ReadFull(c, b)
		got <- b
	}()
	if !c.Deliver([]byte("hello"), tw, "tag", 7) {
		t.Fatal("deliver failed")
	}
	if b := <-got; string(b) != "hello" {
		t.Fatalf("got %q", b)
	}
	evs := rec.Events()
	last := evs[len(evs)-1]
	if last["ev"] != "Deliver" || last["tag"] != 7 || last["len"] != 5 {
		t.Fatalf("events: %v", evs)
	}
}

func TestWriteHeldAndClose(t *testing.T) {
	rec := NewRecorder()
	c := NewConn(rec, Options{Name: "k"})
	res := make(chan error, 1)
	go func() { _, err := c.Write([]byte{1, 2, 3}); res <- err }()
	op := c.Wait(IsKind(OpWrite), tw)
	if op == nil || len(op.Data) != 3 {
		t.Fatal("no pending write")
	}
	rd := make(chan error, 1)
	go func() { _, err := c.Read(make([]byte, 8)); rd <- err }()
	if c.Wait(IsKind(OpRead), tw) == nil {
		t.Fatal("no pending read")
	}
	c.Close() // fails the pending Read, keeps the pending Write for the controller
	if err := <-rd; !errors.Is(err, net.ErrClosed) {
		t.Fatalf("read err %v", err)
	}
	select {
	case <-res:
		t.Fatal("write returned by itself")
	case <-time.After(20 * time.Millisecond):
	}
	op.Complete(nil)
	if err := <-res; err != nil {
		t.Fatalf("write err %v", err)
	}
	if _, err := c.Write([]byte{1}); !errors.Is(err, net.ErrClosed) {
		t.Fatalf("write after close: %v", err)
	}
}

func TestVirtualDeadline(t *testing.T) {
	rec := NewRecorder()
	c := NewConn(rec, Options{Name: "k", Datagram: true, Kinds: testKinds})
	c.SetReadDeadline(time.Now().Add(300 * time.Second))
	if k, _ := c.Armed(); k != "idle" {
		t.Fatalf("kind %q", k)
	}
	c.SetReadDeadline(time.Now().Add(10 * time.Second))
	rd := make(chan error, 1)
	go func() { _, err := c.Read(make([]byte, 8)); rd <- err }()
	c.Wait(IsKind(OpRead), tw)
	if c.Advance(9 * time.Second) {
		t.Fatal("fired early")
	}
	if !c.Advance(2 * time.Second) {
		t.Fatal("did not fire")
	}
	err := <-rd
	var ne net.Error
	if !errors.As(err, &ne) || !ne.Timeout() || !errors.Is(err, os.ErrDeadlineExceeded) {
		t.Fatalf("err %v", err)
	}
	evs := rec.Events()
	if last := evs[len(evs)-1]; last["ev"] != "ReadTimeout" || last["kind"] != "waiting" {
		t.Fatalf("%v", names(evs))
	}
}

func TestDialer(t *testing.T) {
	rec := NewRecorder()
	d := NewDialer(rec, "d")
	type r struct {
		v   any
		err error
	}
	out := make(chan r, 2)
	go func() { v, err := d.Await(context.Background()); out <- r{v, err} }()
	op := d.Wait(tw)
	if op == nil || !op.Complete("conn", nil) {
		t.Fatal("no dial")
	}
	if x := <-out; x.v != "conn" || x.err != nil {
		t.Fatalf("%v", x)
	}
	ctx, cancel := context.WithCancel(context.Background())
	go func() { v, err := d.Await(ctx); out <- r{v, err} }()
	op = d.Wait(tw)
	cancel()
	if x := <-out; !errors.Is(x.err, context.Canceled) {
		t.Fatalf("%v", x)
	}
	if op.Complete("late", nil) {
		t.Fatal("completed an abandoned dial")
	}
}

// the Read that returns the last byte also returns io.EOF; later Reads fail at once
func TestDeliverLast(t *testing.T) {
	rec := NewRecorder()
	c := NewConn(rec, Options{Name: "k"})
	type res struct {
		b   []byte
		err error
	}
	got := make(chan res, 1)
	go func() {
		h := make([]byte, 2)
		if _, err := io.ReadFull(c, h); err != nil {
			got <- res{nil, err}
			return
		}
		b := make([]byte, int(h[0])<<8|int(h[1]))
		n, err := c.Read(b)
		got <- res{b[:n], err}
	}()
	if !c.DeliverLast([]byte("hello"), io.EOF, "eof", tw, "tag", 1) {
		t.Fatal("deliver failed")
	}
	r := <-got
	if string(r.b) != "hello" || r.err != io.EOF {
		t.Fatalf("got %q, %v", r.b, r.err)
	}
	if n, err := c.Read(make([]byte, 4)); n != 0 || err != io.EOF {
		t.Fatalf("later read: %d %v", n, err)
	}
	evs := names(rec.Events())
	if evs[len(evs)-1] != "ReadFail" || evs[len(evs)-3] != "Deliver" {
		t.Fatalf("%v", evs)
	}
}
