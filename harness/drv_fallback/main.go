//go:build verif

// drv_fallback: replays TLC-generated schedules of Fallback.tla into the real fallback plugin
// (leg B) and records every run as an event trace for Fallback_Trace.tla (leg C).
//
// The plugin is built through fallback.Init with harness executables as primary/secondary.
// Goroutines are held at gates: the harness executables' Exec and the verif schedule points
// in fallback.go (keyed by the query context id, so calls run in parallel).
package main

import (
	"context"
	"errors"
	"fmt"
	"math/rand"
	"os"
	"strings"
	"sync"
	"time"

	"github.com/IrineSistiana/mosdns/v5/coremain"
	"github.com/IrineSistiana/mosdns/v5/pkg/query_context"
	"github.com/IrineSistiana/mosdns/v5/pkg/verifpoint"
	"github.com/IrineSistiana/mosdns/v5/plugin/executable/sequence/fallback"
	"github.com/miekg/dns"

	"verif/harness/vh"
)

type Step struct {
	A string `json:"a"`
	O string `json:"o,omitempty"`
	R string `json:"r,omitempty"`
}

type Behaviour struct {
	Standby     bool   `json:"standby"`
	TimerMay    bool   `json:"timerMay"`
	Order       string `json:"order"`
	Lazy        bool   `json:"lazy"`          // the caller reaches its select only after the script (gated ctx.Done)
	ErrResp     bool   `json:"err_resp"`      // concretization: an "err" outcome stores a response before returning the error
	CtxDdlMs    int    `json:"ctx_ddl_ms"`    // concretization: the caller's context carries a (far) deadline of this many ms
	PrimDelayMs int    `json:"prim_delay_ms"` // concretization: the primary's Exec returns only after this real delay (well inside a long threshold)
	Result      string `json:"result"`
	Steps       []Step `json:"steps"`
}

type Job struct {
	Behaviours  []Behaviour `json:"behaviours"`
	Random      int         `json:"random"`       // number of additional unsteered random runs
	ThresholdMs int         `json:"threshold_ms"` // the "short" threshold
	Workers     int         `json:"workers"`
	StepWaitMs  int         `json:"step_wait_ms"`
	StretchMs   int         `json:"stretch_ms"` // threshold used for time-stretched timer schedules (0 = off)
}

type Event map[string]any

type Result struct {
	Idx        int     `json:"idx"`
	Kind       string  `json:"kind"` // replay | random
	Steered    bool    `json:"steered"`
	DivergedAt int     `json:"diverged_at"`
	Why        string  `json:"why,omitempty"`
	Expected   string  `json:"expected,omitempty"`
	Result     string  `json:"result"`
	Hang       bool    `json:"hang"`
	Leak       string  `json:"leak,omitempty"`
	Events     []Event `json:"events"`
	Beh        any     `json:"beh,omitempty"`
}

// ---------------------------------------------------------------------------

type arrival struct {
	proc  string // prim | sec
	point string
	epoch int // number of releases of proc before this parking; stale notices are ignored
}

type call struct {
	mu        sync.Mutex
	events    []Event
	start     time.Time
	threshold time.Duration
	free      bool // free-run: gates do not park
	timed     bool // real-time claims (late) are valid: the secondary was never held before its timer was created
	holdBegin bool // park the secondary at its first statement (only when the timer cannot matter)
	arrived   chan arrival
	release   map[string]chan string // per process; value = outcome for Exec gates
	parked    map[string]string      // proc -> point it is parked at
	epoch     map[string]int         // proc -> number of releases so far
	done      map[string]bool        // proc finished its last point
}

func (c *call) log(ev string, kv ...any) {
	c.mu.Lock()
	e := Event{"ev": ev}
	for i := 0; i+1 < len(kv); i += 2 {
		e[kv[i].(string)] = kv[i+1]
	}
	if ev != "Start" && ev != "Cancel" && ev != "CancelIgnored" && ev != "Return" {
		el := time.Since(c.start)
		e["early"] = el < c.threshold/2
		// pre: certainly before the threshold; late: the threshold certainly elapsed (slack 0.4*T).
		// late is only claimed when the secondary's timer was created at call start (no begin gate).
		e["pre"] = el < c.threshold-c.threshold/10
		e["late"] = c.timed && el >= c.threshold+slack(c.threshold)
	}
	c.events = append(c.events, e)
	c.mu.Unlock()
}

// slack: how long after the threshold a timer-driven wake-up may take before it counts as missing
func slack(thr time.Duration) time.Duration {
	if s := thr * 4 / 10; s > 150*time.Millisecond {
		return s
	}
	return 150 * time.Millisecond
}

// gate: called by a goroutine of the code under test; logs, tells the controller, parks.
func (c *call) gate(proc, point string, logEv string, kv ...any) string {
	if logEv != "" {
		c.log(logEv, kv...)
	}
	c.mu.Lock()
	free := c.free
	if !free {
		c.parked[proc] = point
	}
	ep := c.epoch[proc]
	c.mu.Unlock()
	if free {
		return ""
	}
	c.arrived <- arrival{proc, point, ep}
	return <-c.release[proc]
}

func (c *call) setFree() {
	c.mu.Lock()
	c.free = true
	c.mu.Unlock()
}

var (
	callsMu sync.Mutex
	calls   = map[uint32]*call{}
)

func lookup(id uint32) *call {
	callsMu.Lock()
	defer callsMu.Unlock()
	return calls[id]
}

func hook(point string, key uint32) {
	c := lookup(key)
	if c == nil {
		return
	}
	switch {
	case point == "fallback.primary.signalled":
		c.gate("prim", "signalled", "PrimSignalled", "k", "done")
	case point == "fallback.primary.failed_signalled":
		c.gate("prim", "signalled", "PrimSignalled", "k", "failed")
	case point == "fallback.secondary.begin":
		c.mu.Lock()
		hold := c.holdBegin
		c.mu.Unlock()
		if hold {
			c.gate("sec", "begin", "")
		}
	case point == "fallback.primary.queued":
		c.gate("prim", "queued", "PrimQueued")
		c.markDone("prim")
	case strings.HasPrefix(point, "fallback.secondary.wait."):
		r := strings.TrimPrefix(point, "fallback.secondary.wait.")
		c.gate("sec", "wait."+r, "SecWaitWake", "r", r)
		if r == "prim_done" {
			c.markDone("sec")
		}
	case point == "fallback.secondary.standby":
		// about to enter the second select: nothing to log, not a gate
	case strings.HasPrefix(point, "fallback.secondary.wake."):
		r := strings.TrimPrefix(point, "fallback.secondary.wake.")
		c.gate("sec", "wake."+r, "SecStandbyWake", "r", r)
	case point == "fallback.secondary.queued":
		c.gate("sec", "queued", "SecQueued")
		c.markDone("sec")
	}
}

func (c *call) markDone(proc string) {
	c.mu.Lock()
	c.done[proc] = true
	c.mu.Unlock()
}

// harness executable used as primary ("P") and secondary ("S")
type worker struct {
	name string // prim | sec
	tag  string // P | S
}

func (w *worker) Exec(ctx context.Context, qCtx *query_context.Context) error {
	c := lookup(qCtx.Id())
	if c == nil {
		return errors.New("harness: unknown call")
	}
	var o string
	if w.name == "sec" {
		c.log("SecExecStart")
	}
	// Exec gate: always parks (also in free-run mode the controller decides the outcome)
	c.mu.Lock()
	c.parked[w.name] = "exec"
	ep := c.epoch[w.name]
	c.mu.Unlock()
	c.arrived <- arrival{w.name, "exec", ep}
	o = <-c.release[w.name]
	switch o {
	case "ans":
		r := new(dns.Msg)
		r.SetReply(qCtx.Q())
		r.Answer = append(r.Answer, &dns.TXT{
			Hdr: dns.RR_Header{Name: qCtx.Q().Question[0].Name, Rrtype: dns.TypeTXT, Class: dns.ClassINET, Ttl: 60},
			Txt: []string{w.tag},
		})
		qCtx.SetResponse(r)
		return nil
	case "none":
		return nil
	case "errresp":
		// an executable that fails after a response was stored in its context: still a failure
		r := new(dns.Msg)
		r.SetReply(qCtx.Q())
		r.Answer = append(r.Answer, &dns.TXT{
			Hdr: dns.RR_Header{Name: qCtx.Q().Question[0].Name, Rrtype: dns.TypeTXT, Class: dns.ClassINET, Ttl: 60},
			Txt: []string{w.tag},
		})
		qCtx.SetResponse(r)
		return errors.New("harness: scripted error after response of " + w.tag)
	default:
		return errors.New("harness: scripted error of " + w.tag)
	}
}

func newPlugin(standby bool, thresholdMs int) (interface {
	Exec(context.Context, *query_context.Context) error
}, error) {
	m := coremain.NewTestMosdnsWithPlugins(map[string]any{
		"p": &worker{"prim", "P"},
		"s": &worker{"sec", "S"},
	})
	p, err := fallback.Init(coremain.NewBP("fb", m), &fallback.Args{
		Primary: "p", Secondary: "s", Threshold: thresholdMs, AlwaysStandby: standby,
	})
	if err != nil {
		return nil, err
	}
	return p.(interface {
		Exec(context.Context, *query_context.Context) error
	}), nil
}

// lazyCtx delays the caller: its first Done() call (the caller entering its select) blocks until
// the controller opens the gate.
type lazyCtx struct {
	context.Context
	once sync.Once
	gate chan struct{}
}

func (l *lazyCtx) Done() <-chan struct{} {
	l.once.Do(func() { <-l.gate })
	return l.Context.Done()
}

// ---------------------------------------------------------------------------

type runner struct {
	c             *call
	stepWait      time.Duration
	retCh         chan string
	returned      bool
	result        string
	cancel        context.CancelFunc
	beginReleased bool
	errResp       bool
	pending       map[string]string // proc -> outcome noted by PrimFinish/SecFinish but Exec gate not yet released
	arrivals      map[string][]arrival
}

// waitArrival waits until proc arrives at some gate; returns the point.
// Notices of parkings that have already been released (epoch) are ignored.
func (r *runner) waitArrival(proc string, d time.Duration) (string, bool) {
	fresh := func(a arrival) bool {
		r.c.mu.Lock()
		defer r.c.mu.Unlock()
		return a.epoch >= r.c.epoch[a.proc]
	}
	for len(r.arrivals[proc]) > 0 {
		a := r.arrivals[proc][0]
		r.arrivals[proc] = r.arrivals[proc][1:]
		if fresh(a) {
			return a.point, true
		}
	}
	t := time.NewTimer(d)
	defer t.Stop()
	for {
		select {
		case a := <-r.c.arrived:
			if !fresh(a) {
				continue
			}
			if a.proc == proc {
				return a.point, true
			}
			r.arrivals[a.proc] = append(r.arrivals[a.proc], a)
		case res := <-r.retCh:
			r.noteReturn(res)
		case <-t.C:
			return "", false
		}
	}
}

func (r *runner) noteReturn(res string) {
	if !r.returned {
		r.returned = true
		r.result = res
		r.c.log("Return", "res", res)
	}
}

func (r *runner) pollReturn() {
	select {
	case res := <-r.retCh:
		r.noteReturn(res)
	default:
	}
}

func (r *runner) isParked(proc string) string {
	r.c.mu.Lock()
	defer r.c.mu.Unlock()
	return r.c.parked[proc]
}

func (r *runner) releaseProc(proc, val string) {
	if val == "err" && r.errResp {
		val = "errresp"
	}
	r.c.mu.Lock()
	delete(r.c.parked, proc)
	r.c.epoch[proc]++
	r.c.mu.Unlock()
	r.c.release[proc] <- val
}

// secAtBegin: the secondary is held at its first statement (begin gate) and has not been released yet.
func (r *runner) secAtBegin() bool {
	r.c.mu.Lock()
	hold := r.c.holdBegin
	r.c.mu.Unlock()
	if !hold || r.beginReleased {
		return false
	}
	r.beginReleased = true
	if r.isParked("sec") == "begin" {
		return true // its notice becomes stale with the release and is ignored
	}
	pt, ok := r.waitArrival("sec", r.stepWait)
	return ok && pt == "begin"
}

// ensureAtExec makes sure proc has arrived at its Exec gate.
func (r *runner) ensureAtExec(proc string) bool {
	if r.isParked(proc) == "exec" {
		return true
	}
	pt, ok := r.waitArrival(proc, r.stepWait)
	return ok && pt == "exec"
}

func runOne(idx int, b *Behaviour, kind string, job *Job, rng *rand.Rand) Result {
	thrMs := 30000
	hasTimerStep := false
	for _, st := range b.Steps {
		if st.A == "TimerFire" {
			hasTimerStep = true
		}
	}
	stretch := kind == "replay" && hasTimerStep && job.StretchMs > 0
	if b.TimerMay {
		thrMs = job.ThresholdMs
		if stretch {
			thrMs = job.StretchMs
		}
	}
	plug, err := newPlugin(b.Standby, thrMs)
	if err != nil {
		fmt.Fprintln(os.Stderr, "init:", err)
		os.Exit(3)
	}
	q := new(dns.Msg)
	q.SetQuestion(fmt.Sprintf("q%d.test.", idx), dns.TypeA)
	qCtx := query_context.NewContext(q)
	c := &call{
		threshold: time.Duration(thrMs) * time.Millisecond,
		arrived:   make(chan arrival, 16),
		release:   map[string]chan string{"prim": make(chan string, 1), "sec": make(chan string, 1)},
		parked:    map[string]string{},
		epoch:     map[string]int{},
		done:      map[string]bool{},
		timed:     b.TimerMay && kind == "replay", // real-time claims only in steered runs (re-confirmed serially when they reject)
		holdBegin: kind == "replay" && !b.TimerMay,
	}
	callsMu.Lock()
	calls[qCtx.Id()] = c
	callsMu.Unlock()
	defer func() {
		callsMu.Lock()
		delete(calls, qCtx.Id())
		callsMu.Unlock()
	}()

	ctx0, cancel := context.WithCancel(context.Background())
	defer cancel()
	if b.CtxDdlMs > 0 && kind == "replay" {
		var cancelD context.CancelFunc
		ctx0, cancelD = context.WithDeadline(ctx0, time.Now().Add(time.Duration(b.CtxDdlMs)*time.Millisecond))
		defer cancelD()
	}
	var ctx context.Context = ctx0
	lazyGate := make(chan struct{})
	openLazy := sync.OnceFunc(func() { close(lazyGate) })
	defer openLazy()
	if b.Lazy && kind == "replay" {
		ctx = &lazyCtx{Context: ctx0, gate: lazyGate}
	}
	r := &runner{errResp: b.ErrResp, c: c, stepWait: time.Duration(job.StepWaitMs) * time.Millisecond, retCh: make(chan string, 1),
		cancel: cancel, pending: map[string]string{}, arrivals: map[string][]arrival{}}
	res := Result{Idx: idx, Kind: kind, Steered: true, DivergedAt: -1, Expected: b.Result}

	c.start = time.Now()
	c.log("Start", "standby", b.Standby, "timerMay", b.TimerMay)
	go func() {
		err := plug.Exec(ctx, qCtx)
		r.retCh <- classify(err, qCtx, ctx)
	}()

	diverge := func(i int, why string) {
		if res.Steered {
			res.Steered = false
			res.DivergedAt = i
			res.Why = why
		}
	}

	if kind == "random" {
		randomRun(r, b, rng)
	} else {
		// time-stretching of timer schedules: the steps before TimerFire are spread over [0, 0.8 T],
		// the first step after it waits until T + 0.6 T, so that "threshold counted from the start
		// of the call" is distinguishable from any other reference point.
		nPre, seenTimer := 0, false
		for _, st := range b.Steps {
			if st.A == "TimerFire" {
				break
			}
			nPre++
		}
		preIdx := 0
	steps:
		for i, s := range b.Steps {
			r.pollReturn()
			if stretch {
				var at time.Duration
				if !seenTimer && s.A != "TimerFire" {
					preIdx++
					at = c.threshold * 8 / 10 * time.Duration(preIdx) / time.Duration(nPre)
				} else if seenTimer {
					at = c.threshold + slack(c.threshold) + 30*time.Millisecond
				}
				if d := at - time.Since(c.start); d > 0 {
					time.Sleep(d)
				}
			}
			if s.A == "TimerFire" {
				seenTimer = true
			}
			switch s.A {
			case "PrimFinish":
				r.pending["prim"] = s.O
			case "SecFinish":
				if b.Standby && s.O == "ans" {
					// the secondary goes on to its standby select by itself: release it now
					if !r.ensureAtExec("sec") {
						diverge(i, "secondary not at Exec gate")
						break steps
					}
					c.log("SecFinish", "o", s.O)
					r.releaseProc("sec", s.O)
				} else {
					r.pending["sec"] = s.O
				}
			case "PrimSignal", "PrimSend":
				want := "signalled"
				if s.A == "PrimSend" {
					want = "queued"
				}
				if o, ok := r.pending["prim"]; ok { // first publication step: let primary.Exec return
					if b.PrimDelayMs > 0 {
						if d := time.Duration(b.PrimDelayMs)*time.Millisecond - time.Since(c.start); d > 0 {
							time.Sleep(d)
						}
					}
					if !r.ensureAtExec("prim") {
						diverge(i, "primary not at Exec gate")
						break steps
					}
					delete(r.pending, "prim")
					c.log("PrimFinish", "o", o)
					r.releaseProc("prim", o)
				} else if r.isParked("prim") != "" {
					r.releaseProc("prim", "")
				}
				pt, ok := r.waitArrival("prim", r.stepWait)
				if !ok || pt != want {
					diverge(i, fmt.Sprintf("primary reached %q, script wants %q", pt, want))
					break steps
				}
			case "SecWaitWake":
				if r.secAtBegin() {
					r.releaseProc("sec", "")
				}
				pt, ok := r.waitArrival("sec", r.stepWait)
				if !ok || pt != "wait."+s.R {
					diverge(i, fmt.Sprintf("secondary first select: got %q want %q", pt, "wait."+s.R))
					break steps
				}
			case "SecExecStart":
				if r.secAtBegin() {
					r.releaseProc("sec", "")
				} else if p := r.isParked("sec"); strings.HasPrefix(p, "wait.") {
					r.releaseProc("sec", "")
				}
				if !r.ensureAtExec("sec") {
					diverge(i, "secondary did not reach Exec")
					break steps
				}
			case "SecStandbyWake":
				if o, ok := r.pending["sec"]; ok {
					delete(r.pending, "sec")
					c.log("SecFinish", "o", o)
					r.releaseProc("sec", o)
				}
				pt, ok := r.waitArrival("sec", r.stepWait)
				if !ok || pt != "wake."+s.R {
					diverge(i, fmt.Sprintf("secondary standby select: got %q want %q", pt, "wake."+s.R))
					break steps
				}
			case "SecSend":
				if o, ok := r.pending["sec"]; ok {
					delete(r.pending, "sec")
					c.log("SecFinish", "o", o)
					r.releaseProc("sec", o)
				} else if r.isParked("sec") != "" {
					r.releaseProc("sec", "")
				}
				pt, ok := r.waitArrival("sec", r.stepWait)
				if !ok || pt != "queued" {
					diverge(i, fmt.Sprintf("secondary send: got %q want queued", pt))
					break steps
				}
			case "TimerFire":
				d := c.threshold + 25*time.Millisecond - time.Since(c.start)
				if d > 0 {
					time.Sleep(d)
				}
			case "Cancel":
				c.log("Cancel")
				cancel()
				// the caller is blocked in its select with nothing queued (generator: EagerCaller)
				wasReturned := r.returned
				select {
				case rr := <-r.retCh:
					r.noteReturn(rr)
				case <-time.After(r.stepWait):
				}
				if !r.returned && !wasReturned && !b.Lazy {
					// "the call ends when the caller's context ends": the branches stay parked under the harness, so
					// nothing else can end the call; 3 s is four orders of magnitude above a select wake-up
					select {
					case rr := <-r.retCh:
						r.noteReturn(rr)
					case <-time.After(3 * time.Second):
						c.log("CancelIgnored")
					}
				}
			default:
				diverge(i, "unsupported step "+s.A)
				break steps
			}
		}
	}

	// the lazy caller may enter its select now
	openLazy()
	// drain: free-run everything that is still parked, give pending outcomes
	c.setFree()
	deadline := time.Now().Add(3 * time.Second)
	for time.Now().Before(deadline) {
		for _, proc := range []string{"prim", "sec"} {
			if p := r.isParked(proc); p != "" {
				val := ""
				if p == "exec" {
					o, ok := r.pending[proc]
					if !ok {
						o = "ans"
						if kind == "replay" {
							o = "err"
						}
					}
					delete(r.pending, proc)
					if proc == "prim" {
						c.log("PrimFinish", "o", o)
					} else {
						c.log("SecFinish", "o", o)
					}
					val = o
				}
				r.releaseProc(proc, val)
			}
		}
		r.pollReturn()
		c.mu.Lock()
		alld := c.done["prim"] && c.done["sec"]
		c.mu.Unlock()
		if alld && r.returned {
			break
		}
		select {
		case a := <-c.arrived:
			_ = a
		case rr := <-r.retCh:
			r.noteReturn(rr)
		case <-time.After(2 * time.Millisecond):
		}
	}
	if !r.returned {
		// last chance: the call must end when its context ends
		cancel()
		select {
		case rr := <-r.retCh:
			r.noteReturn(rr)
		case <-time.After(2 * time.Second):
			res.Hang = true
		}
	}
	c.mu.Lock()
	if !c.done["prim"] || !c.done["sec"] {
		res.Leak = fmt.Sprintf("prim done=%v sec done=%v parked=%v", c.done["prim"], c.done["sec"], c.parked)
	}
	res.Events = append([]Event(nil), c.events...)
	c.mu.Unlock()
	res.Result = r.result
	return res
}

// randomRun: no steering except the outcomes and random delays; real goroutine races.
func randomRun(r *runner, b *Behaviour, rng *rand.Rand) {
	outs := []string{"ans", "ans", "none", "err"}
	po, so := outs[rng.Intn(4)], outs[rng.Intn(4)]
	pd := time.Duration(rng.Intn(3)) * r.c.threshold * 3 / 4
	sd := time.Duration(rng.Intn(2)) * r.c.threshold / 2
	if !b.TimerMay {
		pd = time.Duration(rng.Intn(3)) * time.Millisecond
		sd = time.Duration(rng.Intn(3)) * time.Millisecond
	}
	doCancel := rng.Intn(6) == 0
	r.c.setFree()
	var wg sync.WaitGroup
	rel := func(proc, o string, d time.Duration) {
		defer wg.Done()
		// wait for the Exec gate (the secondary may never start)
		dl := time.Now().Add(r.c.threshold + 400*time.Millisecond)
		if !b.TimerMay {
			dl = time.Now().Add(300 * time.Millisecond)
		}
		for r.isParked(proc) != "exec" {
			if time.Now().After(dl) {
				return
			}
			time.Sleep(200 * time.Microsecond)
		}
		time.Sleep(d)
		if proc == "prim" {
			r.c.log("PrimFinish", "o", o)
		} else {
			r.c.log("SecFinish", "o", o)
		}
		r.releaseProc(proc, o)
	}
	wg.Add(2)
	go rel("prim", po, pd)
	go rel("sec", so, sd)
	if doCancel {
		time.Sleep(time.Duration(rng.Intn(3)) * time.Millisecond)
		r.c.log("Cancel")
		r.cancel()
	}
	wg.Wait()
}

func classify(err error, qCtx *query_context.Context, ctx context.Context) string {
	if err == nil {
		m := qCtx.R()
		if m == nil || len(m.Answer) != 1 {
			return "other:nil-response"
		}
		if t, ok := m.Answer[0].(*dns.TXT); ok && len(t.Txt) == 1 {
			return t.Txt[0]
		}
		return "other:unknown-answer"
	}
	if errors.Is(err, fallback.ErrFailed) {
		return "errFailed"
	}
	if ctx.Err() != nil && errors.Is(err, context.Cause(ctx)) {
		return "ctx"
	}
	return "other:" + err.Error()
}

func main() {
	var job Job
	if err := vh.ReadJob(&job); err != nil {
		fmt.Fprintln(os.Stderr, "job:", err)
		os.Exit(3)
	}
	if job.ThresholdMs == 0 {
		job.ThresholdMs = 120
	}
	if job.StepWaitMs == 0 {
		job.StepWaitMs = 400
	}
	if job.Workers == 0 {
		job.Workers = 16
	}
	verifpoint.SetHook(hook)

	type item struct {
		idx  int
		b    *Behaviour
		kind string
	}
	var items []item
	for i := range job.Behaviours {
		items = append(items, item{i, &job.Behaviours[i], "replay"})
	}
	rng := rand.New(rand.NewSource(vh.Seed()))
	for i := 0; i < job.Random; i++ {
		b := &Behaviour{Standby: rng.Intn(2) == 0, TimerMay: rng.Intn(2) == 0}
		items = append(items, item{len(job.Behaviours) + i, b, "random"})
	}
	ch := make(chan item)
	var wg sync.WaitGroup
	for w := 0; w < job.Workers; w++ {
		wg.Add(1)
		wrng := rand.New(rand.NewSource(vh.Seed()*1000 + int64(w)))
		go func() {
			defer wg.Done()
			for it := range ch {
				res := runOne(it.idx, it.b, it.kind, &job, wrng)
				if it.kind == "replay" {
					res.Beh = it.b
				}
				vh.Emit(res)
			}
		}()
	}
	for _, it := range items {
		ch <- it
	}
	close(ch)
	wg.Wait()
	vh.Flush()
}
