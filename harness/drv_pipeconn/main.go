//go:build verif

// drv_pipeconn drives the REAL transport.TraditionalDnsConn (conn_traditional.go) over a scripted
// simnet.Conn and records every run as an event trace for spec/PipeConn_Trace.tla.
//
// Job (stdin): {"scripts":[Script...]}.  A Script is either
//   - steered: "steps" is the hist of a TLC behaviour of PipeConn.tla (or a hand-written list in the
//     same vocabulary).  Steps the harness causes (Reserve, Withdraw, Start, ArmWaiting = let the
//     pending Write return, WriteFail, ReadMsg = hand a reply to the reader's pending Read,
//     ArmIdle, ReadFail, ExtClose, Cancel) are executed in the scripted order; steps the harness
//     can only observe (Write = the caller's Write is pending, Dispatch = the reader came back
//     with its next call, ReaderClose/ConnClose = Close() seen, Return = the call returned) are
//     waited for; all other steps are internal to the code and ignored.  So the adversarial
//     order chosen by TLC is forced wherever the boundary allows it.
//   - random ("random":{...}): the controller picks random enabled moves; callers are real
//     goroutines, so internal interleavings are whatever the runtime produces.
//
// Output: one JSON line per script: {idx, name, steered, why, events, results, wall_ms}.
// Expected outcomes are NOT computed here: the trace is validated by TLC (leg C).
package main

import (
	"context"
	"encoding/binary"
	"errors"
	"fmt"
	"io"
	"math/rand"
	"os"
	"strconv"
	"strings"
	"sync"
	"sync/atomic"
	"time"

	"github.com/IrineSistiana/mosdns/v5/pkg/pool"
	"github.com/IrineSistiana/mosdns/v5/pkg/upstream/transport"
	"github.com/miekg/dns"

	"verif/harness/simnet"
	"verif/harness/vh"
)

type Step struct {
	A   string `json:"a"`
	C   int    `json:"c"`
	G   int    `json:"g"`
	N   int    `json:"n"`
	O   string `json:"o,omitempty"`
	Wid int    `json:"wid"`
	K   string `json:"k,omitempty"` // ReadFail kind: eof | err | timeout
	Cnt int    `json:"cnt,omitempty"`
}

type RandomCfg struct {
	Callers int     `json:"callers"`
	Calls   int     `json:"calls"`
	PStray  float64 `json:"p_stray"`
	PDup    float64 `json:"p_dup"`
	PCancel float64 `json:"p_cancel"`
	PFault  float64 `json:"p_fault"`
	PWd     float64 `json:"p_withdraw"`
	Seed    int64   `json:"seed"`
}

type Script struct {
	Name     string     `json:"name"`
	MaxCq    int        `json:"maxCq"`
	Dgram    bool       `json:"dgram"`
	Qid0     int        `json:"qid0"`     // pre-advance the conn's id counter to this value (unrecorded warm-up)
	IDPolicy string     `json:"idpolicy"` // zero | ffff | same | random | wire
	Steps    []Step     `json:"steps"`
	Random   *RandomCfg `json:"random,omitempty"`
	Probe    bool       `json:"probe"`    // at the end: count admissions of the quiescent conn
	ProbeC   int        `json:"probe_c"`  // first caller number used by the probe
	GraceMs  int        `json:"grace_ms"` // how long a call that should return may take
	Shared   bool       `json:"shared"`   // two connections exchange ONE query buffer concurrently (sharedBuffer)
	Arm      bool       `json:"arm"`      // C07 mode: EVERY SetReadDeadline is held (steps SrdI / SrdW / Advance)
	Pause    bool       `json:"pause"`    // insert short sleeps after releases (lets goroutines run before the next step)
	Beh      any        `json:"beh,omitempty"`
}

type Job struct {
	Scripts []Script `json:"scripts"`
	Workers int      `json:"workers"`
}

type Result struct {
	Idx     int            `json:"idx"`
	Name    string         `json:"name"`
	Steered bool           `json:"steered"`
	Why     string         `json:"why,omitempty"`
	Events  []simnet.Event `json:"events"`
	WallMs  int64          `json:"wall_ms"`
	Panic   string         `json:"panic,omitempty"`
	Script  *Script        `json:"script,omitempty"`
}

// ---------------------------------------------------------------------------

const (
	idleTimeout = 300 * time.Second // distinct from the 10 s waiting-reply timeout
	stepWait    = 1500 * time.Millisecond
)

var kinds = []simnet.DeadlineKind{
	{Name: "waiting", Min: 5 * time.Second, Max: 20 * time.Second},
	{Name: "idle", Min: 100 * time.Second, Max: 1000 * time.Second},
}

type outcome struct {
	resp *[]byte
	err  error
}

type caller struct {
	id        int
	g         int // call number (mirrors gen[c] of the spec)
	state     string
	rx        transport.ReservedExchanger
	cancel    context.CancelFunc
	done      chan outcome
	msgID     uint16
	qname     string
	wrote     bool // first Write of the current call seen
	written   bool // first Write returned
	cancelled bool
}

type send struct {
	c, g     int
	wid      uint16
	payload  []byte // dns message as written (without length header)
	nrep     int    // replies produced so far
	stale    bool   // the call is over
	answered bool
}

type run struct {
	sc         *Script
	rec        *simnet.Recorder
	conn       *simnet.Conn
	dc         *transport.TraditionalDnsConn
	callers    map[int]*caller
	sends      []*send
	rng        *rand.Rand
	hold       atomic.Bool // hold the reader's SetReadDeadline(idle)
	mu         sync.Mutex
	strayN     int
	grace      time.Duration
	closedByUs bool
	bufMu      sync.Mutex
	bufs       map[[2]int]qbuf // caller's query buffers: (c,g) -> slice handed to ExchangeReserved + pristine copy
}

type qbuf struct{ buf, orig []byte }

func (r *run) setBuf(c, g int, buf []byte) {
	r.bufMu.Lock()
	if r.bufs == nil {
		r.bufs = map[[2]int]qbuf{}
	}
	r.bufs[[2]int{c, g}] = qbuf{buf, append([]byte(nil), buf...)}
	r.bufMu.Unlock()
}

// bufOK: is the caller's own query buffer still what the caller passed in? (ExchangeReserved MUST NOT modify q)
func (r *run) bufOK(c, g int) bool {
	r.bufMu.Lock()
	defer r.bufMu.Unlock()
	b, ok := r.bufs[[2]int{c, g}]
	return !ok || string(b.buf) == string(b.orig)
}

func parseQ(payload []byte) (c, g int, ok bool) {
	m := new(dns.Msg)
	if err := m.Unpack(payload); err != nil || len(m.Question) != 1 {
		return 0, 0, false
	}
	// name: c<c>g<g>.<...>
	lab := strings.SplitN(strings.ToLower(m.Question[0].Name), ".", 2)[0]
	if !strings.HasPrefix(lab, "c") {
		return 0, 0, false
	}
	i := strings.Index(lab, "g")
	if i < 0 {
		return 0, 0, false
	}
	c, e1 := strconv.Atoi(lab[1:i])
	g, e2 := strconv.Atoi(lab[i+1:])
	return c, g, e1 == nil && e2 == nil
}

func (r *run) annotate(op *simnet.Op) []any {
	if op.Kind != simnet.OpWrite {
		return nil
	}
	p := op.Data
	if !r.sc.Dgram {
		if len(p) < 2 {
			return []any{"c", -1, "g", -1, "wid", -1}
		}
		p = p[2:]
	}
	if len(p) < 12 {
		return []any{"c", -1, "g", -1, "wid", -1}
	}
	c, g, ok := parseQ(p)
	if !ok {
		c, g = -1, -1
	}
	return []any{"c", c, "g", g, "wid", int(binary.BigEndian.Uint16(p)), "bufok", r.bufOK(c, g)}
}

func noteInt(op *simnet.Op, key string) int {
	for i := 0; i+1 < len(op.Note); i += 2 {
		if op.Note[i] == key {
			return op.Note[i+1].(int)
		}
	}
	return -1
}

func (r *run) manual(op *simnet.Op) bool {
	switch op.Kind {
	case simnet.OpRead, simnet.OpWrite:
		return true
	case simnet.OpSetReadDeadline:
		return r.hold.Load() && (op.DKind == "idle" || r.sc.Arm)
	}
	return false
}

func newRun(sc *Script, seed int64) *run {
	r := &run{sc: sc, rec: simnet.NewRecorder(), callers: map[int]*caller{}, rng: rand.New(rand.NewSource(seed))}
	r.grace = time.Duration(sc.GraceMs) * time.Millisecond
	if r.grace <= 0 {
		r.grace = 1500 * time.Millisecond
	}
	r.hold.Store(true)
	r.conn = simnet.NewConn(r.rec, simnet.Options{Name: "k0", Datagram: sc.Dgram, Kinds: kinds, Manual: r.manual, Annotate: r.annotate})
	return r
}

func (r *run) caller(c int) *caller {
	cl := r.callers[c]
	if cl == nil {
		cl = &caller{id: c, state: "idle"}
		r.callers[c] = cl
	}
	return cl
}

// fastExchange runs one complete unrecorded exchange of a helper query (question `name`) and
// returns the wire id it used. The reply is re-sent until the call returns, so that this also
// works on a tree where an early reply can be lost.
func (r *run) fastExchange(qb []byte) (int, error) {
	rx, closed := r.dc.ReserveNewQuery()
	if rx == nil || closed {
		return -1, errors.New("helper reserve refused")
	}
	ch := make(chan outcome, 1)
	go func() {
		resp, e := rx.ExchangeReserved(context.Background(), qb)
		ch <- outcome{resp, e}
	}()
	op := r.conn.Wait(func(o *simnet.Op) bool { return o.Kind == simnet.OpWrite && noteInt(o, "c") < 0 }, stepWait)
	if op == nil {
		return -1, errors.New("helper: no write")
	}
	p := op.Data
	if !r.sc.Dgram {
		p = p[2:]
	}
	wid := int(binary.BigEndian.Uint16(p))
	rep := append([]byte(nil), p...)
	rep[2] |= 0x80
	op.Complete(nil)
	for try := 0; try < 100; try++ {
		if !r.conn.Deliver(rep, stepWait) {
			return wid, errors.New("helper: deliver failed")
		}
		wait := 2 * time.Millisecond
		if try > 3 {
			wait = 30 * time.Millisecond
		}
		select {
		case o := <-ch:
			if o.err != nil {
				return wid, fmt.Errorf("helper exchange: %v", o.err)
			}
			pool.ReleaseBuf(o.resp)
			return wid, nil
		case <-time.After(wait):
		}
	}
	return wid, errors.New("helper: exchange did not return")
}

// helperRun performs cnt unrecorded helper exchanges (they only move the id counter) and
// leaves the reader parked in Read. Returns the last wire id used.
func (r *run) helperRun(cnt int) (int, error) {
	r.rec.SetOff(true)
	r.hold.Store(false)
	if op := r.conn.Find(isIdleArm); op != nil {
		op.Complete(nil)
	}
	q := new(dns.Msg)
	q.SetQuestion("helper.test.", dns.TypeA)
	qb, _ := q.Pack()
	last := -1
	var err error
	for i := 0; i < cnt && err == nil; i++ {
		last, err = r.fastExchange(qb)
	}
	if err == nil && r.conn.Wait(simnet.IsKind(simnet.OpRead), stepWait) == nil {
		err = errors.New("helper: reader not back in Read")
	}
	r.hold.Store(true)
	r.rec.SetOff(false)
	return last, err
}

// ---------------------------------------------------------------------------
// primitives

func (r *run) msgID(c *caller) uint16 {
	switch r.sc.IDPolicy {
	case "zero":
		return 0
	case "ffff":
		return 0xFFFF
	case "same":
		return 0x1234
	case "wire": // collide with wire ids in use: the next counter values
		return uint16(r.sc.Qid0 + (c.id+1)%3)
	}
	return uint16(r.rng.Intn(65536))
}

func (r *run) doReserve(c int) string {
	cl := r.caller(c)
	o := ""
	r.rec.Atomic(func(log func(string, ...any)) {
		rx, closed := r.dc.ReserveNewQuery()
		switch {
		case closed:
			o = "closed"
		case rx == nil:
			o = "full"
		default:
			o = "ok"
			cl.rx = rx
		}
		log("Reserve", "c", c, "o", o)
	})
	if o == "ok" {
		cl.state = "reserved"
	} else {
		cl.g++
	}
	return o
}

func (r *run) doWithdraw(c int) {
	cl := r.caller(c)
	r.rec.Atomic(func(log func(string, ...any)) {
		cl.rx.WithdrawReserved()
		log("Withdraw", "c", c)
	})
	cl.state, cl.rx = "idle", nil
	cl.g++
}

func (r *run) doStart(c int) { r.doStartBuf(c, nil) }

// doStartBuf starts c's exchange; shared != nil: with that (already packed) query buffer instead of an own one.
func (r *run) doStartBuf(c int, shared []byte) {
	cl := r.caller(c)
	qb := shared
	if qb == nil {
		cl.msgID = r.msgID(cl)
		cl.qname = fmt.Sprintf("c%dg%d.q%d.Test.", c, cl.g, r.rng.Intn(1000))
		q := new(dns.Msg)
		q.SetQuestion(cl.qname, dns.TypeTXT)
		q.Id = cl.msgID
		var err error
		qb, err = q.Pack()
		if err != nil {
			panic(err)
		}
	}
	if shared == nil {
		r.setBuf(c, cl.g, qb)
	}
	ctx, cancel := context.WithCancel(context.Background())
	cl.cancel = cancel
	cl.done = make(chan outcome, 1)
	cl.state, cl.wrote, cl.written, cl.cancelled = "running", false, false, false
	rx := cl.rx
	r.rec.Log("Start", "c", c, "g", cl.g)
	done := cl.done
	go func() {
		defer func() {
			if p := recover(); p != nil {
				done <- outcome{nil, fmt.Errorf("PANIC: %v", p)}
			}
		}()
		resp, err := rx.ExchangeReserved(ctx, qb)
		done <- outcome{resp, err}
	}()
}

func isWriteOf(c int) func(*simnet.Op) bool {
	return func(o *simnet.Op) bool { return o.Kind == simnet.OpWrite && noteInt(o, "c") == c }
}

// noteSends registers every pending Write the controller has not seen yet.
func (r *run) noteSends() {
	for _, op := range r.conn.Pending() {
		if op.Kind != simnet.OpWrite {
			continue
		}
		c, g := noteInt(op, "c"), noteInt(op, "g")
		if c < 0 {
			continue
		}
		if cl := r.callers[c]; cl != nil && cl.g == g {
			cl.wrote = true
		}
		if r.findSend(c, g) == nil {
			p := op.Data
			if !r.sc.Dgram {
				p = p[2:]
			}
			r.sends = append(r.sends, &send{c: c, g: g, wid: uint16(noteInt(op, "wid")), payload: p})
		}
	}
}

func (r *run) findSend(c, g int) *send {
	for _, s := range r.sends {
		if s.c == c && s.g == g {
			return s
		}
	}
	return nil
}

func (r *run) waitWrite(c int, d time.Duration) *simnet.Op {
	op := r.conn.Wait(isWriteOf(c), d)
	r.noteSends()
	return op
}

func (r *run) releaseWrite(c int, ok bool) bool {
	op := r.waitWrite(c, stepWait)
	if op == nil {
		return false
	}
	var err error
	if !ok {
		err = errors.New("simnet: broken pipe")
	}
	if !op.Complete(err) {
		return false
	}
	if !ok { // the server never saw these bytes: no reply to this send may be produced
		g := noteInt(op, "g")
		for i, s := range r.sends {
			if s.c == c && s.g == g {
				r.sends = append(r.sends[:i], r.sends[i+1:]...)
				break
			}
		}
	}
	if cl := r.callers[c]; cl != nil && ok {
		cl.written = true
	}
	return true
}

func (r *run) buildReply(s *send, n int) []byte {
	q := new(dns.Msg)
	if err := q.Unpack(s.payload); err != nil {
		panic(err)
	}
	m := new(dns.Msg)
	m.SetReply(q)
	m.Id = s.wid
	m.Answer = append(m.Answer, &dns.TXT{
		Hdr: dns.RR_Header{Name: q.Question[0].Name, Rrtype: dns.TypeTXT, Class: dns.ClassINET, Ttl: 60},
		Txt: []string{fmt.Sprintf("%d,%d,%d", s.c, s.g, n)},
	})
	b, err := m.Pack()
	if err != nil {
		panic(err)
	}
	return b
}

func (r *run) deliverReply(c, g, n int) bool { return r.deliverReplyErr(c, g, n, "") }

// deliverReplyErr: with errKind != "" the Read that returns the reply's last byte also returns EOF / an error
// (simnet.Conn.DeliverLast); the reader's next Read then fails by itself.
func (r *run) deliverReplyErr(c, g, n int, errKind string) bool {
	s := r.findSend(c, g)
	if s == nil {
		return false
	}
	if n < 0 {
		n = s.nrep
	}
	if n >= s.nrep {
		s.nrep = n + 1
	}
	s.answered = true
	if errKind != "" {
		var err error = io.EOF
		if errKind != "eof" {
			err = errors.New("simnet: connection reset by peer")
		}
		return r.conn.DeliverLast(r.buildReply(s, n), err, errKind, stepWait, "c", c, "g", g, "n", n, "wid", int(s.wid))
	}
	return r.conn.Deliver(r.buildReply(s, n), stepWait, "c", c, "g", g, "n", n, "wid", int(s.wid))
}

// a wire id no outstanding query can have: far from the counter
func (r *run) strayWid() uint16 {
	base := uint16(r.sc.Qid0)
	if len(r.sends) > 0 {
		base = r.sends[len(r.sends)-1].wid
	}
	return base + 20000 + uint16(r.rng.Intn(20000))
}

func (r *run) deliverStray() bool {
	m := new(dns.Msg)
	m.SetQuestion("stray.test.", dns.TypeTXT)
	m.Response = true
	w := r.strayWid()
	m.Id = w
	m.Answer = append(m.Answer, &dns.TXT{Hdr: dns.RR_Header{Name: "stray.test.", Rrtype: dns.TypeTXT, Class: dns.ClassINET, Ttl: 1},
		Txt: []string{"-1,0,0"}})
	b, _ := m.Pack()
	r.strayN++
	return r.conn.Deliver(b, stepWait, "c", -1, "g", 0, "n", r.strayN-1, "wid", int(w))
}

func isWaitArm(o *simnet.Op) bool { return o.Kind == simnet.OpSetReadDeadline && o.DKind == "waiting" }

// quiesce completes held SetReadDeadline calls in the order they were made until no new call on the conn has
// shown up for d (generous: a goroutine that returned from Write reaches its next call in nanoseconds).
func (r *run) quiesce(d time.Duration) {
	last := time.Now()
	n := -1
	for time.Since(last) < d {
		if op := r.conn.Find(simnet.IsKind(simnet.OpSetReadDeadline)); op != nil {
			op.Complete(nil)
			last = time.Now()
			continue
		}
		if k := len(r.rec.Events()); k != n {
			n, last = k, time.Now()
		}
		time.Sleep(5 * time.Millisecond)
	}
}

// drainWaitArms lets held SetReadDeadline(waiting) calls take effect until an op satisfying pred is pending.
func (r *run) drainWaitArms(pred func(*simnet.Op) bool, d time.Duration) {
	deadline := time.Now().Add(d)
	for time.Now().Before(deadline) {
		if r.conn.Find(pred) != nil || r.conn.IsClosed() {
			return
		}
		if op := r.conn.Find(isWaitArm); op != nil {
			op.Complete(nil)
			continue
		}
		time.Sleep(200 * time.Microsecond)
	}
}

func isIdleArm(o *simnet.Op) bool { return o.Kind == simnet.OpSetReadDeadline && o.DKind == "idle" }

// readerBack waits until the reader has issued its next call on the conn (hand-off attempt over).
func (r *run) readerBack(d time.Duration) bool {
	return r.conn.WaitCond(func() bool { return false }, func(o *simnet.Op) bool { return isIdleArm(o) || o.Kind == simnet.OpRead }, d) != nil
}

func (r *run) armIdle(d time.Duration) bool {
	op := r.conn.WaitCond(func() bool { return r.conn.IsClosedLocked() }, isIdleArm, d)
	if op == nil {
		return r.conn.IsClosed() // the reader's call failed on the closed conn: nothing to complete
	}
	return op.Complete(nil)
}

func (r *run) readFail(kind string) bool {
	switch kind {
	case "err":
		return r.conn.FailRead(errors.New("simnet: connection reset by peer"), "err", stepWait)
	case "timeout":
		if r.conn.Wait(simnet.IsKind(simnet.OpRead), stepWait) == nil {
			return false
		}
		return r.conn.InjectTimeout()
	}
	return r.conn.FailRead(io.EOF, "eof", stepWait)
}

func (r *run) extClose() {
	r.rec.Log("Close")
	r.dc.Close()
}

func (r *run) cancel(c int) {
	cl := r.caller(c)
	if cl.cancelled || cl.cancel == nil {
		return
	}
	cl.cancelled = true
	r.rec.Log("Cancel", "c", c)
	cl.cancel()
}

func errClass(err error) string {
	switch {
	case errors.Is(err, context.Canceled), errors.Is(err, context.DeadlineExceeded):
		return "ctx"
	case errors.Is(err, transport.ErrTDCClosed):
		return "closed"
	case errors.Is(err, transport.ErrTDCTooManyQueries):
		return "toomany"
	case strings.Contains(err.Error(), "read err"), strings.Contains(err.Error(), "write err"):
		return "closed"
	case strings.Contains(err.Error(), "broken pipe"), errors.Is(err, os.ErrClosed), strings.Contains(err.Error(), "closed network"):
		return "write"
	case strings.HasPrefix(err.Error(), "PANIC"):
		return "panic"
	}
	return "other"
}

// logEnd records the observed return of c's call.
func (r *run) logEnd(cl *caller, o outcome) {
	kv := []any{"c", cl.id, "g", cl.g}
	if o.err != nil {
		kv = append(kv, "r", "err", "e", errClass(o.err), "text", o.err.Error(), "rc", -1, "rg", -1, "n", -1, "idok", false, "qok", false)
	} else {
		m := new(dns.Msg)
		rc, rg, n := -2, -2, -2
		qok := false
		idok := len(*o.resp) >= 2 && binary.BigEndian.Uint16(*o.resp) == cl.msgID
		if err := m.Unpack(*o.resp); err == nil {
			if len(m.Question) == 1 && m.Question[0].Name == cl.qname {
				qok = true
			}
			if len(m.Answer) == 1 {
				if t, ok := m.Answer[0].(*dns.TXT); ok && len(t.Txt) == 1 {
					f := strings.Split(t.Txt[0], ",")
					if len(f) == 3 {
						rc, _ = strconv.Atoi(f[0])
						rg, _ = strconv.Atoi(f[1])
						n, _ = strconv.Atoi(f[2])
					}
				}
			}
		}
		kv = append(kv, "r", "reply", "e", "", "rc", rc, "rg", rg, "n", n, "idok", idok, "qok", qok)
		pool.ReleaseBuf(o.resp)
	}
	r.rec.Log("ExchangeEnd", kv...)
	if s := r.findSend(cl.id, cl.g); s != nil {
		s.stale = true
	}
	if cl.cancel != nil {
		cl.cancel()
	}
	cl.state, cl.rx, cl.cancel = "idle", nil, nil
	cl.g++
}

// collect waits for c's call to return. ok=false: it did not return within d.
func (r *run) collect(c int, d time.Duration) bool {
	cl := r.caller(c)
	if cl.state != "running" {
		return true
	}
	select {
	case o := <-cl.done:
		r.logEnd(cl, o)
		return true
	case <-time.After(d):
		return false
	}
}

func (r *run) hasPendingWrite(c int) bool { return r.conn.Find(isWriteOf(c)) != nil }

func (r *run) probe() {
	if !r.sc.Probe {
		return
	}
	base := r.sc.ProbeC
	var got []int
	for i := 0; i <= r.sc.MaxCq; i++ {
		o := r.doReserve(base + i)
		if o == "ok" {
			got = append(got, base+i)
		} else {
			break
		}
	}
	for _, c := range got {
		r.doWithdraw(c)
	}
}

// ---------------------------------------------------------------------------
// steered mode

func (r *run) pause() {
	if r.sc.Pause {
		time.Sleep(time.Duration(200+r.rng.Intn(800)) * time.Microsecond)
	}
}

func (r *run) steer() (steered bool, why string) {
	skip := map[int]bool{} // callers whose scripted call did not start as scripted
	for i, st := range r.sc.Steps {
		fail := func(msg string) (bool, string) { return false, fmt.Sprintf("step %d %s(c=%d): %s", i, st.A, st.C, msg) }
		if skip[st.C] && st.A != "Reserve" {
			switch st.A {
			case "Withdraw", "Start", "Write", "ArmWaiting", "WriteFail", "Cancel", "Return":
				continue
			}
		}
		switch st.A {
		case "Reserve":
			delete(skip, st.C)
			if r.caller(st.C).state != "idle" {
				return fail("caller busy")
			}
			o := r.doReserve(st.C)
			if o != st.O {
				if o == "ok" {
					r.doWithdraw(st.C)
				}
				skip[st.C] = true
			}
		case "Withdraw":
			if r.caller(st.C).state != "reserved" {
				return fail("not reserved")
			}
			r.doWithdraw(st.C)
		case "Start":
			if r.caller(st.C).state != "reserved" {
				return fail("not reserved")
			}
			r.doStart(st.C)
		case "Write":
			if r.waitWrite(st.C, stepWait) == nil {
				return fail("Write not seen")
			}
		case "ArmWaiting":
			if !r.releaseWrite(st.C, true) {
				return fail("no pending Write")
			}
			r.pause()
		case "WriteFail":
			if !r.releaseWrite(st.C, false) {
				return fail("no pending Write")
			}
		case "ReadMsg":
			if r.sc.Arm { // a held SetReadDeadline(waiting) nobody scripted must not keep the reader (or a caller) out
				r.drainWaitArms(simnet.IsKind(simnet.OpRead), stepWait)
			}
			ok := false
			if st.C < 0 {
				ok = r.deliverStray()
			} else {
				r.noteSends()
				ok = r.deliverReplyErr(st.C, st.G, st.N, st.K)
			}
			if !ok {
				return fail("could not deliver")
			}
		case "Dispatch":
			if r.sc.Arm {
				r.drainWaitArms(func(o *simnet.Op) bool { return isIdleArm(o) || o.Kind == simnet.OpRead }, stepWait)
			}
			if !r.readerBack(stepWait) {
				return fail("reader did not come back")
			}
		case "ArmIdle":
			if !r.armIdle(stepWait) {
				return fail("no SetReadDeadline(idle)")
			}
		case "ReadFail":
			if !r.readFail(st.K) {
				return fail("no pending Read")
			}
		case "ReaderClose", "ConnClose":
			if !r.conn.WaitClosed(stepWait) {
				return fail("Close() not seen")
			}
		case "ExtClose":
			r.extClose()
		case "Cancel":
			if r.caller(st.C).state == "running" {
				r.cancel(st.C)
			}
		case "Return":
			if r.sc.Arm && !r.collect(st.C, 200*time.Millisecond) {
				r.quiesce(300 * time.Millisecond)
			}
			if !r.collect(st.C, r.grace) {
				if r.hasPendingWrite(st.C) {
					return fail("call still inside Write")
				}
				r.rec.Log("Stuck", "c", st.C)
				return fail("call did not return (Stuck)")
			}
		case "Sleep":
			time.Sleep(time.Duration(st.N) * time.Millisecond)
		case "SrdI": // let the held SetReadDeadline(idle) take effect
			if !r.armIdle(stepWait) {
				return fail("no SetReadDeadline(idle)")
			}
		case "SrdW": // let a held SetReadDeadline(waiting) take effect, if one shows up within 1 s (whether a caller
			// or the reader arms it is the code's business; the trace spec judges the resulting deadline)
			if op := r.conn.Wait(isWaitArm, time.Second); op != nil {
				op.Complete(nil)
			}
		case "Advance": // 30 s of virtual silence, once nothing has moved for a second
			r.quiesce(time.Second)
			r.conn.Advance(30 * time.Second)
		case "Stress":
			r.stress(time.Duration(st.N) * time.Millisecond)
		case "Bulk":
			if err := r.bulk(st.Cnt); err != nil {
				return fail(err.Error())
			}
		}
	}
	return true, ""
}

// bulk: cnt complete unrecorded helper exchanges (moves the id counter); logs Bulk{last}.
func (r *run) bulk(cnt int) error {
	last, err := r.helperRun(cnt)
	if err == nil {
		r.rec.Log("Bulk", "last", last, "cnt", cnt)
	} else if last >= 0 {
		r.rec.Log("Bulk", "last", last, "cnt", cnt)
		r.plainExchange(9)
	}
	return err
}

// plainExchange: one recorded exchange of caller c, reply handed over after the Write returned.
// Used after an unrecorded helper exchange failed, so that the failure is judged by the trace spec.
func (r *run) plainExchange(c int) {
	if r.conn.Wait(simnet.IsKind(simnet.OpRead), stepWait) == nil {
		return
	}
	if r.doReserve(c) != "ok" {
		return
	}
	r.doStart(c)
	if !r.releaseWrite(c, true) {
		return
	}
	time.Sleep(2 * time.Millisecond)
	if !r.deliverReply(c, r.caller(c).g, 0) {
		return
	}
	if !r.collect(c, r.grace) {
		r.rec.Log("Stuck", "c", c)
	}
}

// stress: bounded concurrent hammering of ReserveNewQuery while exchanges register their queries (every Write is
// held, so nothing finishes meanwhile).  Each round: reserve until the connection is exactly full, start all those
// exchanges at once and keep calling ReserveNewQuery from three more goroutines until every Write is pending; an
// admission in that time is logged (Reserve ok, then Withdraw) — whether it was legitimate is for the trace spec.
// Rounds in which nothing was admitted are dropped from the record and summarized by one Bulk{last} event (they
// leave the connection quiescent; only its id counter moved), except the first two.
func (r *run) stress(budget time.Duration) {
	L := r.sc.MaxCq
	const hammer = 11
	r.hold.Store(false)
	if op := r.conn.Find(isIdleArm); op != nil {
		op.Complete(nil)
	}
	deadline := time.Now().Add(budget)
	lastWid, dropped := -1, 0
	for round := 0; time.Now().Before(deadline); round++ {
		if r.conn.Wait(simnet.IsKind(simnet.OpRead), stepWait) == nil {
			return
		}
		mark := r.rec.Len()
		gens := map[int]int{}
		for c := 0; c < L; c++ {
			gens[c] = r.caller(c).g
		}
		if dropped > 0 {
			r.rec.Log("Bulk", "last", lastWid, "cnt", dropped)
		}
		for c := 0; c < L; c++ {
			if r.doReserve(c) != "ok" {
				return // recorded; the trace spec judges it
			}
		}
		var admitted atomic.Int32
		stop := make(chan struct{})
		var wg sync.WaitGroup
		for h := 0; h < 3; h++ {
			wg.Add(1)
			go func() {
				defer wg.Done()
				for {
					select {
					case <-stop:
						return
					default:
					}
					r.rec.Atomic(func(log func(string, ...any)) {
						if rx, _ := r.dc.ReserveNewQuery(); rx != nil {
							admitted.Add(1)
							log("Reserve", "c", hammer, "o", "ok")
							rx.WithdrawReserved()
							log("Withdraw", "c", hammer)
						}
					})
				}
			}()
		}
		for c := 0; c < L; c++ {
			r.doStart(c)
		}
		ok := true
		for c := 0; c < L && ok; c++ {
			ok = r.waitWrite(c, stepWait) != nil
		}
		close(stop)
		wg.Wait()
		if !ok {
			return
		}
		for c := 0; c < L; c++ {
			if s := r.findSend(c, r.caller(c).g); s != nil {
				lastWid = int(s.wid)
			}
			if !r.releaseWrite(c, true) || !r.deliverReply(c, r.caller(c).g, 0) || !r.collect(c, r.grace) {
				return
			}
		}
		r.sends = r.sends[:0]
		if r.conn.Wait(simnet.IsKind(simnet.OpRead), stepWait) == nil { // the reader is back in Read: the round is over
			return
		}
		if admitted.Load() == 0 && round >= 2 {
			r.rec.Truncate(mark)
			for c, g := range gens { // for the record the dropped round did not happen: call numbers continue from here
				r.caller(c).g = g
			}
			dropped++
		} else {
			dropped = 0
			if admitted.Load() > 0 {
				return // one recorded admission is enough
			}
		}
	}
}

// sharedBuffer: ONE packed query (caller id 0x1234) is exchanged concurrently on two datagram connections, as forward
// does with concurrent > 1: connection A is held inside Write while connection B (whose id counter was advanced, so the
// wire ids differ) runs its exchange to completion; then A completes.  Recorded: the bytes each connection wrote, whether
// the caller's buffer was untouched at Write entry (bufok), the id of each returned reply (idok).  The result is two
// reset-delimited traces (one per connection) in one record.
func sharedBuffer(idx int, sc *Script, seed int64) (res Result) {
	res = Result{Idx: idx, Name: sc.Name}
	scB := *sc
	scB.Qid0 = 5
	a, b := newRun(sc, seed), newRun(&scB, seed+1)
	defer func() {
		if p := recover(); p != nil {
			res.Panic = fmt.Sprint(p)
		}
		res.Events = append(a.rec.Events(), b.rec.Events()...)
		a.cleanup()
		b.cleanup()
	}()
	opts := transport.TraditionalDnsConnOpts{WithLengthHeader: !sc.Dgram, IdleTimeout: idleTimeout, MaxConcurrentQuery: sc.MaxCq}
	for _, r := range []*run{a, b} {
		r.hold.Store(false)
	}
	a.rec.Log("reset", "maxCq", sc.MaxCq, "dgram", sc.Dgram, "qid0", 0, "rd", "arm")
	a.dc = transport.NewDnsConn(opts, a.conn)
	b.rec.SetOff(true)
	b.dc = transport.NewDnsConn(opts, b.conn)
	if _, err := b.helperRun(scB.Qid0); err != nil {
		res.Why = "warmup: " + err.Error()
		return
	}
	b.hold.Store(false)
	b.rec.Log("reset", "maxCq", sc.MaxCq, "dgram", sc.Dgram, "qid0", scB.Qid0, "rd", "read")

	q := new(dns.Msg)
	q.SetQuestion("c0g0.shared.Test.", dns.TypeTXT)
	q.Id = 0x1234
	buf, _ := q.Pack()
	pristine := append([]byte(nil), buf...)
	for _, r := range []*run{a, b} {
		cl := r.caller(0)
		cl.msgID, cl.qname = 0x1234, "c0g0.shared.Test."
	}
	fail := func(m string) { res.Why = m }
	start := func(r *run) bool {
		if r.doReserve(0) != "ok" {
			return false
		}
		r.bufMu.Lock()
		r.bufs = map[[2]int]qbuf{{0, 0}: {buf, pristine}}
		r.bufMu.Unlock()
		r.doStartBuf(0, buf)
		return r.waitWrite(0, stepWait) != nil
	}
	finish := func(r *run) bool {
		return r.releaseWrite(0, true) && r.deliverReply(0, 0, 0) && r.collect(0, r.grace)
	}
	if !start(a) { // A stays inside Write
		fail("A: Write not seen")
		return
	}
	if !start(b) || !finish(b) {
		fail("B: exchange did not complete")
		return
	}
	if !finish(a) {
		fail("A: exchange did not complete")
		return
	}
	res.Steered = true
	return
}

// ---------------------------------------------------------------------------
// random mode

func (r *run) randomRun() (bool, string) {
	cfg := r.sc.Random
	type move func() bool
	callsLeft := map[int]int{}
	for c := 0; c < cfg.Callers; c++ {
		callsLeft[c] = cfg.Calls
		r.caller(c)
	}
	faults := 0
	idleSince := time.Time{}
	for iter := 0; iter < 100000; iter++ {
		// observed returns first
		for c := 0; c < cfg.Callers; c++ {
			cl := r.callers[c]
			if cl.state == "running" {
				select {
				case o := <-cl.done:
					r.logEnd(cl, o)
				default:
				}
			}
		}
		r.noteSends()
		var moves []move
		add := func(w int, m move) {
			for i := 0; i < w; i++ {
				moves = append(moves, m)
			}
		}
		allDone := true
		for c := 0; c < cfg.Callers; c++ {
			c := c
			cl := r.callers[c]
			switch cl.state {
			case "idle":
				if callsLeft[c] > 0 {
					allDone = false
					add(3, func() bool { callsLeft[c]--; r.doReserve(c); return true })
				}
			case "reserved":
				allDone = false
				if r.rng.Float64() < cfg.PWd {
					add(1, func() bool { r.doWithdraw(c); return true })
				} else {
					add(3, func() bool { r.doStart(c); return true })
				}
			case "running":
				allDone = false
				if r.hasPendingWrite(c) {
					if s := r.findSend(c, cl.g); r.rng.Float64() < cfg.PFault/4 && faults == 0 && s != nil && !s.answered {
						add(1, func() bool { faults++; return r.releaseWrite(c, false) })
					} else {
						add(2, func() bool { return r.releaseWrite(c, true) })
					}
				}
				if !cl.cancelled && r.rng.Float64() < cfg.PCancel {
					add(1, func() bool { r.cancel(c); return true })
				}
			}
		}
		closed := r.conn.IsClosed() || r.closedByUs
		if r.conn.Find(isIdleArm) != nil {
			add(3, func() bool { return r.armIdle(stepWait) })
		}
		if !closed && r.conn.Find(simnet.IsKind(simnet.OpRead)) != nil {
			for _, s := range r.sends {
				s := s
				if !s.answered {
					add(4, func() bool { return r.deliverReply(s.c, s.g, -1) })
				} else if r.rng.Float64() < cfg.PDup && s.nrep < 3 {
					add(1, func() bool { return r.deliverReply(s.c, s.g, -1) })
				}
			}
			if r.rng.Float64() < cfg.PStray {
				add(1, func() bool { return r.deliverStray() })
			}
			if r.rng.Float64() < cfg.PFault && faults == 0 {
				add(1, func() bool {
					faults++
					return r.readFail([]string{"eof", "err", "timeout"}[r.rng.Intn(3)])
				})
			}
		}
		if !closed && faults == 0 && r.rng.Float64() < cfg.PFault/3 {
			add(1, func() bool { faults++; r.closedByUs = true; r.extClose(); return true })
		}
		if allDone {
			return true, ""
		}
		if len(moves) == 0 {
			if idleSince.IsZero() {
				idleSince = time.Now()
			}
			if time.Since(idleSince) > r.grace {
				// somebody is parked although nothing can be done for it any more
				for c := 0; c < cfg.Callers; c++ {
					if cl := r.callers[c]; cl.state == "running" && !r.hasPendingWrite(c) {
						r.rec.Log("Stuck", "c", c)
						return false, fmt.Sprintf("caller %d stuck", c)
					}
				}
				return false, "no move possible"
			}
			time.Sleep(50 * time.Microsecond)
			continue
		}
		idleSince = time.Time{}
		moves[r.rng.Intn(len(moves))]()
		if r.rng.Intn(4) == 0 {
			time.Sleep(time.Duration(r.rng.Intn(300)) * time.Microsecond)
		}
	}
	return false, "iteration limit"
}

// ---------------------------------------------------------------------------

func runScript(idx int, sc *Script, seed int64) (res Result) {
	t0 := time.Now()
	res = Result{Idx: idx, Name: sc.Name}
	r := newRun(sc, seed)
	defer func() {
		if p := recover(); p != nil {
			res.Panic = fmt.Sprint(p)
			res.Events = r.rec.Events()
		}
		res.WallMs = time.Since(t0).Milliseconds()
	}()
	opts := transport.TraditionalDnsConnOpts{WithLengthHeader: !sc.Dgram, IdleTimeout: idleTimeout, MaxConcurrentQuery: sc.MaxCq}
	if sc.Qid0 > 0 {
		r.rec.SetOff(true)
		r.hold.Store(false)
		r.dc = transport.NewDnsConn(opts, r.conn)
		if last, err := r.helperRun(sc.Qid0); err != nil {
			// a plain exchange failed: show it to the trace spec with one recorded exchange at the same counter position
			res.Why = "warmup: " + err.Error()
			if last >= 0 {
				r.rec.Log("reset", "maxCq", sc.MaxCq, "dgram", sc.Dgram, "qid0", (last+1)%65536, "rd", "read")
				r.plainExchange(9)
			}
			res.Events = r.rec.Events()
			r.cleanup()
			return
		}
		// the reader is parked in Read now
		r.rec.Log("reset", "maxCq", sc.MaxCq, "dgram", sc.Dgram, "qid0", sc.Qid0%65536, "rd", "read")
	} else {
		r.rec.Log("reset", "maxCq", sc.MaxCq, "dgram", sc.Dgram, "qid0", 0, "rd", "arm")
		r.dc = transport.NewDnsConn(opts, r.conn)
	}
	if sc.Random != nil {
		res.Steered, res.Why = r.randomRun()
	} else {
		res.Steered, res.Why = r.steer()
	}
	if res.Steered {
		r.probe()
	}
	res.Events = r.rec.Events()
	r.cleanup()
	return
}

// cleanup ends everything (unrecorded).
func (r *run) cleanup() {
	r.rec.SetOff(true)
	r.hold.Store(false)
	for _, cl := range r.callers {
		if cl.cancel != nil {
			cl.cancel()
		}
	}
	r.dc.Close()
	deadline := time.Now().Add(2 * time.Second)
	for time.Now().Before(deadline) {
		for _, op := range r.conn.Pending() {
			op.Complete(nil)
		}
		busy := false
		for _, cl := range r.callers {
			if cl.state == "running" {
				select {
				case o := <-cl.done:
					if o.resp != nil {
						pool.ReleaseBuf(o.resp)
					}
					cl.state = "idle"
				default:
					busy = true
				}
			}
		}
		if !busy && len(r.conn.Pending()) == 0 {
			return
		}
		time.Sleep(200 * time.Microsecond)
	}
}

func main() {
	var job Job
	if err := vh.ReadJob(&job); err != nil {
		fmt.Fprintln(os.Stderr, "bad job:", err)
		os.Exit(3)
	}
	if job.Workers <= 0 {
		job.Workers = 8
	}
	seed := vh.Seed()
	var wg sync.WaitGroup
	sem := make(chan struct{}, job.Workers)
	out := make([]Result, len(job.Scripts))
	for i := range job.Scripts {
		wg.Add(1)
		sem <- struct{}{}
		go func(i int) {
			defer wg.Done()
			defer func() { <-sem }()
			sc := &job.Scripts[i]
			s := seed*1000003 + int64(i)
			if sc.Random != nil && sc.Random.Seed != 0 {
				s = sc.Random.Seed
			}
			if sc.Shared {
				out[i] = sharedBuffer(i, sc, s)
			} else {
				out[i] = runScript(i, sc, s)
			}
		}(i)
	}
	wg.Wait()
	for i := range out {
		vh.Emit(out[i])
	}
	vh.Flush()
}
