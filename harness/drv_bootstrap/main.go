//go:build verif

// drv_bootstrap: replays schedules of Bootstrap.tla into the real pkg/upstream/bootstrap and
// records traces for Bootstrap_Trace.tla.  The bootstrap DNS server is a harness UDP server on
// loopback whose answers are scripted (address / no address).  No hooks.
package main

import (
	"context"
	"fmt"
	"math/rand"
	"net"
	"net/netip"
	"os"
	"strings"
	"sync"
	"time"

	"github.com/IrineSistiana/mosdns/v5/pkg/upstream/bootstrap"
	"github.com/miekg/dns"
	"go.uber.org/zap"

	"verif/harness/vh"
)

const retryInterval = 2 * time.Second // bootstrap.retryInterval

type Step struct {
	A    string `json:"a"`
	C    string `json:"c,omitempty"`
	Addr int    `json:"addr,omitempty"`
	Long bool   `json:"long,omitempty"`
}

type Behaviour struct {
	Steps []Step `json:"steps"`
}

type Job struct {
	Behaviours []Behaviour `json:"behaviours"`
	Random     int         `json:"random"`
	Workers    int         `json:"workers"`
	MaxTicks   int         `json:"max_ticks"`
}

type Event map[string]any

type Result struct {
	Idx     int     `json:"idx"`
	Kind    string  `json:"kind"`
	Steered bool    `json:"steered"`
	Why     string  `json:"why,omitempty"`
	Events  []Event `json:"events"`
	Beh     any     `json:"beh,omitempty"`
}

type pendingQ struct {
	id   uint16
	from *net.UDPAddr
	msg  *dns.Msg
}

type run struct {
	mu        sync.Mutex
	events    []Event
	lastFail  time.Time // when the last "no address" reply was sent; zero if none since the last tick
	ticked    bool      // a Tick/MaybeTick was logged since lastFail
	seen      map[uint16]bool
	pending   []pendingQ
	newQuery  chan struct{}
	conn      *net.UDPConn
	v6        bool
	port      uint16
	returned  chan string // caller name, after its Return was logged
	busy      map[string]bool
	cancels   map[string]context.CancelFunc
	bs        *bootstrap.Bootstrap
	closeOnce sync.Once
}

// logLocked appends an event; a MaybeTick is inserted first when the retry interval may have passed.
func (r *run) logLocked(ev string, kv ...any) {
	if !r.lastFail.IsZero() && !r.ticked && ev != "Tick" && time.Since(r.lastFail) > retryInterval*3/4 {
		r.events = append(r.events, Event{"ev": "MaybeTick"})
		r.ticked = true
	}
	e := Event{"ev": ev}
	for i := 0; i+1 < len(kv); i += 2 {
		e[kv[i].(string)] = kv[i+1]
	}
	r.events = append(r.events, e)
}

func (r *run) log(ev string, kv ...any) {
	r.mu.Lock()
	r.logLocked(ev, kv...)
	r.mu.Unlock()
}

func (r *run) serve() {
	buf := make([]byte, 4096)
	for {
		n, from, err := r.conn.ReadFromUDP(buf)
		if err != nil {
			return
		}
		m := new(dns.Msg)
		if m.Unpack(buf[:n]) != nil || len(m.Question) != 1 {
			continue
		}
		r.mu.Lock()
		if r.seen[m.Id] { // retransmission of a query we already know: update the return address only
			for i := range r.pending {
				if r.pending[i].id == m.Id {
					r.pending[i].from = from
				}
			}
			r.mu.Unlock()
			continue
		}
		r.seen[m.Id] = true
		r.pending = append(r.pending, pendingQ{m.Id, from, m})
		r.logLocked("Query")
		r.mu.Unlock()
		select {
		case r.newQuery <- struct{}{}:
		default:
		}
	}
}

// answer the oldest pending query; addr 0 = reply without an address record
func (r *run) answer(addr int, long bool) bool {
	deadline := time.Now().Add(1200 * time.Millisecond)
	for {
		r.mu.Lock()
		if len(r.pending) > 0 {
			break
		}
		r.mu.Unlock()
		if time.Now().After(deadline) {
			return false
		}
		select {
		case <-r.newQuery:
		case <-time.After(20 * time.Millisecond):
		}
	}
	// r.mu is held
	p := r.pending[0]
	r.pending = r.pending[1:]
	resp := new(dns.Msg)
	resp.SetReply(p.msg)
	if addr > 0 {
		ttl := uint32(1)
		if long {
			ttl = 900
		}
		name := p.msg.Question[0].Name
		if r.v6 {
			resp.Answer = append(resp.Answer, &dns.AAAA{Hdr: dns.RR_Header{Name: name, Rrtype: dns.TypeAAAA, Class: dns.ClassINET, Ttl: ttl},
				AAAA: net.ParseIP(fmt.Sprintf("fd00::%d", addr))})
		} else {
			resp.Answer = append(resp.Answer, &dns.A{Hdr: dns.RR_Header{Name: name, Rrtype: dns.TypeA, Class: dns.ClassINET, Ttl: ttl},
				A: net.IPv4(10, 0, 0, byte(addr))})
		}
		r.logLocked("UpdateOk", "addr", addr, "long", long)
	} else {
		// a CNAME only: no address in the answer
		resp.Answer = append(resp.Answer, &dns.CNAME{Hdr: dns.RR_Header{Name: p.msg.Question[0].Name, Rrtype: dns.TypeCNAME, Class: dns.ClassINET, Ttl: 60}, Target: "elsewhere.test."})
		r.logLocked("UpdateFail")
		r.lastFail = time.Now()
		r.ticked = false
	}
	b, _ := resp.Pack()
	r.mu.Unlock()
	r.conn.WriteToUDP(b, p.from)
	return true
}

func (r *run) call(c string) {
	ctx, cancel := context.WithCancel(context.Background())
	r.mu.Lock()
	r.busy[c] = true
	r.cancels[c] = cancel
	r.logLocked("CallStart", "c", c)
	r.mu.Unlock()
	go func() {
		s, err := r.bs.GetAddrPortStr(ctx)
		res, portOK := 99, true
		if err == nil {
			res, portOK = 0, false
			if ap, perr := netip.ParseAddrPort(s); perr == nil {
				portOK = ap.Port() == r.port
				a := ap.Addr()
				if a.Is4() {
					b := a.As4()
					if b[0] == 10 && b[1] == 0 && b[2] == 0 {
						res = int(b[3])
					}
				} else if strings.HasPrefix(a.String(), "fd00::") {
					fmt.Sscanf(strings.TrimPrefix(a.String(), "fd00::"), "%x", &res)
				}
			}
		} else if ctx.Err() == nil {
			res = 98 // an error although the context is alive
		}
		r.mu.Lock()
		r.logLocked("Return", "c", c, "res", res, "port_ok", portOK)
		r.busy[c] = false
		r.mu.Unlock()
		cancel()
		r.returned <- c
	}()
}

func (r *run) waitReturn(c string, d time.Duration) bool {
	t := time.NewTimer(d)
	defer t.Stop()
	for {
		r.mu.Lock()
		b := r.busy[c]
		r.mu.Unlock()
		if !b {
			return true
		}
		select {
		case <-r.returned:
		case <-t.C:
			return false
		}
	}
}

func (r *run) tick() {
	r.mu.Lock()
	lf := r.lastFail
	r.mu.Unlock()
	d := retryInterval + 300*time.Millisecond
	if !lf.IsZero() {
		d -= time.Since(lf)
	} else {
		d = 50 * time.Millisecond // nothing is timed: a Tick is only meaningful after a failure
	}
	if d > 0 {
		time.Sleep(d)
	}
	r.mu.Lock()
	r.logLocked("Tick")
	r.ticked = true
	r.lastFail = time.Time{}
	r.mu.Unlock()
}

func runOne(idx int, b *Behaviour, kind string, job *Job, rng *rand.Rand) Result {
	res := Result{Idx: idx, Kind: kind, Steered: true}
	conn, err := net.ListenUDP("udp", &net.UDPAddr{IP: net.IPv4(127, 0, 0, 1)})
	if err != nil {
		fmt.Fprintln(os.Stderr, "listen:", err)
		os.Exit(3)
	}
	r := &run{seen: map[uint16]bool{}, newQuery: make(chan struct{}, 1), conn: conn, v6: idx%3 == 2,
		port: uint16(53 + idx%3*400), returned: make(chan string, 16), busy: map[string]bool{}, cancels: map[string]context.CancelFunc{}}
	defer conn.Close()
	ver := 4
	if r.v6 {
		ver = 6
	}
	if idx%3 == 1 {
		ver = 0
	}
	bs, err := bootstrap.New("name.test", r.port, conn.LocalAddr().(*net.UDPAddr).AddrPort(), ver, zap.NewNop())
	if err != nil {
		fmt.Fprintln(os.Stderr, "bootstrap.New:", err)
		os.Exit(3)
	}
	r.bs = bs
	go r.serve()
	r.log("New")
	settle := func() { time.Sleep(8 * time.Millisecond) }

	steps := b.Steps
	if kind == "random" {
		steps = nil
		ticks := 0
		for i := 0; i < 10; i++ {
			switch rng.Intn(7) {
			case 0, 1, 2:
				steps = append(steps, Step{A: "CallStart", C: []string{"c1", "c2", "c3"}[rng.Intn(3)]})
			case 3:
				steps = append(steps, Step{A: "UpdateOk", Addr: 1 + rng.Intn(3), Long: rng.Intn(2) == 0})
			case 4:
				steps = append(steps, Step{A: "UpdateFail"})
			case 5:
				steps = append(steps, Step{A: "Cancel", C: []string{"c1", "c2", "c3"}[rng.Intn(3)]})
			case 6:
				if ticks < job.MaxTicks {
					ticks++
					steps = append(steps, Step{A: "Tick"})
				}
			}
		}
	}
	for _, st := range steps {
		switch st.A {
		case "CallStart":
			r.mu.Lock()
			busy := r.busy[st.C]
			r.mu.Unlock()
			if busy {
				// the previous call of this caller has not returned: skip (the trace stays valid)
				if res.Steered {
					res.Steered, res.Why = false, "caller "+st.C+" still busy"
				}
				continue
			}
			r.call(st.C)
			// give the update goroutine a moment so that its query is seen close to the call
			select {
			case <-r.newQuery:
			case <-time.After(60 * time.Millisecond):
			}
		case "UpdateOk":
			if !r.answer(st.Addr, st.Long) && res.Steered {
				res.Steered, res.Why = false, "no pending query to answer"
			}
			settle()
		case "UpdateFail":
			if !r.answer(0, false) && res.Steered {
				res.Steered, res.Why = false, "no pending query to answer"
			}
			settle()
		case "Tick":
			r.tick()
		case "Cancel":
			r.mu.Lock()
			cf, busy := r.cancels[st.C], r.busy[st.C]
			if busy {
				r.logLocked("Cancel", "c", st.C)
			}
			r.mu.Unlock()
			if busy {
				cf()
				r.waitReturn(st.C, 2*time.Second)
			}
		}
	}
	// end: cancel whoever is still waiting; everybody must return
	for _, c := range []string{"c1", "c2", "c3"} {
		r.mu.Lock()
		cf, busy := r.cancels[c], r.busy[c]
		if busy {
			r.logLocked("Cancel", "c", c)
		}
		r.mu.Unlock()
		if busy {
			cf()
		}
	}
	all := true
	for _, c := range []string{"c1", "c2", "c3"} {
		if !r.waitReturn(c, 3*time.Second) {
			all = false
		}
	}
	if all {
		r.log("End")
	} else {
		r.log("Hang")
	}
	r.mu.Lock()
	res.Events = append([]Event(nil), r.events...)
	r.mu.Unlock()
	return res
}

func main() {
	var job Job
	if err := vh.ReadJob(&job); err != nil {
		fmt.Fprintln(os.Stderr, "job:", err)
		os.Exit(3)
	}
	if job.Workers == 0 {
		job.Workers = 16
	}
	type item struct {
		idx  int
		b    *Behaviour
		kind string
	}
	var items []item
	for i := range job.Behaviours {
		items = append(items, item{i, &job.Behaviours[i], "replay"})
	}
	for i := 0; i < job.Random; i++ {
		items = append(items, item{len(job.Behaviours) + i, &Behaviour{}, "random"})
	}
	ch := make(chan item)
	var wg sync.WaitGroup
	for w := 0; w < job.Workers; w++ {
		wg.Add(1)
		wrng := rand.New(rand.NewSource(vh.Seed()*131 + int64(w)))
		go func() {
			defer wg.Done()
			for it := range ch {
				r := runOne(it.idx, it.b, it.kind, &job, wrng)
				if it.kind == "replay" {
					r.Beh = it.b
				}
				vh.Emit(r)
			}
		}()
	}
	for _, it := range items {
		ch <- it
	}
	close(ch)
	wg.Wait()
	vh.Flush()
}
