//go:build verif

// drv_sequence: leg B / leg C driver for C06.
//
// Every behaviour exported by Sequence.tla is a program (sequences of rules) plus the log every
// run (query copy) must produce, the final response and error.  The program is rendered to real
// rule text (several textual variants: "$tag", "! $tag", typed "vm args", quick-configured
// "$qm args", padded spaces, "reject"/"reject 5" ...), built with the real sequence.NewSequence
// (targets first, as mosdns loads plugins), executed with Sequence.Exec, and everything the harness
// matchers / actions / wrappers saw is recorded under one mutex.  The driver only concretizes,
// drives, records and compares with the behaviour; it knows nothing about sequence semantics.
package main

import (
	"context"
	"errors"
	"fmt"
	"math/rand"
	"os"
	"runtime/debug"
	"strconv"
	"strings"
	"sync"
	"sync/atomic"
	"time"

	"github.com/IrineSistiana/mosdns/v5/coremain"
	"github.com/IrineSistiana/mosdns/v5/pkg/query_context"
	"github.com/IrineSistiana/mosdns/v5/plugin/executable/sequence"
	"github.com/miekg/dns"

	"verif/harness/vh"
)

// ---- behaviours as exported by the spec -------------------------------------------------------

type Matcher struct {
	K   string `json:"k"`
	Neg bool   `json:"neg"`
}
type Act struct {
	Op  string `json:"op"`
	Arg int    `json:"arg"`
}
type Rule struct {
	Ms  []Matcher `json:"ms"`
	Act Act       `json:"act"`
}
type Entry struct {
	T string `json:"t"`
	S int    `json:"s"`
	R int    `json:"r"`
	M int    `json:"m"`
	V string `json:"v"`
}
type ErrID struct {
	K string `json:"k"`
	S int    `json:"s"`
	R int    `json:"r"`
	M int    `json:"m"`
}
type RunExp struct {
	Tag  []int   `json:"tag"`
	Log  []Entry `json:"log"`
	Err  ErrID   `json:"err"`
	Resp int     `json:"resp"`
}
type Beh struct {
	Prog [][]Rule `json:"prog"`
	Runs []RunExp `json:"runs"`
	Resp int      `json:"resp"`
	Err  ErrID    `json:"err"`
}
type Job struct {
	Behaviours []Beh `json:"behaviours"`
	Variants   int   `json:"variants"`    // textual renderings per behaviour (variant 0 is canonical)
	TraceEvery int   `json:"trace_every"` // emit the event trace of every n-th evaluation (0 = never)
	Workers    int   `json:"workers"`
	OnlyVar    int   `json:"only_variant"` // replay: run exactly this variant seed (-1 = all)
}

type Event map[string]any

type Result struct {
	I       int        `json:"i"`
	Variant int        `json:"variant"`
	OK      bool       `json:"ok"`
	Field   string     `json:"field,omitempty"` // log | runs | resp | err | build | panic | hang
	Diff    string     `json:"diff,omitempty"`
	Exp     string     `json:"exp,omitempty"`
	Got     string     `json:"got,omitempty"`
	Text    [][]string `json:"text,omitempty"` // rendered rules (one string per rule: "m1 ; m2 => exec")
	Events  []Event    `json:"events,omitempty"`
	Entries int        `json:"entries"`
}

// ---- recorder ---------------------------------------------------------------------------------

const logCap = 20000 // a run that logs more than any behaviour of the spec can is cut off (runaway)

type runInfo struct {
	tag    []int
	key    string
	nch    int
	nkeep  int
	nlog   int
	shadow bool // an interfering second top-level run: logged apart, not traced, keeps nothing
}

// a continuation kept by a wkeep wrapper together with the copy of the query it will be run on
type keptK struct {
	ri   *runInfo // the late run's identity: keeper's tag + [1000 + n]
	s, r int
	next sequence.ChainWalker
	q    *query_context.Context
}

type lateRes struct {
	err  ErrID
	resp int
}

type progCtx struct {
	id     string
	mu     sync.Mutex
	events []Event            // in the order the harness observed them
	logs   map[string][]Entry // per run
	runs   map[string][]int
	shadow map[string][]Entry // per run of the interfering top-level runs
	kept   []*keptK
	late   map[string]lateRes
}

var runKey = query_context.RegKey()

func tagKey(t []int) string {
	var sb strings.Builder
	for i, x := range t {
		if i > 0 {
			sb.WriteByte('.')
		}
		sb.WriteString(strconv.Itoa(x))
	}
	return sb.String()
}

func runOf(qCtx *query_context.Context) *runInfo {
	v, _ := qCtx.GetValue(runKey)
	ri, _ := v.(*runInfo)
	if ri == nil {
		ri = &runInfo{tag: []int{-1}, key: "?"}
	}
	return ri
}

var errRunaway = errors.New("harness: runaway run cut off")

func (p *progCtx) log(ri *runInfo, e Entry) error {
	p.mu.Lock()
	defer p.mu.Unlock()
	ri.nlog++
	if len(p.events) > logCap {
		return errRunaway
	}
	if ri.shadow {
		if len(p.shadow[ri.key]) > logCap {
			return errRunaway
		}
		p.shadow[ri.key] = append(p.shadow[ri.key], e)
		return nil
	}
	p.logs[ri.key] = append(p.logs[ri.key], e)
	p.runs[ri.key] = ri.tag
	p.events = append(p.events, Event{"ev": "L", "tag": ri.tag, "t": e.T, "s": e.S, "r": e.R, "m": e.M, "v": e.V})
	return nil
}

type hErr struct{ id ErrID }

func (e *hErr) Error() string {
	return fmt.Sprintf("harness scripted error %s:%d.%d.%d", e.id.K, e.id.S, e.id.R, e.id.M)
}

func respOf(qCtx *query_context.Context) int {
	if r := qCtx.R(); r != nil {
		return r.Rcode
	}
	return -1
}

// ---- harness plugins --------------------------------------------------------------------------

type hMatcher struct {
	p       *progCtx
	s, r, i int
	k       string
}

func (m *hMatcher) Match(_ context.Context, qCtx *query_context.Context) (bool, error) {
	if err := m.p.log(runOf(qCtx), Entry{"m", m.s, m.r, m.i, m.k}); err != nil {
		return false, err
	}
	switch m.k {
	case "T":
		return true, nil
	case "F":
		return false, nil
	default:
		return false, &hErr{ErrID{"m", m.s, m.r, m.i}}
	}
}

type hExec struct {
	p    *progCtx
	s, r int
	op   string
}

func (x *hExec) Exec(_ context.Context, qCtx *query_context.Context) error {
	if err := x.p.log(runOf(qCtx), Entry{"a", x.s, x.r, 0, x.op}); err != nil {
		return err
	}
	switch x.op {
	case "set":
		r := new(dns.Msg)
		r.SetReply(qCtx.Q())
		qCtx.SetResponse(r)
	case "drop":
		qCtx.SetResponse(nil)
	case "perr":
		return &hErr{ErrID{"a", x.s, x.r, 0}}
	}
	return nil
}

type hWrap struct {
	p    *progCtx
	s, r int
	op   string
}

func (w *hWrap) Exec(ctx context.Context, qCtx *query_context.Context, next sequence.ChainWalker) error {
	ri := runOf(qCtx)
	lg := func(ri *runInfo, t string, m int, v string) error {
		return w.p.log(ri, Entry{t, w.s, w.r, m, v})
	}
	if err := lg(ri, "a", 0, w.op); err != nil {
		return err
	}
	runK := func(n int) error {
		if err := lg(ri, "ks", n, ""); err != nil {
			return err
		}
		if err := next.ExecNext(ctx, qCtx); err != nil {
			return err
		}
		return lg(ri, "ke", n, "")
	}
	switch w.op {
	case "wstop":
		return nil
	case "wcont":
		return runK(1)
	case "wkeep":
		// keep the continuation and a copy of the query as it is now (cache's lazy update does this);
		// the driver runs it after the top-level Exec has returned
		if !ri.shadow {
			ri.nkeep++
			ltag := append(append([]int{}, ri.tag...), 1000+ri.nkeep)
			cq := qCtx.Copy()
			lri := &runInfo{tag: ltag, key: tagKey(ltag)}
			cq.StoreValue(runKey, lri)
			w.p.mu.Lock()
			w.p.kept = append(w.p.kept, &keptK{ri: lri, s: w.s, r: w.r, next: next, q: cq})
			w.p.mu.Unlock()
		}
		return runK(1)
	case "wpost":
		if err := runK(1); err != nil {
			return err
		}
		if err := lg(ri, "post", respOf(qCtx), ""); err != nil {
			return err
		}
		r := new(dns.Msg)
		r.SetReply(qCtx.Q())
		r.Rcode = 9
		qCtx.SetResponse(r)
		return nil
	case "wtwice":
		if err := runK(1); err != nil {
			return err
		}
		return runK(2)
	case "wconc":
		if err := lg(ri, "fork", 0, ""); err != nil {
			return err
		}
		var errs [2]error
		var wg sync.WaitGroup
		for c := 0; c < 2; c++ {
			ri.nch++
			ctag := append(append([]int{}, ri.tag...), ri.nch)
			cri := &runInfo{tag: ctag, key: tagKey(ctag), shadow: ri.shadow}
			cq := qCtx.Copy()
			cq.StoreValue(runKey, cri)
			wg.Add(1)
			go func(c int) {
				defer wg.Done()
				defer func() {
					if v := recover(); v != nil {
						errs[c] = fmt.Errorf("panic in copy: %v", v)
					}
				}()
				if err := lg(cri, "ks", 1, ""); err != nil {
					errs[c] = err
					return
				}
				if err := next.ExecNext(ctx, cq); err != nil {
					errs[c] = err
					return
				}
				errs[c] = lg(cri, "ke", respOf(cq), "")
			}(c)
		}
		wg.Wait()
		err := errs[0]
		if err == nil {
			err = errs[1]
		}
		if err != nil {
			if e := lg(ri, "join", 0, "err"); e != nil {
				return e
			}
			return err
		}
		return lg(ri, "join", 0, "ok")
	}
	return errors.New("harness: unknown wrapper op " + w.op)
}

func newExecPlugin(p *progCtx, s, r int, op string) any {
	switch op {
	case "nop", "set", "drop", "perr":
		return &hExec{p, s, r, op}
	default:
		return &hWrap{p, s, r, op}
	}
}

// quick-configurable plugins: "$qm s.r.i.K" / "$qx s.r.op"
type qm struct{ p *progCtx }

func (q *qm) Match(context.Context, *query_context.Context) (bool, error) {
	return false, errors.New("harness: unconfigured qm invoked")
}
func (q *qm) QuickConfigureMatch(args string) (sequence.Matcher, error) { return parseM(q.p, args) }

type qx struct{ p *progCtx }

func (q *qx) Exec(context.Context, *query_context.Context) error {
	return errors.New("harness: unconfigured qx invoked")
}
func (q *qx) QuickConfigureExec(args string) (any, error) { return parseX(q.p, args) }

func parseM(p *progCtx, args string) (sequence.Matcher, error) {
	f := strings.Split(args, ".")
	if len(f) != 4 {
		return nil, fmt.Errorf("harness: bad matcher args %q", args)
	}
	s, _ := strconv.Atoi(f[0])
	r, _ := strconv.Atoi(f[1])
	i, _ := strconv.Atoi(f[2])
	return &hMatcher{p, s, r, i, f[3]}, nil
}

func parseX(p *progCtx, args string) (any, error) {
	f := strings.Split(args, ".")
	if len(f) != 3 {
		return nil, fmt.Errorf("harness: bad exec args %q", args)
	}
	s, _ := strconv.Atoi(f[0])
	r, _ := strconv.Atoi(f[1])
	return newExecPlugin(p, s, r, f[2]), nil
}

// typed plugins: "vm <prog>:s.r.i.K" / "vx <prog>:s.r.op"
var progs sync.Map

func lookupProg(args string) (*progCtx, string, error) {
	id, rest, ok := strings.Cut(args, ":")
	v, ok2 := progs.Load(id)
	if !ok || !ok2 {
		return nil, "", fmt.Errorf("harness: unknown program in args %q", args)
	}
	return v.(*progCtx), rest, nil
}

func init() {
	sequence.MustRegMatchQuickSetup("vm", func(_ sequence.BQ, args string) (sequence.Matcher, error) {
		p, rest, err := lookupProg(args)
		if err != nil {
			return nil, err
		}
		return parseM(p, rest)
	})
	sequence.MustRegExecQuickSetup("vx", func(_ sequence.BQ, args string) (any, error) {
		p, rest, err := lookupProg(args)
		if err != nil {
			return nil, err
		}
		return parseX(p, rest)
	})
}

// ---- rendering --------------------------------------------------------------------------------

func pad(rng *rand.Rand, s string, canonical bool) string {
	if canonical {
		return s
	}
	sp := []string{"", " ", "  ", "\t"}
	return sp[rng.Intn(len(sp))] + s + sp[rng.Intn(len(sp))]
}

func gap(rng *rand.Rand, canonical bool) string {
	if canonical {
		return " "
	}
	return []string{" ", "  ", "   "}[rng.Intn(3)]
}

func renderMatch(p *progCtx, plugins map[string]any, s, r, i int, m Matcher, rng *rand.Rand, canonical bool) string {
	form := 0
	if !canonical {
		form = rng.Intn(3)
	}
	var body string
	switch form {
	case 0:
		tag := fmt.Sprintf("m_%d_%d_%d", s, r, i)
		plugins[tag] = &hMatcher{p, s, r, i, m.K}
		body = "$" + tag
	case 1:
		body = "vm" + gap(rng, canonical) + fmt.Sprintf("%s:%d.%d.%d.%s", p.id, s, r, i, m.K)
	default:
		body = "$qm" + gap(rng, canonical) + fmt.Sprintf("%d.%d.%d.%s", s, r, i, m.K)
	}
	if m.Neg {
		if canonical {
			body = "!" + body
		} else {
			body = "!" + []string{"", " ", "  "}[rng.Intn(3)] + body
		}
	}
	return pad(rng, body, canonical)
}

func renderExec(p *progCtx, plugins map[string]any, s, r int, a Act, rng *rand.Rand, canonical bool) string {
	var body string
	switch a.Op {
	case "accept", "return":
		body = a.Op
	case "reject":
		if a.Arg == 5 && (canonical || rng.Intn(2) == 0) {
			body = "reject" // default rcode REFUSED
		} else {
			body = "reject" + gap(rng, canonical) + strconv.Itoa(a.Arg)
		}
	case "jump", "goto":
		body = a.Op + gap(rng, canonical) + "s" + strconv.Itoa(a.Arg)
	default:
		form := 0
		if !canonical {
			form = rng.Intn(3)
		}
		switch form {
		case 0:
			tag := fmt.Sprintf("x_%d_%d", s, r)
			plugins[tag] = newExecPlugin(p, s, r, a.Op)
			body = "$" + tag
		case 1:
			body = "vx" + gap(rng, canonical) + fmt.Sprintf("%s:%d.%d.%s", p.id, s, r, a.Op)
		default:
			body = "$qx" + gap(rng, canonical) + fmt.Sprintf("%d.%d.%s", s, r, a.Op)
		}
	}
	return pad(rng, body, canonical)
}

// ---- one evaluation ---------------------------------------------------------------------------

// calls that did not return (each costs 20 s and leaves a goroutine spinning): after a few of them the
// driver stops early and the check judges what was recorded
var hangs atomic.Int32

const maxHangs = 3

var progSeq struct {
	sync.Mutex
	n int
}

func runOne(idx int, b *Beh, variant int, trace bool) (res Result) {
	res = Result{I: idx, Variant: variant}
	progSeq.Lock()
	progSeq.n++
	id := "p" + strconv.Itoa(progSeq.n)
	progSeq.Unlock()
	p := &progCtx{id: id, logs: map[string][]Entry{}, runs: map[string][]int{}, shadow: map[string][]Entry{},
		late: map[string]lateRes{}}
	progs.Store(id, p)
	defer progs.Delete(id)
	rng := rand.New(rand.NewSource(vh.Seed()*7919 + int64(idx)*131 + int64(variant)))
	canonical := variant == 0

	fail := func(field, diff, exp, got string) Result {
		res.OK, res.Field, res.Diff, res.Exp, res.Got = false, field, diff, exp, got
		p.mu.Lock()
		res.Events = append([]Event{{"ev": "Start", "prog": b.Prog}}, p.events...)
		p.mu.Unlock()
		return res
	}

	plugins := map[string]any{"qm": &qm{p}, "qx": &qx{p}}
	m := coremain.NewTestMosdnsWithPlugins(plugins)
	res.Text = make([][]string, len(b.Prog))
	var entry *sequence.Sequence
	var buildErr error
	func() {
		defer func() {
			if v := recover(); v != nil {
				buildErr = fmt.Errorf("panic while building: %v", v)
			}
		}()
		for s := len(b.Prog); s >= 1; s-- {
			var ra []sequence.RuleArgs
			for r, rule := range b.Prog[s-1] {
				var a sequence.RuleArgs
				for i, mt := range rule.Ms {
					a.Matches = append(a.Matches, renderMatch(p, plugins, s, r+1, i+1, mt, rng, canonical))
				}
				a.Exec = renderExec(p, plugins, s, r+1, rule.Act, rng, canonical)
				ra = append(ra, a)
				res.Text[s-1] = append(res.Text[s-1], strings.Join(a.Matches, " ; ")+" => "+a.Exec)
			}
			sq, err := sequence.NewSequence(coremain.NewBP("s"+strconv.Itoa(s), m), ra)
			if err != nil {
				buildErr = fmt.Errorf("s%d: %w", s, err)
				return
			}
			plugins["s"+strconv.Itoa(s)] = sq
			entry = sq
		}
	}()
	if buildErr != nil {
		return fail("build", "sequence.NewSequence rejected valid rule text", "built", buildErr.Error())
	}

	newQ := func(rootTag int, shadow bool) *query_context.Context {
		q := new(dns.Msg)
		q.SetQuestion("c06.test.", dns.TypeA)
		qc := query_context.NewContext(q)
		qc.StoreValue(runKey, &runInfo{tag: []int{rootTag}, key: strconv.Itoa(rootTag), shadow: shadow})
		return qc
	}
	qCtx := newQ(0, false)

	type outcome struct {
		err   error
		panic string
	}
	done := make(chan outcome, 1)
	go func() {
		defer func() {
			if v := recover(); v != nil {
				done <- outcome{panic: fmt.Sprintf("%v\n%s", v, debug.Stack())}
			}
		}()
		done <- outcome{err: entry.Exec(context.Background(), qCtx)}
	}()
	var out outcome
	select {
	case out = <-done:
	case <-time.After(20 * time.Second):
		hangs.Add(1)
		return fail("hang", "Sequence.Exec did not return within 20 s", "returns", "still running")
	}
	if out.panic != "" {
		return fail("panic", "Sequence.Exec panicked", "no panic", out.panic)
	}
	if errors.Is(out.err, errRunaway) {
		return fail("log", "a run logged more than any run of the specification can (cut off)", "terminates", "runaway")
	}

	gotErr := ErrID{K: "none"}
	if out.err != nil {
		var he *hErr
		if errors.As(out.err, &he) {
			gotErr = he.id
		} else {
			gotErr = ErrID{K: "other:" + out.err.Error()}
		}
	}
	gotResp := respOf(qCtx)
	p.mu.Lock()
	p.events = append(p.events, Event{"ev": "Return", "resp": gotResp, "err": gotErr})
	p.mu.Unlock()

	// kept continuations: run each one later, on its own copy of the query, after OTHER traffic went
	// through the same built sequences (another top-level run of the program, an unrelated jump)
	if d := lateRuns(p, plugins, m, entry, newQ, rng, canonical); d != "" {
		if d == "hang" {
			hangs.Add(1)
			return fail("hang", "a kept continuation did not return within 20 s", "returns", "still running")
		}
		return fail("panic", "a kept continuation / interfering run panicked", "no panic", d)
	}
	p.mu.Lock()
	nEntries := len(p.events) - 1
	p.mu.Unlock()
	res.Entries = nEntries

	// compare with the behaviour
	expRuns := map[string]*RunExp{}
	for i := range b.Runs {
		expRuns[tagKey(b.Runs[i].Tag)] = &b.Runs[i]
	}
	for k, er := range expRuns {
		got := p.logs[k]
		n := len(er.Log)
		if len(got) < n {
			n = len(got)
		}
		for i := 0; i < n; i++ {
			if got[i] != er.Log[i] {
				return fail("log", fmt.Sprintf("run %s entry %d differs", k, i+1), short(b, &er.Log[i]), short(b, &got[i]))
			}
		}
		if len(got) > len(er.Log) {
			return fail("log", fmt.Sprintf("run %s logged an unexpected entry %d", k, n+1), "end", short(b, &got[n]))
		}
		if len(got) < len(er.Log) {
			return fail("log", fmt.Sprintf("run %s stopped before expected entry %d", k, n+1), short(b, &er.Log[n]), "end")
		}
	}
	for k, lr := range p.late {
		er := expRuns[k]
		if er == nil {
			continue // reported below: a run the specification does not have
		}
		if lr.err != er.Err {
			return fail("err", "a kept continuation run later returned another error (run "+k+")", errKind(er.Err), errKind(lr.err))
		}
		if lr.resp != er.Resp {
			return fail("resp", "a kept continuation run later left another response (run "+k+")", strconv.Itoa(er.Resp), strconv.Itoa(lr.resp))
		}
	}
	// an interfering top-level run of the same program must log what the first one logged
	for sk, got := range p.shadow {
		rest := ""
		if i := strings.IndexByte(sk, '.'); i >= 0 {
			rest = sk[i:]
		}
		er := expRuns["0"+rest]
		if er == nil {
			return fail("runs", "second top-level run: a query copy the specification does not have: "+sk, "no run", short(b, &got[0]))
		}
		if len(got) != len(er.Log) {
			return fail("log", fmt.Sprintf("second top-level run %s logged %d entries instead of %d", sk, len(got), len(er.Log)), "same as first run", "differs")
		}
		for i := range got {
			if got[i] != er.Log[i] {
				return fail("log", fmt.Sprintf("second top-level run %s entry %d differs", sk, i+1), short(b, &er.Log[i]), short(b, &got[i]))
			}
		}
	}
	for k := range p.logs {
		if _, ok := expRuns[k]; !ok {
			return fail("runs", "a query copy the specification does not have logged entries: "+k, "no run "+k, short(b, &p.logs[k][0]))
		}
	}
	if gotErr != b.Err {
		return fail("err", "returned error differs", fmt.Sprintf("%s", errKind(b.Err)), fmt.Sprintf("%s", errKind(gotErr)))
	}
	if gotResp != b.Resp {
		return fail("resp", "final response differs", strconv.Itoa(b.Resp), strconv.Itoa(gotResp))
	}
	res.OK = true
	if trace {
		res.Events = append([]Event{{"ev": "Start", "prog": b.Prog}}, p.events...)
	} else {
		res.Text = nil
	}
	return res
}

func errID(err error) ErrID {
	if err == nil {
		return ErrID{K: "none"}
	}
	var he *hErr
	if errors.As(err, &he) {
		return he.id
	}
	return ErrID{K: "other:" + err.Error()}
}

type nopExec struct{}

func (nopExec) Exec(context.Context, *query_context.Context) error { return nil }

// lateRuns runs the kept continuations (also those kept by late runs themselves).  Returns "" or
// "hang" / a panic text.
func lateRuns(p *progCtx, plugins map[string]any, m *coremain.Mosdns, entry *sequence.Sequence,
	newQ func(int, bool) *query_context.Context, rng *rand.Rand, canonical bool) (bad string) {
	p.mu.Lock()
	n := len(p.kept)
	p.mu.Unlock()
	if n == 0 {
		return ""
	}
	// unrelated traffic: another program whose jump returns somewhere else
	plugins["auxn"] = nopExec{}
	aux2, err := sequence.NewSequence(coremain.NewBP("aux2", m), []sequence.RuleArgs{{Exec: "$auxn"}})
	if err != nil {
		return "aux2: " + err.Error()
	}
	plugins["aux2"] = aux2
	aux1, err := sequence.NewSequence(coremain.NewBP("aux1", m), []sequence.RuleArgs{{Exec: "$auxn"}, {Exec: "jump aux2"}, {Exec: "$auxn"}, {Exec: "jump aux2"}})
	if err != nil {
		return "aux1: " + err.Error()
	}
	guard := func(f func()) (out string) {
		done := make(chan string, 1)
		go func() {
			defer func() {
				if v := recover(); v != nil {
					done <- fmt.Sprintf("%v\n%s", v, debug.Stack())
				}
			}()
			f()
			done <- ""
		}()
		select {
		case out = <-done:
			return out
		case <-time.After(20 * time.Second):
			return "hang"
		}
	}
	shadowN := 7
	interfere := func() string {
		return guard(func() {
			_ = aux1.Exec(context.Background(), newQ(99, true))
			shadowN++
			_ = entry.Exec(context.Background(), newQ(shadowN, true))
			_ = aux1.Exec(context.Background(), newQ(99, true))
		})
	}
	for i := 0; ; i++ {
		p.mu.Lock()
		if i >= len(p.kept) {
			p.mu.Unlock()
			return ""
		}
		k := p.kept[i]
		p.mu.Unlock()
		if d := interfere(); d != "" {
			return d
		}
		concurrent := !canonical && rng.Intn(2) == 0
		var wg sync.WaitGroup
		var cbad string
		if concurrent {
			// ... and concurrently with a further top-level run and unrelated jumps
			wg.Add(1)
			go func() {
				defer wg.Done()
				cbad = interfere()
			}()
		}
		d := guard(func() {
			lg := func(t string, mm int) error { return p.log(k.ri, Entry{t, k.s, k.r, mm, ""}) }
			var err error
			if err = lg("ks", 1); err == nil {
				if err = k.next.ExecNext(context.Background(), k.q); err == nil {
					err = lg("ke", respOf(k.q))
				}
			}
			p.mu.Lock()
			lr := lateRes{err: errID(err), resp: respOf(k.q)}
			p.late[k.ri.key] = lr
			p.events = append(p.events, Event{"ev": "LateReturn", "tag": k.ri.tag, "resp": lr.resp, "err": lr.err})
			p.mu.Unlock()
		})
		wg.Wait()
		if d != "" {
			return d
		}
		if cbad != "" {
			return cbad
		}
	}
}

func errKind(e ErrID) string {
	if e.K == "none" || strings.HasPrefix(e.K, "other:") {
		return e.K
	}
	return fmt.Sprintf("%s@%d.%d.%d", e.K, e.S, e.R, e.M)
}

// short names an entry without its position but with what the rule is (for violation signatures)
func short(b *Beh, e *Entry) string {
	act := "?"
	if e.S >= 1 && e.S <= len(b.Prog) && e.R >= 1 && e.R <= len(b.Prog[e.S-1]) {
		act = b.Prog[e.S-1][e.R-1].Act.Op
	}
	switch e.T {
	case "m":
		return "matcher-" + e.V + "-of-" + act
	case "a":
		return "action-" + e.V
	default:
		return e.T + "-of-" + act
	}
}

func main() {
	var job Job
	job.OnlyVar = -1
	if err := vh.ReadJob(&job); err != nil {
		fmt.Fprintln(os.Stderr, "job:", err)
		os.Exit(3)
	}
	if job.Workers == 0 {
		job.Workers = 8
	}
	if job.Variants == 0 {
		job.Variants = 1
	}
	type item struct{ idx, variant, n int }
	ch := make(chan item, 64)
	var wg sync.WaitGroup
	for w := 0; w < job.Workers; w++ {
		wg.Add(1)
		go func() {
			defer wg.Done()
			for it := range ch {
				if hangs.Load() >= maxHangs {
					continue
				}
				trace := job.TraceEvery > 0 && it.n%job.TraceEvery == 0
				vh.Emit(runOne(it.idx, &job.Behaviours[it.idx], it.variant, trace))
			}
		}()
	}
	n := 0
	for i := range job.Behaviours {
		for v := 0; v < job.Variants; v++ {
			if job.OnlyVar >= 0 && v != job.OnlyVar {
				continue
			}
			ch <- item{i, v, n}
			n++
		}
	}
	close(ch)
	wg.Wait()
	vh.Flush()
}
