//go:build verif

// drv_handler: leg B/C driver for C03 and C15.
//
// Reads a job {"cases":[...]} on stdin. Every case describes a client query (abstract shape from
// Handler.tla + concretization chosen by checks/handler_common.py), a chain of REAL mosdns plugins
// (built from config text through sequence.NewSequence / the plugins' constructors), the script of
// the harness upstream(s) and the transport. The driver inserts observer executables in front of
// every rule and behind the last one, sends the query through EntryHandler.Handle (directly or via
// pkg/server UDP / TCP / HTTP) and prints one result per case with the recorded traces:
//
//	Query/Branch, Down, Up, Seen, Reply/NoReply, CacheDump   (see spec/Handler_Trace.tla)
//
// The driver does not judge: it concretizes, drives, records. Tokens ("own", "redir", "other";
// option tokens cE cC cP uE uC uP pE) are the abstraction of ids / questions / EDNS options.
package main

import (
	"bytes"
	"compress/gzip"
	"context"
	"encoding/base64"
	"encoding/binary"
	"encoding/hex"
	"errors"
	"fmt"
	"io"
	"net"
	"net/http"
	"net/http/httptest"
	"net/netip"
	"os"
	"sort"
	"strings"
	"sync"
	"time"

	"github.com/IrineSistiana/mosdns/v5/coremain"
	"github.com/IrineSistiana/mosdns/v5/pkg/pool"
	"github.com/IrineSistiana/mosdns/v5/pkg/query_context"
	"github.com/IrineSistiana/mosdns/v5/pkg/server"
	"github.com/IrineSistiana/mosdns/v5/pkg/server_handler"
	"github.com/IrineSistiana/mosdns/v5/plugin/executable/arbitrary"
	_ "github.com/IrineSistiana/mosdns/v5/plugin/executable/black_hole"
	"github.com/IrineSistiana/mosdns/v5/plugin/executable/cache"
	_ "github.com/IrineSistiana/mosdns/v5/plugin/executable/dual_selector"
	"github.com/IrineSistiana/mosdns/v5/plugin/executable/ecs_handler"
	fastforward "github.com/IrineSistiana/mosdns/v5/plugin/executable/forward"
	_ "github.com/IrineSistiana/mosdns/v5/plugin/executable/forward_edns0opt"
	"github.com/IrineSistiana/mosdns/v5/plugin/executable/hosts"
	"github.com/IrineSistiana/mosdns/v5/plugin/executable/redirect"
	"github.com/IrineSistiana/mosdns/v5/plugin/executable/sequence"
	"github.com/IrineSistiana/mosdns/v5/plugin/executable/sequence/fallback"
	_ "github.com/IrineSistiana/mosdns/v5/plugin/executable/ttl"
	"github.com/miekg/dns"
	"google.golang.org/protobuf/proto"

	"verif/harness/vh"
)

// ---------------------------------------------------------------- job format

type COpt struct {
	Size uint16   `json:"size"`
	Do   bool     `json:"do"`
	Ver  uint8    `json:"ver"`
	Opts []string `json:"opts"`
}

type Script struct {
	C     string   `json:"c"` // ans | none | err
	Rcode int      `json:"rcode"`
	Size  int      `json:"size"` // target length of the answer (uncompressed), 0 = minimal
	Tc    bool     `json:"tc"`
	Opts  []string `json:"opts"` // upstream OPT option tokens
	NoOpt bool     `json:"noopt"`
	NsRec int      `json:"nsrec"` // extra records in the authority section
	Pre   int      `json:"pre"`   // other additional records in front of the OPT (0..2)
	Post  int      `json:"post"`  // other additional records behind the OPT (0..2)
	Fill  string   `json:"fill"`  // "a": fill the answer with A records (16 octets each when compressed)
	Delay int      `json:"delay"` // ms the terminal upstream waits before it answers
}

type Node struct {
	Kind      string  `json:"kind"`
	Impl      string  `json:"impl"`
	Arg       string  `json:"arg"`
	Ans       bool    `json:"ans"`
	Match     bool    `json:"match"`
	Hit       bool    `json:"hit"`
	Key       string  `json:"key"`
	Collide   string  `json:"collide"`
	Lazy      bool    `json:"lazy"` // cache with lazy_cache_ttl; the hit is a stale (expired) entry
	Forward   bool    `json:"forward"`
	Preset    bool    `json:"preset"`
	Send      bool    `json:"send"`
	Script    *Script `json:"script"`
	Standby   bool    `json:"standby"`
	Primary   []Node  `json:"primary"`
	Secondary []Node  `json:"secondary"`
}

type Case struct {
	Idx   int    `json:"idx"`
	Mode  string `json:"mode"` // direct | udp | tcp | httpget | httppost
	Tr    string `json:"tr"`   // udp | tcp  (abstract transport)
	Mal   string `json:"mal"`
	Opt   *COpt  `json:"opt"`
	Nodes []Node `json:"nodes"`
	// concretization
	ID     uint16 `json:"id"`
	Name   string `json:"name"`
	Target string `json:"target"` // redirect target
	Qtype  uint16 `json:"qtype"`
	Qclass uint16 `json:"qclass"`
	Flags  uint16 `json:"flags"` // header flag word with QR cleared
	Settle int    `json:"settle"` // ms to wait for straggling copies (dual_selector / fallback)
	Pair   bool   `json:"pair"`   // two interleaved clients (IDs id and id^0x1111) hit the same stale cache entry
	Follow bool   `json:"follow"` // after the query, a second client (ID id+0x0101) asks for the redirect TARGET name
	Chunk  string `json:"chunk"`  // tcp: how the client writes a frame: whole | prefix11 | prefix_body | bytes
	Reps   int    `json:"reps"`   // tcp: queries (IDs id, id+1, ...) sent one after the other on the same connection
}

type Job struct {
	Cases   []Case `json:"cases"`
	Workers int    `json:"workers"`
}

type Event map[string]any

type Result struct {
	Idx    int       `json:"idx"`
	Traces [][]Event `json:"traces"`
	Kinds  []string  `json:"kinds"`
	Why    string    `json:"why,omitempty"` // set-up problem (not a verdict)
	Panic  string    `json:"panic,omitempty"`
}

// ---------------------------------------------------------------- option tokens

var (
	cEaddr = net.IP{198, 51, 100, 0}
	uEaddr = net.IP{203, 0, 113, 0}
	pEaddr = "192.0.2.77"
)

func optionFor(tok string) dns.EDNS0 {
	switch tok {
	case "cE":
		return &dns.EDNS0_SUBNET{Code: dns.EDNS0SUBNET, Family: 1, SourceNetmask: 24, Address: cEaddr}
	case "uE":
		return &dns.EDNS0_SUBNET{Code: dns.EDNS0SUBNET, Family: 1, SourceNetmask: 24, SourceScope: 24, Address: uEaddr}
	case "cC":
		return &dns.EDNS0_COOKIE{Code: dns.EDNS0COOKIE, Cookie: "0102030405060708"}
	case "uC":
		return &dns.EDNS0_COOKIE{Code: dns.EDNS0COOKIE, Cookie: "0102030405060708aabbccddeeff0011"}
	case "cP":
		return &dns.EDNS0_PADDING{Padding: bytes.Repeat([]byte{0}, 7)}
	case "uP":
		return &dns.EDNS0_PADDING{Padding: bytes.Repeat([]byte{0}, 5)}
	}
	return &dns.EDNS0_LOCAL{Code: 65001, Data: []byte(tok)}
}

func tokenOf(o dns.EDNS0) string {
	switch v := o.(type) {
	case *dns.EDNS0_SUBNET:
		switch {
		case v.Address.Equal(cEaddr):
			return "cE"
		case v.Address.Equal(uEaddr):
			return "uE"
		}
		return "pE" // neither the client's nor the upstream's: generated by a plugin (preset / client address)
	case *dns.EDNS0_COOKIE:
		switch v.Cookie {
		case "0102030405060708":
			return "cC"
		case "0102030405060708aabbccddeeff0011":
			return "uC"
		}
		return "cookie:" + v.Cookie
	case *dns.EDNS0_PADDING:
		switch len(v.Padding) {
		case 7:
			return "cP"
		case 5:
			return "uP"
		}
		return fmt.Sprintf("padding:%d", len(v.Padding))
	}
	return fmt.Sprintf("code:%d", o.Option())
}

func tokensOf(opt *dns.OPT) []string {
	out := []string{}
	if opt == nil {
		return out
	}
	seen := map[string]bool{}
	for _, o := range opt.Option {
		t := tokenOf(o)
		if seen[t] {
			continue // the same option forwarded by two plugins: a set in the model
		}
		seen[t] = true
		out = append(out, t)
	}
	sort.Strings(out)
	return out
}

func countOpt(rrs []dns.RR) (n int, last *dns.OPT) {
	for _, rr := range rrs {
		if o, ok := rr.(*dns.OPT); ok {
			n++
			last = o
		}
	}
	return
}

// ---------------------------------------------------------------- per-case run state

type trace struct {
	events []Event
	baseID uint16
	baseQ  dns.Question
	client bool // a client's context (not a copy)
	bound  bool // a context has been seen for it
	wantID uint16
}

type caseRun struct {
	c         *Case
	mu        sync.Mutex
	traces    map[*query_context.Context]*trace
	order     []*trace
	main      *trace
	clientOpts []*dns.OPT // the OPT objects handed to Handle (direct mode)
	clients    []*trace
	gatePos    int // pair cases: observer position at which both clients meet (behind the cache)
	arrived    int
	gate       chan struct{}
	kinds     []string // abstract chain of the main sequence
	seqKinds  map[string][]string
	closers   []io.Closer
	caches    []*cache.Cache
	quiet     bool // warm-up in progress: observers / upstreams do not record
	fwdMain   bool // loopback server events go to the main trace
}

func (cs *caseRun) qqTok(t *trace, q dns.Question) string {
	if q == t.baseQ {
		return "own"
	}
	if cs.c.Target != "" && q.Name == cs.c.Target && q.Qtype == t.baseQ.Qtype && q.Qclass == t.baseQ.Qclass {
		return "redir"
	}
	return "other"
}

func idTok(t *trace, id uint16) string {
	if id == t.baseID {
		return "own"
	}
	return "other"
}

func optObj(o *COpt) any {
	if o == nil {
		return map[string]any{"k": "none"}
	}
	opts := append([]string{}, o.Opts...)
	sort.Strings(opts)
	return map[string]any{"k": "opt", "size": int(o.Size), "do": o.Do, "ver": int(o.Ver), "opts": opts}
}

func coptOf(opt *dns.OPT) any {
	if opt == nil {
		return map[string]any{"k": "none"}
	}
	return map[string]any{"k": "opt", "size": int(opt.UDPSize()), "do": opt.Do(), "ver": int(opt.Version()), "opts": tokensOf(opt)}
}

// snapshot of the context; qobj = the query object to read id / question / OPT from
func (cs *caseRun) snap(t *trace, qCtx *query_context.Context, qobj *dns.Msg) map[string]any {
	s := map[string]any{}
	s["qid"] = idTok(t, qobj.Id)
	if len(qobj.Question) == 1 {
		s["qq"] = cs.qqTok(t, qobj.Question[0])
	} else {
		s["qq"] = "other"
	}
	n, last := countOpt(qobj.Extra)
	s["qnopt"] = n
	s["qfresh"] = cs.fresh(last)
	s["qopts"] = tokensOf(last)
	if r := qCtx.R(); r != nil {
		m := map[string]any{"k": "msg", "id": idTok(t, r.Id)}
		if len(r.Question) == 1 {
			m["qq"] = cs.qqTok(t, r.Question[0])
		} else {
			m["qq"] = "other"
		}
		rn, _ := countOpt(r.Extra)
		m["nopt"] = rn
		m["rcode"] = r.Rcode
		m["nrec"] = len(r.Answer) + len(r.Ns) + len(r.Extra) - rn
		m["tc"] = r.Truncated
		s["r"] = m
	} else {
		s["r"] = map[string]any{"k": "none"}
	}
	if u := qCtx.UpstreamOpt(); u != nil {
		s["uopt"] = map[string]any{"k": "opt", "opts": tokensOf(u)}
	} else {
		s["uopt"] = map[string]any{"k": "none"}
	}
	if ro := qCtx.RespOpt(); ro != nil {
		s["ropt"] = map[string]any{"k": "opt", "do": ro.Do(), "opts": tokensOf(ro)}
	} else {
		s["ropt"] = map[string]any{"k": "none"}
	}
	return s
}

// fresh: the OPT an upstream / plugin sees is not the client's record
func (cs *caseRun) fresh(o *dns.OPT) bool {
	if o == nil {
		return true
	}
	for _, co := range cs.clientOpts {
		if o == co {
			return false
		}
	}
	if c := cs.c.Opt; c != nil {
		distinctive := c.Ver != 0 || (c.Size != 1200 && c.Size != 1220 && c.Size != 1232 && c.Size != 1280 && c.Size != 1400 && c.Size != 1452 && c.Size != 4096 && c.Size != 512)
		if distinctive && o.UDPSize() == c.Size && o.Version() == c.Ver {
			return false
		}
		if c.Ver != 0 && o.Version() == c.Ver {
			return false
		}
	}
	return true
}

// traceFor returns the trace of this context (by pointer); the first context seen is the client's,
// every other one is a copy entering sequence seq at pos.
func (cs *caseRun) traceFor(qCtx *query_context.Context, seq string, pos int) *trace {
	if t, ok := cs.traces[qCtx]; ok {
		return t
	}
	var t *trace
	if seq == "main" && pos == 1 {
		// a client's context: bind it to the pending client with this ID (else to the first unbound one)
		id := qCtx.Q().Id
		for _, ct := range cs.clients {
			if !ct.bound && ct.wantID == id {
				t = ct
				break
			}
		}
		if t == nil {
			for _, ct := range cs.clients {
				if !ct.bound {
					t = ct
					break
				}
			}
		}
	}
	if t != nil {
		t.bound = true
		q := qCtx.Q()
		t.baseID = t.wantID
		if len(q.Question) > 0 {
			t.baseQ = q.Question[0]
		}
	} else {
		t = &trace{}
		q := qCtx.Q()
		t.baseID = q.Id
		if len(q.Question) > 0 {
			t.baseQ = q.Question[0]
		}
		ev := Event{"ev": "Branch", "chain": cs.seqKinds[seq], "start": pos, "copt": coptOf(qCtx.ClientOpt()), "seq": seq}
		ev["s"] = cs.snap(t, qCtx, q)
		t.events = append(t.events, ev)
		cs.order = append(cs.order, t)
	}
	cs.traces[qCtx] = t
	return t
}

// ---------------------------------------------------------------- harness executables

type observer struct {
	cs  *caseRun
	seq string
	pos int
}

func (o *observer) Exec(ctx context.Context, qCtx *query_context.Context, next sequence.ChainWalker) error {
	cs := o.cs
	cs.mu.Lock()
	if cs.quiet {
		cs.mu.Unlock()
		return next.ExecNext(ctx, qCtx)
	}
	t := cs.traceFor(qCtx, o.seq, o.pos)
	qobj := qCtx.Q()
	t.events = append(t.events, Event{"ev": "Down", "pos": o.pos, "s": cs.snap(t, qCtx, qobj), "seq": o.seq})
	var gate chan struct{}
	if cs.c.Pair && t.client && o.seq == "main" && o.pos == cs.gatePos {
		cs.arrived++
		if cs.arrived == len(cs.clients) {
			close(cs.gate)
		}
		gate = cs.gate
	}
	cs.mu.Unlock()
	if gate != nil {
		select { // both clients are behind the cache before either goes on
		case <-gate:
		case <-time.After(2 * time.Second):
		}
	}
	err := next.ExecNext(ctx, qCtx)
	cs.mu.Lock()
	ev := Event{"ev": "Up", "pos": o.pos, "s": cs.snap(t, qCtx, qobj), "err": err != nil, "seq": o.seq}
	if err != nil {
		ev["errtext"] = err.Error()
	}
	t.events = append(t.events, ev)
	cs.mu.Unlock()
	return err
}

var errScripted = errors.New("scripted upstream error")

// buildAnswer builds the scripted upstream answer for query q (echoes ID and question).
func buildAnswer(q *dns.Msg, sc *Script) *dns.Msg {
	r := new(dns.Msg)
	r.SetReply(q)
	r.Rcode = sc.Rcode & 0xF
	r.Truncated = sc.Tc
	name := "."
	if len(q.Question) > 0 {
		name = q.Question[0].Name
	}
	glue := func(i int) dns.RR {
		return &dns.A{Hdr: dns.RR_Header{Name: fmt.Sprintf("glue%d.invalid.", i), Rrtype: dns.TypeA, Class: dns.ClassINET, Ttl: 300}, A: net.IP{192, 0, 2, byte(100 + i)}}
	}
	for i := 0; i < sc.Pre; i++ {
		r.Extra = append(r.Extra, glue(i))
	}
	if !sc.NoOpt {
		o := &dns.OPT{Hdr: dns.RR_Header{Name: ".", Rrtype: dns.TypeOPT}}
		o.SetUDPSize(1452)
		for _, t := range sc.Opts {
			o.Option = append(o.Option, optionFor(t))
		}
		if sc.Rcode > 0xF {
			o.SetExtendedRcode(uint16(sc.Rcode))
		}
		r.Extra = append(r.Extra, o)
	}
	for i := 0; i < sc.Post; i++ {
		r.Extra = append(r.Extra, glue(10+i))
	}
	if sc.Rcode > 0xF {
		r.Rcode = sc.Rcode
	}
	for i := 0; i < sc.NsRec; i++ {
		r.Ns = append(r.Ns, &dns.NS{Hdr: dns.RR_Header{Name: name, Rrtype: dns.TypeNS, Class: dns.ClassINET, Ttl: 300}, Ns: fmt.Sprintf("ns%d.invalid.", i)})
	}
	if sc.Size <= 0 {
		return r
	}
	// fill the answer section with TXT records up to the target (uncompressed) length
	mk := func(n int) *dns.TXT {
		t := &dns.TXT{Hdr: dns.RR_Header{Name: name, Rrtype: dns.TypeTXT, Class: dns.ClassINET, Ttl: 300}}
		for n > 0 {
			k := n
			if k > 200 {
				k = 200
			}
			t.Txt = append(t.Txt, strings.Repeat("x", k))
			n -= k
		}
		return t
	}
	r.Answer = append(r.Answer, &dns.A{Hdr: dns.RR_Header{Name: name, Rrtype: dns.TypeA, Class: dns.ClassINET, Ttl: 300}, A: net.IP{192, 0, 2, 1}})
	if sc.Fill == "a" {
		// small records: after a truncation the reply ends within 16 octets of the limit
		for i := 2; r.Len() < sc.Size && i < 5000; i++ {
			r.Answer = append(r.Answer, &dns.A{Hdr: dns.RR_Header{Name: name, Rrtype: dns.TypeA, Class: dns.ClassINET, Ttl: 300}, A: net.IP{192, 0, byte(i >> 8), byte(i)}})
		}
		return r
	}
	for r.Len() < sc.Size {
		rest := sc.Size - r.Len()
		per := len(name) + 1 + 10 + 1 // owner (approx) + fixed + one length octet
		if rest <= per+1 {
			break
		}
		n := rest - per - 1
		if n > 180 {
			n = 180
		}
		if n < 1 {
			n = 1
		}
		r.Answer = append(r.Answer, mk(n))
	}
	// exact adjustment of the last TXT
	for tries := 0; tries < 8 && r.Len() != sc.Size && len(r.Answer) > 1; tries++ {
		last := r.Answer[len(r.Answer)-1].(*dns.TXT)
		cur := 0
		for _, s := range last.Txt {
			cur += len(s)
		}
		want := cur + sc.Size - r.Len()
		if want < 1 || want > 200 {
			break
		}
		last.Txt = []string{strings.Repeat("x", want)}
	}
	return r
}

type terminal struct {
	cs     *caseRun
	script *Script
	warm   bool
	ttl    uint32
}

func (u *terminal) Exec(ctx context.Context, qCtx *query_context.Context) error {
	cs := u.cs
	if u.warm {
		r := new(dns.Msg)
		r.SetReply(qCtx.Q())
		n := qCtx.QQuestion().Name
		for i := 0; i < 2; i++ {
			r.Answer = append(r.Answer, &dns.A{Hdr: dns.RR_Header{Name: n, Rrtype: dns.TypeA, Class: dns.ClassINET, Ttl: u.ttl}, A: net.IP{192, 0, 2, byte(50 + i)}})
		}
		o := &dns.OPT{Hdr: dns.RR_Header{Name: ".", Rrtype: dns.TypeOPT}}
		o.SetUDPSize(1452)
		o.Option = append(o.Option, optionFor("uP"), optionFor("uC"))
		r.Extra = append(r.Extra, o)
		r.Extra = append(r.Extra, &dns.A{Hdr: dns.RR_Header{Name: "glue.invalid.", Rrtype: dns.TypeA, Class: dns.ClassINET, Ttl: u.ttl}, A: net.IP{192, 0, 2, 99}})
		qCtx.SetResponse(r)
		return nil
	}
	cs.mu.Lock()
	if t, ok := cs.traces[qCtx]; ok && !cs.quiet {
		q := qCtx.Q()
		n, last := countOpt(q.Extra)
		t.events = append(t.events, Event{"ev": "Seen", "nopt": n, "fresh": cs.fresh(last), "opts": tokensOf(last), "via": "terminal"})
	}
	cs.mu.Unlock()
	if u.script.Delay > 0 {
		time.Sleep(time.Duration(u.script.Delay) * time.Millisecond)
	}
	switch u.script.C {
	case "err":
		return errScripted
	case "none":
		return nil
	}
	qCtx.SetResponse(buildAnswer(qCtx.Q(), u.script))
	// what this upstream actually put into its answer's OPT: the model's upstream OPT right after this step must be
	// exactly that (a response without OPT that replaces one with an OPT leaves NO upstream OPT behind)
	cs.mu.Lock()
	if t, ok := cs.traces[qCtx]; ok && !cs.quiet {
		o := []string{"-"}
		if !u.script.NoOpt {
			o = append([]string{}, u.script.Opts...)
		}
		t.events = append(t.events, Event{"ev": "UpAns", "o": o})
	}
	cs.mu.Unlock()
	return nil
}

// loopback upstream behind the real forward plugin
type loopUpstream struct {
	cs     *caseRun
	script *Script
	pc     net.PacketConn
	ln     net.Listener
	wg     sync.WaitGroup
}

func (l *loopUpstream) handle(b []byte) []byte {
	q := new(dns.Msg)
	if err := q.Unpack(b); err != nil {
		return nil
	}
	cs := l.cs
	cs.mu.Lock()
	if !cs.quiet && cs.main != nil {
		n, last := countOpt(q.Extra)
		cs.main.events = append(cs.main.events, Event{"ev": "Seen", "nopt": n, "fresh": cs.fresh(last), "opts": tokensOf(last), "via": "loopback"})
	}
	cs.mu.Unlock()
	if l.script.C != "ans" {
		// a question whose name overruns the message: forward fails to unpack it => error
		out := make([]byte, 14)
		copy(out, b[:2])
		out[2], out[5] = 0x80, 1
		out[12], out[13] = 0x3f, 'a' // label of 63 octets, 1 present
		return out
	}
	r := buildAnswer(q, l.script)
	out, err := r.Pack()
	if err != nil {
		return nil
	}
	return out
}

func (l *loopUpstream) serveUDP() {
	defer l.wg.Done()
	buf := make([]byte, 65535)
	for {
		n, addr, err := l.pc.ReadFrom(buf)
		if err != nil {
			return
		}
		if out := l.handle(append([]byte{}, buf[:n]...)); out != nil {
			l.pc.WriteTo(out, addr)
		}
	}
}

func (l *loopUpstream) serveTCP() {
	defer l.wg.Done()
	for {
		c, err := l.ln.Accept()
		if err != nil {
			return
		}
		go func() {
			defer c.Close()
			for {
				var h [2]byte
				if _, err := io.ReadFull(c, h[:]); err != nil {
					return
				}
				b := make([]byte, binary.BigEndian.Uint16(h[:]))
				if _, err := io.ReadFull(c, b); err != nil {
					return
				}
				out := l.handle(b)
				if out == nil {
					return
				}
				w := make([]byte, 2+len(out))
				binary.BigEndian.PutUint16(w, uint16(len(out)))
				copy(w[2:], out)
				if _, err := c.Write(w); err != nil {
					return
				}
			}
		}()
	}
}

func (l *loopUpstream) Close() error {
	if l.pc != nil {
		l.pc.Close()
	}
	if l.ln != nil {
		l.ln.Close()
	}
	l.wg.Wait()
	return nil
}

// ---------------------------------------------------------------- building the real chain

type builder struct {
	cs      *caseRun
	plugins map[string]any
	m       *coremain.Mosdns
	n       int
}

func (b *builder) tag(p string) string {
	b.n++
	return fmt.Sprintf("%s%d", p, b.n)
}

func (b *builder) add(p string, v any) string {
	t := b.tag(p)
	b.plugins[t] = v
	if c, ok := v.(io.Closer); ok {
		b.cs.closers = append(b.cs.closers, c)
	}
	return "$" + t
}

// rule returns the exec string of a node (tagged plugins are created through their constructors)
func (b *builder) rule(n *Node, seqName string) (string, error) {
	c := b.cs.c
	switch n.Impl {
	case "reject":
		return fmt.Sprintf("reject %s", n.Arg), nil
	case "accept":
		return "accept", nil
	case "black_hole":
		if n.Ans {
			return "black_hole 192.0.2.9 2001:db8::9", nil
		}
		if c.Qtype == dns.TypeA {
			return "black_hole 2001:db8::9", nil
		}
		if c.Qtype == dns.TypeAAAA {
			return "black_hole 192.0.2.9", nil
		}
		return "black_hole 192.0.2.9 2001:db8::9", nil
	case "hosts":
		name := "absent." + c.Name
		if len(name) > 250 {
			name = "absent.invalid."
		}
		if n.Ans {
			name = c.Name
		}
		h, err := hosts.NewHosts(&hosts.Args{Entries: []string{"full:" + name + " 192.0.2.7 192.0.2.8 2001:db8::7"}})
		if err != nil {
			return "", err
		}
		return b.add("hosts", h), nil
	case "arbitrary":
		name := "absent.invalid."
		if n.Ans {
			name = c.Name
		}
		typ := "A 192.0.2.6"
		if c.Qtype == dns.TypeAAAA {
			typ = "AAAA 2001:db8::6"
		}
		a, err := arbitrary.NewArbitrary(&arbitrary.Args{Rules: []string{name + " 60 IN " + typ}})
		if err != nil {
			return "", err
		}
		return b.add("arb", a), nil
	case "ttl":
		return "ttl " + n.Arg, nil
	case "redirect":
		name := "nomatch.invalid."
		if n.Match {
			name = c.Name
		}
		r, err := redirect.NewRedirect(&redirect.Args{Rules: []string{"full:" + name + " " + c.Target}})
		if err != nil {
			return "", err
		}
		return b.add("redir", r), nil
	case "cache":
		args := &cache.Args{}
		if n.Lazy {
			args.LazyCacheTTL = 3600
		}
		ca := cache.NewCache(args, cache.Opts{})
		b.cs.caches = append(b.cs.caches, ca)
		t := b.add("cache", ca)
		if n.Hit {
			// warm-up sequence sharing the cache instance
			wttl := uint32(300)
			if n.Lazy {
				wttl = 1
			}
			wt := b.add("warmup", &terminal{cs: b.cs, warm: true, ttl: wttl})
			ws, err := sequence.NewSequence(sequence.NewBQ(b.m, b.m.Logger()), []sequence.RuleArgs{{Exec: t}, {Exec: wt}})
			if err != nil {
				return "", err
			}
			b.cs.closers = append(b.cs.closers, ws)
			if err := b.warm(ws, n); err != nil {
				return "", err
			}
			if n.Lazy {
				time.Sleep(1200 * time.Millisecond) // the stored answer (TTL 1) expires, the entry stays
			}
		}
		return t, nil
	case "ecs_handler":
		a := ecs_handler.Args{Forward: n.Forward, Send: n.Send}
		if n.Preset {
			a.Preset = pEaddr
		}
		h, err := ecs_handler.NewHandler(a)
		if err != nil {
			return "", err
		}
		return b.add("ecs", h), nil
	case "ecs":
		if n.Preset {
			return "ecs " + pEaddr, nil
		}
		return "ecs", nil
	case "forward_edns0opt":
		return "forward_edns0opt " + n.Arg, nil
	case "prefer_ipv4", "prefer_ipv6":
		return n.Impl, nil
	case "terminal":
		return b.add("up", &terminal{cs: b.cs, script: n.Script}), nil
	case "forward_udp", "forward_tcp":
		lu := &loopUpstream{cs: b.cs, script: n.Script}
		var addr string
		if n.Impl == "forward_udp" {
			pc, err := net.ListenPacket("udp", "127.0.0.1:0")
			if err != nil {
				return "", err
			}
			lu.pc = pc
			addr = "udp://" + pc.LocalAddr().String()
			lu.wg.Add(1)
			go lu.serveUDP()
		} else {
			ln, err := net.Listen("tcp", "127.0.0.1:0")
			if err != nil {
				return "", err
			}
			lu.ln = ln
			addr = "tcp://" + ln.Addr().String()
			lu.wg.Add(1)
			go lu.serveTCP()
		}
		f, err := fastforward.NewForward(&fastforward.Args{Upstreams: []fastforward.UpstreamConfig{{Addr: addr}}}, fastforward.Opts{})
		if err != nil {
			lu.Close()
			return "", err
		}
		b.cs.closers = append(b.cs.closers, f, lu)
		t := b.tag("fwd")
		b.plugins[t] = f
		return "$" + t, nil
	case "fallback":
		pt, st := b.tag("seqp"), b.tag("seqs")
		ps, err := b.sequence(n.Primary, pt)
		if err != nil {
			return "", err
		}
		b.plugins[pt] = ps
		ss, err := b.sequence(n.Secondary, st)
		if err != nil {
			return "", err
		}
		b.plugins[st] = ss
		ft := b.tag("fb")
		f, err := fallback.Init(coremain.NewBP(ft, b.m), &fallback.Args{Primary: pt, Secondary: st, Threshold: 40, AlwaysStandby: n.Standby})
		if err != nil {
			return "", err
		}
		b.plugins[ft] = f
		return "$" + ft, nil
	}
	return "", fmt.Errorf("unknown impl %q", n.Impl)
}

// sequence builds [obs1 rule1 obs2 rule2 ... obs(n+1)] through sequence.NewSequence
func (b *builder) sequence(nodes []Node, seqName string) (*sequence.Sequence, error) {
	var ra []sequence.RuleArgs
	var kinds []string
	for i := range nodes {
		ot := b.add("obs", &observer{cs: b.cs, seq: seqName, pos: i + 1})
		ra = append(ra, sequence.RuleArgs{Exec: ot})
		ex, err := b.rule(&nodes[i], seqName)
		if err != nil {
			return nil, fmt.Errorf("node %d (%s): %w", i, nodes[i].Impl, err)
		}
		ra = append(ra, sequence.RuleArgs{Exec: ex})
		kinds = append(kinds, nodes[i].Kind)
		if seqName == "main" && nodes[i].Impl == "cache" && nodes[i].Lazy && b.cs.gatePos == 0 {
			b.cs.gatePos = i + 2
		}
	}
	ot := b.add("obs", &observer{cs: b.cs, seq: seqName, pos: len(nodes) + 1})
	ra = append(ra, sequence.RuleArgs{Exec: ot})
	if kinds == nil {
		kinds = []string{}
	}
	b.cs.seqKinds[seqName] = kinds
	s, err := sequence.NewSequence(sequence.NewBQ(b.m, b.m.Logger()), ra)
	if err != nil {
		return nil, err
	}
	b.cs.closers = append(b.cs.closers, s)
	return s, nil
}

// warm stores an answer for the question the cache will see (key "own" / "redir"), from a query with
// another ID; collide = "type" / "class": the stored question differs in the high byte of the type /
// in the class only (D3 / D4 of DESIGN.md §5 - belongs to C04)
func (b *builder) warm(ws *sequence.Sequence, n *Node) error {
	c := b.cs.c
	q := new(dns.Msg)
	q.Id = c.ID ^ 0x5A5A
	q.Opcode = 0
	q.RecursionDesired = c.Flags&(1<<8) != 0
	q.AuthenticatedData = c.Flags&(1<<5) != 0
	q.CheckingDisabled = c.Flags&(1<<4) != 0
	name := c.Name
	if n.Key == "redir" {
		name = c.Target
	}
	qt, qc := c.Qtype, c.Qclass
	switch n.Collide {
	case "type":
		qt ^= 0x0100
	case "class":
		qc ^= 0x0002
	}
	q.Question = []dns.Question{{Name: name, Qtype: qt, Qclass: qc}}
	o := &dns.OPT{Hdr: dns.RR_Header{Name: ".", Rrtype: dns.TypeOPT}}
	o.SetUDPSize(4096)
	o.Option = append(o.Option, optionFor("cC"))
	q.Extra = append(q.Extra, o)
	b.cs.quiet = true
	defer func() { b.cs.quiet = false }()
	qCtx := query_context.NewContext(q)
	return ws.Exec(context.Background(), qCtx)
}

// ---------------------------------------------------------------- the client's query

func buildQuery(c *Case) *dns.Msg {
	q := new(dns.Msg)
	q.Id = c.ID
	f := c.Flags
	q.Opcode = int(f>>11) & 0xF
	q.Authoritative = f&(1<<10) != 0
	q.Truncated = f&(1<<9) != 0
	q.RecursionDesired = f&(1<<8) != 0
	q.RecursionAvailable = f&(1<<7) != 0
	q.Zero = f&(1<<6) != 0
	q.AuthenticatedData = f&(1<<5) != 0
	q.CheckingDisabled = f&(1<<4) != 0
	q.Rcode = int(f & 0xF)
	q.Response = c.Mal == "qr"
	qu := dns.Question{Name: c.Name, Qtype: c.Qtype, Qclass: c.Qclass}
	switch c.Mal {
	case "noq":
	case "twoq":
		q.Question = []dns.Question{qu, {Name: "second." + shorten(c.Name), Qtype: c.Qtype, Qclass: c.Qclass}}
	default:
		q.Question = []dns.Question{qu}
	}
	a := func(n string) dns.RR {
		return &dns.A{Hdr: dns.RR_Header{Name: n, Rrtype: dns.TypeA, Class: dns.ClassINET, Ttl: 30}, A: net.IP{192, 0, 2, 200}}
	}
	switch c.Mal {
	case "ans":
		q.Answer = []dns.RR{a("a.invalid.")}
	case "ns":
		q.Ns = []dns.RR{a("n.invalid.")}
	case "ok1x":
		q.Extra = []dns.RR{a("x.invalid.")}
	case "extra2":
		q.Extra = []dns.RR{a("x.invalid."), a("y.invalid.")}
	case "opt2":
		q.Extra = []dns.RR{a("x.invalid.")}
	}
	if c.Opt != nil {
		o := &dns.OPT{Hdr: dns.RR_Header{Name: ".", Rrtype: dns.TypeOPT}}
		o.SetUDPSize(c.Opt.Size)
		o.SetVersion(c.Opt.Ver)
		if c.Opt.Do {
			o.SetDo()
		}
		for _, t := range c.Opt.Opts {
			o.Option = append(o.Option, optionFor(t))
		}
		q.Extra = append(q.Extra, o)
	}
	return q
}

func shorten(n string) string {
	if len(n) > 100 {
		return "long.invalid."
	}
	return n
}

// replyEvent abstracts the packed reply
func (cs *caseRun) replyEvent(b []byte, sent *dns.Msg) Event {
	r := new(dns.Msg)
	if err := r.Unpack(b); err != nil {
		return Event{"ev": "Reply", "id": "other", "qq": "other", "qr": false, "ra": false, "rcode": -1, "nopt": 0,
			"opt": map[string]any{"k": "none"}, "nrec": 0, "tc": false, "size": len(b), "unpack_err": err.Error()}
	}
	t := &trace{baseID: sent.Id}
	if len(sent.Question) > 0 {
		t.baseQ = sent.Question[0]
	}
	ev := Event{"ev": "Reply", "id": idTok(t, r.Id), "qr": r.Response, "ra": r.RecursionAvailable, "rcode": r.Rcode,
		"tc": r.Truncated, "size": len(b)}
	if len(r.Question) == 1 {
		ev["qq"] = cs.qqTok(t, r.Question[0])
	} else {
		ev["qq"] = "other"
	}
	n, last := countOpt(r.Extra)
	ev["nopt"] = n
	ev["nrec"] = len(r.Answer) + len(r.Ns) + len(r.Extra) - n
	if last != nil {
		ev["opt"] = map[string]any{"k": "opt", "do": last.Do(), "opts": tokensOf(last)}
	} else {
		ev["opt"] = map[string]any{"k": "none"}
	}
	return ev
}

// ---------------------------------------------------------------- transports

const replyWait = 8 * time.Second
const quietWait = 60 * time.Millisecond

// send delivers the packed query and returns the replies received (0, 1 or more)
func send(mode string, h server.Handler, wire []byte, q *dns.Msg, tr string) ([][]byte, error) {
	switch mode {
	case "direct":
		meta := server.QueryMeta{FromUDP: tr == "udp", ClientAddr: netip.MustParseAddr("127.0.0.1")}
		p := h.Handle(context.Background(), q, meta, pool.PackBuffer)
		if p == nil {
			return nil, nil
		}
		return [][]byte{append([]byte{}, (*p)...)}, nil
	case "udp":
		uc, err := net.ListenUDP("udp", &net.UDPAddr{IP: net.IP{127, 0, 0, 1}})
		if err != nil {
			return nil, err
		}
		done := make(chan struct{})
		go func() { server.ServeUDP(uc, h, server.UDPServerOpts{}); close(done) }()
		defer func() { uc.Close(); <-done }()
		cl, err := net.DialUDP("udp", nil, uc.LocalAddr().(*net.UDPAddr))
		if err != nil {
			return nil, err
		}
		defer cl.Close()
		if _, err := cl.Write(wire); err != nil {
			return nil, err
		}
		var out [][]byte
		buf := make([]byte, 65535)
		wellFormedWait := replyWait
		for {
			if len(out) > 0 {
				wellFormedWait = quietWait
			}
			cl.SetReadDeadline(time.Now().Add(wellFormedWait))
			n, err := cl.Read(buf)
			if err != nil {
				return out, nil
			}
			out = append(out, append([]byte{}, buf[:n]...))
			if len(out) > 2 {
				return out, nil
			}
		}
	case "tcp":
		outs, err := sendTCP(h, [][]byte{wire}, "whole")
		if err != nil {
			return nil, err
		}
		return outs[0], nil
	case "httpget", "httppost":
		hh := server.NewHttpHandler(h, server.HttpHandlerOpts{})
		var req *http.Request
		if mode == "httpget" {
			req = httptest.NewRequest(http.MethodGet, "/dns-query?dns="+base64.RawURLEncoding.EncodeToString(wire), nil)
			req.Header.Set("Accept", "application/dns-message")
		} else {
			req = httptest.NewRequest(http.MethodPost, "/dns-query", bytes.NewReader(wire))
			req.Header.Set("Content-Type", "application/dns-message")
		}
		req.RemoteAddr = "127.0.0.1:5353"
		rec := httptest.NewRecorder()
		hh.ServeHTTP(rec, req)
		if rec.Code != http.StatusOK || rec.Body.Len() == 0 {
			return nil, nil
		}
		return [][]byte{rec.Body.Bytes()}, nil
	}
	return nil, fmt.Errorf("unknown mode %q", mode)
}

// sendTCP: one connection to ServeTCP; the framed queries are written one after the other (the next one after
// the reply to the previous one arrived), each in the given chunking. Returns the replies read after each query.
func sendTCP(h server.Handler, wires [][]byte, chunk string) ([][][]byte, error) {
	ln, err := net.Listen("tcp", "127.0.0.1:0")
	if err != nil {
		return nil, err
	}
	done := make(chan struct{})
	go func() { server.ServeTCP(ln, h, server.TCPServerOpts{}); close(done) }()
	defer func() { ln.Close(); <-done }()
	cl, err := net.Dial("tcp", ln.Addr().String())
	if err != nil {
		return nil, err
	}
	defer cl.Close()
	const gap = 15 * time.Millisecond // lets the chunks travel as separate segments; far below the server's 2 s / 10 s read timeouts
	outs := make([][][]byte, len(wires))
	dead := false
	for qi, wire := range wires {
		if dead {
			continue // connection is gone: the remaining queries get no reply
		}
		w := make([]byte, 2+len(wire))
		binary.BigEndian.PutUint16(w, uint16(len(wire)))
		copy(w[2:], wire)
		var parts [][]byte
		switch chunk {
		case "prefix11":
			parts = [][]byte{w[:1], w[1:2], w[2:]}
		case "prefix_body":
			parts = [][]byte{w[:2], w[2:]}
		case "prefix1_rest":
			parts = [][]byte{w[:1], w[1:]}
		case "bytes":
			for i := range w {
				parts = append(parts, w[i:i+1])
			}
		default:
			parts = [][]byte{w}
		}
		for pi, p := range parts {
			if _, err := cl.Write(p); err != nil {
				dead = true
				break
			}
			if pi < 3 && pi < len(parts)-1 {
				time.Sleep(gap)
			}
		}
		if dead {
			continue
		}
		wait := replyWait
		for {
			cl.SetReadDeadline(time.Now().Add(wait))
			var hd [2]byte
			if _, err := io.ReadFull(cl, hd[:]); err != nil {
				if ne, ok := err.(net.Error); !(ok && ne.Timeout()) {
					dead = true
				}
				break
			}
			b := make([]byte, binary.BigEndian.Uint16(hd[:]))
			if _, err := io.ReadFull(cl, b); err != nil {
				dead = true
				break
			}
			outs[qi] = append(outs[qi], b)
			if qi < len(wires)-1 || len(outs[qi]) > 2 {
				break // a duplicate of this reply would be read as the (wrong) reply to the next query
			}
			wait = quietWait
		}
		if len(outs[qi]) == 0 {
			dead = true
		}
	}
	return outs, nil
}

// maxOptInCache: GET /dump of the cache plugin, max number of OPT records in any stored message
func maxOptInCache(ca *cache.Cache) (int, int, error) {
	rec := httptest.NewRecorder()
	ca.Api().ServeHTTP(rec, httptest.NewRequest(http.MethodGet, "/dump", nil))
	if rec.Code != 200 {
		return 0, 0, fmt.Errorf("dump status %d", rec.Code)
	}
	gr, err := gzip.NewReader(rec.Body)
	if err != nil {
		return 0, 0, err
	}
	max, entries := 0, 0
	for {
		var h [8]byte
		if _, err := io.ReadFull(gr, h[:]); err != nil {
			if err == io.EOF {
				return max, entries, nil
			}
			return 0, 0, err
		}
		b := make([]byte, binary.BigEndian.Uint64(h[:]))
		if _, err := io.ReadFull(gr, b); err != nil {
			return 0, 0, err
		}
		blk := new(cache.CacheDumpBlock)
		if err := proto.Unmarshal(b, blk); err != nil {
			return 0, 0, err
		}
		for _, e := range blk.GetEntries() {
			m := new(dns.Msg)
			if err := m.Unpack(e.GetMsg()); err != nil {
				return 0, 0, err
			}
			entries++
			n := 0
			for _, sec := range [][]dns.RR{m.Answer, m.Ns, m.Extra} {
				k, _ := countOpt(sec)
				n += k
			}
			if n > max {
				max = n
			}
		}
	}
}

// ---------------------------------------------------------------- one case

func runCase(c *Case) (res Result) {
	res.Idx = c.Idx
	cs := &caseRun{c: c, traces: map[*query_context.Context]*trace{}, seqKinds: map[string][]string{}}
	defer func() {
		if p := recover(); p != nil {
			res.Panic = fmt.Sprint(p)
		}
		for i := len(cs.closers) - 1; i >= 0; i-- {
			cs.closers[i].Close()
		}
	}()
	plugins := map[string]any{}
	m := coremain.NewTestMosdnsWithPlugins(plugins)
	b := &builder{cs: cs, plugins: plugins, m: m}
	ids := []uint16{c.ID}
	if c.Pair {
		ids = append(ids, c.ID^0x1111)
	}
	if c.Follow {
		ids = append(ids, c.ID+0x0101)
	}
	tcpSeq := c.Mode == "tcp" && !c.Pair && !c.Follow
	if tcpSeq {
		for k := 1; k < c.Reps; k++ {
			ids = append(ids, c.ID+uint16(k))
		}
	}
	for _, id := range ids {
		cs.clients = append(cs.clients, &trace{client: true, wantID: id})
	}
	cs.main = cs.clients[0]
	cs.gate = make(chan struct{})
	seq, err := b.sequence(c.Nodes, "main")
	if err != nil {
		res.Why = "setup: " + err.Error()
		return
	}
	cs.kinds = cs.seqKinds["main"]
	res.Kinds = cs.kinds
	h := server_handler.NewEntryHandler(server_handler.EntryHandlerOpts{Entry: seq, QueryTimeout: 4 * time.Second})

	type client struct {
		wire      []byte
		sent, ref *dns.Msg
		replies   [][]byte
		err       error
	}
	cls := make([]*client, len(ids))
	for i, id := range ids {
		cc := *c
		cc.ID = id
		if c.Follow && i == 1 {
			cc.Name = c.Target
		}
		q := buildQuery(&cc)
		wire, err := q.Pack()
		if err != nil {
			res.Why = "pack: " + err.Error()
			return
		}
		cl := &client{wire: wire, sent: new(dns.Msg), ref: new(dns.Msg)}
		if err := cl.sent.Unpack(wire); err != nil {
			res.Why = "unpack own query: " + err.Error()
			return
		}
		cl.ref.Unpack(wire)
		if c.Mode == "direct" {
			if _, o := countOpt(cl.sent.Extra); o != nil {
				cs.clientOpts = append(cs.clientOpts, o)
			}
		}
		cls[i] = cl
		cs.clients[i].events = append(cs.clients[i].events, Event{"ev": "Query", "mal": c.Mal, "opt": optObj(c.Opt), "tr": c.Tr,
			"chain": cs.kinds, "mode": c.Mode, "pair": c.Pair})
	}
	cs.order = append(append([]*trace{}, cs.clients...), cs.order...)
	var cwg sync.WaitGroup
	if tcpSeq {
		wires := make([][]byte, len(cls))
		for i, cl := range cls {
			wires[i] = cl.wire
		}
		outs, err := sendTCP(h, wires, c.Chunk)
		if err != nil {
			res.Why = "transport: " + err.Error()
			return
		}
		for i, cl := range cls {
			cl.replies = outs[i]
		}
	}
	for _, cl := range cls {
		if tcpSeq {
			break
		}
		if c.Follow {
			cwg.Wait() // one after the other
		}
		cwg.Add(1)
		go func(cl *client) {
			defer cwg.Done()
			defer func() {
				if p := recover(); p != nil {
					cl.err = fmt.Errorf("panic: %v", p)
				}
			}()
			cl.replies, cl.err = send(c.Mode, h, cl.wire, cl.sent, c.Tr)
		}(cl)
	}
	cwg.Wait()
	for _, cl := range cls {
		if cl.err != nil {
			if strings.HasPrefix(cl.err.Error(), "panic: ") {
				res.Panic = cl.err.Error()
			} else {
				res.Why = "transport: " + cl.err.Error()
			}
			return
		}
	}
	// let straggling branch goroutines (dual_selector / fallback copies, lazy refresh) finish
	time.Sleep(time.Duration(c.Settle) * time.Millisecond)
	cs.mu.Lock()
	for i, cl := range cls {
		t := cs.clients[i]
		if len(cl.replies) == 0 {
			t.events = append(t.events, Event{"ev": "NoReply"})
		}
		for _, rb := range cl.replies {
			t.events = append(t.events, cs.replyEvent(rb, cl.ref))
		}
	}
	cs.mu.Unlock()
	for _, ca := range cs.caches {
		mx, n, err := maxOptInCache(ca)
		if err != nil {
			res.Why = "cache dump: " + err.Error()
			continue
		}
		if n > 0 {
			cs.mu.Lock()
			cs.main.events = append(cs.main.events, Event{"ev": "CacheDump", "nopt": mx, "entries": n})
			cs.mu.Unlock()
		}
	}
	cs.mu.Lock()
	// main first; branch traces only if complete (their goroutine may still run: copy under lock)
	seenT := map[*trace]bool{}
	for _, t := range cs.order {
		if seenT[t] {
			continue
		}
		seenT[t] = true
		res.Traces = append(res.Traces, append([]Event{}, t.events...))
	}
	cs.mu.Unlock()
	return
}

func main() {
	var job Job
	if err := vh.ReadJob(&job); err != nil {
		fmt.Fprintln(os.Stderr, "bad job:", err)
		os.Exit(3)
	}
	w := job.Workers
	if w <= 0 {
		w = 8
	}
	results := make([]Result, len(job.Cases))
	var wg sync.WaitGroup
	ch := make(chan int)
	for i := 0; i < w; i++ {
		wg.Add(1)
		go func() {
			defer wg.Done()
			for k := range ch {
				results[k] = runCase(&job.Cases[k])
			}
		}()
	}
	for k := range job.Cases {
		ch <- k
	}
	close(ch)
	wg.Wait()
	for _, r := range results {
		vh.Emit(r)
	}
	vh.Flush()
	_ = hex.EncodeToString
}
