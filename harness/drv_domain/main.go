//go:build verif

// drv_domain: C12. Replays TLC-generated behaviours of DomainSet.tla (an ordered rule list plus, for
// EVERY abstract name, the set of rule indices whose value may be returned) on the real
// domain.MixMatcher, the text loaders, the domain_set / hosts / redirect plugins (leg B), and records
// seeded random concrete runs as event traces for DomainSet_Trace.tla (leg C).
// No oracle lives here: the driver only concretizes, drives and compares with the behaviour.
//
// Regular expressions are rendered in lower case except for the forms ssuf / spre (upper-case escape class \S)
// and upper (upper-case literals): expression text must never be case-folded by a loader.
//
// Concretization: the abstract characters E, B, C are mapped to concrete fragments (labels a = E.B
// glued, b = B, c = C, so that b is a string suffix of a), "." to ".".  A fragment map is admissible
// iff every fragment starts with a character that occurs nowhere else in any fragment (checked at
// start): then substring / prefix / suffix relations between rendered strings are exactly those of the
// abstract strings.  Case is randomised (rule side except regular expressions, name side), one
// trailing dot is added at random on both sides (normalisation clause of C12).
package main

import (
	"context"
	"fmt"
	"math/rand"
	"net/netip"
	"os"
	"path/filepath"
	"strconv"
	"strings"
	"sync"
	"sync/atomic"

	"github.com/IrineSistiana/mosdns/v5/coremain"
	"github.com/IrineSistiana/mosdns/v5/pkg/hosts"
	"github.com/IrineSistiana/mosdns/v5/pkg/matcher/domain"
	"github.com/IrineSistiana/mosdns/v5/pkg/query_context"
	"github.com/IrineSistiana/mosdns/v5/plugin/data_provider/domain_set"
	hostsplugin "github.com/IrineSistiana/mosdns/v5/plugin/executable/hosts"
	"github.com/IrineSistiana/mosdns/v5/plugin/executable/redirect"
	"github.com/IrineSistiana/mosdns/v5/plugin/executable/sequence"
	"github.com/miekg/dns"

	"verif/harness/vh"
)

type Rule struct {
	T string   `json:"t"`
	F string   `json:"f"`
	P []string `json:"p"`
}

type Beh struct {
	Def   string `json:"def"`
	Rules []Rule `json:"rules"`
	X     []int  `json:"x"`
}

type Job struct {
	Names       [][]string `json:"names"`
	Behaviours  []Beh      `json:"behaviours"`
	MaxMismatch int        `json:"max_mismatch"`
	TraceSample int        `json:"trace_sample"`
	Random      int        `json:"random"`
	Workers     int        `json:"workers"`
	MapsPer     int        `json:"maps_per"` // > 0: each behaviour is replayed under this many maps (rotating)
}

type FragMap struct {
	Name string `json:"name"`
	E    string `json:"E"`
	B    string `json:"B"`
	C    string `json:"C"`
}

var fragMaps = []FragMap{
	{"single", "e", "b", "c"},
	{"words", "xy", "ample", "c0m"},
	{"63-octets", "e" + strings.Repeat("0", 30), "b" + strings.Repeat("1", 31), "c-9"},
	{"digits-hyphen", "1q", "2-z", "3n"},
	{"long-tld", "q-", "w", "c" + strings.Repeat("7", 62)},
}

func (m *FragMap) frag(c string) string {
	switch c {
	case "E":
		return m.E
	case "B":
		return m.B
	case "C":
		return m.C
	case ".":
		return "."
	}
	panic("bad abstract character " + c)
}

// admissible: every fragment starts with a marker character that occurs nowhere else.
func (m *FragMap) admissible() bool {
	fr := []string{m.E, m.B, m.C}
	for i, f := range fr {
		if f == "" || !strings.ContainsAny(f, "abcdefghijklmnopqrstuvwxyz") { // a letter: form "upper" relies on it
			return false
		}
		for _, c := range []byte(f) { // lower-case LDH only: safe inside rule text and regular expressions
			if !(c >= 'a' && c <= 'z' || c >= '0' && c <= '9' || c == '-') {
				return false
			}
		}
		for j, g := range fr {
			rest := g
			if i == j {
				rest = g[1:]
			}
			if strings.IndexByte(rest, f[0]) >= 0 {
				return false
			}
		}
	}
	// a label is at most 63 octets
	return len(m.E)+len(m.B) <= 63 && len(m.C) <= 63
}

func (m *FragMap) render(chars []string) string {
	var sb strings.Builder
	for _, c := range chars {
		sb.WriteString(m.frag(c))
	}
	return sb.String()
}

func randCase(s string, rng *rand.Rand) string {
	switch rng.Intn(4) {
	case 0:
		return s
	case 1:
		return strings.ToUpper(s)
	}
	b := []byte(s)
	for i, c := range b {
		if c >= 'a' && c <= 'z' && rng.Intn(2) == 0 {
			b[i] = c - 32
		}
	}
	return string(b)
}

var labelChars = map[string][]string{"a": {"E", "B"}, "b": {"B"}, "c": {"C"}}

func nameChars(labels []string) []string {
	var out []string
	for i, l := range labels {
		if i > 0 {
			out = append(out, ".")
		}
		out = append(out, labelChars[l]...)
	}
	return out
}

func (m *FragMap) name(labels []string, rng *rand.Rand) string {
	s := randCase(m.render(nameChars(labels)), rng)
	if rng.Intn(2) == 0 {
		s += "."
	}
	return s
}

// nameVariants[map][name index]: renderings precomputed once (lower, upper, mixed; each with / without the dot)
var nameVariants [][][]string

func initNameVariants() {
	rng := rand.New(rand.NewSource(vh.Seed()))
	nameVariants = make([][][]string, len(fragMaps))
	for mi := range fragMaps {
		nameVariants[mi] = make([][]string, len(job.Names))
		for i, labels := range job.Names {
			base := fragMaps[mi].render(nameChars(labels))
			var vs []string
			for _, s := range []string{base, strings.ToUpper(base), randCase(randCase(base, rng), rng), randCase(base, rng)} {
				vs = append(vs, s, s+".")
			}
			nameVariants[mi][i] = vs
		}
	}
}

// ruleText renders an abstract rule as the user would write it.
func (m *FragMap) ruleText(r *Rule, def string, rng *rand.Rand) string {
	isRe := r.T == "regexp" || (r.T == "none" && def == "regexp")
	if isRe {
		p := strings.ReplaceAll(m.render(r.P), ".", `\.`) // regular expressions see the normalised (lower-case) name
		f := r.F
		if r.T == "none" {
			f = "sub"
		}
		var e string
		switch f {
		case "pre":
			e = "^" + p
		case "suf":
			e = p + "$"
		case "bsuf":
			e = `(^|\.)` + p + "$"
		case "eq":
			e = "^" + p + "$"
		case "sub":
			e = p
		case "ssuf": // upper-case escape class: lower-casing the expression text would turn it into \s+ (no name matches)
			e = `\S+\.` + p + "$"
		case "spre":
			e = "^" + p + `\.\S+$`
		case "upper": // upper-case literals never match a normalised (lower-case) name; every fragment holds a letter
			e = "^" + strings.ToUpper(p)
		default:
			panic("bad form " + f)
		}
		if r.T == "none" {
			return e
		}
		return "regexp:" + e
	}
	p := randCase(m.render(r.P), rng)
	if rng.Intn(2) == 0 && !(r.T == "none" && len(r.P) == 0) {
		p += "."
	}
	if r.T == "none" {
		return p
	}
	return r.T + ":" + p
}

// padRule returns a rule that describes no name of the universe: its pattern contains a label over an
// alphabet (k j v u h 4 5 6 8) that no fragment of any map uses.  Loading such rules changes no expected
// answer; they make the real trie / maps larger and shared with the universe's nodes.
func (m *FragMap) padRule(def string, rng *rand.Rand) string {
	const alpha = "kjvuh4568"
	lab := func() string {
		b := make([]byte, 1+rng.Intn(6))
		for i := range b {
			b[i] = alpha[rng.Intn(len(alpha))]
		}
		return string(b)
	}
	p := lab()
	for i := rng.Intn(3); i > 0; i-- {
		p = lab() + "." + p
	}
	switch rng.Intn(6) {
	case 0:
		return "full:" + p
	case 1:
		return "keyword:" + p
	case 2:
		return "regexp:^" + strings.ReplaceAll(p, ".", `\.`) + "$"
	case 3:
		return "regexp:" + strings.ReplaceAll(p, ".", `\.`)
	case 4:
		if def != "regexp" {
			return p
		}
	}
	// a domain rule below a label of the universe shares trie nodes with the universe's rules
	return "domain:" + p + []string{"", "." + m.C, "." + m.B + "." + m.C, "." + m.E + m.B}[rng.Intn(4)]
}

func decorate(lines []string, rng *rand.Rand) string {
	var sb strings.Builder
	for _, l := range lines {
		switch rng.Intn(5) {
		case 0:
			sb.WriteString("# comment full:a.b.c 1\n")
		case 1:
			sb.WriteString("\n \t \n")
		}
		switch rng.Intn(4) {
		case 0:
			sb.WriteString("  " + l + " \t\n")
		case 1:
			sb.WriteString(l + " # trailing domain:x\n")
		case 2:
			sb.WriteString(l + "\r\n")
		default:
			sb.WriteString(l + "\n")
		}
	}
	s := sb.String()
	if rng.Intn(2) == 0 {
		s = strings.TrimSuffix(s, "\n")
	}
	return s
}

// lookup: ok, value (0 = API carries no value), or a panic / error text
type lookup func(name string) (bool, int, string)

type Mismatch struct {
	Kind  string   `json:"kind"`
	API   string   `json:"api"`
	Map   FragMap  `json:"map"`
	Beh   *Beh     `json:"beh,omitempty"`
	Rules []string `json:"rules"`
	NameI int      `json:"name_i"`
	Name  string   `json:"name"`
	Got   string   `json:"got"`
	Want  int      `json:"want_mask"`
}

type Ev struct {
	Ev   string `json:"ev"`
	Def  string `json:"def,omitempty"`
	S    string `json:"s,omitempty"`
	V    int    `json:"v,omitempty"`
	Name string `json:"name,omitempty"`
	Ok   *bool  `json:"ok,omitempty"`
}

type Run struct {
	Kind   string  `json:"kind"`
	Src    string  `json:"src"`
	Map    FragMap `json:"map"`
	Beh    *Beh    `json:"beh,omitempty"`
	Events []Ev    `json:"events"`
}

var (
	job                   Job
	nSets, nQueries, nMis int64
	tmpDir                string
	fileSeq               int64
)

func guard(f func() (lookup, error)) (l lookup, err error) {
	defer func() {
		if r := recover(); r != nil {
			err = fmt.Errorf("panic: %v", r)
		}
	}()
	return f()
}

func safe(l lookup, name string) (ok bool, v int, e string) {
	defer func() {
		if r := recover(); r != nil {
			e = fmt.Sprint("panic: ", r)
		}
	}()
	return l(name)
}

func checkAll(api string, l lookup, err error, mi int, b *Beh, rules []string, rng *rand.Rand, run *Run) {
	atomic.AddInt64(&nSets, 1)
	m := &fragMaps[mi]
	var nq int64
	for i := range job.Names {
		vs := nameVariants[mi][i]
		name := vs[rng.Intn(len(vs))]
		if (api == "redirect" || api == "hosts-plugin") && !strings.HasSuffix(name, ".") {
			name += "."
		}
		var ok bool
		var v int
		var e string
		if err != nil {
			e = "load failed: " + err.Error()
		} else {
			ok, v, e = safe(l, name)
		}
		nq++
		want := b.X[i]
		got := ""
		switch {
		case e != "":
			got = e
		case ok != (want != 0):
			got = fmt.Sprintf("ok=%v v=%d", ok, v)
		case ok && v != 0 && (v < 1 || v > 30 || want&(1<<uint(v-1)) == 0):
			got = fmt.Sprintf("ok=true v=%d", v)
		}
		if run != nil && e == "" {
			o := ok
			run.Events = append(run.Events, Ev{Ev: "Match", Name: name, Ok: &o, V: v})
		}
		if got != "" {
			if atomic.AddInt64(&nMis, 1) <= int64(job.MaxMismatch) {
				vh.Emit(Mismatch{"mismatch", api, *m, b, rules, i, name, got, want})
			}
		}
	}
	atomic.AddInt64(&nQueries, nq)
}

func intMatcher(def string) *domain.MixMatcher[int] {
	mm := domain.NewMixMatcher[int]()
	mm.SetDefaultMatcher(def)
	return mm
}

func valueParse(s string) (string, int, error) {
	f := strings.Fields(s)
	if len(f) != 2 {
		return "", 0, fmt.Errorf("want 2 fields, got %d", len(f))
	}
	v, err := strconv.Atoi(f[1])
	return f[0], v, err
}

// writeTmp overwrites the worker's scratch file (creating files is slow on this file system)
func (e *plugEnv) writeTmp(content string) (string, error) {
	return e.file, os.WriteFile(e.file, []byte(content), 0o644)
}

type plugEnv struct {
	plugins      map[string]any
	bpSet, bpSub *coremain.BP
	file         string
}

func newPlugEnv() *plugEnv {
	e := &plugEnv{plugins: map[string]any{}, file: filepath.Join(tmpDir, fmt.Sprintf("w%d.txt", atomic.AddInt64(&fileSeq, 1)))}
	m := coremain.NewTestMosdnsWithPlugins(e.plugins)
	e.bpSet, e.bpSub = coremain.NewBP("set", m), coremain.NewBP("sub", m)
	return e
}

type recorder struct{ name string }

func (r *recorder) Exec(_ context.Context, qCtx *query_context.Context) error {
	r.name = qCtx.Q().Question[0].Name
	return nil
}

func ipOf(idx int) string  { return fmt.Sprintf("10.9.8.%d", idx) }
func tgtOf(idx int) string { return fmt.Sprintf("target-%d.test", idx) }

func replayBeh(idx int, b *Beh, rng *rand.Rand, env *plugEnv) {
	nm := len(fragMaps)
	if job.MapsPer > 0 && job.MapsPer < nm {
		nm = job.MapsPer
	}
	for mk := 0; mk < nm; mk++ {
		mi := (idx + mk) % len(fragMaps)
		m := &fragMaps[mi]
		txt := make([]string, len(b.Rules))
		vals := make([]int, len(b.Rules)) // the value of rule i is its number
		for i := range b.Rules {
			txt[i] = m.ruleText(&b.Rules[i], b.Def, rng)
			vals[i] = i + 1
		}
		var run *Run
		if job.TraceSample > 0 && (idx*len(fragMaps)+mi)%job.TraceSample == 0 {
			run = &Run{Kind: "run", Src: "replay", Map: *m, Beh: b}
			run.Events = append(run.Events, Ev{Ev: "New", Def: b.Def})
			for i, s := range txt {
				run.Events = append(run.Events, Ev{Ev: "Add", S: s, V: vals[i]})
			}
		} else if rng.Intn(3) == 0 {
			// semantics-preserving padding: rules that describe no name of the universe (values >= 100),
			// inserted anywhere (the relative order of the behaviour's rules is kept)
			for k := []int{1, 5, 25}[rng.Intn(3)]; k > 0; k-- {
				at := rng.Intn(len(txt) + 1)
				txt = append(txt, "")
				copy(txt[at+1:], txt[at:])
				txt[at] = m.padRule(b.Def, rng)
				vals = append(vals, 0)
				copy(vals[at+1:], vals[at:])
				vals[at] = 100 + k
			}
		}
		n := len(txt)

		// --- API 1: MixMatcher.Add with values
		l, err := guard(func() (lookup, error) {
			mm := intMatcher(b.Def)
			for i, s := range txt {
				if err := mm.Add(s, vals[i]); err != nil {
					return nil, err
				}
			}
			return func(name string) (bool, int, string) { v, ok := mm.Match(name); return ok, v, "" }, nil
		})
		checkAll("add", l, err, mi, b, txt, rng, run)
		if run != nil {
			vh.Emit(run)
		}

		// --- API 2: text loaders with values ("pattern value" lines, comments, blank lines)
		l, err = guard(func() (lookup, error) {
			mm := intMatcher(b.Def)
			lines := make([]string, n)
			for i, s := range txt {
				lines[i] = fmt.Sprintf("%s %d", s, vals[i])
			}
			if rng.Intn(2) == 0 {
				if err := domain.LoadFromTextReader[int](mm, strings.NewReader(decorate(lines, rng)), valueParse); err != nil {
					return nil, err
				}
			} else {
				for _, s := range lines {
					if err := domain.Load[int](mm, s, valueParse); err != nil {
						return nil, err
					}
				}
			}
			return func(name string) (bool, int, string) { v, ok := mm.Match(name); return ok, v, "" }, nil
		})
		checkAll("text", l, err, mi, b, txt, rng, nil)

		// --- API 3: pkg/hosts (values are IPs) on a matcher loaded with hosts.ParseIPs
		l, err = guard(func() (lookup, error) {
			mm := domain.NewMixMatcher[*hosts.IPs]()
			mm.SetDefaultMatcher(b.Def)
			lines := make([]string, n)
			for i, s := range txt {
				lines[i] = s + " " + ipOf(vals[i]) + " 2001:db8::" + strconv.Itoa(vals[i])
			}
			if err := domain.LoadFromTextReader[*hosts.IPs](mm, strings.NewReader(decorate(lines, rng)), hosts.ParseIPs); err != nil {
				return nil, err
			}
			h := hosts.NewHosts(mm)
			return func(name string) (bool, int, string) {
				v4, v6 := h.Lookup(name)
				if len(v4) == 0 && len(v6) == 0 {
					return false, 0, ""
				}
				if len(v4) != 1 || len(v6) != 1 {
					return true, -1, ""
				}
				a := v4[0].As4()
				if v4[0] != netip.MustParseAddr(ipOf(int(a[3]))) {
					return true, -1, ""
				}
				return true, int(a[3]), ""
			}, nil
		})
		checkAll("hosts", l, err, mi, b, txt, rng, nil)

		switch b.Def {
		case "domain":
			// --- API 4: NewDomainMixMatcher + pattern-only loader; domain_set plugin (exps + files + sets)
			l, err = guard(func() (lookup, error) {
				mm := domain.NewDomainMixMatcher()
				if err := domain.LoadFromTextReader[struct{}](mm, strings.NewReader(decorate(txt, rng)), nil); err != nil {
					return nil, err
				}
				return func(name string) (bool, int, string) { _, ok := mm.Match(name); return ok, 0, "" }, nil
			})
			checkAll("domain-mix", l, err, mi, b, txt, rng, nil)
			l, err = guard(func() (lookup, error) {
				k1, k2 := rng.Intn(n+1), rng.Intn(n+1)
				if k1 > k2 {
					k1, k2 = k2, k1
				}
				if rng.Intn(3) != 0 { // files only in a third of the cases (slow)
					k1 = k2
				}
				args := &domain_set.Args{Exps: txt[:k1]}
				if k2 > k1 {
					fn, err := env.writeTmp(decorate(txt[k1:k2], rng))
					if err != nil {
						return nil, err
					}
					args.Files = []string{fn}
				}
				if k2 < n || rng.Intn(4) == 0 {
					sub, err := domain_set.NewDomainSet(env.bpSub, &domain_set.Args{Exps: txt[k2:]})
					if err != nil {
						return nil, err
					}
					env.plugins["sub"] = sub
					args.Sets = []string{"sub"}
				}
				ds, err := domain_set.NewDomainSet(env.bpSet, args)
				if err != nil {
					return nil, err
				}
				dm := ds.GetDomainMatcher()
				return func(name string) (bool, int, string) { _, ok := dm.Match(name); return ok, 0, "" }, nil
			})
			checkAll("domain_set", l, err, mi, b, txt, rng, nil)
		case "full":
			// --- API 5: hosts plugin and redirect plugin (default type full)
			l, err = guard(func() (lookup, error) {
				k := rng.Intn(n + 1)
				lines := make([]string, n)
				for i, s := range txt {
					lines[i] = s + " " + ipOf(vals[i])
				}
				args := &hostsplugin.Args{Entries: lines[:k]}
				fn, err := env.writeTmp(decorate(lines[k:], rng))
				if err != nil {
					return nil, err
				}
				defer os.Remove(fn)
				args.Files = []string{fn}
				h, err := hostsplugin.NewHosts(args)
				if err != nil {
					return nil, err
				}
				return func(name string) (bool, int, string) {
					q := new(dns.Msg)
					q.SetQuestion(name, dns.TypeA)
					r := h.Response(q)
					if r == nil {
						return false, 0, ""
					}
					if len(r.Answer) != 1 {
						return true, -1, ""
					}
					a, ok := r.Answer[0].(*dns.A)
					if !ok || len(a.A.To4()) != 4 || a.Hdr.Name != name {
						return true, -1, ""
					}
					return true, int(a.A.To4()[3]), ""
				}, nil
			})
			checkAll("hosts-plugin", l, err, mi, b, txt, rng, nil)
			l, err = guard(func() (lookup, error) {
				k := rng.Intn(n + 1)
				lines := make([]string, n)
				for i, s := range txt {
					lines[i] = s + " " + tgtOf(vals[i])
				}
				fn, err := env.writeTmp(decorate(lines[k:], rng))
				if err != nil {
					return nil, err
				}
				defer os.Remove(fn)
				rd, err := redirect.NewRedirect(&redirect.Args{Rules: lines[:k], Files: []string{fn}})
				if err != nil {
					return nil, err
				}
				return func(name string) (bool, int, string) {
					q := new(dns.Msg)
					q.SetQuestion(name, dns.TypeA)
					qCtx := query_context.NewContext(q)
					rec := &recorder{}
					cw := sequence.NewChainWalker([]*sequence.ChainNode{{E: rec}}, nil)
					if err := rd.Exec(context.Background(), qCtx, cw); err != nil {
						return false, 0, "exec: " + err.Error()
					}
					if q.Question[0].Name != name {
						return false, 0, "question not restored: " + q.Question[0].Name
					}
					if rec.name == name {
						return false, 0, ""
					}
					for _, v := range vals {
						if rec.name == dns.Fqdn(tgtOf(v)) {
							return true, v, ""
						}
					}
					return true, -1, ""
				}, nil
			})
			checkAll("redirect", l, err, mi, b, txt, rng, nil)
		}
	}
}

// ---- leg C: random concrete runs ---------------------------------------------------------------

func randLabels(min, max int, rng *rand.Rand) []string {
	n := min + rng.Intn(max-min+1)
	out := make([]string, n)
	for i := range out {
		out[i] = []string{"a", "b", "c"}[rng.Intn(3)]
	}
	return out
}

func randomRun(i int, rng *rand.Rand) {
	m := &fragMaps[rng.Intn(len(fragMaps))]
	def := []string{"domain", "full", "keyword"}[rng.Intn(3)]
	run := &Run{Kind: "run", Src: "random", Map: *m}
	run.Events = append(run.Events, Ev{Ev: "New", Def: def})
	mm := intMatcher(def)
	nr := rng.Intn(6)
	var pats [][]string
	for j := 1; j <= nr; j++ {
		var r Rule
		switch rng.Intn(6) {
		case 0:
			r = Rule{T: "full", P: nameChars(randLabels(1, 3, rng))}
		case 1, 2:
			r = Rule{T: "domain", P: nameChars(randLabels(0, 3, rng))}
		case 3:
			r = Rule{T: "none", P: nameChars(randLabels(1, 3, rng))}
		case 4:
			s := nameChars(randLabels(1, 2, rng))
			for {
				a := rng.Intn(len(s))
				e := a + 1 + rng.Intn(3)
				if e <= len(s) && s[e-1] != "." {
					r = Rule{T: "keyword", P: s[a:e]}
					break
				}
			}
		default:
			r = Rule{T: "regexp", F: []string{"pre", "suf", "bsuf", "eq", "sub"}[rng.Intn(5)], P: nameChars(randLabels(1, 2, rng))}
			if rng.Intn(3) == 0 {
				r = Rule{T: "regexp", F: []string{"ssuf", "spre", "upper"}[rng.Intn(3)], P: nameChars(randLabels(1, 1, rng))}
			}
		}
		if len(pats) > 0 && rng.Intn(4) == 0 && (r.T == "full" || r.T == "domain" || r.T == "none") { // duplicates / shadowing
			r.P = pats[rng.Intn(len(pats))]
			if r.T != "domain" && len(r.P) == 0 {
				r.P = []string{"B"}
			}
		}
		if r.T == "full" || r.T == "domain" || r.T == "none" {
			pats = append(pats, r.P)
		}
		s := m.ruleText(&r, def, rng)
		if _, err := guard(func() (lookup, error) { return nil, mm.Add(s, j) }); err != nil {
			atomic.AddInt64(&nMis, 1)
			vh.Emit(Mismatch{Kind: "mismatch", API: "random-add", Map: *m, Rules: []string{s}, Got: "load failed: " + err.Error()})
			return
		}
		run.Events = append(run.Events, Ev{Ev: "Add", S: s, V: j})
	}
	nq := 4 + rng.Intn(8)
	for j := 0; j < nq; j++ {
		name := m.name(randLabels(1, 4, rng), rng)
		ok, v, e := safe(func(n string) (bool, int, string) { v, ok := mm.Match(n); return ok, v, "" }, name)
		if e != "" {
			atomic.AddInt64(&nMis, 1)
			vh.Emit(Mismatch{Kind: "mismatch", API: "random-match", Map: *m, Name: name, Got: e})
			return
		}
		o := ok
		run.Events = append(run.Events, Ev{Ev: "Match", Name: name, Ok: &o, V: v})
	}
	vh.Emit(run)
}

func main() {
	if err := vh.ReadJob(&job); err != nil {
		fmt.Fprintln(os.Stderr, "job:", err)
		os.Exit(3)
	}
	if job.Workers == 0 {
		job.Workers = 12
	}
	if job.MaxMismatch == 0 {
		job.MaxMismatch = 20
	}
	for i := range fragMaps {
		if !fragMaps[i].admissible() {
			fmt.Fprintln(os.Stderr, "fragment map is not admissible:", fragMaps[i].Name)
			os.Exit(3)
		}
	}
	for _, b := range job.Behaviours {
		if len(b.X) != len(job.Names) {
			fmt.Fprintln(os.Stderr, "behaviour with", len(b.X), "expectations for", len(job.Names), "names")
			os.Exit(3)
		}
	}
	initNameVariants()
	var err error
	if tmpDir, err = os.MkdirTemp(".", "domain-files-"); err != nil {
		fmt.Fprintln(os.Stderr, err)
		os.Exit(3)
	}
	defer os.RemoveAll(tmpDir)

	var wg sync.WaitGroup
	var next int64 = -1
	for w := 0; w < job.Workers; w++ {
		wg.Add(1)
		go func() {
			defer wg.Done()
			env := newPlugEnv()
			for {
				i := int(atomic.AddInt64(&next, 1))
				if i >= len(job.Behaviours) {
					return
				}
				replayBeh(i, &job.Behaviours[i], rand.New(rand.NewSource(vh.Seed()*1000003+int64(i))), env)
			}
		}()
	}
	wg.Wait()
	for i := 0; i < job.Random; i++ {
		randomRun(i, rand.New(rand.NewSource(vh.Seed()*7919+int64(i))))
	}
	vh.Emit(map[string]any{"kind": "summary", "sets": nSets, "queries": nQueries, "mismatches": nMis,
		"behaviours": len(job.Behaviours), "maps": len(fragMaps)})
	vh.Flush()
	os.RemoveAll(tmpDir)
}
