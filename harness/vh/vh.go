// Package vh: helpers shared by the harness drivers (job I/O, seeds, result lines).
package vh

import (
	"bufio"
	"encoding/json"
	"io"
	"os"
	"strconv"
	"sync"
)

// ReadJob decodes the JSON job the orchestrator (lib/vlib.py run_driver) writes on stdin.
func ReadJob(v any) error {
	b, err := io.ReadAll(os.Stdin)
	if err != nil {
		return err
	}
	return json.Unmarshal(b, v)
}

var (
	outMu sync.Mutex
	outW  = bufio.NewWriterSize(os.Stdout, 1<<20)
)

// Emit writes one JSON object as one line on stdout.
func Emit(v any) {
	b, err := json.Marshal(v)
	if err != nil {
		panic(err)
	}
	outMu.Lock()
	outW.Write(b)
	outW.WriteByte('\n')
	outMu.Unlock()
}

func Flush() {
	outMu.Lock()
	outW.Flush()
	outMu.Unlock()
}

// Seed returns VERIF_SEED (default 1).
func Seed() int64 {
	s, err := strconv.ParseInt(os.Getenv("VERIF_SEED"), 10, 64)
	if err != nil {
		return 1
	}
	return s
}

func Thorough() bool { return os.Getenv("VERIF_TIER") == "thorough" }
