//go:build verif

// drv_pipeline drives the REAL transport.PipelineTransport (pipeline.go + conn_lazy_dial.go +
// conn_traditional.go) with a gated dial function and scripted simnet conns, and records each run
// as an event trace for spec/LazyPipe_Trace.tla (C09 part ii: queries queued while a connection
// is dialing, limits per connection, capacity after use).
//
// Job (stdin): {"scripts":[{name,q,l,steps|random}...]}.  Steps:
//
//	Call{c}            start pt.ExchangeContext for caller c (goroutine)
//	WaitDial{k}        wait until the k-th dial has been invoked
//	DialOk{k} DialFail{k}   let that dial return a new connection (limit l) / an error
//	WaitWrites{n}      wait until n Writes are pending (all held) — or nothing moves any more
//	Finish{c}          let c's Write return, hand its reply to the reader, wait for the return
//	FinishAll          Finish every caller that has a pending Write, until all calls are over
//	Collect            log the calls that have returned
//
// Output: one JSON line per script {idx,name,steered,why,events}.
package main

import (
	"context"
	"errors"
	"fmt"
	"math/rand"
	"os"
	"strconv"
	"strings"
	"sync"
	"time"

	"github.com/IrineSistiana/mosdns/v5/pkg/pool"
	"github.com/IrineSistiana/mosdns/v5/pkg/upstream/transport"
	"github.com/miekg/dns"

	"verif/harness/simnet"
	"verif/harness/vh"
)

type Step struct {
	A string `json:"a"`
	C int    `json:"c"`
	K int    `json:"k"`
	N int    `json:"n"`
}

type RandomCfg struct {
	Callers   int     `json:"callers"`
	Calls     int     `json:"calls"`
	PDialFail float64 `json:"p_dialfail"`
	Seed      int64   `json:"seed"`
}

type Script struct {
	Name          string     `json:"name"`
	Q             int        `json:"q"`
	L             int        `json:"l"`
	Dgram         bool       `json:"dgram"`
	DialTimeoutMs int        `json:"dial_timeout_ms"` // PipelineOpts.DialTimeout (0 = default)
	HoldClose     bool       `json:"hold_close"`      // Close() of every connection is a held rendezvous (ReleaseClose)
	Steps         []Step     `json:"steps"`
	Random        *RandomCfg `json:"random,omitempty"`
}

type Job struct {
	Scripts []Script `json:"scripts"`
	Workers int      `json:"workers"`
}

type Result struct {
	Idx     int            `json:"idx"`
	Name    string         `json:"name"`
	Steered bool           `json:"steered"`
	Why     string         `json:"why,omitempty"`
	Events  []simnet.Event `json:"events"`
	Panic   string         `json:"panic,omitempty"`
}

const stepWait = 1500 * time.Millisecond

type outcome struct {
	resp *[]byte
	err  error
}

type caller struct {
	id      int
	g       int
	running bool
	done    chan outcome
	cancel  context.CancelFunc
}

type run struct {
	sc      *Script
	rec     *simnet.Recorder
	dialer  *simnet.Dialer
	pt      *transport.PipelineTransport
	mu      sync.Mutex
	conns   map[int]*simnet.Conn
	dials   map[int]*simnet.DialOp
	callers map[int]*caller
	rng     *rand.Rand
	gate    *simnet.Gate  // holds ReserveNewQuery on dialed connections (DialOkGated)
	sent    map[int]sentQ // queries whose Write has been released (WriteRet step)
}

type sentQ struct {
	conn    *simnet.Conn
	payload []byte
}

// gatedConn wraps the DnsConn a dial returns: ReserveNewQuery is a rendezvous with the controller.
type gatedConn struct {
	transport.DnsConn
	gate *simnet.Gate
}

func (g *gatedConn) ReserveNewQuery() (transport.ReservedExchanger, bool) {
	g.gate.Pass()
	return g.DnsConn.ReserveNewQuery()
}

func parseC(payload []byte) int {
	m := new(dns.Msg)
	if m.Unpack(payload) != nil || len(m.Question) != 1 {
		return -1
	}
	lab := strings.SplitN(m.Question[0].Name, ".", 2)[0]
	if !strings.HasPrefix(lab, "c") {
		return -1
	}
	c, err := strconv.Atoi(lab[1:])
	if err != nil {
		return -1
	}
	return c
}

func (r *run) annotate(k int) func(op *simnet.Op) []any {
	return func(op *simnet.Op) []any {
		if op.Kind != simnet.OpWrite {
			return nil
		}
		p := op.Data
		if !r.sc.Dgram && len(p) >= 2 {
			p = p[2:]
		}
		return []any{"c", parseC(p), "k", k}
	}
}

func noteInt(op *simnet.Op, key string) int {
	for i := 0; i+1 < len(op.Note); i += 2 {
		if op.Note[i] == key {
			return op.Note[i+1].(int)
		}
	}
	return -1
}

func (r *run) dial(ctx context.Context) (transport.DnsConn, error) {
	v, err := r.dialer.Await(ctx)
	if err != nil {
		return nil, err
	}
	return v.(transport.DnsConn), nil
}

func (r *run) call(c int) {
	cl := r.callers[c]
	if cl == nil {
		cl = &caller{id: c}
		r.callers[c] = cl
	}
	q := new(dns.Msg)
	q.SetQuestion(fmt.Sprintf("c%d.g%d.test.", c, cl.g), dns.TypeTXT)
	q.Id = uint16(r.rng.Intn(65536))
	qb, _ := q.Pack()
	ctx, cancel := context.WithCancel(context.Background())
	cl.cancel, cl.running = cancel, true
	cl.done = make(chan outcome, 1)
	done := cl.done
	r.rec.Log("Call", "c", c)
	go func() {
		defer func() {
			if p := recover(); p != nil {
				done <- outcome{nil, fmt.Errorf("PANIC: %v", p)}
			}
		}()
		resp, err := r.pt.ExchangeContext(ctx, qb)
		done <- outcome{resp, err}
	}()
}

func (r *run) syncDials() {
	for _, op := range r.dialer.Pending() {
		if r.dials[op.ID] == nil {
			r.dials[op.ID] = op
		}
	}
}

func (r *run) waitDial(k int) *simnet.DialOp {
	deadline := time.Now().Add(stepWait)
	for {
		r.syncDials()
		if op := r.dials[k]; op != nil || time.Now().After(deadline) {
			return op
		}
		time.Sleep(100 * time.Microsecond)
	}
}

func (r *run) dialRet(k int, ok bool) bool { return r.dialRetG(k, ok, false) }

func (r *run) dialRetG(k int, ok bool, gated bool) bool {
	op := r.waitDial(k)
	if op == nil {
		return false
	}
	if !ok {
		r.markFailed(k)
		return op.Complete(nil, simnet.ErrRefused)
	}
	opts := simnet.Options{Name: fmt.Sprintf("k%d", k), Datagram: r.sc.Dgram, Annotate: r.annotate(k)}
	if r.sc.HoldClose {
		opts.Manual = func(op *simnet.Op) bool {
			return op.Kind == simnet.OpRead || op.Kind == simnet.OpWrite || op.Kind == simnet.OpClose
		}
	}
	conn := simnet.NewConn(r.rec, opts)
	r.conns[k] = conn
	dc := transport.NewDnsConn(transport.TraditionalDnsConnOpts{WithLengthHeader: !r.sc.Dgram, MaxConcurrentQuery: r.sc.L,
		IdleTimeout: 300 * time.Second}, conn)
	var ret transport.DnsConn = dc
	if gated {
		ret = &gatedConn{DnsConn: dc, gate: r.gate}
	}
	if !op.Complete(ret, nil) {
		dc.Close()
		return false
	}
	return true
}

type pw struct {
	conn *simnet.Conn
	op   *simnet.Op
}

func (r *run) pendingWrites() []pw {
	var out []pw
	for k := 1; k <= len(r.conns)+8; k++ {
		if c := r.conns[k]; c != nil {
			for _, op := range c.Pending() {
				if op.Kind == simnet.OpWrite {
					out = append(out, pw{c, op})
				}
			}
		}
	}
	return out
}

func (r *run) findWrite(c int) *pw {
	for _, w := range r.pendingWrites() {
		if noteInt(w.op, "c") == c {
			return &w
		}
	}
	return nil
}

func errClass(err error) string {
	switch {
	case errors.Is(err, transport.ErrLazyConnCannotReserveQueryExchanger), errors.Is(err, transport.ErrNewConnCannotReserveQueryExchanger):
		return "refused"
	case errors.Is(err, simnet.ErrRefused):
		return "dial"
	case strings.HasPrefix(err.Error(), "PANIC"):
		return "panic"
	}
	return "other"
}

func (r *run) logEnd(cl *caller, o outcome) {
	if o.err != nil {
		r.rec.Log("ExchangeEnd", "c", cl.id, "r", "err", "e", errClass(o.err), "text", o.err.Error())
	} else {
		r.rec.Log("ExchangeEnd", "c", cl.id, "r", "reply", "e", "")
		pool.ReleaseBuf(o.resp)
	}
	cl.running = false
	cl.cancel()
	cl.g++
}

func (r *run) collect() {
	for _, cl := range r.callers {
		if cl.running {
			select {
			case o := <-cl.done:
				r.logEnd(cl, o)
			default:
			}
		}
	}
}

func (r *run) finish(c int) bool {
	cl := r.callers[c]
	if cl == nil || !cl.running {
		return true
	}
	if sq, ok := r.sent[c]; ok { // Write already released by a WriteRet step: hand the reply over now
		delete(r.sent, c)
		rep := append([]byte(nil), sq.payload...)
		rep[2] |= 0x80
		select {
		case o := <-cl.done: // the call is already over (it did not wait for its reply)
			sq.conn.Deliver(rep, stepWait, "c", c)
			r.logEnd(cl, o)
			return true
		default:
		}
		if !sq.conn.Deliver(rep, stepWait, "c", c) {
			return false
		}
		select {
		case o := <-cl.done:
			r.logEnd(cl, o)
			return true
		case <-time.After(stepWait):
			return false
		}
	}
	deadline := time.Now().Add(stepWait)
	var w *pw
	for w == nil && time.Now().Before(deadline) {
		select {
		case o := <-cl.done: // ended without a (further) write
			r.logEnd(cl, o)
			return true
		default:
		}
		if w = r.findWrite(c); w == nil {
			time.Sleep(100 * time.Microsecond)
		}
	}
	if w == nil {
		return false
	}
	p := w.op.Data
	if !r.sc.Dgram {
		p = p[2:]
	}
	rep := append([]byte(nil), p...)
	rep[2] |= 0x80
	w.op.Complete(nil)
	if !w.conn.Deliver(rep, stepWait, "c", c) {
		return false
	}
	select {
	case o := <-cl.done:
		r.logEnd(cl, o)
		return true
	case <-time.After(stepWait):
		return false
	}
}

func (r *run) waitWrites(n int) {
	deadline := time.Now().Add(stepWait)
	last, lastChange := -1, time.Now()
	for time.Now().Before(deadline) {
		k := len(r.pendingWrites())
		if k >= n {
			return
		}
		if k != last {
			last, lastChange = k, time.Now()
		}
		if time.Since(lastChange) > 150*time.Millisecond { // nothing moves any more
			return
		}
		time.Sleep(200 * time.Microsecond)
	}
}

func (r *run) steer() (bool, string) {
	for i, st := range r.sc.Steps {
		fail := func(m string) (bool, string) { return false, fmt.Sprintf("step %d %s: %s", i, st.A, m) }
		switch st.A {
		case "Call":
			r.call(st.C)
		case "WaitDial":
			if r.waitDial(st.K) == nil {
				return fail("dial not seen")
			}
		case "DialOk", "DialFail":
			if !r.dialRet(st.K, st.A == "DialOk") {
				return fail("dial not pending")
			}
		case "DialOkGated":
			if !r.dialRetG(st.K, true, true) {
				return fail("dial not pending")
			}
		case "WaitGate": // n arrivals at the gate are expected
			if !r.gate.WaitN(st.N, stepWait) {
				return fail("gate arrivals not seen")
			}
		case "WaitGateMore": // bounded observation: does a further caller get through to the dialed connection?
			r.gate.WaitN(st.N, time.Duration(st.K)*time.Millisecond)
		case "ReleaseGates": // newest arrival first, one at a time; then the gate stays open
			ps := r.gate.Pending()
			for i := len(ps) - 1; i >= 0; i-- {
				ps[i].Release()
				time.Sleep(3 * time.Millisecond)
			}
			r.gate.Open()
		case "WriteRet":
			deadline := time.Now().Add(stepWait)
			var w *pw
			for w == nil && time.Now().Before(deadline) {
				if w = r.findWrite(st.C); w == nil {
					time.Sleep(100 * time.Microsecond)
				}
			}
			if w == nil {
				return fail("no pending write")
			}
			p := w.op.Data
			if !r.sc.Dgram {
				p = p[2:]
			}
			r.sent[st.C] = sentQ{w.conn, append([]byte(nil), p...)}
			w.op.Complete(nil)
		case "Kill": // the peer closes connection k: its pending Read returns EOF
			c := r.conns[st.K]
			if c == nil || !c.EOF(stepWait) {
				return fail("no pending Read")
			}
			for cc, sq := range r.sent { // replies to queries sent on the dead connection will never come
				if sq.conn == c {
					delete(r.sent, cc)
				}
			}
		case "WaitClose": // the code has called Close() on connection k (held)
			c := r.conns[st.K]
			if c == nil || c.Wait(simnet.IsKind(simnet.OpClose), stepWait) == nil {
				return fail("Close() not seen")
			}
		case "ReleaseClose":
			if c := r.conns[st.K]; c != nil {
				if op := c.Find(simnet.IsKind(simnet.OpClose)); op != nil {
					op.Complete(nil)
				}
			}
		case "WaitDialOpt": // bounded observation: does dial k show up within n ms?
			deadline := time.Now().Add(time.Duration(st.N) * time.Millisecond)
			for time.Now().Before(deadline) {
				r.syncDials()
				if r.dials[st.K] != nil {
					break
				}
				r.collect()
				time.Sleep(time.Millisecond)
			}
		case "Sleep":
			time.Sleep(time.Duration(st.N) * time.Millisecond)
		case "WaitWrites":
			r.waitWrites(st.N)
		case "Finish":
			if !r.finish(st.C) {
				return fail("could not finish")
			}
		case "Collect":
			time.Sleep(2 * time.Millisecond)
			r.collect()
		case "FinishAll":
			for round := 0; round < 200; round++ {
				r.collect()
				busy := false
				for _, cl := range r.callers {
					busy = busy || cl.running
				}
				if !busy {
					break
				}
				// complete dials that appeared meanwhile (retries may dial)
				r.syncDials()
				for k, op := range r.dials {
					if r.conns[k] == nil && op != nil {
						r.dialRet(k, true)
					}
				}
				ws := r.pendingWrites()
				if len(ws) == 0 {
					time.Sleep(500 * time.Microsecond)
					continue
				}
				w := ws[r.rng.Intn(len(ws))]
				if !r.finish(noteInt(w.op, "c")) {
					return fail("could not finish")
				}
			}
			for _, cl := range r.callers {
				if cl.running {
					return fail(fmt.Sprintf("caller %d did not return", cl.id))
				}
			}
		}
	}
	return true, ""
}

func (r *run) randomRun() (bool, string) {
	cfg := r.sc.Random
	left := map[int]int{}
	for c := 0; c < cfg.Callers; c++ {
		left[c] = cfg.Calls
		r.callers[c] = &caller{id: c}
	}
	idle := time.Time{}
	for iter := 0; iter < 20000; iter++ {
		r.collect()
		var moves []func() bool
		all := true
		for c := 0; c < cfg.Callers; c++ {
			c := c
			if r.callers[c].running {
				all = false
			} else if left[c] > 0 {
				all = false
				moves = append(moves, func() bool { left[c]--; r.call(c); return true })
			}
		}
		if all {
			return true, ""
		}
		r.syncDials()
		for k, op := range r.dials {
			k, op := k, op
			if r.conns[k] != nil {
				continue
			}
			if r.rng.Float64() < cfg.PDialFail {
				moves = append(moves, func() bool { r.markFailed(k); return op.Complete(nil, simnet.ErrRefused) })
			} else {
				moves = append(moves, func() bool { return r.dialRet(k, true) })
			}
		}
		for _, w := range r.pendingWrites() {
			c := noteInt(w.op, "c")
			moves = append(moves, func() bool { return r.finish(c) }, func() bool { return r.finish(c) })
		}
		if len(moves) == 0 {
			if idle.IsZero() {
				idle = time.Now()
			}
			if time.Since(idle) > stepWait {
				return false, "no move possible (a call is stuck)"
			}
			time.Sleep(100 * time.Microsecond)
			continue
		}
		idle = time.Time{}
		if !moves[r.rng.Intn(len(moves))]() {
			return false, "move failed"
		}
	}
	return false, "iteration limit"
}

var failedDial = simnet.NewConn(simnet.NewRecorder(), simnet.Options{Name: "failed"})

func (r *run) markFailed(k int) bool {
	r.conns[k] = failedDial // placeholder: never has pending ops
	return true
}

func runScript(idx int, sc *Script, seed int64) (res Result) {
	res = Result{Idx: idx, Name: sc.Name}
	r := &run{sc: sc, rec: simnet.NewRecorder(), conns: map[int]*simnet.Conn{}, dials: map[int]*simnet.DialOp{},
		callers: map[int]*caller{}, rng: rand.New(rand.NewSource(seed)), sent: map[int]sentQ{}}
	r.dialer = simnet.NewDialer(r.rec, "d")
	r.gate = simnet.NewGate(r.rec, "reserve", false)
	defer func() {
		if p := recover(); p != nil {
			res.Panic = fmt.Sprint(p)
			res.Events = r.rec.Events()
		}
	}()
	r.rec.Log("reset", "q", sc.Q, "l", sc.L)
	r.pt = transport.NewPipelineTransport(transport.PipelineOpts{DialContext: r.dial, MaxConcurrentQueryWhileDialing: sc.Q,
		DialTimeout: time.Duration(sc.DialTimeoutMs) * time.Millisecond})
	if sc.Random != nil {
		res.Steered, res.Why = r.randomRun()
	} else {
		res.Steered, res.Why = r.steer()
	}
	res.Events = r.rec.Events()
	// cleanup, unrecorded
	r.rec.SetOff(true)
	r.gate.Open()
	for _, cl := range r.callers {
		if cl.cancel != nil {
			cl.cancel()
		}
	}
	go r.pt.Close() // may block behind a held Close() of a connection: the loop below completes those
	deadline := time.Now().Add(2 * time.Second)
	for time.Now().Before(deadline) {
		busy := false
		for _, c := range r.conns {
			for _, op := range c.Pending() {
				op.Complete(nil)
				busy = true
			}
		}
		for _, cl := range r.callers {
			if cl.running {
				select {
				case o := <-cl.done:
					if o.resp != nil {
						pool.ReleaseBuf(o.resp)
					}
					cl.running = false
				default:
					busy = true
				}
			}
		}
		if !busy {
			break
		}
		time.Sleep(200 * time.Microsecond)
	}
	return
}

func main() {
	var job Job
	if err := vh.ReadJob(&job); err != nil {
		fmt.Fprintln(os.Stderr, "bad job:", err)
		os.Exit(3)
	}
	if job.Workers <= 0 {
		job.Workers = 8
	}
	seed := vh.Seed()
	var wg sync.WaitGroup
	sem := make(chan struct{}, job.Workers)
	out := make([]Result, len(job.Scripts))
	for i := range job.Scripts {
		wg.Add(1)
		sem <- struct{}{}
		go func(i int) {
			defer wg.Done()
			defer func() { <-sem }()
			sc := &job.Scripts[i]
			s := seed*1000003 + int64(i)
			if sc.Random != nil && sc.Random.Seed != 0 {
				s = sc.Random.Seed
			}
			out[i] = runScript(i, sc, s)
		}(i)
	}
	wg.Wait()
	for i := range out {
		vh.Emit(out[i])
	}
	vh.Flush()
}
