//go:build verif

// drv_udpfb: C17. The REAL upstream.NewUpstream("udp://127.x.y.z:port") exchanges one query with
// harness UDP and TCP servers bound to the same loopback address and port. The UDP server answers
// with a scripted header flag word (bytes 2-3) and size; the TCP server answers, hangs up after the
// query, or does not listen at all. Everything the servers see and the call's result are recorded
// under one mutex as the event trace for UdpFallback_Trace.tla. Expected results come from TLC.
package main

import (
	"bytes"
	"context"
	"encoding/binary"
	"fmt"
	"io"
	"math/rand"
	"net"
	"os"
	"strings"
	"sync"
	"time"

	"github.com/IrineSistiana/mosdns/v5/pkg/upstream"
	"github.com/miekg/dns"

	"verif/harness/vh"
)

type Case struct {
	ID      int    `json:"id"`
	Mode    string `json:"mode"` // answers | refuses | fails
	Word    int    `json:"word"` // header bytes 2-3 of the UDP reply
	Size    int    `json:"size"` // length of the UDP reply (12..4095)
	TcpSize int    `json:"tcp_size"`
	QV      int    `json:"qv"` // query variant
}

type Job struct {
	Cases     []Case `json:"cases"`
	Workers   int    `json:"workers"`
	TimeoutMs int    `json:"timeout_ms"`
}

type Result struct {
	ID           int              `json:"id"`
	Addr         string           `json:"addr"`
	Kind         string           `json:"kind"` // udp | tcp | err | other
	IDOk         bool             `json:"idok"`
	Err          string           `json:"err,omitempty"`
	TcpAccepts   int              `json:"tcp_accepts"`
	UdpQueries   int              `json:"udp_queries"`
	Events       []map[string]any `json:"events"`
	Inconclusive string           `json:"inconclusive,omitempty"`
	Skipped      string           `json:"skipped,omitempty"`
	Panic        string           `json:"panic,omitempty"`
	Tries        int              `json:"tries"`
	Ms           int64            `json:"ms"`
}

type rec struct {
	mu sync.Mutex
	ev []map[string]any
}

func (r *rec) log(e map[string]any) {
	r.mu.Lock()
	r.ev = append(r.ev, e)
	r.mu.Unlock()
}

func mkQuery(rng *rand.Rand, qv int) []byte {
	m := new(dns.Msg)
	names := []string{"example.com.", "a.very.long.label.chain.verif.example.", "x.", "Mixed.Case.Example."}
	types := []uint16{dns.TypeA, dns.TypeAAAA, dns.TypeTXT, dns.TypeHTTPS, 65280}
	m.SetQuestion(names[qv%len(names)], types[(qv/len(names))%len(types)])
	m.Id = uint16(rng.Intn(65536))
	if qv%3 == 1 {
		m.SetEdns0(1232, true)
	}
	if qv%7 == 3 {
		m.Id = 0
	}
	if qv%7 == 4 {
		m.Id = 0xffff
	}
	b, err := m.Pack()
	if err != nil {
		panic(err)
	}
	return b
}

// mkReply builds a message of exactly size bytes: header with the given flag word, the question of q
// when it fits, filler afterwards.
func mkReply(q []byte, word uint16, size int, fill byte) []byte {
	b := make([]byte, size)
	binary.BigEndian.PutUint16(b[2:], word)
	if size >= len(q) {
		copy(b[4:], q[4:])
		for i := len(q); i < size; i++ {
			b[i] = fill + byte(i)
		}
	} else {
		for i := 12; i < size; i++ {
			b[i] = fill + byte(i)
		}
	}
	return b
}

func runOnce(c Case, timeout time.Duration, try int) (res Result) {
	rng := rand.New(rand.NewSource(vh.Seed()*7919 + int64(c.ID)))
	res = Result{ID: c.ID, Tries: try}
	r := &rec{}
	tc := c.Word&0x0200 != 0
	oth := c.Word&0xfdff != 0
	r.log(map[string]any{"ev": "Start", "mode": c.Mode, "tc": tc, "oth": oth})

	var uc net.PacketConn
	var tl net.Listener
	var err error
	for i := 0; i < 20; i++ {
		ip := fmt.Sprintf("127.%d.%d.%d", 1+rng.Intn(250), rng.Intn(256), 1+rng.Intn(254))
		uc, err = net.ListenPacket("udp", ip+":0")
		if err != nil {
			continue
		}
		if c.Mode == "refuses" {
			break
		}
		tl, err = net.Listen("tcp", uc.LocalAddr().String())
		if err == nil {
			break
		}
		uc.Close()
		uc = nil
	}
	if uc == nil {
		res.Skipped = fmt.Sprint("bind: ", err)
		return
	}
	defer uc.Close()
	if tl != nil {
		defer tl.Close()
	}
	res.Addr = "udp://" + uc.LocalAddr().String()

	q := mkQuery(rng, c.QV)
	udpReply := mkReply(q, uint16(c.Word), c.Size, 0x11)
	tcpReply := mkReply(q, 0x8180, c.TcpSize, 0x77)
	var cnt struct {
		sync.Mutex
		acc, uq int
	}

	// UDP server
	go func() {
		b := make([]byte, 65536)
		for {
			n, from, err := uc.ReadFrom(b)
			if err != nil {
				return
			}
			if n < 12 {
				continue
			}
			cnt.Lock()
			cnt.uq++
			cnt.Unlock()
			r.log(map[string]any{"ev": "UdpQuery", "same": bytes.Equal(b[2:n], q[2:])})
			rep := append([]byte(nil), udpReply...)
			copy(rep[:2], b[:2])
			// not instantly: the pinned transport may drop a reply that arrives before the caller parks (C02)
			time.Sleep(2 * time.Millisecond)
			r.log(map[string]any{"ev": "UdpReply"})
			uc.WriteTo(rep, from)
		}
	}()
	// TCP server
	var wg sync.WaitGroup
	if tl != nil {
		go func() {
			for {
				conn, err := tl.Accept()
				if err != nil {
					return
				}
				cnt.Lock()
				cnt.acc++
				cnt.Unlock()
				r.log(map[string]any{"ev": "TcpAccept"})
				wg.Add(1)
				go func() {
					defer wg.Done()
					defer conn.Close()
					conn.SetDeadline(time.Now().Add(8 * time.Second))
					for {
						h := make([]byte, 2)
						if _, err := io.ReadFull(conn, h); err != nil {
							return
						}
						body := make([]byte, binary.BigEndian.Uint16(h))
						if _, err := io.ReadFull(conn, body); err != nil {
							return
						}
						r.log(map[string]any{"ev": "TcpQuery", "same": len(body) >= 2 && bytes.Equal(body[2:], q[2:])})
						if c.Mode == "fails" {
							r.log(map[string]any{"ev": "TcpClose"})
							return
						}
						rep := make([]byte, 2+len(tcpReply))
						binary.BigEndian.PutUint16(rep, uint16(len(tcpReply)))
						copy(rep[2:], tcpReply)
						if len(body) >= 2 {
							copy(rep[2:4], body[:2])
						}
						r.log(map[string]any{"ev": "TcpReply"})
						if _, err := conn.Write(rep); err != nil {
							return
						}
					}
				}()
			}
		}()
	}

	func() {
		defer func() {
			if p := recover(); p != nil {
				res.Panic = fmt.Sprint(p)
			}
		}()
		u, err := upstream.NewUpstream(res.Addr, upstream.Opt{})
		if err != nil {
			res.Skipped = "NewUpstream: " + err.Error()
			return
		}
		defer u.Close()
		ctx, cancel := context.WithTimeout(context.Background(), timeout)
		defer cancel()
		rp, err := u.ExchangeContext(ctx, append([]byte(nil), q...))
		switch {
		case err != nil:
			res.Kind, res.Err, res.IDOk = "err", err.Error(), true
			if ctx.Err() != nil || strings.Contains(res.Err, "deadline") {
				res.Inconclusive = "context ended: " + res.Err
			}
		case rp == nil || len(*rp) < 2:
			res.Kind = "other"
		default:
			b := *rp
			res.IDOk = bytes.Equal(b[:2], q[:2])
			switch {
			case bytes.Equal(b[2:], udpReply[2:]):
				res.Kind = "udp"
			case bytes.Equal(b[2:], tcpReply[2:]):
				res.Kind = "tcp"
			default:
				res.Kind = "other"
			}
		}
	}()
	if res.Skipped != "" || res.Panic != "" {
		return
	}
	r.log(map[string]any{"ev": "Result", "kind": res.Kind, "idok": res.IDOk})
	r.mu.Lock()
	res.Events = append([]map[string]any(nil), r.ev...)
	r.mu.Unlock()
	cnt.Lock()
	res.TcpAccepts, res.UdpQueries = cnt.acc, cnt.uq
	cnt.Unlock()
	return
}

func runCase(c Case, timeout time.Duration) (res Result) {
	t0 := time.Now()
	defer func() { res.Ms = time.Since(t0).Milliseconds() }()
	for try := 1; try <= 3; try++ {
		res = runOnce(c, timeout, try)
		if res.Inconclusive == "" {
			break
		}
	}
	return
}

func main() {
	var job Job
	if err := vh.ReadJob(&job); err != nil {
		fmt.Fprintln(os.Stderr, "bad job:", err)
		os.Exit(3)
	}
	if job.Workers <= 0 {
		job.Workers = 16
	}
	if job.TimeoutMs <= 0 {
		job.TimeoutMs = 4000
	}
	ch := make(chan Case)
	var wg sync.WaitGroup
	for i := 0; i < job.Workers; i++ {
		wg.Add(1)
		go func() {
			defer wg.Done()
			for c := range ch {
				vh.Emit(runCase(c, time.Duration(job.TimeoutMs)*time.Millisecond))
			}
		}()
	}
	for _, c := range job.Cases {
		ch <- c
	}
	close(ch)
	wg.Wait()
	vh.Flush()
}
