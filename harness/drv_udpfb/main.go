//go:build verif

// drv_udpfb: C17. The REAL upstream.NewUpstream("udp://127.x.y.z:port") exchanges one query with
// harness UDP and TCP servers bound to the same loopback address and port. The UDP server answers
// with a scripted header flag word (bytes 2-3) and size; the TCP server answers, hangs up after the
// query, or does not listen at all. Everything the servers see and the call's result are recorded
// under one mutex as the event trace for UdpFallback_Trace.tla. Expected results come from TLC.
package main

import (
	"bytes"
	"context"
	"encoding/binary"
	"fmt"
	"io"
	"math/rand"
	"net"
	"os"
	"strings"
	"sync"
	"time"

	"github.com/IrineSistiana/mosdns/v5/pkg/upstream"
	"github.com/miekg/dns"

	"verif/harness/vh"
)

type Case struct {
	ID      int    `json:"id"`
	Mode    string `json:"mode"` // answers | refuses | fails
	Word    int    `json:"word"` // header bytes 2-3 of the UDP reply
	Size    int    `json:"size"` // length of the UDP reply (12..4095)
	TcpSize int    `json:"tcp_size"`
	QV      int    `json:"qv"` // query variant
	// Prime: "tcpfail" = before the recorded exchange, another exchange on the SAME upstream gets a truncated UDP reply and
	// its TCP retry fails (server closes after reading the query). Not recorded: the recorded exchange's outcome must
	// follow its own UDP reply whatever happened to earlier exchanges.
	Prime string `json:"prime,omitempty"`
}

// SeqJob: several exchanges on ONE upstream, steered by the environment steps of a behaviour of
// UdpFallbackSeq.tla: ["start", x] ["cancel", x] ["answer", y].
type SeqJob struct {
	ID    int     `json:"id"`
	N     int     `json:"n"`
	TC    []bool  `json:"tc"` // is exchange x's own UDP reply truncated
	Steps [][]any `json:"steps"`
}

type Job struct {
	Seqs      []SeqJob `json:"seqs"`
	Cases     []Case   `json:"cases"`
	Workers   int      `json:"workers"`
	TimeoutMs int      `json:"timeout_ms"`
}

type XRes struct {
	X    int    `json:"x"`
	Kind string `json:"kind"`
	For  int    `json:"for"`
	IDOk bool   `json:"idok"`
	Err  string `json:"err,omitempty"`
}

type Result struct {
	Seq          bool             `json:"seq,omitempty"`
	Results      []XRes           `json:"results,omitempty"`
	ID           int              `json:"id"`
	Addr         string           `json:"addr"`
	Kind         string           `json:"kind"` // udp | tcp | err | other
	IDOk         bool             `json:"idok"`
	Err          string           `json:"err,omitempty"`
	TcpAccepts   int              `json:"tcp_accepts"`
	UdpQueries   int              `json:"udp_queries"`
	Events       []map[string]any `json:"events"`
	Inconclusive string           `json:"inconclusive,omitempty"`
	Skipped      string           `json:"skipped,omitempty"`
	Panic        string           `json:"panic,omitempty"`
	Tries        int              `json:"tries"`
	Ms           int64            `json:"ms"`
}

type rec struct {
	mu    sync.Mutex
	ev    []map[string]any
	quiet bool // priming exchange in progress: nothing is recorded
}

func (r *rec) log(e map[string]any) {
	r.mu.Lock()
	if !r.quiet {
		r.ev = append(r.ev, e)
	}
	r.mu.Unlock()
}

func (r *rec) setQuiet(q bool) {
	r.mu.Lock()
	r.quiet = q
	r.mu.Unlock()
}

func (r *rec) isQuiet() bool {
	r.mu.Lock()
	defer r.mu.Unlock()
	return r.quiet
}

func mkQuery(rng *rand.Rand, qv int) []byte {
	m := new(dns.Msg)
	names := []string{"example.com.", "a.very.long.label.chain.verif.example.", "x.", "Mixed.Case.Example."}
	types := []uint16{dns.TypeA, dns.TypeAAAA, dns.TypeTXT, dns.TypeHTTPS, 65280}
	m.SetQuestion(names[qv%len(names)], types[(qv/len(names))%len(types)])
	m.Id = uint16(rng.Intn(65536))
	if qv%3 == 1 {
		m.SetEdns0(1232, true)
	}
	if qv%7 == 3 {
		m.Id = 0
	}
	if qv%7 == 4 {
		m.Id = 0xffff
	}
	b, err := m.Pack()
	if err != nil {
		panic(err)
	}
	return b
}

// mkReply builds a message of exactly size bytes: header with the given flag word, the question of q
// when it fits, filler afterwards.
func mkReply(q []byte, word uint16, size int, fill byte) []byte {
	b := make([]byte, size)
	binary.BigEndian.PutUint16(b[2:], word)
	if size >= len(q) {
		copy(b[4:], q[4:])
		for i := len(q); i < size; i++ {
			b[i] = fill + byte(i)
		}
	} else {
		for i := 12; i < size; i++ {
			b[i] = fill + byte(i)
		}
	}
	return b
}

func runOnce(c Case, timeout time.Duration, try int) (res Result) {
	rng := rand.New(rand.NewSource(vh.Seed()*7919 + int64(c.ID)))
	res = Result{ID: c.ID, Tries: try}
	r := &rec{}
	tc := c.Word&0x0200 != 0
	oth := c.Word&0xfdff != 0
	r.log(map[string]any{"ev": "Start", "mode": c.Mode, "tc": tc, "oth": oth})
	priming := c.Prime == "tcpfail"
	r.setQuiet(priming)

	var uc net.PacketConn
	var tl net.Listener
	var err error
	for i := 0; i < 20; i++ {
		ip := fmt.Sprintf("127.%d.%d.%d", 1+rng.Intn(250), rng.Intn(256), 1+rng.Intn(254))
		uc, err = net.ListenPacket("udp", ip+":0")
		if err != nil {
			continue
		}
		if c.Mode == "refuses" {
			break
		}
		tl, err = net.Listen("tcp", uc.LocalAddr().String())
		if err == nil {
			break
		}
		uc.Close()
		uc = nil
	}
	if uc == nil {
		res.Skipped = fmt.Sprint("bind: ", err)
		return
	}
	defer uc.Close()
	if tl != nil {
		defer tl.Close()
	}
	res.Addr = "udp://" + uc.LocalAddr().String()

	q := mkQuery(rng, c.QV)
	udpReply := mkReply(q, uint16(c.Word), c.Size, 0x11)
	tcpReply := mkReply(q, 0x8180, c.TcpSize, 0x77)
	var cnt struct {
		sync.Mutex
		acc, uq int
	}

	// UDP server
	go func() {
		b := make([]byte, 65536)
		for {
			n, from, err := uc.ReadFrom(b)
			if err != nil {
				return
			}
			if n < 12 {
				continue
			}
			cnt.Lock()
			cnt.uq++
			cnt.Unlock()
			r.log(map[string]any{"ev": "UdpQuery", "same": bytes.Equal(b[2:n], q[2:])})
			rep := append([]byte(nil), udpReply...)
			if r.isQuiet() {
				rep = mkReply(b[:n], 0x8380, 64, 0x33) // priming exchange: a truncated reply
			}
			copy(rep[:2], b[:2])
			// not instantly: the pinned transport may drop a reply that arrives before the caller parks (C02)
			time.Sleep(2 * time.Millisecond)
			r.log(map[string]any{"ev": "UdpReply"})
			uc.WriteTo(rep, from)
		}
	}()
	// TCP server
	var wg sync.WaitGroup
	if tl != nil {
		go func() {
			for {
				conn, err := tl.Accept()
				if err != nil {
					return
				}
				cnt.Lock()
				cnt.acc++
				cnt.Unlock()
				r.log(map[string]any{"ev": "TcpAccept"})
				wg.Add(1)
				go func() {
					defer wg.Done()
					defer conn.Close()
					conn.SetDeadline(time.Now().Add(8 * time.Second))
					for {
						h := make([]byte, 2)
						if _, err := io.ReadFull(conn, h); err != nil {
							return
						}
						body := make([]byte, binary.BigEndian.Uint16(h))
						if _, err := io.ReadFull(conn, body); err != nil {
							return
						}
						r.log(map[string]any{"ev": "TcpQuery", "same": len(body) >= 2 && bytes.Equal(body[2:], q[2:])})
						if c.Mode == "fails" || r.isQuiet() {
							r.log(map[string]any{"ev": "TcpClose"})
							return
						}
						rep := make([]byte, 2+len(tcpReply))
						binary.BigEndian.PutUint16(rep, uint16(len(tcpReply)))
						copy(rep[2:], tcpReply)
						if len(body) >= 2 {
							copy(rep[2:4], body[:2])
						}
						r.log(map[string]any{"ev": "TcpReply"})
						if _, err := conn.Write(rep); err != nil {
							return
						}
					}
				}()
			}
		}()
	}

	func() {
		defer func() {
			if p := recover(); p != nil {
				res.Panic = fmt.Sprint(p)
			}
		}()
		u, err := upstream.NewUpstream(res.Addr, upstream.Opt{})
		if err != nil {
			res.Skipped = "NewUpstream: " + err.Error()
			return
		}
		defer u.Close()
		if priming {
			pq := mkQuery(rng, c.QV+1)
			pctx, pcancel := context.WithTimeout(context.Background(), timeout)
			_, perr := u.ExchangeContext(pctx, pq)
			timedOut := pctx.Err() != nil
			pcancel()
			if perr == nil || timedOut {
				res.Inconclusive = fmt.Sprintf("priming exchange did not fail as scripted (err=%v, ctx ended=%v)", perr, timedOut)
				return
			}
			cnt.Lock()
			cnt.acc, cnt.uq = 0, 0
			cnt.Unlock()
			r.setQuiet(false)
		}
		ctx, cancel := context.WithTimeout(context.Background(), timeout)
		defer cancel()
		rp, err := u.ExchangeContext(ctx, append([]byte(nil), q...))
		switch {
		case err != nil:
			res.Kind, res.Err, res.IDOk = "err", err.Error(), true
			if ctx.Err() != nil || strings.Contains(res.Err, "deadline") {
				res.Inconclusive = "context ended: " + res.Err
			}
		case rp == nil || len(*rp) < 2:
			res.Kind = "other"
		default:
			b := *rp
			res.IDOk = bytes.Equal(b[:2], q[:2])
			switch {
			case bytes.Equal(b[2:], udpReply[2:]):
				res.Kind = "udp"
			case bytes.Equal(b[2:], tcpReply[2:]):
				res.Kind = "tcp"
			default:
				res.Kind = "other"
			}
		}
	}()
	if res.Skipped != "" || res.Panic != "" || (res.Inconclusive != "" && res.Kind == "") {
		return
	}
	r.log(map[string]any{"ev": "Result", "kind": res.Kind, "idok": res.IDOk})
	r.mu.Lock()
	res.Events = append([]map[string]any(nil), r.ev...)
	r.mu.Unlock()
	cnt.Lock()
	res.TcpAccepts, res.UdpQueries = cnt.acc, cnt.uq
	cnt.Unlock()
	return
}

// ---------------------------------------------------------------------------------------------
// several exchanges on one upstream
// ---------------------------------------------------------------------------------------------

type seqConn struct {
	id      int
	half    bool          // the server has closed its side
	gone    chan struct{} // the client closed after that
	c       net.Conn
	wmu     sync.Mutex
	pending []pend // queries read, reply not yet written (in order)
}

type pend struct {
	x  int
	id [2]byte
}

func runSeq(sj SeqJob) (res Result) {
	t0 := time.Now()
	defer func() { res.Ms = time.Since(t0).Milliseconds() }()
	const stepWait = 15 * time.Second
	rng := rand.New(rand.NewSource(vh.Seed()*104729 + int64(sj.ID)))
	res = Result{Seq: true, ID: sj.ID, Tries: 1}
	r := &rec{}
	n := sj.N
	tc := make([]bool, n+1)
	for x := 1; x <= n; x++ {
		tc[x] = x-1 >= len(sj.TC) || sj.TC[x-1]
	}
	r.log(map[string]any{"ev": "Seq", "tc": tc[1:]})

	var uc net.PacketConn
	var tl net.Listener
	var err error
	for i := 0; i < 20; i++ {
		ip := fmt.Sprintf("127.%d.%d.%d", 1+rng.Intn(250), rng.Intn(256), 1+rng.Intn(254))
		if uc, err = net.ListenPacket("udp", ip+":0"); err != nil {
			continue
		}
		if tl, err = net.Listen("tcp", uc.LocalAddr().String()); err == nil {
			break
		}
		uc.Close()
		uc = nil
	}
	if uc == nil {
		res.Skipped = fmt.Sprint("bind: ", err)
		return
	}
	defer uc.Close()
	defer tl.Close()
	res.Addr = "udp://" + uc.LocalAddr().String()

	qs := make([][]byte, n+1)
	udpRep := make([][]byte, n+1)
	tcpRep := make([][]byte, n+1)
	for x := 1; x <= n; x++ {
		m := new(dns.Msg)
		m.SetQuestion(fmt.Sprintf("e%d-s%d.c17.verif.test.", x, sj.ID), []uint16{dns.TypeA, dns.TypeAAAA, dns.TypeTXT}[x%3])
		m.Id = uint16(rng.Intn(65536))
		qs[x], _ = m.Pack()
		word := uint16(0x8300)
		if !tc[x] {
			word = 0x8100
		}
		udpRep[x] = mkReply(qs[x], word, len(qs[x])+rng.Intn(200), 0x11)
		tcpRep[x] = mkReply(qs[x], 0x8180, len(qs[x])+40+rng.Intn(2000), 0x77)
	}
	which := func(b []byte) int { // which exchange's query is this (modulo the id)
		for x := 1; x <= n; x++ {
			if len(b) >= 2 && bytes.Equal(b[2:], qs[x][2:]) {
				return x
			}
		}
		return 0
	}

	var mu sync.Mutex // server state
	conns := []*seqConn{}
	lastWire := make([][]byte, n+1) // wire id of x's last UDP query
	var dupArmed []int              // copies of finished exchanges' replies to send before the next reply
	seenTcp := make([]chan struct{}, n+1)
	done := make([]chan struct{}, n+1)
	for x := 1; x <= n; x++ {
		seenTcp[x], done[x] = make(chan struct{}), make(chan struct{})
	}

	go func() { // UDP server: every reply is truncated
		b := make([]byte, 65536)
		for {
			k, from, err := uc.ReadFrom(b)
			if err != nil {
				return
			}
			if k < 12 {
				continue
			}
			x := which(b[:k])
			r.log(map[string]any{"ev": "UdpQuery", "x": x, "same": x != 0})
			if x == 0 {
				continue
			}
			mu.Lock()
			lastWire[x] = append([]byte(nil), b[:2]...)
			dups := dupArmed
			dupArmed = nil
			mu.Unlock()
			for _, y := range dups {
				// a late / duplicated copy of the reply to the finished exchange y, with y's wire id
				if lastWire[y] == nil {
					continue
				}
				d := append([]byte(nil), udpRep[y]...)
				copy(d[:2], lastWire[y])
				r.log(map[string]any{"ev": "UdpDup", "y": y})
				uc.WriteTo(d, from)
			}
			rep := append([]byte(nil), udpRep[x]...)
			copy(rep[:2], b[:2])
			time.Sleep(2 * time.Millisecond) // see runOnce
			r.log(map[string]any{"ev": "UdpReply", "x": x})
			uc.WriteTo(rep, from)
		}
	}()
	go func() { // TCP server: reads queries, answers when released, in order per connection
		for {
			c, err := tl.Accept()
			if err != nil {
				return
			}
			mu.Lock()
			sc := &seqConn{id: len(conns) + 1, c: c, gone: make(chan struct{})}
			conns = append(conns, sc)
			r.log(map[string]any{"ev": "TcpAccept", "c": sc.id})
			mu.Unlock()
			go func() {
				defer c.Close()
				gone := func() {
					mu.Lock()
					if sc.half {
						r.log(map[string]any{"ev": "CClosed", "c": sc.id})
						close(sc.gone)
					}
					mu.Unlock()
				}
				for {
					h := make([]byte, 2)
					if _, err := io.ReadFull(c, h); err != nil {
						gone()
						return
					}
					body := make([]byte, binary.BigEndian.Uint16(h))
					if _, err := io.ReadFull(c, body); err != nil {
						gone()
						return
					}
					x := which(body)
					mu.Lock()
					r.log(map[string]any{"ev": "TcpQuery", "c": sc.id, "x": x, "same": x != 0})
					if x != 0 {
						p := pend{x: x}
						copy(p.id[:], body[:2])
						sc.pending = append(sc.pending, p)
						select {
						case <-seenTcp[x]:
						default:
							close(seenTcp[x])
						}
					}
					mu.Unlock()
				}
			}()
		}
	}()
	// release the reply to y (and, in order, everything queued before it on the same connection)
	release := func(y int) bool {
		mu.Lock()
		defer mu.Unlock()
		for _, sc := range conns {
			for i, p := range sc.pending {
				if p.x != y {
					continue
				}
				for _, z := range sc.pending[:i+1] {
					rep := make([]byte, 2+len(tcpRep[z.x]))
					binary.BigEndian.PutUint16(rep, uint16(len(tcpRep[z.x])))
					copy(rep[2:], tcpRep[z.x])
					copy(rep[2:4], z.id[:])
					r.log(map[string]any{"ev": "TcpReply", "c": sc.id, "y": z.x})
					sc.c.Write(rep)
				}
				sc.pending = sc.pending[i+1:]
				return true
			}
		}
		return false
	}

	u, err := upstream.NewUpstream(res.Addr, upstream.Opt{})
	if err != nil {
		res.Skipped = "NewUpstream: " + err.Error()
		return
	}
	defer u.Close()
	cancels := make([]context.CancelFunc, n+1)
	cancelled := make([]bool, n+1)
	xres := make([]XRes, n+1)
	waitCh := func(ch chan struct{}) bool {
		select {
		case <-ch:
			return true
		case <-time.After(stepWait):
			return false
		}
	}
	stepOf := func(st []any) (string, int) {
		op, _ := st[0].(string)
		xf, _ := st[1].(float64)
		return op, int(xf)
	}
	for si, st := range sj.Steps {
		op, x := stepOf(st)
		switch op {
		case "dup":
			// armed together with the start step before it
		case "sclose":
			mu.Lock()
			var sc *seqConn
			if x >= 1 && x <= len(conns) {
				sc = conns[x-1]
			}
			if sc != nil && !sc.half && len(sc.pending) == 0 {
				sc.half = true
				r.log(map[string]any{"ev": "SClose", "c": sc.id})
				if t, ok := sc.c.(*net.TCPConn); ok {
					t.CloseWrite()
				} else {
					sc.c.Close()
				}
			} else {
				sc = nil
			}
			mu.Unlock()
			if sc != nil && !waitCh(sc.gone) {
				res.Inconclusive = fmt.Sprintf("the client did not close connection %d after the server had", x)
			}
		case "start":
			// duplicates that the schedule delivers while x waits for its UDP reply
			mu.Lock()
			for _, nx := range sj.Steps[si+1:] {
				nop, ny := stepOf(nx)
				if nop != "dup" {
					break
				}
				dupArmed = append(dupArmed, ny)
			}
			mu.Unlock()
			ctx, cancel := context.WithTimeout(context.Background(), 4*stepWait)
			cancels[x] = cancel
			defer cancel()
			r.log(map[string]any{"ev": "Start", "x": x})
			go func() {
				defer close(done[x])
				defer func() {
					if p := recover(); p != nil {
						xres[x] = XRes{X: x, Kind: "panic", Err: fmt.Sprint(p)}
						r.log(map[string]any{"ev": "Panic", "x": x})
					}
				}()
				xr := XRes{X: x}
				rp, err := u.ExchangeContext(ctx, append([]byte(nil), qs[x]...))
				switch {
				case err != nil:
					xr.Kind, xr.Err, xr.IDOk = "err", err.Error(), true
				case rp == nil || len(*rp) < 2:
					xr.Kind = "other"
				default:
					b := *rp
					xr.IDOk = bytes.Equal(b[:2], qs[x][:2])
					xr.Kind = "other"
					for z := 1; z <= n; z++ {
						if bytes.Equal(b[2:], tcpRep[z][2:]) {
							xr.Kind, xr.For = "tcp", z
						} else if bytes.Equal(b[2:], udpRep[z][2:]) {
							xr.Kind, xr.For = "udp", z
						}
					}
				}
				xres[x] = xr
				r.log(map[string]any{"ev": "Result", "x": x, "kind": xr.Kind, "for": xr.For, "idok": xr.IDOk})
			}()
			select {
			case <-seenTcp[x]:
			case <-done[x]:
			case <-time.After(stepWait):
				res.Inconclusive = fmt.Sprintf("exchange %d: no TCP query within %v", x, stepWait)
			}
		case "cancel":
			select {
			case <-done[x]:
				res.Inconclusive = fmt.Sprintf("exchange %d ended before it could be cancelled", x)
			default:
				cancelled[x] = true
				r.log(map[string]any{"ev": "Cancel", "x": x})
				cancels[x]()
				if !waitCh(done[x]) {
					res.Inconclusive = fmt.Sprintf("cancelled exchange %d did not return", x)
				}
			}
		case "answer":
			release(x)
			if !cancelled[x] {
				if !waitCh(done[x]) {
					res.Inconclusive = fmt.Sprintf("exchange %d did not return after its reply was sent", x)
				}
			} else {
				time.Sleep(3 * time.Millisecond) // let the client consume the late reply
			}
		}
		if res.Inconclusive != "" {
			break
		}
	}
	for x := 1; x <= n; x++ {
		select {
		case <-done[x]:
			res.Results = append(res.Results, xres[x])
		default:
		}
	}
	r.mu.Lock()
	res.Events = append([]map[string]any(nil), r.ev...)
	r.mu.Unlock()
	return
}

func runCase(c Case, timeout time.Duration) (res Result) {
	t0 := time.Now()
	defer func() { res.Ms = time.Since(t0).Milliseconds() }()
	for try := 1; try <= 3; try++ {
		res = runOnce(c, timeout, try)
		if res.Inconclusive == "" {
			break
		}
	}
	return
}

func main() {
	var job Job
	if err := vh.ReadJob(&job); err != nil {
		fmt.Fprintln(os.Stderr, "bad job:", err)
		os.Exit(3)
	}
	if job.Workers <= 0 {
		job.Workers = 16
	}
	if job.TimeoutMs <= 0 {
		job.TimeoutMs = 4000
	}
	ch := make(chan Case)
	var wg sync.WaitGroup
	for i := 0; i < job.Workers; i++ {
		wg.Add(1)
		go func() {
			defer wg.Done()
			for c := range ch {
				vh.Emit(runCase(c, time.Duration(job.TimeoutMs)*time.Millisecond))
			}
		}()
	}
	for _, c := range job.Cases {
		ch <- c
	}
	close(ch)
	sch := make(chan SeqJob)
	for i := 0; i < job.Workers; i++ {
		wg.Add(1)
		go func() {
			defer wg.Done()
			for sj := range sch {
				vh.Emit(runSeq(sj))
			}
		}()
	}
	for _, sj := range job.Seqs {
		sch <- sj
	}
	close(sch)
	wg.Wait()
	vh.Flush()
}
