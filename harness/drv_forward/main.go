//go:build verif

// drv_forward: leg B / leg C driver for C14.
//
// The real forward plugin (fastforward.Forward, built by the verif-only constructor
// NewForwardWithUpstreams) talks to in-memory upstreams owned by the harness.  Every
// ExchangeContext call is a gate: it records what it received (bytes, deadline of its context)
// and returns the scripted outcome when the controller releases it.  A schedule of Forward.tla
// (release order, collect points, cancel point) is forced onto the plugin; the run is recorded as
// an event trace (sequence numbers under one mutex) for Forward_Trace.tla.  Scenarios run one after
// the other, so "helper goroutines ended" can be observed as the goroutine count returning to its
// value before the call.
package main

import (
	"bytes"
	"context"
	"errors"
	"fmt"
	"math/rand"
	"net"
	"os"
	"runtime"
	"sync"
	"time"

	"github.com/IrineSistiana/mosdns/v5/pkg/pool"
	"github.com/IrineSistiana/mosdns/v5/pkg/query_context"
	"github.com/IrineSistiana/mosdns/v5/pkg/upstream"
	"github.com/IrineSistiana/mosdns/v5/pkg/verifpoint"
	fastforward "github.com/IrineSistiana/mosdns/v5/plugin/executable/forward"
	"github.com/miekg/dns"

	"verif/harness/vh"
)

type Step struct {
	A string `json:"a"`
	I int    `json:"i"`
	O string `json:"o"`
}

type ResultID struct {
	K string `json:"k"`
	W int    `json:"w"`
}

type Behaviour struct {
	N      int      `json:"n"`
	C      int      `json:"c"`
	K      int      `json:"k"`
	Result ResultID `json:"result"`
	Outs   []string `json:"outs"`
	Steps  []Step   `json:"steps"`
}

type Job struct {
	Behaviours []Behaviour `json:"behaviours"`
	Random     int         `json:"random"`     // additional unsteered runs (random n, c, outcomes, timing)
	RealNever  int         `json:"real_never"` // runs in which a silent upstream is left to the worker's own 5 s timeout
	StepWaitMs int         `json:"step_wait_ms"`
	Early      int         `json:"early"` // runs in which the call returns before (some) workers have started
	Multi      int         `json:"multi"` // rounds with several execs configured on one Forward instance
}

type Event map[string]any

type Out struct {
	Idx      int        `json:"idx"`
	Kind     string     `json:"kind"` // replay | random | never
	Steered  bool       `json:"steered"`
	Why      string     `json:"why,omitempty"`
	Hang     bool       `json:"hang"`
	Expected *ResultID  `json:"expected,omitempty"`
	Result   ResultID   `json:"result"`
	Events   []Event    `json:"events"`
	Beh      *Behaviour `json:"beh,omitempty"`
	Conf     string     `json:"conf"`
}

// ---- scenario state (one scenario at a time) ---------------------------------------------------

type call struct {
	cid      int
	pos      int
	m        []byte // the slice the plugin passed (not a copy): checked again at release
	snap     []byte
	ctx      context.Context
	release  chan string
	released bool
	honour   bool // return when ctx ends (real "never answers")
}

type scenario struct {
	mu        sync.Mutex
	events    []Event
	calls     []*call
	posOf     map[int]int // upstream pool index -> position in U
	query     []byte
	ncol      int
	honourAll bool
	instant   bool // the first exchange to arrive answers "good" at once, without waiting for the controller
	t0        time.Time
}

var cur *scenario
var curMu sync.Mutex

func current() *scenario {
	curMu.Lock()
	defer curMu.Unlock()
	return cur
}

func (s *scenario) log(ev string, kv ...any) {
	// caller holds s.mu
	e := Event{"ev": ev}
	for i := 0; i+1 < len(kv); i += 2 {
		e[kv[i].(string)] = kv[i+1]
	}
	s.events = append(s.events, e)
}

type fakeUp struct{ id int }

func (u *fakeUp) Close() error { return nil }

func (u *fakeUp) ExchangeContext(ctx context.Context, m []byte) (*[]byte, error) {
	s := current()
	if s == nil {
		return nil, errors.New("harness: no scenario")
	}
	arrived := time.Now()
	s.mu.Lock()
	c := &call{cid: len(s.calls) + 1, m: m, snap: append([]byte{}, m...), ctx: ctx, release: make(chan string, 1), honour: s.honourAll}
	pos, ok := s.posOf[u.id]
	if !ok {
		pos = 100 + u.id // an upstream outside the selected list was asked
	}
	c.pos = pos
	ddl, has := ctx.Deadline()
	// the worker's context must end within the 5 s upstream timeout (0.5 s slack for scheduling)
	ddlOK := has && ddl.Sub(time.Now()) <= 5*time.Second+500*time.Millisecond
	s.calls = append(s.calls, c)
	s.log("Asked", "cid", c.cid, "pos", pos, "same", bytes.Equal(m, s.query), "ddl", ddlOK)
	if s.instant && c.cid == 1 {
		c.released = true
		s.log("Release", "cid", c.cid, "o", "good", "intact", bytes.Equal(c.m, c.snap))
		c.release <- "good"
	}
	s.mu.Unlock()

	// like every real transport the harness upstream honours its context: if it ends before the
	// controller releases the exchange, that is recorded (UpCtxDone) and the context's error returned
	var o string
	select {
	case o = <-c.release:
	case <-ctx.Done():
		s.mu.Lock()
		if c.released { // the controller has just released it: that event is already in the trace
			s.mu.Unlock()
			o = <-c.release
			break
		}
		c.released = true
		s.log("UpCtxDone", "cid", c.cid, "intact", bytes.Equal(c.m, c.snap), "after_ms", time.Since(arrived).Milliseconds())
		s.mu.Unlock()
		return nil, ctx.Err()
	}
	switch o {
	case "good", "nx", "bad":
		r := new(dns.Msg)
		q := new(dns.Msg)
		if err := q.Unpack(c.snap); err != nil {
			return nil, err
		}
		r.SetReply(q)
		switch o {
		case "nx":
			r.Rcode = dns.RcodeNameError
		case "bad":
			r.Rcode = []int{dns.RcodeServerFailure, dns.RcodeRefused, dns.RcodeNotImplemented, dns.RcodeFormatError}[c.cid%4]
		}
		r.Answer = append(r.Answer, &dns.A{Hdr: dns.RR_Header{Name: q.Question[0].Name, Rrtype: dns.TypeA, Class: dns.ClassINET, Ttl: 60},
			A: net.IPv4(10, 14, 0, byte(c.cid))})
		b, err := r.Pack()
		if err != nil {
			return nil, err
		}
		pb := pool.GetBuf(len(b))
		copy(*pb, b)
		return pb, nil
	case "garbage":
		g := [][]byte{{1, 2, 3}, {0, 0, 0x81, 0x80, 0, 1, 0, 1, 0, 0, 0, 0, 0xc0}, bytes.Repeat([]byte{0xff}, 40)}[c.cid%3]
		pb := pool.GetBuf(len(g))
		copy(*pb, g)
		return pb, nil
	default: // error, never (released late)
		return nil, errors.New("harness: scripted upstream failure (" + o + ")")
	}
}

// releaseCall logs the Release event (with the integrity of the buffer the plugin handed over) and
// lets the exchange return.
func (s *scenario) releaseCall(c *call, o string) {
	s.mu.Lock()
	if c.released {
		s.mu.Unlock()
		return
	}
	c.released = true
	s.log("Release", "cid", c.cid, "o", o, "intact", bytes.Equal(c.m, c.snap))
	s.mu.Unlock()
	c.release <- o
}

func hook(point string, _ uint32) {
	if point != "forward.collected" {
		return
	}
	if s := current(); s != nil {
		s.mu.Lock()
		s.ncol++
		s.log("Collected")
		s.mu.Unlock()
	}
}

var hasPoint bool

// runs in which the call did not return when it had to (each costs seconds of waiting): after a few
// of them the driver stops early; the check judges what was recorded
var stuck, leaked int

const maxStuck = 6

func poll(d time.Duration, f func() bool) bool {
	end := time.Now().Add(d)
	for i := 0; ; i++ {
		if f() {
			return true
		}
		if time.Now().After(end) {
			return false
		}
		if i < 200 {
			runtime.Gosched()
		} else {
			time.Sleep(100 * time.Microsecond)
		}
	}
}

type execRes struct {
	err error
	r   *dns.Msg
}

var errCause = errors.New("harness: caller gave up")

// runOne drives one call of forward.Exec.
// a pre-configured way to call one Forward instance (multi-exec scenarios)
type preset struct {
	exec  func(context.Context, *query_context.Context) error
	posOf map[int]int
	conf  string
}

func runOne(idx int, b *Behaviour, kind string, job *Job, rng *rand.Rand) Out {
	return runOneWith(idx, b, kind, job, rng, nil)
}

func runOneWith(idx int, b *Behaviour, kind string, job *Job, rng *rand.Rand, pre *preset) Out {
	out := Out{Idx: idx, Kind: kind}
	stepWait := time.Duration(job.StepWaitMs) * time.Millisecond
	base := runtime.NumGoroutine()

	// concretization: a pool of upstreams; U is either the whole pool (plain Exec) or a tag
	// selection (QuickConfigureExec) in a shuffled order
	n := b.N
	extra := 0
	useTags := rng.Intn(2) == 0
	if useTags {
		extra = rng.Intn(3)
	}
	poolN := n + extra
	ups := make([]upstream.Upstream, poolN)
	tags := make([]string, poolN)
	for i := range ups {
		ups[i] = &fakeUp{id: i}
		tags[i] = fmt.Sprintf("t%d", i)
	}
	f, err := fastforward.NewForwardWithUpstreams(b.C, ups, tags)
	if err != nil {
		out.Why = "constructor: " + err.Error()
		return out
	}
	s := &scenario{posOf: map[int]int{}, honourAll: kind == "never", instant: kind == "early-instant", t0: time.Now()}
	var exec func(context.Context, *query_context.Context) error
	if pre != nil {
		exec, s.posOf, out.Conf = pre.exec, pre.posOf, pre.conf
	} else if useTags {
		perm := rng.Perm(poolN)[:n]
		arg := ""
		for p, id := range perm {
			s.posOf[id] = p
			arg += " " + tags[id]
		}
		v, err := f.QuickConfigureExec(arg[1:])
		if err != nil {
			out.Why = "QuickConfigureExec: " + err.Error()
			return out
		}
		exec = v.(interface {
			Exec(context.Context, *query_context.Context) error
		}).Exec
		out.Conf = fmt.Sprintf("n=%d c=%d tags=%q of %d", n, b.C, arg[1:], poolN)
	} else {
		for i := 0; i < n; i++ {
			s.posOf[i] = i
		}
		exec = f.Exec
		out.Conf = fmt.Sprintf("n=%d c=%d all", n, b.C)
	}

	q := new(dns.Msg)
	names := []string{"c14.test.", "a-rather-long-label-to-move-the-size-class.of.the.buffer.example.org.", "x."}
	q.SetQuestion(names[rng.Intn(len(names))], []uint16{dns.TypeA, dns.TypeAAAA, dns.TypeTXT}[rng.Intn(3)])
	q.Id = uint16(rng.Intn(65536))
	if rng.Intn(2) == 0 {
		q.SetEdns0(1232, rng.Intn(2) == 0)
	}
	qCtx := query_context.NewContext(q)
	qb, err := qCtx.Q().Pack()
	if err != nil {
		out.Why = "pack: " + err.Error()
		return out
	}
	s.query = qb
	s.log("Start", "n", n, "c", b.C, "pt", hasPoint)

	curMu.Lock()
	cur = s
	curMu.Unlock()
	defer func() {
		curMu.Lock()
		cur = nil
		curMu.Unlock()
	}()

	ctx, cancel := context.WithCancelCause(context.Background())
	defer cancel(nil)
	if kind == "early-precancel" {
		// the caller's context has already ended when the call is made
		s.mu.Lock()
		s.log("Cancel")
		s.mu.Unlock()
		cancel(errCause)
	}
	resCh := make(chan execRes, 1)
	go func() {
		err := exec(ctx, qCtx)
		resCh <- execRes{err: err, r: qCtx.R()}
	}()

	returned := false
	noteReturn := func(r execRes) {
		returned = true
		res := ResultID{}
		switch {
		case r.err == nil && r.r != nil:
			res.K = "reply"
			res.W = -1
			for _, rr := range r.r.Answer {
				if a, ok := rr.(*dns.A); ok && len(a.A.To4()) == 4 && a.A.To4()[0] == 10 && a.A.To4()[1] == 14 {
					res.W = int(a.A.To4()[3])
				}
			}
		case r.err == nil:
			res.K = "nil"
		case errors.Is(r.err, errCause) || errors.Is(r.err, context.Canceled):
			res.K = "ctx"
		default:
			res.K = "failed"
		}
		out.Result = res
		s.mu.Lock()
		s.log("Return", "k", res.K, "cid", res.W)
		s.mu.Unlock()
	}
	tryReturn := func(d time.Duration) bool {
		if returned {
			return true
		}
		if d == 0 {
			select {
			case r := <-resCh:
				noteReturn(r)
			default:
			}
			return returned
		}
		select {
		case r := <-resCh:
			noteReturn(r)
		case <-time.After(d):
		}
		return returned
	}
	ncalls := func() int {
		s.mu.Lock()
		defer s.mu.Unlock()
		return len(s.calls)
	}
	callAt := func(i int) *call {
		s.mu.Lock()
		defer s.mu.Unlock()
		if i >= 1 && i <= len(s.calls) {
			return s.calls[i-1]
		}
		return nil
	}

	// all k exchanges start before anything else happens
	var steered bool
	if kind == "replay" {
		steered = poll(stepWait, func() bool { return ncalls() >= b.K })
		if !steered {
			out.Why = fmt.Sprintf("only %d of %d exchanges started", ncalls(), b.K)
			stuck++
		}
		time.Sleep(200 * time.Microsecond) // let surplus exchanges (if any) show up early; they are logged whenever they come
	} else if kind == "random" || kind == "never" {
		// unsteered runs do not know k: take the exchanges that have started after a short while
		poll(stepWait, func() bool { return ncalls() >= 1 })
		time.Sleep(2 * time.Millisecond)
	}
	// (early-*: nothing to do; the call returns on its own, possibly before its workers have started)

	switch kind {
	case "replay":
		for _, st := range b.Steps {
			if !steered {
				break
			}
			switch st.A {
			case "Finish":
				c := callAt(st.I)
				if c == nil {
					steered, out.Why = false, "no such exchange"
					break
				}
				o := st.O
				s.releaseCall(c, o)
			case "Collect":
				// wait until the collector has taken the result (schedule point), or the call returned
				target := collectsBefore(b, st) + 1
				ok := poll(stepWait, func() bool {
					if tryReturn(0) {
						return true
					}
					if !hasPoint {
						return false
					}
					s.mu.Lock()
					defer s.mu.Unlock()
					return s.ncol >= target
				})
				if !ok && hasPoint {
					steered, out.Why = false, "result was not collected"
				}
			case "Cancel":
				s.mu.Lock()
				s.log("Cancel")
				s.mu.Unlock()
				cancel(errCause)
			case "CallerCtx":
				if !tryReturn(stepWait) {
					steered, out.Why = false, "no return after cancel"
					stuck++
					s.mu.Lock()
					s.log("Quiet")
					s.mu.Unlock()
				}
			}
		}
	case "random", "never":
		// unsteered: release in random order with random tiny delays, maybe cancel somewhere
		order := rng.Perm(ncalls())
		cancelAt := -1
		if rng.Intn(3) == 0 {
			cancelAt = rng.Intn(len(order) + 1)
		}
		outs := []string{"good", "nx", "bad", "error", "garbage"}
		silent := -1
		if kind == "never" && len(order) > 0 {
			silent = order[rng.Intn(len(order))]
		}
		for j, ci := range order {
			if j == cancelAt {
				s.mu.Lock()
				s.log("Cancel")
				s.mu.Unlock()
				cancel(errCause)
			}
			if ci == silent {
				continue
			}
			o := outs[rng.Intn(len(outs))]
			if kind == "never" && rng.Intn(2) == 0 {
				o = []string{"bad", "error"}[rng.Intn(2)]
			}
			s.releaseCall(callAt(ci+1), o)
			if rng.Intn(2) == 0 {
				time.Sleep(time.Duration(rng.Intn(300)) * time.Microsecond)
			}
			tryReturn(0)
		}
		if cancelAt == len(order) {
			s.mu.Lock()
			s.log("Cancel")
			s.mu.Unlock()
			cancel(errCause)
		}
	}

	// the call must return now unless an exchange it still needs is silent
	wait := 3 * time.Second
	if kind == "never" {
		wait = 8 * time.Second
	}
	if !tryReturn(wait) {
		// make sure it is not merely waiting for an unreleased exchange: release everything, then decide
		pending := false
		for i := 1; i <= ncalls(); i++ {
			if c := callAt(i); !c.released {
				pending = true
			}
		}
		if !pending {
			out.Hang = true
			stuck++
			s.mu.Lock()
			s.log("Quiet")
			s.mu.Unlock()
		}
	}
	// end of scenario: let every exchange end (quick tier: instead of waiting for the 5 s timeout)
	if kind != "never" {
		for i := 1; i <= ncalls(); i++ {
			s.releaseCall(callAt(i), "never")
		}
	}
	if !returned && !out.Hang {
		if !tryReturn(3 * time.Second) {
			out.Hang = true
		}
	}
	if out.Hang {
		cancel(errCause)
		tryReturn(2 * time.Second)
		for i := 1; i <= ncalls(); i++ {
			s.releaseCall(callAt(i), "never")
		}
	}
	limit := 3 * time.Second
	if kind == "never" {
		limit = 7 * time.Second
	}
	poll(limit, func() bool {
		if kind != "never" {
			// an exchange may start late (its goroutine was not scheduled before): let it end, too
			for i := 1; i <= ncalls(); i++ {
				s.releaseCall(callAt(i), "never")
			}
		}
		return runtime.NumGoroutine() <= base
	})
	alive := runtime.NumGoroutine() - base
	if alive < 0 {
		alive = 0
	}
	if alive > 0 {
		leaked++
	}
	s.mu.Lock()
	s.log("End", "alive", alive, "after_ms", time.Since(s.t0).Milliseconds())
	out.Events = s.events
	s.mu.Unlock()
	out.Steered = steered && kind == "replay"
	if kind == "replay" {
		e := b.Result
		out.Expected = &e
	}
	return out
}

func runMulti(idx *int, job *Job, rng *rand.Rand) []Out {
	poolN := 2 + rng.Intn(3)
	c := []int{1, 2, 3, 5}[rng.Intn(4)]
	ups := make([]upstream.Upstream, poolN)
	tags := make([]string, poolN)
	for i := range ups {
		ups[i] = &fakeUp{id: i}
		tags[i] = fmt.Sprintf("t%d", i)
	}
	f, err := fastforward.NewForwardWithUpstreams(c, ups, tags)
	if err != nil {
		return []Out{{Idx: *idx, Kind: "multi", Why: "constructor: " + err.Error()}}
	}
	type ex = interface {
		Exec(context.Context, *query_context.Context) error
	}
	var pres []*preset
	all := map[int]int{}
	for i := 0; i < poolN; i++ {
		all[i] = i
	}
	nsub := 2 + rng.Intn(2)
	var subsConf string
	for j := 0; j < nsub; j++ {
		n := 1 + rng.Intn(poolN)
		perm := rng.Perm(poolN)[:n]
		arg := ""
		posOf := map[int]int{}
		for p, id := range perm {
			posOf[id] = p
			arg += " " + tags[id]
		}
		v, err := f.QuickConfigureExec(arg[1:])
		if err != nil {
			return []Out{{Idx: *idx, Kind: "multi", Why: "QuickConfigureExec: " + err.Error()}}
		}
		subsConf += fmt.Sprintf("[%s]", arg[1:])
		pres = append(pres, &preset{exec: v.(ex).Exec, posOf: posOf, conf: fmt.Sprintf("n=%d c=%d tags=%q", n, c, arg[1:])})
	}
	if v, err := f.QuickConfigureExec(""); err == nil {
		pres = append(pres, &preset{exec: v.(ex).Exec, posOf: all, conf: fmt.Sprintf("n=%d c=%d quick-exec-without-tags", poolN, c)})
	}
	pres = append(pres, &preset{exec: f.Exec, posOf: all, conf: fmt.Sprintf("n=%d c=%d plugin", poolN, c)})
	rng.Shuffle(len(pres), func(i, j int) { pres[i], pres[j] = pres[j], pres[i] })
	var outs []Out
	for _, pr := range pres {
		pr.conf += fmt.Sprintf(" (one Forward of %d upstreams, configured %s first)", poolN, subsConf)
		b := &Behaviour{N: len(pr.posOf), C: c}
		o := runOneWith(*idx, b, "random", job, rng, pr)
		o.Kind = "multi"
		o.Beh = b
		outs = append(outs, o)
		*idx++
	}
	return outs
}

func collectsBefore(b *Behaviour, st Step) int {
	n := 0
	for _, x := range b.Steps {
		if x == st {
			return n
		}
		if x.A == "Collect" {
			n++
		}
	}
	return n
}

// probe: does this build contain the schedule point forward.collected?
func probePoint() {
	b := &Behaviour{N: 1, C: 1, K: 1, Steps: []Step{{A: "Finish", I: 1, O: "good"}}}
	job := &Job{StepWaitMs: 500}
	o := runOne(-1, b, "replay", job, rand.New(rand.NewSource(1)))
	for _, e := range o.Events {
		if e["ev"] == "Collected" {
			hasPoint = true
		}
	}
}

func main() {
	var job Job
	if err := vh.ReadJob(&job); err != nil {
		fmt.Fprintln(os.Stderr, "job:", err)
		os.Exit(3)
	}
	if job.StepWaitMs == 0 {
		job.StepWaitMs = 3000
	}
	verifpoint.SetHook(hook)
	// a released buffer must not be read any more: make a use-after-release visible
	orig := pool.ReleaseBuf
	pool.ReleaseBuf = func(b *[]byte) {
		if b != nil {
			for i := range *b {
				(*b)[i] = 0xA5
			}
		}
		orig(b)
	}
	probePoint()
	rng := rand.New(rand.NewSource(vh.Seed()))
	idx := 0
	for i := range job.Behaviours {
		b := &job.Behaviours[i]
		o := runOne(idx, b, "replay", &job, rng)
		o.Beh = b
		vh.Emit(o)
		idx++
		if stuck >= maxStuck || leaked >= maxStuck {
			fmt.Fprintln(os.Stderr, "drv_forward: stopping early:", stuck, "stuck calls,", leaked, "runs with leaked goroutines")
			vh.Flush()
			return
		}
	}
	ns := []int{1, 2, 3, 4}
	cs := []int{-1, 0, 1, 2, 3, 4, 5, 9}
	for i := 0; i < job.Random+job.RealNever; i++ {
		b := &Behaviour{N: ns[rng.Intn(len(ns))], C: cs[rng.Intn(len(cs))]}
		// the driver needs to know how many exchanges to wait for before it starts releasing; it waits
		// for as many as arrive within a short time instead of computing k itself
		b.K = 0
		kind := "random"
		if i >= job.Random {
			kind = "never"
		}
		o := runOne(idx, b, kind, &job, rng)
		o.Beh = b
		vh.Emit(o)
		idx++
		if stuck >= maxStuck || leaked >= maxStuck {
			break
		}
	}
	// several execs configured on ONE Forward (tag subsets that are not prefixes of U, the plugin itself,
	// the no-argument quick exec), all configured first, then used one after the other: every exec must
	// ask its own configured list
	for i := 0; i < job.Multi && stuck < maxStuck && leaked < maxStuck; i++ {
		for _, o := range runMulti(&idx, &job, rng) {
			vh.Emit(o)
		}
	}
	// the call returns before workers have started: context already cancelled / an instantly answering
	// upstream; half of the rounds on a single P, so that the spawned workers cannot run before the
	// collector has returned and released the packed query
	for i := 0; i < job.Early && stuck < maxStuck && leaked < maxStuck; i++ {
		b := &Behaviour{N: ns[rng.Intn(3)], C: []int{1, 2, 3, 3, 5}[rng.Intn(5)]}
		kind := []string{"early-precancel", "early-instant"}[i%2]
		old := 0
		if (i/2)%2 == 0 {
			old = runtime.GOMAXPROCS(1)
		}
		o := runOne(idx, b, kind, &job, rng)
		if old > 0 {
			runtime.GOMAXPROCS(old)
			o.Conf += " GOMAXPROCS=1"
		}
		o.Beh = b
		vh.Emit(o)
		idx++
	}
	vh.Flush()
}
