module verif/harness

go 1.22.0

require github.com/IrineSistiana/mosdns/v5 v5.0.0

replace github.com/IrineSistiana/mosdns/v5 => /repo

replace github.com/nadoo/ipset v0.5.0 => github.com/IrineSistiana/ipset v0.5.1-0.20220703061533-6e0fc3b04c0a
