//go:build verif

// drv_stream: conformance driver for the stream-per-query transports (spec/StreamPerQuery.tla):
//   - doh.Upstream (pkg/upstream/doh) over a harness http.RoundTripper that is a gate
//   - transport.QuicDnsConn (pkg/upstream/transport/conn_quic.go) over a fake quic.Connection / quic.Stream
//
// Job on stdin: {"behaviours":[{n, steps, transport, variant}], "random":N, "workers":W, "timeout_bound_s":S}
// One Result per line: the recorded events (validated by StreamPerQuery_Trace.tla), steering diagnostics, hangs.
package main

import (
	"bytes"
	"context"
	"encoding/base64"
	"encoding/binary"
	"errors"
	"fmt"
	"io"
	"math/rand"
	"net"
	"net/http"
	urlpkg "net/url"
	"os"
	"strings"
	"sync"
	"time"

	"github.com/IrineSistiana/mosdns/v5/pkg/pool"
	"github.com/IrineSistiana/mosdns/v5/pkg/upstream/doh"
	"github.com/IrineSistiana/mosdns/v5/pkg/upstream/transport"
	"github.com/miekg/dns"
	"github.com/quic-go/quic-go"

	"verif/harness/vh"
)

type Step struct {
	A  string `json:"a"`
	C  int    `json:"c"`
	Id int    `json:"id"`
	K  string `json:"k,omitempty"`
}

type Behaviour struct {
	N         int    `json:"n"`
	Steps     []Step `json:"steps"`
	Transport string `json:"transport"`
	Variant   int    `json:"variant"`
}

type Job struct {
	Behaviours    []Behaviour `json:"behaviours"`
	Random        int         `json:"random"`
	Workers       int         `json:"workers"`
	TimeoutBoundS int         `json:"timeout_bound_s"`
}

type Event map[string]any

type Result struct {
	Idx       int        `json:"idx"`
	Kind      string     `json:"kind"`
	Transport string     `json:"transport"`
	Steered   bool       `json:"steered"`
	Why       string     `json:"why,omitempty"`
	Hang      bool       `json:"hang"`
	HangWhat  string     `json:"hang_what,omitempty"`
	CancelMs  int64      `json:"cancel_ms"` // longest time a call needed to return after its context was cancelled
	Events    []Event    `json:"events"`
	Beh       *Behaviour `json:"beh,omitempty"`
}

const (
	endpoint   = "https://doh.verif.test/dns-query"
	returnWait = 15 * time.Second
)

var timeoutBound = 36 * time.Second

// ---------------------------------------------------------------------------------------------
// session: one scenario, one recorder mutex

type snapshot struct {
	wid   int
	q     int
	exact bool
	note  string
	msg   *dns.Msg
}

type reply struct {
	status  int
	body    []byte
	err     error // RoundTrip error / final stream error
	bodyErr bool  // DoH: the body reader fails half way
}

type sstream struct {
	serial int
	owner  int
	snap   func() snapshot
	state  int // 0 entered, 1 released, 2 answered / aborted
	rel    snapshot
	resp   chan reply
}

type sentInfo struct {
	kind   string // "ok" | "garbage"
	serial int
	q      int
}

type caller struct {
	c        int
	id       uint16
	q        []byte
	pristine []byte
	ctx      context.Context
	cancel   context.CancelFunc
	done     chan struct{}
	tCall    time.Time
	tCancel  time.Time
	stream   *sstream
}

type session struct {
	mu        sync.Mutex
	events    []Event
	transport string
	nonce     string
	variant   int
	rng       *rand.Rand // only under mu
	streams   []*sstream
	arrive    chan *sstream
	expect    int
	callers   map[int]*caller
	sent      map[string]sentInfo
	randId    uint16

	doh  *doh.Upstream
	doq  *transport.QuicDnsConn
	conn *fakeConn
}

func newSession(tr string, variant int, seed int64) *session {
	s := &session{
		transport: tr,
		variant:   variant,
		rng:       rand.New(rand.NewSource(seed)),
		arrive:    make(chan *sstream, 64),
		callers:   map[int]*caller{},
		sent:      map[string]sentInfo{},
	}
	// all questions of a scenario have the same length; the length varies between scenarios (base64 padding classes)
	s.nonce = fmt.Sprintf("x%08x", s.rng.Uint32()) + strings.Repeat("y", s.rng.Intn(3))
	s.randId = uint16(1 + s.rng.Intn(0xFFFE))
	switch tr {
	case "doh":
		u, err := doh.NewUpstream(endpoint, s, nil)
		if err != nil {
			panic(err)
		}
		s.doh = u
	case "doq":
		ctx, cancel := context.WithCancel(context.Background())
		s.conn = &fakeConn{s: s, ctx: ctx, cancel: cancel}
		s.doq = transport.NewQuicDnsConn(s.conn)
	default:
		panic("unknown transport " + tr)
	}
	return s
}

// log must be called with s.mu held
func (s *session) logL(ev string, kv ...any) {
	e := Event{"ev": ev}
	for i := 0; i+1 < len(kv); i += 2 {
		e[kv[i].(string)] = kv[i+1]
	}
	s.events = append(s.events, e)
}

func (s *session) log(ev string, kv ...any) {
	s.mu.Lock()
	s.logL(ev, kv...)
	s.mu.Unlock()
}

// all caller buffers equal to what the callers passed in (mu held)
func (s *session) buffersPristineL() bool {
	for _, cl := range s.callers {
		if !bytes.Equal(cl.q, cl.pristine) {
			return false
		}
	}
	return true
}

func (s *session) qname(c int) string { return fmt.Sprintf("c%02d.%s.test.", c, s.nonce) }

func (s *session) qidx(name string) int {
	ls := strings.Split(strings.ToLower(name), ".")
	if len(ls) != 4 || ls[1] != s.nonce || ls[2] != "test" || len(ls[0]) != 3 || ls[0][0] != 'c' {
		return 0
	}
	n := 0
	for _, ch := range ls[0][1:] {
		if ch < '0' || ch > '9' {
			return 0
		}
		n = n*10 + int(ch-'0')
	}
	return n
}

func (s *session) concreteId(abs int) uint16 {
	switch abs {
	case 0:
		return 0
	case 1:
		return 0xFFFF
	default:
		return s.randId
	}
}

// parseWire decodes a DNS query as the server would
func (s *session) parseWire(b []byte) (sn snapshot) {
	defer func() {
		if r := recover(); r != nil {
			sn = snapshot{note: fmt.Sprint("panic: ", r)}
		}
	}()
	if len(b) < 12 {
		return snapshot{note: "shorter than a header"}
	}
	m := new(dns.Msg)
	if err := m.Unpack(b); err != nil {
		return snapshot{note: "unpack: " + err.Error()}
	}
	if len(m.Question) != 1 {
		return snapshot{note: "not exactly one question"}
	}
	sn.wid = int(binary.BigEndian.Uint16(b))
	sn.q = s.qidx(m.Question[0].Name)
	sn.msg = m
	if cl := s.callers[sn.q]; cl != nil && len(cl.pristine) == len(b) && bytes.Equal(cl.pristine[2:], b[2:]) {
		sn.exact = true
	}
	return sn
}

// enter: a request became visible to the server side on a new stream
func (s *session) enter(snap func() snapshot, extra ...any) *sstream {
	s.mu.Lock()
	st := &sstream{serial: len(s.streams) + 1, owner: s.expect, snap: snap, resp: make(chan reply, 1)}
	s.expect = 0
	s.streams = append(s.streams, st)
	sn := snap()
	kv := []any{"s", st.serial, "c", st.owner, "wid", sn.wid, "q", sn.q, "bufok", s.buffersPristineL(), "exact", sn.exact, "note", sn.note}
	s.logL("ReqEntry", append(kv, extra...)...)
	s.mu.Unlock()
	s.arrive <- st
	return st
}

func (s *session) release(st *sstream) bool {
	s.mu.Lock()
	defer s.mu.Unlock()
	if st.state != 0 {
		return false
	}
	st.rel = st.snap()
	st.state = 1
	s.logL("ReqRelease", "s", st.serial, "wid", st.rel.wid, "q", st.rel.q, "bufok", s.buffersPristineL(), "exact", st.rel.exact, "note", st.rel.note)
	return true
}

func (s *session) state(st *sstream) int {
	s.mu.Lock()
	defer s.mu.Unlock()
	return st.state
}

// the reply the harness server produces for the request it received on st (mu held)
func (s *session) okMsgL(st *sstream) []byte {
	m := new(dns.Msg)
	if st.rel.msg != nil {
		m.SetReply(st.rel.msg)
	} else {
		m.Response = true
		m.Rcode = dns.RcodeFormatError
	}
	if s.rng.Intn(3) == 0 {
		m.Id = uint16(s.rng.Intn(65536)) // a server that does not echo the ID
	}
	owner := fmt.Sprintf("s%02d.%s.test.", st.serial, s.nonce)
	m.Answer = append(m.Answer, &dns.TXT{
		Hdr: dns.RR_Header{Name: owner, Rrtype: dns.TypeTXT, Class: dns.ClassINET, Ttl: 60},
		Txt: []string{fmt.Sprintf("stream=%d q=%d", st.serial, st.rel.q)},
	})
	b, err := m.Pack()
	if err != nil {
		panic(err)
	}
	return b
}

func (s *session) garbageL(st *sstream) []byte {
	n := 40 + s.rng.Intn(40)
	b := make([]byte, n)
	s.rng.Read(b)
	copy(b[2:], fmt.Sprintf("GARBAGE-%s-s%02d-", s.nonce, st.serial))
	return b
}

func framed(b []byte) []byte {
	out := make([]byte, 2+len(b))
	binary.BigEndian.PutUint16(out, uint16(len(b)))
	copy(out[2:], b)
	return out
}

// respond: the server answers on st with a reply of the given kind
func (s *session) respond(st *sstream, kind string) bool {
	s.mu.Lock()
	defer s.mu.Unlock()
	if st.state != 1 {
		return false
	}
	st.state = 2
	var r reply
	r.status = 200
	switch kind {
	case "ok":
		b := s.okMsgL(st)
		s.sent[string(b[2:])] = sentInfo{"ok", st.serial, st.rel.q}
		r.body = b
	case "garbage":
		b := s.garbageL(st)
		s.sent[string(b[2:])] = sentInfo{"garbage", st.serial, 0}
		r.body = b
	case "short":
		b := s.okMsgL(st)
		r.body = b[:s.rng.Intn(12)]
	case "status":
		// doh: a perfectly good body under a bad status; doq: a frame cut before its announced length
		b := s.okMsgL(st)
		s.sent[string(b[2:])] = sentInfo{"ok", st.serial, st.rel.q}
		r.body = b
		r.status = []int{400, 403, 404, 500, 502, 503, 204, 206, 301}[s.rng.Intn(9)]
	default:
		panic("unknown reply kind " + kind)
	}
	if s.transport == "doq" {
		switch kind {
		case "short":
			switch s.rng.Intn(3) {
			case 0:
				r.body = framed(r.body) // announced length < 12
			case 1:
				r.body = []byte{0} // half a length header
			default:
				r.body = nil // FIN only
			}
		case "status":
			f := framed(r.body)
			r.body = f[:len(f)-1-s.rng.Intn(len(f)-3)]
			if s.rng.Intn(2) == 0 {
				r.err = &quic.StreamError{StreamID: quic.StreamID(st.serial * 4), ErrorCode: 1, Remote: true}
			}
		default:
			r.body = framed(r.body)
		}
	} else if kind == "short" && s.rng.Intn(3) == 0 {
		r.bodyErr = true
	}
	s.logL("Respond", "s", st.serial, "k", kind, "status", r.status)
	st.resp <- r
	return true
}

// abort: reset by the harness (k = "reset") or the transport's own timeout observed by the harness (k = "timeout")
func (s *session) abort(st *sstream, k string) bool {
	s.mu.Lock()
	defer s.mu.Unlock()
	if st.state == 2 {
		return false
	}
	st.state = 2
	s.logL("Abort", "s", st.serial, "k", k)
	if k == "reset" {
		var r reply
		if s.transport == "doq" {
			r.err = &quic.StreamError{StreamID: quic.StreamID(st.serial * 4), ErrorCode: 2, Remote: true}
		} else {
			r.err = errors.New("harness: stream reset by peer")
		}
		st.resp <- r
	}
	return true
}

// ---------------------------------------------------------------------------------------------
// DoH binding: the session is the http.RoundTripper

type errReader struct {
	r io.Reader
}

func (e *errReader) Read(p []byte) (int, error) {
	n, err := e.r.Read(p)
	if err == io.EOF {
		return n, errors.New("harness: body reset")
	}
	return n, err
}

func (s *session) RoundTrip(req *http.Request) (*http.Response, error) {
	var body []byte
	if req.Body != nil {
		body, _ = io.ReadAll(req.Body)
		req.Body.Close()
	}
	st := s.enter(func() snapshot { return s.snapHTTP(req, body) }, "method", req.Method)
	var r reply
	select {
	case r = <-st.resp:
	case <-req.Context().Done():
		if s.abort(st, "timeout") {
			return nil, req.Context().Err()
		}
		r = <-st.resp
	}
	if r.err != nil {
		return nil, r.err
	}
	var rd io.Reader = bytes.NewReader(r.body)
	if r.bodyErr {
		rd = &errReader{rd}
	}
	return &http.Response{
		Status:        fmt.Sprintf("%d %s", r.status, http.StatusText(r.status)),
		StatusCode:    r.status,
		Proto:         "HTTP/2.0",
		ProtoMajor:    2,
		Header:        http.Header{"Content-Type": []string{"application/dns-message"}},
		Body:          io.NopCloser(rd),
		ContentLength: int64(len(r.body)),
		Request:       req,
	}, nil
}

// snapHTTP decodes the request the way an RFC 8484 server does, from the request object as it is NOW
func (s *session) snapHTTP(req *http.Request, body []byte) (sn snapshot) {
	defer func() {
		if r := recover(); r != nil {
			sn = snapshot{note: fmt.Sprint("panic: ", r)}
		}
	}()
	u := req.URL
	if u == nil {
		return snapshot{note: "no url"}
	}
	if u.Scheme != "https" || u.Host != "doh.verif.test" || u.Path != "/dns-query" {
		return snapshot{note: "wrong url " + u.String()}
	}
	var msg []byte
	switch req.Method {
	case http.MethodGet:
		vals, err := urlpkg.ParseQuery(u.RawQuery)
		if err != nil {
			return snapshot{note: "query string: " + err.Error()}
		}
		d := vals["dns"]
		if len(d) != 1 {
			return snapshot{note: "no single dns parameter"}
		}
		msg, err = base64.RawURLEncoding.DecodeString(d[0])
		if err != nil {
			return snapshot{note: "base64url: " + err.Error()}
		}
	case http.MethodPost:
		if ct := req.Header.Get("Content-Type"); ct != "application/dns-message" {
			return snapshot{note: "content-type " + ct}
		}
		msg = body
	default:
		return snapshot{note: "method " + req.Method}
	}
	return s.parseWire(msg)
}

// ---------------------------------------------------------------------------------------------
// DoQ binding: fake quic.Connection / quic.Stream (only what conn_quic.go uses is functional)

type fakeConn struct {
	s      *session
	ctx    context.Context
	cancel context.CancelFunc
	mu     sync.Mutex
	n      int
}

var errUnused = errors.New("harness: not implemented")

func (f *fakeConn) AcceptStream(context.Context) (quic.Stream, error)           { return nil, errUnused }
func (f *fakeConn) AcceptUniStream(context.Context) (quic.ReceiveStream, error) { return nil, errUnused }
func (f *fakeConn) OpenStreamSync(context.Context) (quic.Stream, error)         { return f.OpenStream() }
func (f *fakeConn) OpenUniStream() (quic.SendStream, error)                     { return nil, errUnused }
func (f *fakeConn) OpenUniStreamSync(context.Context) (quic.SendStream, error)  { return nil, errUnused }
func (f *fakeConn) LocalAddr() net.Addr                                         { return &net.UDPAddr{IP: net.IPv4(127, 0, 0, 1), Port: 1} }
func (f *fakeConn) RemoteAddr() net.Addr                                        { return &net.UDPAddr{IP: net.IPv4(127, 0, 0, 1), Port: 853} }
func (f *fakeConn) CloseWithError(quic.ApplicationErrorCode, string) error      { f.cancel(); return nil }
func (f *fakeConn) Context() context.Context                                    { return f.ctx }
func (f *fakeConn) ConnectionState() quic.ConnectionState                       { return quic.ConnectionState{} }
func (f *fakeConn) SendDatagram([]byte) error                                   { return errUnused }
func (f *fakeConn) ReceiveDatagram(context.Context) ([]byte, error)             { return nil, errUnused }

func (f *fakeConn) OpenStream() (quic.Stream, error) {
	f.mu.Lock()
	f.n++
	id := quic.StreamID(4 * (f.n - 1))
	f.mu.Unlock()
	f.s.mu.Lock()
	seed := f.s.rng.Int63()
	f.s.mu.Unlock()
	ctx, cancel := context.WithCancel(f.ctx)
	return &fakeStream{s: f.s, id: id, ctx: ctx, ctxCancel: cancel, cancelRead: make(chan struct{}),
		chunk: rand.New(rand.NewSource(seed))}, nil
}

type fakeStream struct {
	s         *session
	id        quic.StreamID
	ctx       context.Context
	ctxCancel context.CancelFunc

	mu          sync.Mutex
	wbuf        []byte
	fin         bool
	wCancelled  bool
	st          *sstream
	rbuf        []byte
	got         bool
	finalErr    error
	rCancelled  bool
	cancelRead  chan struct{}
	rdeadline   time.Time
	chunk       *rand.Rand
	entering    bool
}

var _ quic.Stream = (*fakeStream)(nil)

func (f *fakeStream) StreamID() quic.StreamID  { return f.id }
func (f *fakeStream) Context() context.Context { return f.ctx }

func (f *fakeStream) snapshot() snapshot {
	f.mu.Lock()
	b := append([]byte(nil), f.wbuf...)
	f.mu.Unlock()
	if len(b) < 2 {
		return snapshot{note: "no length header"}
	}
	if int(binary.BigEndian.Uint16(b)) != len(b)-2 {
		return snapshot{note: fmt.Sprintf("length header %d, %d bytes follow", binary.BigEndian.Uint16(b), len(b)-2)}
	}
	return f.s.parseWire(b[2:])
}

// the stream becomes visible to the server once a complete frame was written (or at FIN / first Read)
func (f *fakeStream) ensureEntered(force bool) {
	f.mu.Lock()
	for f.entering {
		f.mu.Unlock()
		time.Sleep(50 * time.Microsecond)
		f.mu.Lock()
	}
	if f.st != nil {
		f.mu.Unlock()
		return
	}
	complete := len(f.wbuf) >= 2 && len(f.wbuf)-2 >= int(binary.BigEndian.Uint16(f.wbuf))
	if !complete && !force {
		f.mu.Unlock()
		return
	}
	f.entering = true
	fin := f.fin
	f.mu.Unlock()
	st := f.s.enter(f.snapshot, "fin", fin)
	f.mu.Lock()
	f.st = st
	f.entering = false
	f.mu.Unlock()
}

func (f *fakeStream) Write(p []byte) (int, error) {
	f.mu.Lock()
	if f.wCancelled || f.fin {
		f.mu.Unlock()
		return 0, errors.New("harness: write on closed stream")
	}
	f.wbuf = append(f.wbuf, p...) // io.Writer: must not retain p
	f.mu.Unlock()
	f.ensureEntered(false)
	return len(p), nil
}

func (f *fakeStream) Close() error {
	f.mu.Lock()
	f.fin = true
	f.mu.Unlock()
	f.ensureEntered(true)
	return nil
}

func (f *fakeStream) CancelWrite(quic.StreamErrorCode) {
	f.mu.Lock()
	f.wCancelled = true
	f.mu.Unlock()
	f.ctxCancel()
}

func (f *fakeStream) CancelRead(quic.StreamErrorCode) {
	f.mu.Lock()
	if !f.rCancelled {
		f.rCancelled = true
		close(f.cancelRead)
	}
	f.mu.Unlock()
}

func (f *fakeStream) SetDeadline(t time.Time) error {
	f.mu.Lock()
	f.rdeadline = t
	f.mu.Unlock()
	return nil
}
func (f *fakeStream) SetReadDeadline(t time.Time) error  { return f.SetDeadline(t) }
func (f *fakeStream) SetWriteDeadline(t time.Time) error { return nil }

func (f *fakeStream) Read(p []byte) (int, error) {
	f.ensureEntered(true)
	if len(p) == 0 {
		return 0, nil
	}
	for {
		f.mu.Lock()
		if f.rCancelled {
			f.mu.Unlock()
			return 0, &quic.StreamError{StreamID: f.id, ErrorCode: 3, Remote: false}
		}
		if len(f.rbuf) > 0 {
			n := len(f.rbuf)
			if n > len(p) {
				n = len(p)
			}
			if f.s.variant%2 == 1 && n > 1 {
				n = 1 + f.chunk.Intn(n) // the reply arrives in pieces
			}
			copy(p, f.rbuf[:n])
			f.rbuf = f.rbuf[n:]
			f.mu.Unlock()
			return n, nil
		}
		if f.got {
			err := f.finalErr
			f.mu.Unlock()
			return 0, err
		}
		dl := f.rdeadline
		st := f.st
		f.mu.Unlock()

		var timerC <-chan time.Time
		var timer *time.Timer
		if !dl.IsZero() {
			timer = time.NewTimer(time.Until(dl))
			timerC = timer.C
		}
		var r reply
		have := false
		select {
		case r = <-st.resp:
			have = true
		case <-f.cancelRead:
		case <-timerC:
			if f.s.abort(st, "timeout") {
				return 0, os.ErrDeadlineExceeded
			}
			r = <-st.resp
			have = true
		}
		if timer != nil {
			timer.Stop()
		}
		if have {
			f.mu.Lock()
			f.got = true
			f.rbuf = r.body
			f.finalErr = r.err
			if f.finalErr == nil {
				f.finalErr = io.EOF
			}
			f.mu.Unlock()
		}
	}
}

// ---------------------------------------------------------------------------------------------
// callers

func (s *session) buildQuery(c int, id uint16) []byte {
	m := new(dns.Msg)
	m.SetQuestion(s.qname(c), dns.TypeA)
	m.Id = id
	b, err := m.Pack()
	if err != nil {
		panic(err)
	}
	return b
}

// startCall logs Call and invokes the real exchange in a new goroutine.  steered: the next request that
// enters the transport is attributed to this caller (the driver starts such calls one at a time).
func (s *session) startCall(c int, id uint16, steered bool, preCancel bool) *caller {
	ctx, cancel := context.WithCancel(context.Background())
	q := s.buildQuery(c, id)
	cl := &caller{c: c, id: id, q: q, pristine: append([]byte(nil), q...), ctx: ctx, cancel: cancel, done: make(chan struct{})}
	s.mu.Lock()
	s.callers[c] = cl
	if steered {
		s.expect = c
	}
	if preCancel {
		s.logL("Cancel", "c", c)
		cancel()
	}
	cl.tCall = time.Now()
	s.logL("Call", "c", c, "id", int(id))
	s.mu.Unlock()
	go func() {
		defer close(cl.done)
		var resp *[]byte
		var err error
		func() {
			defer func() {
				if r := recover(); r != nil {
					err = fmt.Errorf("PANIC: %v", r)
					resp = nil
					s.log("Panic", "c", c, "what", fmt.Sprint(r))
				}
			}()
			switch s.transport {
			case "doh":
				resp, err = s.doh.ExchangeContext(ctx, cl.q)
			case "doq":
				re, closed := s.doq.ReserveNewQuery()
				if re == nil {
					err = fmt.Errorf("harness: ReserveNewQuery returned nil (closed=%v)", closed)
					return
				}
				resp, err = re.ExchangeReserved(ctx, cl.q)
			}
		}()
		s.logReturn(cl, resp, err)
	}()
	return cl
}

func (s *session) logReturn(cl *caller, resp *[]byte, err error) {
	s.mu.Lock()
	defer s.mu.Unlock()
	slow := time.Since(cl.tCall) >= time.Second
	bufok := s.buffersPristineL()
	if err != nil {
		s.logL("Return", "c", cl.c, "k", "err", "id", 0, "q", 0, "s", 0, "bufok", bufok, "slow", slow, "err", err.Error(), "with_resp", resp != nil)
		return
	}
	if resp == nil || len(*resp) < 2 {
		s.logL("Return", "c", cl.c, "k", "other", "id", 0, "q", 0, "s", 0, "bufok", bufok, "slow", slow, "what", "nil or empty reply without error")
		return
	}
	b := *resp
	id := int(binary.BigEndian.Uint16(b))
	if info, ok := s.sent[string(b[2:])]; ok {
		s.logL("Return", "c", cl.c, "k", info.kind, "id", id, "q", info.q, "s", info.serial, "bufok", bufok, "slow", slow)
		return
	}
	s.logL("Return", "c", cl.c, "k", "other", "id", id, "q", 0, "s", 0, "bufok", bufok, "slow", slow,
		"what", fmt.Sprintf("%d bytes that no harness stream sent: %x", len(b), b[:min(len(b), 48)]))
}

func (s *session) finish(res *Result) {
	// end of scenario: contexts cancelled, silent streams reset, everything must come home
	s.mu.Lock()
	cls := make([]*caller, 0, len(s.callers))
	for _, cl := range s.callers {
		cls = append(cls, cl)
	}
	s.mu.Unlock()
	for _, cl := range cls {
		select {
		case <-cl.done:
		default:
			s.log("Cancel", "c", cl.c)
			cl.cancel()
		}
	}
	deadline := time.After(returnWait)
	for _, cl := range cls {
		select {
		case <-cl.done:
		case <-deadline:
			if !res.Hang {
				res.Hang = true
				res.HangWhat = "call-does-not-return-after-cancel"
			}
		}
	}
	// let requests that are still on their way arrive, then reset whatever is unanswered
	time.Sleep(2 * time.Millisecond)
	s.mu.Lock()
	sts := append([]*sstream(nil), s.streams...)
	s.mu.Unlock()
	for _, st := range sts {
		s.abort(st, "reset")
	}
	if s.conn != nil {
		s.doq.Close()
	}
	s.mu.Lock()
	for _, cl := range cls {
		s.logL("End", "c", cl.c, "bufok", bytes.Equal(cl.q, cl.pristine))
	}
	res.Events = append([]Event(nil), s.events...)
	s.mu.Unlock()
}

// ---------------------------------------------------------------------------------------------
// leg B: replay of a TLC behaviour

func runReplay(idx int, b *Behaviour, seed int64) Result {
	res := Result{Idx: idx, Kind: "replay", Transport: b.Transport, Steered: true}
	s := newSession(b.Transport, b.Variant, seed)
	s.log("Start", "n", b.N, "transport", b.Transport)
	fail := func(why string) {
		if res.Steered {
			res.Steered = false
			res.Why = why
		}
	}
steps:
	for i, stp := range b.Steps {
		cl := s.callers[stp.C]
		switch stp.A {
		case "Call":
			cl = s.startCall(stp.C, s.concreteId(stp.Id), true, false)
			select {
			case st := <-s.arrive:
				cl.stream = st
			case <-cl.done:
				// returned without a request: maybe the request is just behind
				select {
				case st := <-s.arrive:
					cl.stream = st
				case <-time.After(200 * time.Millisecond):
					fail(fmt.Sprintf("step %d: call %d returned without sending a request", i, stp.C))
					break steps
				}
			case <-time.After(returnWait):
				fail(fmt.Sprintf("step %d: call %d sent no request within %v", i, stp.C, returnWait))
				break steps
			}
		case "Build", "Send":
		case "Release":
			if cl == nil || cl.stream == nil || !s.release(cl.stream) {
				fail(fmt.Sprintf("step %d: cannot release the stream of call %d", i, stp.C))
				break steps
			}
		case "Respond":
			if cl == nil || cl.stream == nil || !s.respond(cl.stream, stp.K) {
				fail(fmt.Sprintf("step %d: cannot respond on the stream of call %d", i, stp.C))
				break steps
			}
		case "Abort":
			if cl == nil || cl.stream == nil {
				fail(fmt.Sprintf("step %d: no stream of call %d", i, stp.C))
				break steps
			}
			if stp.K == "reset" {
				if !s.abort(cl.stream, "reset") {
					fail(fmt.Sprintf("step %d: stream of call %d already answered", i, stp.C))
					break steps
				}
			} else {
				// the transport's own timeout: nothing is sent, the harness waits until it observes the expiry
				t0 := time.Now()
				for s.state(cl.stream) != 2 {
					// an implementation with a timer of its own (invisible to the harness) is fine too
					if isDone(cl) {
						break
					}
					if time.Since(t0) > timeoutBound {
						res.Hang = true
						res.HangWhat = "silent-server:no-own-timeout"
						break steps
					}
					time.Sleep(20 * time.Millisecond)
				}
			}
		case "Cancel":
			if cl == nil {
				fail("cancel of a call that was not started")
				break steps
			}
			s.log("Cancel", "c", stp.C)
			cl.tCancel = time.Now()
			cl.cancel()
		case "Return", "ReturnCtx":
			if cl == nil {
				fail("return of a call that was not started")
				break steps
			}
			select {
			case <-cl.done:
				if stp.A == "ReturnCtx" && !cl.tCancel.IsZero() {
					if ms := time.Since(cl.tCancel).Milliseconds(); ms > res.CancelMs {
						res.CancelMs = ms
					}
				}
			case <-time.After(returnWait):
				res.Hang = true
				if stp.A == "ReturnCtx" {
					res.HangWhat = "call-does-not-return-after-cancel"
				} else {
					res.HangWhat = "call-does-not-return-after-reply"
				}
				break steps
			}
		default:
			fail("unknown step " + stp.A)
			break steps
		}
	}
	s.finish(&res)
	return res
}

func isDone(cl *caller) bool {
	select {
	case <-cl.done:
		return true
	default:
		return false
	}
}

// ---------------------------------------------------------------------------------------------
// unsteered runs: 2..6 callers start together; the server holds them at a barrier or answers at random

func runRandom(idx int, tr string, seed int64) Result {
	res := Result{Idx: idx, Kind: "random", Transport: tr, Steered: true}
	rng := rand.New(rand.NewSource(seed ^ 0x5eed))
	s := newSession(tr, rng.Intn(4), seed)
	n := 2 + rng.Intn(5)
	barrier := rng.Intn(3) != 0
	s.log("Start", "n", n, "transport", tr, "barrier", barrier)
	kinds := []string{"ok", "ok", "ok", "ok", "ok", "ok", "garbage", "short", "status", "reset"}
	pick := func() string {
		s.mu.Lock()
		defer s.mu.Unlock()
		return kinds[s.rng.Intn(len(kinds))]
	}
	answer := func(st *sstream) {
		k := pick()
		if k == "reset" {
			s.abort(st, "reset")
		} else {
			s.respond(st, k)
		}
	}
	stop := make(chan struct{})
	var srvWg sync.WaitGroup
	srvWg.Add(1)
	go func() {
		defer srvWg.Done()
		var held []*sstream
		flush := func() {
			rng2 := rand.New(rand.NewSource(seed + int64(len(held))))
			rng2.Shuffle(len(held), func(i, j int) { held[i], held[j] = held[j], held[i] })
			for _, st := range held {
				s.release(st)
			}
			rng2.Shuffle(len(held), func(i, j int) { held[i], held[j] = held[j], held[i] })
			for _, st := range held {
				answer(st)
			}
			held = nil
		}
		var tmo <-chan time.Time
		for {
			select {
			case st := <-s.arrive:
				if barrier {
					held = append(held, st)
					if len(held) >= n {
						flush()
					} else if tmo == nil {
						tmo = time.After(1500 * time.Millisecond)
					}
				} else {
					srvWg.Add(1)
					go func() {
						defer srvWg.Done()
						time.Sleep(time.Duration(seed%3+int64(st.serial)%4) * 300 * time.Microsecond)
						s.release(st)
						time.Sleep(time.Duration(int64(st.serial*7)%5) * 200 * time.Microsecond)
						answer(st)
					}()
				}
			case <-tmo:
				tmo = nil
				flush()
			case <-stop:
				return
			}
		}
	}()
	idPolicy := rng.Intn(4)
	var cls []*caller
	start := make(chan struct{})
	var wg sync.WaitGroup
	type plan struct {
		c      int
		id     uint16
		pre    bool
		cancel time.Duration
	}
	var plans []plan
	for c := 1; c <= n; c++ {
		var id uint16
		switch idPolicy {
		case 0:
			id = 0
		case 1:
			id = 0xFFFF
		case 2:
			id = s.randId
		default:
			id = uint16(rng.Intn(65536))
		}
		p := plan{c: c, id: id, cancel: -1}
		if r := rng.Intn(20); r == 0 {
			p.pre = true
		} else if r < 4 {
			p.cancel = time.Duration(rng.Intn(3000)) * time.Microsecond
		}
		plans = append(plans, p)
	}
	var clMu sync.Mutex
	for _, p := range plans {
		wg.Add(1)
		go func(p plan) {
			defer wg.Done()
			<-start
			cl := s.startCall(p.c, p.id, false, p.pre)
			clMu.Lock()
			cls = append(cls, cl)
			clMu.Unlock()
			if p.cancel >= 0 {
				time.Sleep(p.cancel)
				s.log("Cancel", "c", p.c)
				cl.cancel()
			}
		}(p)
	}
	close(start)
	wg.Wait()
	deadline := time.After(returnWait + 5*time.Second)
	for _, cl := range cls {
		select {
		case <-cl.done:
		case <-deadline:
			res.Hang = true
			res.HangWhat = "call-does-not-return-after-reply"
		}
	}
	close(stop)
	srvWg.Wait()
	s.finish(&res)
	return res
}

func main() {
	var job Job
	if err := vh.ReadJob(&job); err != nil {
		fmt.Fprintln(os.Stderr, "job:", err)
		os.Exit(3)
	}
	if job.Workers == 0 {
		job.Workers = 16
	}
	if job.TimeoutBoundS > 0 {
		timeoutBound = time.Duration(job.TimeoutBoundS) * time.Second
	}
	// released buffers are poisoned: a reply (or request) that is used after its release changes its bytes
	orig := pool.ReleaseBuf
	pool.ReleaseBuf = func(b *[]byte) {
		if b != nil {
			bb := (*b)[:cap(*b)]
			for i := range bb {
				bb[i] = 0xDB
			}
		}
		orig(b)
	}
	type item struct {
		idx  int
		b    *Behaviour
		kind string
		tr   string
	}
	var items []item
	for i := range job.Behaviours {
		items = append(items, item{i, &job.Behaviours[i], "replay", job.Behaviours[i].Transport})
	}
	for i := 0; i < job.Random; i++ {
		tr := "doh"
		if i%3 == 2 {
			tr = "doq"
		}
		items = append(items, item{len(job.Behaviours) + i, nil, "random", tr})
	}
	ch := make(chan item)
	var wg sync.WaitGroup
	for w := 0; w < job.Workers; w++ {
		wg.Add(1)
		go func() {
			defer wg.Done()
			for it := range ch {
				seed := vh.Seed()*1000003 + int64(it.idx)
				var r Result
				if it.kind == "replay" {
					r = runReplay(it.idx, it.b, seed)
					r.Beh = it.b
				} else {
					r = runRandom(it.idx, it.tr, seed)
				}
				vh.Emit(r)
			}
		}()
	}
	for _, it := range items {
		ch <- it
	}
	close(ch)
	wg.Wait()
	vh.Flush()
}
