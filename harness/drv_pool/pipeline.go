//go:build verif

package main

import (
	"context"
	"errors"
	"fmt"
	"sync"
	"time"

	"github.com/IrineSistiana/mosdns/v5/pkg/upstream/transport"

	"verif/harness/simnet"
)

// fakeConn is a harness DnsConn with the contract of a pipelined connection (PipeConn.tla): it admits at
// most cap concurrent reservations, reports "closed" once it is dead, fails every exchange in flight when
// it dies, and an exchange ends with a reply, an error or the caller's context.  All state changes and
// their log lines happen under the runner's mutex.
type fakeConn struct {
	id     int
	r      *plRunner
	health string // ok | stale | dead
	closed bool   // Close() called
	inuse  int
	over   bool // a reservation beyond cap was observed (cannot happen: refused)
	pend   map[*fakeEx]bool
	nClose int
}

type fakeEx struct {
	f     *fakeConn
	c     int
	begun bool
	fin   bool
	done  chan struct{}
	resp  *[]byte
	err   error
}

var errFakeDead = errors.New("harness: connection is dead")

func (f *fakeConn) ReserveNewQuery() (transport.ReservedExchanger, bool) {
	f.r.mu.Lock()
	defer f.r.mu.Unlock()
	if f.closed || f.health == "dead" {
		return nil, true
	}
	if f.inuse >= f.r.cap {
		return nil, false
	}
	f.inuse++
	return &fakeEx{f: f, done: make(chan struct{})}, false
}

func (f *fakeConn) Close() error {
	r := f.r
	r.mu.Lock()
	defer r.mu.Unlock()
	f.nClose++
	if f.closed {
		return nil
	}
	if f.health != "dead" {
		r.rec.Log("UClose", "x", f.id)
	}
	f.closed = true
	f.failAllLocked()
	return nil
}

// failAllLocked: every exchange in flight fails (r.mu held)
func (f *fakeConn) failAllLocked() {
	for e := range f.pend {
		e.finishLocked(nil, errFakeDead, "err")
	}
}

func (e *fakeEx) finishLocked(resp *[]byte, err error, r string) {
	if e.fin {
		return
	}
	e.fin = true
	e.resp, e.err = resp, err
	e.f.inuse--
	delete(e.f.pend, e)
	e.f.r.rec.Log("ExchRet", "x", e.f.id, "c", e.c, "r", r)
	close(e.done)
}

func (e *fakeEx) ExchangeReserved(ctx context.Context, q []byte) (*[]byte, error) {
	f, r := e.f, e.f.r
	r.mu.Lock()
	if e.begun {
		r.mu.Unlock()
		panic("harness: ExchangeReserved called twice")
	}
	e.begun = true
	e.c = callOf(q)
	r.rec.Log("ExchReq", "x", f.id, "c", e.c)
	f.pend[e] = true
	if f.closed || f.health == "dead" {
		e.finishLocked(nil, errFakeDead, "err")
	}
	r.mu.Unlock()
	select {
	case <-e.done:
	case <-ctx.Done():
		r.mu.Lock()
		e.finishLocked(nil, context.Cause(ctx), "ctx")
		r.mu.Unlock()
		<-e.done
	}
	return e.resp, e.err
}

func (e *fakeEx) WithdrawReserved() {
	e.f.r.mu.Lock()
	defer e.f.r.mu.Unlock()
	if !e.begun && !e.fin {
		e.fin = true
		e.f.inuse--
		e.f.r.rec.Log("Withdraw", "x", e.f.id)
	}
}

type plRunner struct {
	sc     Script
	rec    *simnet.Recorder
	dialer *simnet.Dialer
	t      *transport.PipelineTransport
	cap    int

	mu    sync.Mutex // fake connections' state + their log lines
	conns map[int]*fakeConn

	cs        calls
	panicMu   sync.Mutex
	panicMsg  string
	closeDone chan struct{}
	closing   bool
}

func (r *plRunner) conn(x int) *fakeConn {
	r.mu.Lock()
	defer r.mu.Unlock()
	return r.conns[x]
}

func (r *plRunner) pendingEx(x, c int) *fakeEx {
	r.mu.Lock()
	defer r.mu.Unlock()
	f := r.conns[x]
	if f == nil {
		return nil
	}
	for e := range f.pend {
		if e.c == c {
			return e
		}
	}
	return nil
}

func (r *plRunner) seen(ev string, x, c int) bool {
	for _, e := range r.rec.Events() {
		if e["ev"] == ev && e["x"] == x && (c < 0 || e["c"] == c) {
			return true
		}
	}
	return false
}

func (r *plRunner) startCall(c int, precancel bool) {
	ctx, cancel := context.WithCancel(context.Background())
	cl := &call{id: c, ctx: ctx, cancel: cancel, done: make(chan struct{}), startAt: time.Now()}
	r.cs.mu.Lock()
	r.cs.m[c] = cl
	r.cs.mu.Unlock()
	r.rec.Log("Start", "c", c)
	if precancel { // the call enters the transport with a context that has already ended
		r.rec.Log("Cancel", "c", c)
		cl.cancelled = true
		cancel()
	}
	go runCallN(c, func() {
		defer func() {
			if p := recover(); p != nil { // a panic of the code under test is a conformance failure
				r.panicMu.Lock()
				r.panicMsg = fmt.Sprint(p)
				r.panicMu.Unlock()
				r.rec.Log("Return", "c", c, "res", "panic", "vc", -1, "vw", -1, "err", fmt.Sprint(p))
				close(cl.done)
			}
		}()
		resp, err := r.t.ExchangeContext(ctx, queryFor(c))
		vc := -1
		if err == nil && resp != nil {
			vc, _ = replyOf(*resp)
		}
		r.rec.Log("Return", "c", c, "res", classify(cl, err, transport.ErrClosedTransport), "vc", vc, "err", fmt.Sprint(err))
		close(cl.done)
	})
}

func (r *plRunner) seenAny(ev string, c int) bool {
	for _, e := range r.rec.Events() {
		if e["ev"] == ev && e["c"] == c {
			return true
		}
	}
	return false
}

func (r *plRunner) startClose() {
	if r.closing {
		return
	}
	r.closing = true
	r.rec.Log("TClose")
	go func() {
		r.t.Close()
		r.rec.Log("TCloseRet")
		close(r.closeDone)
	}()
}

func (r *plRunner) kill(x int, k string) bool {
	r.mu.Lock()
	defer r.mu.Unlock()
	f := r.conns[x]
	if f == nil || f.health != "ok" || f.closed {
		return false
	}
	r.rec.Log("Kill", "x", x, "k", k)
	f.health = k
	if k == "dead" {
		f.failAllLocked()
	}
	return true
}

func (r *plRunner) step(s Step) (bool, string) {
	a := s.str("a")
	x, c := s.num("x"), s.num("c")
	switch a {
	case "Start":
		r.startCall(c, s.flag("precancel"))
	case "Parked":
		// Observation: call c does not return, does not cause the dial the script expects and does not start an
		// exchange, AND its goroutine and every other goroutine of the code under test (including dial goroutines that
		// were created but have not run yet) are blocked -- waiting for something, not for a CPU -- in two samples
		// 100 ms apart: it is queued on a connection that is still dialing, and every dial that was spawned has
		// reached the dial function.  Nothing is logged if it moves, or if its goroutine
		// is merely runnable (then nothing has been observed).
		cl := r.cs.get(c)
		if cl == nil {
			return false, "Parked: call was not started"
		}
		n0 := r.dialer.Count()
		if d := s.num("dials"); d > 0 {
			n0 = d - 1 // the script expects the call to cause dial number d (it may already have happened)
		}
		moved := func() bool {
			select {
			case <-cl.done:
				return true
			default:
			}
			return r.dialer.Count() > n0 || r.seenAny("ExchReq", c)
		}
		blocked := 0
		end := time.Now().Add(3 * time.Second)
		for !moved() && time.Now().Before(end) {
			if blockedState(callState(c)) && codeQuiescent() {
				blocked++
			} else {
				blocked = 0
			}
			if blocked >= 2 && !moved() {
				r.rec.Log("Parked", "c", c)
				break
			}
			time.Sleep(100 * time.Millisecond)
		}
	case "Cancel":
		cl := r.cs.get(c)
		if cl == nil {
			return false, "cancel of a call that was not started"
		}
		if cl.cancelled {
			return true, "" // (pre-cancelled at its start)
		}
		r.rec.Log("Cancel", "c", c)
		cl.cancelled = true
		cl.cancel()
	case "Dial":
		if !poll(stepWait, func() bool { return r.dialer.Count() >= x }) {
			return false, fmt.Sprintf("dial %d was not invoked", x)
		}
	case "DialRet":
		var op *simnet.DialOp
		ended := false
		if !poll(stepWait, func() bool {
			for _, p := range r.dialer.Pending() {
				if p.ID == x {
					op = p
					return true
				}
			}
			if r.dialer.Count() >= x {
				ended = true
				return true
			}
			return false
		}) {
			return false, fmt.Sprintf("dial %d not pending", x)
		}
		if ended {
			return true, "" // (the dial ended through its context: the script goes on without that connection)
		}
		if s.flag("ok") {
			f := &fakeConn{id: x, r: r, health: "ok", pend: map[*fakeEx]bool{}}
			// r.mu is held across the completion so that no ReserveNewQuery can see the connection before a
			// "dead on arrival" kill has been applied and logged
			r.mu.Lock()
			r.conns[x] = f
			if !op.Complete(f, nil) { // the dial ended through its context in the meantime: no such connection
				delete(r.conns, x)
			} else if s.flag("dead") {
				r.rec.Log("Kill", "x", x, "k", "dead")
				f.health = "dead"
			}
			r.mu.Unlock()
		} else if s.str("err") == "ctxwrap" {
			// e.g. a stalled TLS handshake: the dialer's own deadline, wrapped
			op.Complete(nil, fmt.Errorf("harness: tls handshake: %w", context.DeadlineExceeded))
		} else {
			op.Complete(nil, simnet.ErrRefused)
		}
	case "DialHang": // left alone: the lazy connection's own 5 s dial context must end it
		if !poll(8*time.Second, func() bool {
			if r.dialer.Count() < x {
				return false
			}
			for _, p := range r.dialer.Pending() {
				if p.ID == x {
					return false
				}
			}
			return true
		}) {
			return false, fmt.Sprintf("hanging dial %d did not end", x)
		}
	case "ExchReq":
		if !poll(stepWait, func() bool { return r.seen("ExchReq", x, c) }) {
			return false, fmt.Sprintf("call %d did not start an exchange on conn %d", c, x)
		}
	case "ExchRet":
		var e *fakeEx
		if !poll(stepWait, func() bool { e = r.pendingEx(x, c); return e != nil || r.seen("ExchRet", x, c) }) {
			return false, fmt.Sprintf("no exchange of call %d on conn %d", c, x)
		}
		switch s.str("r") {
		case "ok":
			if e == nil {
				return false, fmt.Sprintf("exchange of call %d on conn %d already ended", c, x)
			}
			b := replyFor(c, 0)
			r.mu.Lock()
			if e.f.health != "ok" || e.f.closed {
				r.mu.Unlock()
				return false, fmt.Sprintf("conn %d cannot answer any more", x)
			}
			e.finishLocked(&b, nil, "ok")
			r.mu.Unlock()
		case "err":
			if e != nil {
				r.kill(x, "stale") // (no-op if the script killed it already)
				r.mu.Lock()
				if !e.fin {
					e.f.health = "dead" // the connection notices: every exchange in flight fails
					e.finishLocked(nil, errFakeDead, "err")
					e.f.failAllLocked()
				}
				r.mu.Unlock()
			}
		case "ctx":
			if !poll(stepWait, func() bool { return r.pendingEx(x, c) == nil }) {
				return false, fmt.Sprintf("exchange of call %d on conn %d did not end with its context", c, x)
			}
		}
	case "Kill":
		if !r.kill(x, s.str("k")) {
			return false, fmt.Sprintf("conn %d cannot be killed", x)
		}
	case "UClose":
		if !poll(stepWait, func() bool {
			f := r.conn(x)
			return f != nil && func() bool { r.mu.Lock(); defer r.mu.Unlock(); return f.closed }()
		}) {
			return false, fmt.Sprintf("conn %d was not closed", x)
		}
	case "TClose":
		r.startClose()
	case "TCloseRet":
		if !waitDone(r.closeDone, stepWait) {
			return false, "transport Close did not return"
		}
	case "Return":
		cl := r.cs.get(c)
		if cl == nil || !waitDone(cl.done, stepWait) {
			return false, fmt.Sprintf("call %d did not return", c)
		}
	case "Sleep":
		time.Sleep(time.Duration(s.num("ms")) * time.Millisecond)
	default:
		return false, "unknown step " + a
	}
	return true, ""
}

// patient: what must happen without further help: a cancelled call returns; once transport Close has
// returned every call returns and every pending dial ends through its context.
func (r *plRunner) patient() (hang []string) {
	poll(patientWait, func() bool {
		hang = nil
		cr := false
		select {
		case <-r.closeDone:
			cr = true
		default:
		}
		for _, cl := range r.cs.all() {
			select {
			case <-cl.done:
				continue
			default:
			}
			if cr {
				hang = append(hang, fmt.Sprintf("call %d pending after Close", cl.id))
			} else if cl.cancelled {
				hang = append(hang, fmt.Sprintf("cancelled call %d", cl.id))
			}
		}
		if cr {
			for _, p := range r.dialer.Pending() {
				hang = append(hang, fmt.Sprintf("dial %d pending after Close", p.ID))
			}
		}
		return len(hang) == 0
	})
	return hang
}

// drain: pending dials fail, exchanges on healthy connections are answered, stale connections fail.
func (r *plRunner) drain() (hang []string) {
	allDone := func() bool {
		for _, cl := range r.cs.all() {
			select {
			case <-cl.done:
			default:
				return false
			}
		}
		return true
	}
	end := time.Now().Add(hangWait)
	for !allDone() && time.Now().Before(end) {
		for _, p := range r.dialer.Pending() {
			p.Complete(nil, simnet.ErrRefused)
		}
		r.mu.Lock()
		for _, f := range r.conns {
			for e := range f.pend {
				if f.health == "ok" && !f.closed {
					b := replyFor(e.c, 0)
					e.finishLocked(&b, nil, "ok")
				} else {
					f.health = "dead"
					e.finishLocked(nil, errFakeDead, "err")
				}
			}
		}
		r.mu.Unlock()
		time.Sleep(500 * time.Microsecond)
	}
	for _, cl := range r.cs.all() {
		select {
		case <-cl.done:
		default:
			hang = append(hang, fmt.Sprintf("call %d", cl.id))
		}
	}
	return hang
}

func runPipeline(idx int, sc Script) Result {
	r := &plRunner{sc: sc, rec: simnet.NewRecorder(), conns: map[int]*fakeConn{}, closeDone: make(chan struct{}), cap: sc.Cap}
	if r.cap == 0 {
		r.cap = 2
	}
	q := sc.Queue
	if q == 0 {
		q = 2
	}
	r.cs.m = map[int]*call{}
	r.dialer = simnet.NewDialer(r.rec, "d")
	r.t = transport.NewPipelineTransport(transport.PipelineOpts{
		DialContext: func(ctx context.Context) (transport.DnsConn, error) {
			if sc.DialIgnoresCtx { // a dial that returns a connection although it was cancelled
				ctx = context.Background()
			}
			v, err := r.dialer.Await(ctx)
			if err != nil {
				return nil, err
			}
			return v.(*fakeConn), nil
		},
		MaxConcurrentQueryWhileDialing: q,
	})
	res := Result{Steered: true}
	for i, s := range sc.Steps {
		ok, why := r.step(s)
		settle(r.rec)
		if !ok {
			res.Steered = false
			res.Why = fmt.Sprintf("step %d %v: %s", i, s, why)
			break
		}
	}
	res.Hang = r.patient()
	res.Hang = append(res.Hang, r.drain()...)
	r.startClose()
	if !waitDone(r.closeDone, hangWait) {
		res.Hang = append(res.Hang, "transport Close")
	}
	if len(res.Hang) == 0 {
		res.Hang = append(res.Hang, r.patient()...)
	}
	r.drain()
	if len(res.Hang) == 0 && !sc.NoPostCall {
		r.startCall(postCall, false)
		if !waitDone(r.cs.get(postCall).done, hangWait) {
			res.Hang = append(res.Hang, "call after Close")
		}
	}
	if len(res.Hang) == 0 {
		// a dial that is still pending ends with its context (cancelled by Close); then nothing may be left
		res.Leak = leakCheck()
		r.mu.Lock()
		for x, f := range r.conns {
			if !f.closed && f.health != "dead" {
				res.Unclosed = append(res.Unclosed, x)
			}
			if f.inuse != 0 {
				res.Slow = append(res.Slow, fmt.Sprintf("conn %d: %d reservations never released", x, f.inuse))
			}
		}
		r.mu.Unlock()
	} else {
		res.Leak = transportFrames()
	}
	// convert
	evs := r.rec.Events()
	dials := 0
	for _, e := range evs {
		if e["ev"] == "Dial" {
			dials++
		}
	}
	out := []map[string]any{{"ev": "Reset", "dials": dials}}
	for _, e := range evs {
		switch e["ev"] {
		case "Dial", "DialRet", "DialCtxDone":
			out = append(out, convDial(e, "x"))
		default:
			m := map[string]any{}
			for k, v := range e {
				if k != "seq" && k != "ms" {
					m[k] = v
				}
			}
			out = append(out, m)
		}
	}
	res.Events = out
	r.panicMu.Lock()
	res.Panic = r.panicMsg
	r.panicMu.Unlock()
	return res
}
