//go:build verif

package main

import (
	"bytes"
	"context"
	"errors"
	"fmt"
	"net"
	"strconv"
	"sync"
	"sync/atomic"
	"syscall"
	"time"

	"github.com/IrineSistiana/mosdns/v5/pkg/upstream/transport"

	"verif/harness/simnet"
)

var reuseKinds = []simnet.DeadlineKind{
	{Name: "query", Min: 2 * time.Second, Max: 20 * time.Second}, // reuseConnQueryTimeout = 6 s
	{Name: "idle", Min: 4 * time.Minute, Max: 7 * time.Minute},   // IdleTimeout = 5 min below
	{Name: "short", Min: -time.Hour, Max: 2 * time.Second},       // anything else is logged as it is
}

const reuseIdle = 5 * time.Minute

type reuseRunner struct {
	sc     Script
	idx    int
	rec    *simnet.Recorder
	dialer *simnet.Dialer
	t      *transport.ReuseConnTransport

	mu     sync.Mutex
	conns  map[int]*simnet.Conn
	wcount map[int]int    // writes per call
	lastW  map[[2]int]int // (conn, call) -> ordinal of the call's last write on that conn

	cs        calls
	panicMu   sync.Mutex
	panicMsg  string
	closeDone chan struct{}
	closing   bool
	holdClose atomic.Int32
	held      *simnet.Op
	holdSRD   atomic.Int32        // the next n SetReadDeadline calls stay pending
	heldOps   map[*simnet.Op]bool // (r.mu)
	heldSRD   *simnet.Op
}

func (r *reuseRunner) conn(x int) *simnet.Conn {
	r.mu.Lock()
	defer r.mu.Unlock()
	return r.conns[x]
}

func (r *reuseRunner) allConns() map[int]*simnet.Conn {
	r.mu.Lock()
	defer r.mu.Unlock()
	out := map[int]*simnet.Conn{}
	for k, v := range r.conns {
		out[k] = v
	}
	return out
}

func (r *reuseRunner) newConn(x int) *simnet.Conn {
	c := simnet.NewConn(r.rec, simnet.Options{
		Name:  strconv.Itoa(x),
		Kinds: reuseKinds,
		Manual: func(op *simnet.Op) bool {
			switch op.Kind {
			case simnet.OpRead, simnet.OpWrite:
				return true
			case simnet.OpSetReadDeadline:
				r.mu.Lock()
				h := r.heldOps[op]
				r.mu.Unlock()
				return h
			case simnet.OpClose:
				for {
					n := r.holdClose.Load()
					if n <= 0 {
						return false
					}
					if r.holdClose.CompareAndSwap(n, n-1) {
						return true
					}
				}
			}
			return false
		},
		Annotate: func(op *simnet.Op) []any {
			if op.Kind == simnet.OpSetReadDeadline {
				for {
					n := r.holdSRD.Load()
					if n <= 0 {
						return nil
					}
					if r.holdSRD.CompareAndSwap(n, n-1) {
						r.mu.Lock()
						r.heldOps[op] = true
						r.mu.Unlock()
						// the deadline takes effect when the controller lets the call return
						return []any{"held", true, "hkind", op.DKind}
					}
				}
			}
			if op.Kind == simnet.OpWrite && len(op.Data) < 2 {
				return []any{"c", 0, "w", 0, "wok", false}
			}
			if op.Kind != simnet.OpWrite {
				return nil
			}
			c := callOf(op.Data[2:])
			wok := c >= 1 && bytes.Equal(op.Data, framedQuery(c)) // the bytes are exactly that call's framed query
			r.mu.Lock()
			r.wcount[c]++
			w := r.wcount[c]
			r.lastW[[2]int{x, c}] = w
			r.mu.Unlock()
			return []any{"c", c, "w", w, "wok", wok}
		},
	})
	r.mu.Lock()
	r.conns[x] = c
	r.mu.Unlock()
	return c
}

func (r *reuseRunner) dropConn(x int) {
	r.mu.Lock()
	delete(r.conns, x)
	r.mu.Unlock()
}

func noteInt(op *simnet.Op, key string) int {
	for i := 0; i+1 < len(op.Note); i += 2 {
		if op.Note[i] == key {
			if v, ok := op.Note[i+1].(int); ok {
				return v
			}
		}
	}
	return -1
}

func (r *reuseRunner) startCall(c int, precancel bool) {
	ctx, cancel := context.WithCancel(context.Background())
	cl := &call{id: c, ctx: ctx, cancel: cancel, done: make(chan struct{}), startAt: time.Now()}
	r.cs.mu.Lock()
	r.cs.m[c] = cl
	r.cs.mu.Unlock()
	r.rec.Log("Start", "c", c)
	if precancel {
		r.rec.Log("Cancel", "c", c)
		cl.cancelled = true
		cancel()
	}
	go func() {
		defer func() {
			if p := recover(); p != nil { // a panic of the code under test is a conformance failure
				r.panicMu.Lock()
				r.panicMsg = fmt.Sprint(p)
				r.panicMu.Unlock()
				r.rec.Log("Return", "c", c, "res", "panic", "vc", -1, "vw", -1, "err", fmt.Sprint(p))
				close(cl.done)
			}
		}()
		resp, err := r.t.ExchangeContext(ctx, queryFor(c))
		vc, vw := -1, -1
		if err == nil && resp != nil {
			vc, vw = replyOf(*resp)
		}
		r.rec.Log("Return", "c", c, "res", classify(cl, err, transport.ErrClosedTransport), "vc", vc, "vw", vw, "err", fmt.Sprint(err))
		close(cl.done)
	}()
}

func (r *reuseRunner) startClose() {
	if r.closing {
		return
	}
	r.closing = true
	r.rec.Log("TClose")
	go func() {
		r.t.Close()
		r.rec.Log("TCloseRet")
		close(r.closeDone)
	}()
}

// deadWriteSeen: a Write of call c was posted on the already closed conn x (it returned ErrClosed at once)
func (r *reuseRunner) deadWriteSeen(x, c int) bool {
	name := strconv.Itoa(x)
	for _, e := range r.rec.Events() {
		if e["ev"] == "ConnWrite" && e["conn"] == name && e["dead"] == true && e["c"] == c {
			return true
		}
	}
	return false
}

func (r *reuseRunner) pendingWrite(x, c int) *simnet.Op {
	cn := r.conn(x)
	if cn == nil {
		return nil
	}
	return cn.Find(func(op *simnet.Op) bool { return op.Kind == simnet.OpWrite && noteInt(op, "c") == c })
}

func (r *reuseRunner) step(s Step) (bool, string) {
	a := s.str("a")
	x, c, d := s.num("x"), s.num("c"), s.num("d")
	switch a {
	case "Start":
		r.startCall(c, s.flag("precancel"))
	case "Cancel":
		cl := r.cs.get(c)
		if cl == nil {
			return false, "cancel of a call that was not started"
		}
		if cl.cancelled {
			return true, "" // (pre-cancelled at its start)
		}
		r.rec.Log("Cancel", "c", c)
		cl.cancelled = true
		cl.cancel()
	case "Dial":
		if !poll(stepWait, func() bool { return r.dialer.Count() >= d }) {
			return false, fmt.Sprintf("dial %d was not invoked", d)
		}
	case "DialRet":
		var op *simnet.DialOp
		ended := false
		ok := poll(stepWait, func() bool {
			for _, p := range r.dialer.Pending() {
				if p.ID == d {
					op = p
					return true
				}
			}
			if r.dialer.Count() >= d { // invoked and no longer pending: its context ended
				ended = true
				return true
			}
			return false
		})
		if !ok {
			return false, fmt.Sprintf("dial %d not pending", d)
		}
		if ended {
			return true, "" // (the dial ended through its context: the script goes on without that connection)
		}
		if s.flag("ok") {
			cn := r.newConn(d)
			if !op.Complete(cn, nil) { // the dial ended through its context in the meantime: no such connection
				r.dropConn(d)
			}
		} else {
			op.Complete(nil, simnet.ErrRefused)
		}
	case "DialHang": // the dial is left alone: it must end through its own context (dial timeout / Close)
		if !poll(time.Duration(r.sc.DialTimeoutMs)*time.Millisecond+stepWait, func() bool {
			if r.dialer.Count() < d {
				return false
			}
			for _, p := range r.dialer.Pending() {
				if p.ID == d {
					return false
				}
			}
			return true
		}) {
			return false, fmt.Sprintf("hanging dial %d did not end", d)
		}
	case "WriteReq":
		if !poll(stepWait, func() bool { return r.pendingWrite(x, c) != nil || r.deadWriteSeen(x, c) }) {
			return false, fmt.Sprintf("call %d did not write on conn %d", c, x)
		}
	case "WriteRet":
		var op *simnet.Op
		if !poll(stepWait, func() bool { op = r.pendingWrite(x, c); return op != nil || r.deadWriteSeen(x, c) }) {
			return false, fmt.Sprintf("no pending write of call %d on conn %d", c, x)
		}
		if op != nil {
			var err error
			if !s.flag("ok") {
				err = errors.New("injected write error")
			}
			op.Complete(err)
		}
	case "ReadRet":
		cn := r.conn(x)
		if cn == nil {
			return false, fmt.Sprintf("conn %d does not exist", x)
		}
		switch s.str("k") {
		case "reply":
			r.mu.Lock()
			w, ok := r.lastW[[2]int{x, c}]
			r.mu.Unlock()
			if !ok {
				return false, fmt.Sprintf("reply for call %d on conn %d: no such write", c, x)
			}
			if !cn.Deliver(replyFor(c, w), stepWait, "c", c, "w", w) {
				return false, fmt.Sprintf("reply for call %d could not be delivered on conn %d", c, x)
			}
		case "err":
			if cn.IsClosed() {
				return true, "" // the read has failed already (closed)
			}
			how := r.sc.ErrHow
			if how == "" {
				how = []string{"eof", "reset", "short"}[r.idx%3]
			}
			var ok bool
			switch how {
			case "reset":
				ok = cn.FailRead(syscall.ECONNRESET, "reset", stepWait)
			case "short": // a frame whose length field is smaller than a DNS header
				ok = cn.Deliver([]byte{}, stepWait, "short", true)
			default:
				ok = cn.EOF(stepWait)
			}
			if !ok && !cn.IsClosed() {
				return false, fmt.Sprintf("read error could not be injected on conn %d", x)
			}
		case "timeout":
			if cn.Wait(simnet.IsKind(simnet.OpRead), stepWait) == nil {
				return false, fmt.Sprintf("no pending read on conn %d", x)
			}
			adv := 30 * time.Second
			if s.str("armed") == "idle" {
				adv = reuseIdle + time.Minute
			}
			if !cn.Advance(adv) {
				return false, fmt.Sprintf("no deadline of kind %q fired on conn %d", s.str("armed"), x)
			}
		}
	case "Surplus": // a message nobody asked for, on an idle connection
		cn := r.conn(x)
		if cn == nil || !cn.Deliver(replyFor(0, 0), stepWait, "surplus", true) && !cn.IsClosed() {
			return false, fmt.Sprintf("surplus message could not be delivered on conn %d", x)
		}
	case "CloseReq":
		cn := r.conn(x)
		if cn == nil || !cn.WaitClosed(stepWait) {
			return false, fmt.Sprintf("conn %d was not closed", x)
		}
	case "TClose":
		r.startClose()
	case "TCloseRet":
		if !waitDone(r.closeDone, stepWait) {
			return false, "transport Close did not return"
		}
	case "Return":
		cl := r.cs.get(c)
		if cl == nil || !waitDone(cl.done, stepWait) {
			return false, fmt.Sprintf("call %d did not return", c)
		}
	case "SetDeadline", "SetReadDeadline", "Kill":
		// boundary events that complete by themselves / bookkeeping of the generator
	case "Sleep":
		time.Sleep(time.Duration(s.num("ms")) * time.Millisecond)
	case "HoldSRD": // the next n SetReadDeadline calls (readLoop's idle deadline) stay pending
		r.holdSRD.Store(int32(s.num("n")))
	case "AwaitHeldSRD":
		if !poll(stepWait, func() bool {
			for _, cn := range r.allConns() {
				if op := cn.Find(simnet.IsKind(simnet.OpSetReadDeadline)); op != nil {
					r.heldSRD = op
					return true
				}
			}
			return false
		}) {
			return false, "no SetReadDeadline is being held"
		}
	case "ReleaseSRD":
		if r.heldSRD != nil {
			r.heldSRD.Complete(nil)
			r.heldSRD = nil
		}
	case "HoldClose": // the next n Close() calls on connections stay pending
		r.holdClose.Store(int32(s.num("n")))
	case "AwaitHeldClose":
		if !poll(stepWait, func() bool {
			for _, cn := range r.allConns() {
				if op := cn.Find(simnet.IsKind(simnet.OpClose)); op != nil {
					r.held = op
					return true
				}
			}
			return false
		}) {
			return false, "no Close() is being held"
		}
	case "FailOtherReads": // EOF on every other open connection
		for _, cn := range r.allConns() {
			if r.held != nil && cn == r.held.Conn {
				continue
			}
			if !cn.IsClosed() {
				cn.EOF(stepWait)
			}
		}
	case "StalePool":
		// Every pooled connection 1..k is silently dead: whichever of them call c writes on fails in the
		// scripted way; a fresh connection (dial number > k) works.
		k, how := s.num("k"), s.str("how")
		cl := r.cs.get(c)
		for round := 0; round < 12; round++ {
			var wx int
			var wop *simnet.Op
			var dop *simnet.DialOp
			returned := false
			if !poll(stepWait, func() bool {
				select {
				case <-cl.done:
					returned = true
					return true
				default:
				}
				for x, cn := range r.allConns() {
					if op := cn.Find(func(op *simnet.Op) bool { return op.Kind == simnet.OpWrite && noteInt(op, "c") == c }); op != nil {
						wx, wop = x, op
						return true
					}
				}
				if p := r.dialer.Pending(); len(p) > 0 {
					dop = p[0]
					return true
				}
				return false
			}) {
				return false, "StalePool: the call neither wrote nor dialled nor returned"
			}
			if returned {
				return true, ""
			}
			if dop != nil {
				if !dop.Complete(r.newConn(dop.ID), nil) {
					r.dropConn(dop.ID)
				}
				continue
			}
			cn := r.conn(wx)
			if wx > k { // fresh connection: works
				wop.Complete(nil)
				r.mu.Lock()
				w := r.lastW[[2]int{wx, c}]
				r.mu.Unlock()
				if !cn.Deliver(replyFor(c, w), stepWait, "c", c, "w", w) {
					return false, "StalePool: reply on the fresh connection could not be delivered"
				}
				continue
			}
			switch how {
			case "reset_on_write":
				wop.Complete(errors.New("injected: connection reset by peer"))
			case "silence":
				wop.Complete(nil)
				if cn.Wait(simnet.IsKind(simnet.OpRead), stepWait) == nil || !cn.Advance(30*time.Second) {
					return false, "StalePool: no query deadline fired on the silent connection"
				}
			default: // write succeeds, the read then fails
				wop.Complete(nil)
				if !cn.EOF(stepWait) && !cn.IsClosed() {
					return false, "StalePool: EOF could not be injected"
				}
			}
			if !cn.WaitClosed(stepWait) {
				return false, "StalePool: the dead connection was not closed"
			}
		}
	case "ReleaseHeld":
		if r.held != nil {
			r.held.Complete(nil)
			r.held = nil
		}
	default:
		return false, "unknown step " + a
	}
	return true, ""
}

// patient: what must happen WITHOUT further help from the environment.  A cancelled call returns; once
// transport Close has returned every call returns and every pending dial ends through its context.  The
// only thing done here is what a socket would do by itself: a Write that the harness still holds fails
// on a closed connection, and a held Write of a cancelled call is let through.
func (r *reuseRunner) patient() (hang []string) {
	closeReturned := func() bool {
		select {
		case <-r.closeDone:
			return true
		default:
			return false
		}
	}
	isDone := func(cl *call) bool {
		select {
		case <-cl.done:
			return true
		default:
			return false
		}
	}
	check := func() []string {
		var out []string
		cr := closeReturned()
		for _, cl := range r.cs.all() {
			if isDone(cl) {
				continue
			}
			if cr {
				out = append(out, fmt.Sprintf("call %d pending after Close", cl.id))
			} else if cl.cancelled {
				out = append(out, fmt.Sprintf("cancelled call %d", cl.id))
			}
		}
		if cr {
			for _, p := range r.dialer.Pending() {
				out = append(out, fmt.Sprintf("dial %d pending after Close", p.ID))
			}
		}
		return out
	}
	poll(patientWait, func() bool {
		for _, cn := range r.allConns() {
			for _, op := range cn.Pending() {
				if op.Kind != simnet.OpWrite {
					continue
				}
				if cn.IsClosed() {
					op.Complete(net.ErrClosed)
				} else if cl := r.cs.get(noteInt(op, "c")); cl != nil && cl.cancelled {
					op.Complete(nil)
				}
			}
		}
		hang = check()
		return len(hang) == 0
	})
	return hang
}

// drain releases everything that is pending with the default policy (dials fail, writes succeed, virtual
// time advances by 30 s so that every armed query deadline fires) until all calls have returned.
func (r *reuseRunner) drain() (hang []string) {
	allDone := func() bool {
		for _, cl := range r.cs.all() {
			select {
			case <-cl.done:
			default:
				return false
			}
		}
		return true
	}
	end := time.Now().Add(hangWait)
	for !allDone() && time.Now().Before(end) {
		r.holdClose.Store(0)
		r.holdSRD.Store(0)
		if r.held != nil {
			r.held.Complete(nil)
			r.held = nil
		}
		for _, p := range r.dialer.Pending() {
			p.Complete(nil, simnet.ErrRefused)
		}
		for _, cn := range r.allConns() {
			for _, op := range cn.Pending() {
				switch op.Kind {
				case simnet.OpWrite, simnet.OpClose, simnet.OpSetReadDeadline:
					op.Complete(nil)
				case simnet.OpRead:
					if k, _ := cn.Armed(); k == "query" || k == "short" {
						cn.Advance(30 * time.Second)
					}
				}
			}
		}
		time.Sleep(500 * time.Microsecond)
	}
	for _, cl := range r.cs.all() {
		select {
		case <-cl.done:
		default:
			hang = append(hang, fmt.Sprintf("call %d", cl.id))
		}
	}
	return hang
}

func runReuse(idx int, sc Script) Result {
	r := &reuseRunner{sc: sc, idx: idx, rec: simnet.NewRecorder(), conns: map[int]*simnet.Conn{},
		wcount: map[int]int{}, lastW: map[[2]int]int{}, closeDone: make(chan struct{}), heldOps: map[*simnet.Op]bool{}}
	r.cs.m = map[int]*call{}
	r.dialer = simnet.NewDialer(r.rec, "d")
	dt := 30 * time.Second
	if sc.DialTimeoutMs > 0 {
		dt = time.Duration(sc.DialTimeoutMs) * time.Millisecond
	}
	r.t = transport.NewReuseConnTransport(transport.ReuseConnOpts{
		DialContext: func(ctx context.Context) (transport.NetConn, error) {
			if sc.DialIgnoresCtx { // a dial that returns a connection although it was cancelled
				ctx = context.Background()
			}
			v, err := r.dialer.Await(ctx)
			if err != nil {
				return nil, err
			}
			return v.(*simnet.Conn), nil
		},
		DialTimeout: dt,
		IdleTimeout: reuseIdle,
	})
	res := Result{Steered: true}
	for i, s := range sc.Steps {
		ok, why := r.step(s)
		settle(r.rec)
		if !ok {
			res.Steered = false
			res.Why = fmt.Sprintf("step %d %v: %s", i, s, why)
			break
		}
	}
	res.Hang = r.patient()
	res.Hang = append(res.Hang, r.drain()...)
	// transport Close (if the script did not), then: later calls fail immediately, everything is released
	r.startClose()
	deadline := time.Now().Add(hangWait)
	for !waitDone(r.closeDone, 2*time.Millisecond) && time.Now().Before(deadline) {
		r.holdClose.Store(0)
		for _, cn := range r.allConns() {
			if op := cn.Find(simnet.IsKind(simnet.OpClose)); op != nil {
				op.Complete(nil)
			}
		}
	}
	if !waitDone(r.closeDone, time.Millisecond) {
		res.Hang = append(res.Hang, "transport Close")
	}
	if len(res.Hang) == 0 {
		res.Hang = append(res.Hang, r.patient()...) // calls / dials that were pending when Close was called
	}
	r.drain()
	if len(res.Hang) == 0 && !sc.NoPostCall {
		r.startCall(postCall, false)
		if !waitDone(r.cs.get(postCall).done, hangWait) {
			res.Hang = append(res.Hang, "call after Close")
		}
	}
	if len(res.Hang) == 0 {
		res.Leak = leakCheck()
		for x, cn := range r.allConns() {
			if !cn.IsClosed() {
				res.Unclosed = append(res.Unclosed, x)
			}
		}
	} else {
		res.Leak = transportFrames() // diagnostics of the hang
	}
	res.Events = r.convert()
	r.panicMu.Lock()
	res.Panic = r.panicMsg
	r.panicMu.Unlock()
	return res
}

func connID(e simnet.Event) int {
	n, _ := strconv.Atoi(fmt.Sprint(e["conn"]))
	return n
}

func (r *reuseRunner) convert() []map[string]any {
	out := []map[string]any{{"ev": "Reset"}}
	for _, e := range r.rec.Events() {
		x := connID(e)
		switch e["ev"] {
		case "Start", "Cancel", "TClose", "TCloseRet":
			m := map[string]any{"ev": e["ev"]}
			if c, ok := e["c"]; ok {
				m["c"] = c
			}
			out = append(out, m)
		case "Return":
			out = append(out, map[string]any{"ev": "Return", "c": e["c"], "res": e["res"], "vc": e["vc"], "vw": e["vw"], "err": e["err"]})
		case "Dial", "DialRet", "DialCtxDone":
			out = append(out, convDial(e, "d"))
		case "SetDeadline", "SetReadDeadline":
			if e["held"] == true {
				continue // takes effect (and is reported) when released: SetReadDeadlineRet
			}
			out = append(out, map[string]any{"ev": e["ev"], "x": x, "k": e["kind"]})
		case "SetReadDeadlineRet":
			out = append(out, map[string]any{"ev": "SetReadDeadline", "x": x, "k": e["hkind"]})
		case "ConnWrite":
			out = append(out, map[string]any{"ev": "WriteReq", "x": x, "c": e["c"], "wok": e["wok"]})
			if e["dead"] == true {
				out = append(out, map[string]any{"ev": "WriteRet", "x": x, "c": e["c"], "ok": false})
			}
		case "WriteRet":
			out = append(out, map[string]any{"ev": "WriteRet", "x": x, "c": e["c"], "ok": e["ok"]})
		case "ConnRead":
			if e["dead"] == true {
				out = append(out, map[string]any{"ev": "ReadRet", "x": x, "k": "err"})
			}
		case "Deliver":
			if e["short"] == true {
				out = append(out, map[string]any{"ev": "ReadRet", "x": x, "k": "err"})
			} else if e["surplus"] == true {
				out = append(out, map[string]any{"ev": "ReadRet", "x": x, "k": "surplus"})
			} else {
				out = append(out, map[string]any{"ev": "ReadRet", "x": x, "k": "reply", "c": e["c"], "w": e["w"]})
			}
		case "ReadFail":
			out = append(out, map[string]any{"ev": "ReadRet", "x": x, "k": "err"})
		case "ReadTimeout":
			out = append(out, map[string]any{"ev": "ReadRet", "x": x, "k": "timeout", "armed": e["kind"]})
		case "ConnClose":
			if e["again"] != true {
				out = append(out, map[string]any{"ev": "CloseReq", "x": x})
			}
		}
	}
	return out
}
