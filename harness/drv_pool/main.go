//go:build verif

// drv_pool drives the REAL connection pools of pkg/upstream/transport:
//
//	mode "reuse"     transport.ReuseConnTransport (reuse.go) over scripted simnet connections
//	mode "pipeline"  transport.PipelineTransport + lazyDnsConn (pipeline.go, conn_lazy_dial.go) over
//	                 harness DnsConns (fake real connections with the DnsConn contract)
//
// and records each script as an event trace for spec/ReuseConn_Trace.tla / spec/LazyPipeline_Trace.tla
// (properties C08, C07; reuse / lazy parts of C01, C02, C09).
//
// Job (stdin): {"mode":..., "scripts":[{name, steps:[{a:..,c,x,d,k,ok,r,...}], ...}]}.
// Steps use the vocabulary of the specs' history variable (environment actions are performed, boundary
// events of the code are awaited).  Scripts run one after the other so that a goroutine dump taken after
// a script belongs to that script.  Output: one JSON line per script.
package main

import (
	"context"
	"errors"
	"fmt"
	"os"
	"regexp"
	"runtime"
	"sort"
	"strconv"
	"strings"
	"sync"
	"time"

	"github.com/IrineSistiana/mosdns/v5/pkg/pool"
	"github.com/miekg/dns"

	"verif/harness/simnet"
	"verif/harness/vh"
)

type Step map[string]any

func (s Step) str(k string) string {
	v, _ := s[k].(string)
	return v
}
func (s Step) num(k string) int {
	switch v := s[k].(type) {
	case float64:
		return int(v)
	case int:
		return v
	}
	return 0
}
func (s Step) flag(k string) bool {
	v, _ := s[k].(bool)
	return v
}

type Script struct {
	Name           string `json:"name"`
	Steps          []Step `json:"steps"`
	Cap            int    `json:"cap"`              // pipeline: capacity of a dialled connection
	Queue          int    `json:"queue"`            // pipeline: MaxConcurrentQueryWhileDialing
	DialTimeoutMs  int    `json:"dial_timeout_ms"`  // reuse: DialTimeout (real time)
	NoPostCall     bool   `json:"no_post_call"`     // do not start the extra call after transport Close
	StepWaitMs     int    `json:"step_wait_ms"`     // override of the wait for a scripted boundary event
	DialIgnoresCtx bool   `json:"dial_ignores_ctx"` // the dial function ignores its context (returns a connection late)
	ErrHow         string `json:"err_how"`          // reuse: how read errors are injected: eof | reset | short (default by index)
}

type Job struct {
	Mode    string   `json:"mode"`
	Scripts []Script `json:"scripts"`
	MaxBad  int      `json:"max_bad"` // stop after that many unsteered / hanging scripts (0 = 12) if they are > 25 % of the scripts run
}

type Result struct {
	Idx      int              `json:"idx"`
	Name     string           `json:"name"`
	Steered  bool             `json:"steered"`
	Why      string           `json:"why,omitempty"`
	Events   []map[string]any `json:"events"`
	Hang     []string         `json:"hang,omitempty"`     // calls / Close that did not return
	Leak     []string         `json:"leak,omitempty"`     // transport frames alive after Close + quiescence
	Unclosed []int            `json:"unclosed,omitempty"` // dialled connections never closed
	Slow     []string         `json:"slow,omitempty"`     // returns later than the promptness bound
	Panic    string           `json:"panic,omitempty"`
	Skipped  bool             `json:"skipped,omitempty"`
	WallMs   int64            `json:"wall_ms"`
}

// a scripted boundary event must show up within this (else: unsteered)
var stepWait = 1500 * time.Millisecond

const (
	hangWait    = 12 * time.Second // a call that has everything it needs must return within this
	leakWait    = 6 * time.Second
	patientWait = 6 * time.Second // a woken call (cancel / Close) must return within this without help
	postCall    = 6               // id of the call started after transport Close ("later calls fail immediately")
	promptMax   = 2 * time.Second
)

// ---------------------------------------------------------------------------
// DNS payloads: every query names its call; every reply names the call and the write it answers

func queryFor(c int) []byte {
	m := new(dns.Msg)
	m.SetQuestion(fmt.Sprintf("c%d.test.", c), dns.TypeA)
	m.Id = uint16(1000 + c)
	b, err := m.Pack()
	if err != nil {
		panic(err)
	}
	return b
}

var reC = regexp.MustCompile(`^c(\d+)\.test\.$`)

func callOf(payload []byte) int {
	m := new(dns.Msg)
	if err := m.Unpack(payload); err != nil || len(m.Question) != 1 {
		return 0
	}
	mm := reC.FindStringSubmatch(m.Question[0].Name)
	if mm == nil {
		return 0
	}
	n, _ := strconv.Atoi(mm[1])
	return n
}

func replyFor(c, w int) []byte {
	q := new(dns.Msg)
	if err := q.Unpack(queryFor(c)); err != nil {
		panic(err)
	}
	m := new(dns.Msg)
	m.SetReply(q)
	m.Answer = append(m.Answer, &dns.TXT{
		Hdr: dns.RR_Header{Name: q.Question[0].Name, Rrtype: dns.TypeTXT, Class: dns.ClassINET, Ttl: 60},
		Txt: []string{fmt.Sprintf("c%dw%d", c, w)},
	})
	b, err := m.Pack()
	if err != nil {
		panic(err)
	}
	return b
}

var reCW = regexp.MustCompile(`^c(\d+)w(\d+)$`)

func replyOf(payload []byte) (int, int) {
	m := new(dns.Msg)
	if err := m.Unpack(payload); err != nil {
		return -1, -1
	}
	for _, rr := range m.Answer {
		if t, ok := rr.(*dns.TXT); ok && len(t.Txt) == 1 {
			if mm := reCW.FindStringSubmatch(t.Txt[0]); mm != nil {
				c, _ := strconv.Atoi(mm[1])
				w, _ := strconv.Atoi(mm[2])
				return c, w
			}
		}
	}
	return -1, -1
}

// ---------------------------------------------------------------------------
// calls

type call struct {
	id      int
	ctx     context.Context
	cancel  context.CancelFunc
	done    chan struct{}
	startAt time.Time

	cancelled bool // (controller goroutine only)
}

type calls struct {
	mu sync.Mutex
	m  map[int]*call
}

func (cs *calls) get(c int) *call {
	cs.mu.Lock()
	defer cs.mu.Unlock()
	return cs.m[c]
}

func (cs *calls) all() []*call {
	cs.mu.Lock()
	defer cs.mu.Unlock()
	var out []*call
	for _, c := range cs.m {
		out = append(out, c)
	}
	sort.Slice(out, func(i, j int) bool { return out[i].id < out[j].id })
	return out
}

// classify maps the error of a call to the classes of the specs.
func classify(cl *call, err error, closedErr error) string {
	switch {
	case err == nil:
		return "ok"
	case cl.ctx.Err() != nil && errors.Is(err, context.Cause(cl.ctx)):
		return "ctx"
	case errors.Is(err, closedErr):
		return "tclosed"
	}
	return "other"
}

func waitDone(ch <-chan struct{}, d time.Duration) bool {
	select {
	case <-ch:
		return true
	default:
	}
	t := time.NewTimer(d)
	defer t.Stop()
	select {
	case <-ch:
		return true
	case <-t.C:
		// (both may have become ready while this goroutine was not running: the channel decides)
		select {
		case <-ch:
			return true
		default:
			return false
		}
	}
}

// poll waits until cond() holds (polling every 200 µs .. 2 ms).
func poll(d time.Duration, cond func() bool) bool {
	end := time.Now().Add(d)
	sl := 100 * time.Microsecond
	for {
		if cond() {
			return true
		}
		if time.Now().After(end) {
			return false
		}
		time.Sleep(sl)
		if sl < 2*time.Millisecond {
			sl *= 2
		}
	}
}

// settle waits until the code under test has stopped producing boundary events for a moment (at most
// 20 ms): scripts generated with Eager assume that the environment moves when the code cannot.
func settle(rec *simnet.Recorder) {
	last, since := -1, time.Now()
	end := time.Now().Add(20 * time.Millisecond)
	for time.Now().Before(end) {
		n := len(rec.Events())
		if n != last {
			last, since = n, time.Now()
		} else if time.Since(since) > 300*time.Microsecond {
			return
		}
		time.Sleep(50 * time.Microsecond)
	}
}

// Each call runs under a trampoline whose NAME carries the call id, so that the goroutine of call c can be found in
// a goroutine dump (callState) without relying on any function name of the code under test.
//
//go:noinline
func runCall1(f func()) { f() }

//go:noinline
func runCall2(f func()) { f() }

//go:noinline
func runCall3(f func()) { f() }

//go:noinline
func runCall4(f func()) { f() }

//go:noinline
func runCall5(f func()) { f() }

//go:noinline
func runCall6(f func()) { f() }

func runCallN(c int, f func()) {
	switch c {
	case 1:
		runCall1(f)
	case 2:
		runCall2(f)
	case 3:
		runCall3(f)
	case 4:
		runCall4(f)
	case 5:
		runCall5(f)
	default:
		runCall6(f)
	}
}

// callState returns the scheduler state of the goroutine running call c ("select", "chan receive", "runnable", ...;
// "" if there is none).
func callState(c int) string {
	if c < 1 || c > 6 {
		return ""
	}
	buf := make([]byte, 4<<20)
	n := runtime.Stack(buf, true)
	name := fmt.Sprintf("main.runCall%d(", c)
	for _, g := range strings.Split(string(buf[:n]), "\n\n") {
		if !strings.Contains(g, name) {
			continue
		}
		hdr := strings.SplitN(g, "\n", 2)[0]
		if i, j := strings.Index(hdr, "["), strings.Index(hdr, "]"); i >= 0 && j > i {
			st := hdr[i+1 : j]
			if k := strings.Index(st, ","); k >= 0 {
				st = st[:k]
			}
			return st
		}
	}
	return ""
}

// codeQuiescent: every goroutine that has a frame of the mosdns module on its stack (calls, readers, dial goroutines,
// also those created but not yet started) is blocked: nothing of the code under test is running or waiting for a CPU.
func codeQuiescent() bool {
	buf := make([]byte, 4<<20)
	n := runtime.Stack(buf, true)
	for _, g := range strings.Split(string(buf[:n]), "\n\n") {
		if !strings.Contains(g, "github.com/IrineSistiana/mosdns/v5/") {
			continue
		}
		hdr := strings.SplitN(g, "\n", 2)[0]
		i, j := strings.Index(hdr, "["), strings.Index(hdr, "]")
		if i < 0 || j < i {
			return false
		}
		st := hdr[i+1 : j]
		if k := strings.Index(st, ","); k >= 0 {
			st = st[:k]
		}
		if !blockedState(st) {
			return false
		}
	}
	return true
}

// blockedState: the goroutine waits for something (it is not merely waiting for a CPU)
func blockedState(st string) bool {
	switch st {
	case "", "running", "runnable", "syscall":
		return false
	}
	return true
}

// transportGoroutines returns, per goroutine id, the functions of pkg/upstream/transport on its stack.
func transportGoroutines() map[string][]string {
	buf := make([]byte, 4<<20)
	n := runtime.Stack(buf, true)
	out := map[string][]string{}
	for _, g := range strings.Split(string(buf[:n]), "\n\n") {
		lines := strings.Split(g, "\n")
		if len(lines) == 0 || !strings.HasPrefix(lines[0], "goroutine ") {
			continue
		}
		id := strings.Fields(lines[0])[1]
		for _, line := range lines[1:] {
			if i := strings.Index(line, "mosdns/v5/pkg/upstream/transport."); i >= 0 && !strings.HasPrefix(line, "\t") &&
				!strings.HasPrefix(line, "created by") {
				f := line[i+len("mosdns/v5/pkg/upstream/"):]
				if j := strings.LastIndex(f, "("); j > 0 {
					f = f[:j]
				}
				out[id] = append(out[id], f)
			}
		}
	}
	return out
}

// goroutines that were already stuck before this script started (left behind by an earlier script)
var baseline = map[string]bool{}

func setBaseline() {
	baseline = map[string]bool{}
	for id := range transportGoroutines() {
		baseline[id] = true
	}
}

// transportFrames returns the transport functions on the stacks of goroutines created since setBaseline.
func transportFrames() []string {
	seen := map[string]bool{}
	for id, fs := range transportGoroutines() {
		if baseline[id] {
			continue
		}
		for _, f := range fs {
			seen[f] = true
		}
	}
	var out []string
	for f := range seen {
		out = append(out, f)
	}
	sort.Strings(out)
	return out
}

func leakCheck() []string {
	var last []string
	poll(leakWait, func() bool {
		last = transportFrames()
		return len(last) == 0
	})
	return last
}

// Released buffers are poisoned, so that a use after release (e.g. a retry that re-sends a released query
// buffer) changes the bytes the harness sees on the wire.
func init() {
	orig := pool.ReleaseBuf
	pool.ReleaseBuf = func(b *[]byte) {
		if b != nil {
			bb := (*b)[:cap(*b)]
			for i := range bb {
				bb[i] = 0xDB
			}
		}
		orig(b)
	}
}

// framedQuery is what a TCP write of call c must consist of: 2-byte length + the query.
func framedQuery(c int) []byte {
	q := queryFor(c)
	return append([]byte{byte(len(q) >> 8), byte(len(q))}, q...)
}

func main() {
	var job Job
	if err := vh.ReadJob(&job); err != nil {
		fmt.Fprintln(os.Stderr, "bad job:", err)
		os.Exit(3)
	}
	if job.MaxBad == 0 {
		job.MaxBad = 12
	}
	bad, hangs := 0, 0
	for i, sc := range job.Scripts {
		if (bad >= job.MaxBad && bad*5 > i*2) || hangs >= 6 { // enough evidence: the rest is skipped
			vh.Emit(Result{Idx: i, Name: sc.Name, Skipped: true})
			continue
		}
		t0 := time.Now()
		setBaseline()
		stepWait = 1500 * time.Millisecond
		if sc.StepWaitMs > 0 {
			stepWait = time.Duration(sc.StepWaitMs) * time.Millisecond
		}
		var res Result
		func() {
			defer func() {
				if p := recover(); p != nil {
					res.Panic = fmt.Sprint(p)
				}
			}()
			switch job.Mode {
			case "reuse":
				res = runReuse(i, sc)
			case "pipeline":
				res = runPipeline(i, sc)
			default:
				fmt.Fprintln(os.Stderr, "unknown mode", job.Mode)
				os.Exit(3)
			}
		}()
		res.Idx, res.Name = i, sc.Name
		res.WallMs = time.Since(t0).Milliseconds()
		if !res.Steered || len(res.Hang) > 0 {
			bad++
		}
		if len(res.Hang) > 0 {
			hangs++
		}
		vh.Emit(res)
		vh.Flush()
	}
	vh.Flush()
}

// shared by both runners: convert the dial events of simnet
func convDial(e simnet.Event, key string) map[string]any {
	id := e["id"].(int)
	switch e["ev"] {
	case "Dial":
		return map[string]any{"ev": "Dial", key: id}
	case "DialRet":
		return map[string]any{"ev": "DialRet", key: id, "ok": e["ok"]}
	case "DialCtxDone":
		return map[string]any{"ev": "DialRet", key: id, "ok": false}
	}
	return nil
}
