//go:build verif

// drv_ipset: C13. Replays TLC-generated behaviours of IPSet.tla (a multiset of abstract prefixes
// plus the expected answer for EVERY abstract address) on the real netlist.List, the text loaders
// and the ip_set plugin (leg B), and records seeded random concrete runs as event traces for
// IPSet_Trace.tla (leg C).  No oracle lives here: the driver only concretizes (embeddings of the
// W-bit abstract space into IPv4 / IPv6), drives, and compares with the behaviour's expectation.
//
// Embeddings (DESIGN §2.5):
//
//	mixed  o4 in {0,8,13,24,32-W4}: the abstract v4 space sits at bit offset o4 of an IPv4 address,
//	       the abstract v6 space at bit offset 96+o4-L4 of ::ffff:a.b.c.d (so that the abstract
//	       block b4 IS the v4-mapped image of the abstract v4 space).  "v4"-tagged items are written
//	       in dotted notation, "v6"-tagged ones in colon (mapped) notation.
//	pure6  off in {0,60,64,96,128-W}: v6-only behaviours at bit offset off of a random IPv6 address.
//
// Upper bits are fixed per run (random, or in a third of the runs all 0 / all 1 so that the special addresses
// 0.0.0.0, 255.255.255.255, ::, ffff:..:ffff, ::ffff:0.0.0.0 and ::ffff:255.255.255.255 are rules and queries);
// bits below the abstract space are host bits (random / all 0 / all 1, on every leg).
package main

import (
	"fmt"
	"math/rand"
	"net/netip"
	"os"
	"path/filepath"
	"strings"
	"sync"
	"sync/atomic"

	"github.com/IrineSistiana/mosdns/v5/coremain"
	"github.com/IrineSistiana/mosdns/v5/pkg/matcher/netlist"
	"github.com/IrineSistiana/mosdns/v5/plugin/data_provider/ip_set"

	"verif/harness/vh"
)

type Beh struct {
	B4 int      `json:"b4"`
	Ps [][3]int `json:"ps"` // [isV4, base, len]
	X6 []int    `json:"x6"`
	X4 []int    `json:"x4"`
}

type Job struct {
	W           int   `json:"W"`
	L4          int   `json:"L4"`
	Behaviours  []Beh `json:"behaviours"`
	PermLimit   int   `json:"perm_limit"`
	MaxMismatch int   `json:"max_mismatch"`
	TraceSample int   `json:"trace_sample"` // every n-th (behaviour, embedding) also emits a concrete trace
	Random      int   `json:"random"`       // number of random concrete runs (leg C)
	RandomW     int   `json:"random_w"`
	Workers     int   `json:"workers"`
	Light       bool  `json:"light"` // big exhaustive rounds: two host-bit fillings per list instead of three
}

type Emb struct {
	Kind string `json:"kind"`
	Off  int    `json:"off"` // bit offset of the abstract v6 space in the 128-bit address
	O4   int    `json:"o4"`  // bit offset of the abstract v4 space in the 32-bit address (mixed only)
	Base string `json:"base"`
	W    int    `json:"W"`
	L4   int    `json:"L4"`
	b16  [16]byte
}

func setBits(b []byte, off, width int, val uint64) {
	for i := 0; i < width; i++ {
		pos := off + i
		if (val>>(uint(width-1-i)))&1 == 1 {
			b[pos/8] |= 0x80 >> uint(pos%8)
		} else {
			b[pos/8] &^= 0x80 >> uint(pos%8)
		}
	}
}

func getBits(b []byte, off, width int) uint64 {
	var v uint64
	for i := 0; i < width; i++ {
		pos := off + i
		v <<= 1
		if b[pos/8]&(0x80>>uint(pos%8)) != 0 {
			v |= 1
		}
	}
	return v
}

// fill bits [from, len*8) : mode 0 random, 1 zeros, 2 ones
func fill(b []byte, from int, mode int, rng *rand.Rand) {
	if from >= len(b)*8 {
		return
	}
	var src [16]byte
	switch mode {
	case 0:
		u1, u2 := rng.Uint64(), rng.Uint64()
		for i := 0; i < 8; i++ {
			src[i], src[8+i] = byte(u1>>(8*uint(i))), byte(u2>>(8*uint(i)))
		}
	case 2:
		for i := range src {
			src[i] = 0xff
		}
	}
	k := from / 8
	if from%8 != 0 {
		m := byte(0xff) >> uint(from%8) // low bits of byte k
		b[k] = b[k]&^m | src[k]&m
		k++
	}
	copy(b[k:], src[k:len(b)])
}

// newEmb builds an embedding; ok=false if it cannot represent block value b4.
func newEmb(kind string, o, W, L4, b4 int, rng *rand.Rand) (Emb, bool) {
	e := Emb{Kind: kind, W: W, L4: L4}
	if kind == "mixed" {
		e.O4 = o
		e.Off = 96 + o - L4
		for i := 10; i < 12; i++ {
			e.b16[i] = 0xff
		}
		rng.Read(e.b16[12:])
		if rng.Intn(3) == 0 {
			// special upper bits: with the all-zero / all-one host-bit fillings the queries then hit exactly
			// 0.0.0.0, 255.255.255.255 and the mapped boundary values ::ffff:0.0.0.0, ::ffff:255.255.255.255
			v := byte(0)
			if b4 != 0 {
				v = 0xff
			}
			for i := 12; i < 16; i++ {
				e.b16[i] = v
			}
		}
		if o >= L4 {
			setBits(e.b16[:], e.Off, L4, uint64(b4))
		} else if int(getBits(e.b16[:], e.Off, L4)) != b4 {
			return e, false
		}
	} else {
		e.Off = o
		rng.Read(e.b16[:])
		if sp := rng.Intn(6); sp < 2 {
			// special upper bits: all zero / all one, so that the fillings reach :: and ffff:...:ffff exactly
			for i := range e.b16 {
				e.b16[i] = byte(-sp) // 0x00 or 0xff
			}
		} else if o >= 96 {
			switch rng.Intn(3) {
			case 1: // ::a.b.c.d  (v4-compatible, NOT v4-mapped)
				for i := 0; i < 12; i++ {
					e.b16[i] = 0
				}
			case 2: // ::fffe:a.b.c.d
				for i := 0; i < 12; i++ {
					e.b16[i] = 0
				}
				e.b16[10], e.b16[11] = 0xff, 0xfe
			}
		}
		if netip.AddrFrom16(e.b16).Is4In6() { // must stay outside the mapped block
			e.b16[0] ^= 0x20
		}
	}
	// zero everything below the fixed part (mixed: the block bits b4 just below Off stay, they are
	// also the upper bits of the v4 space)
	from := e.Off
	if kind == "mixed" {
		from += L4
	}
	fill(e.b16[:], from, 1, nil)
	e.Base = netip.AddrFrom16(e.b16).String()
	return e, true
}

func (e *Emb) w4() int { return e.W - e.L4 }

// addr6 places abstract v6 value x; bits below the abstract space are filled per mode.
func (e *Emb) addr6(x int, mode int, rng *rand.Rand) netip.Addr {
	b := e.b16
	setBits(b[:], e.Off, e.W, uint64(x))
	fill(b[:], e.Off+e.W, mode, rng)
	return netip.AddrFrom16(b)
}

func (e *Emb) addr4(y int, mode int, rng *rand.Rand) netip.Addr {
	var b [4]byte
	copy(b[:], e.b16[12:])
	setBits(b[:], e.O4, e.w4(), uint64(y))
	fill(b[:], e.O4+e.w4(), mode, rng)
	return netip.AddrFrom4(b)
}

// prefix concretizes abstract prefix p (host bits below the abstract space random).
func (e *Emb) prefix(p [3]int, rng *rand.Rand) netip.Prefix {
	mode := rng.Intn(2) // bits below the abstract space: random, or zero (the usual way to write a prefix)
	if p[0] == 1 {
		return netip.PrefixFrom(e.addr4(p[1], mode, rng), e.O4+p[2])
	}
	bits := e.Off + p[2]
	if p[2] == 0 && e.Off > 0 && rng.Intn(3) == 0 {
		bits = rng.Intn(e.Off + 1) // any shorter prefix of the fixed upper bits covers the whole universe too
	}
	return netip.PrefixFrom(e.addr6(p[1], mode, rng), bits)
}

// outside returns a prefix that is disjoint from the abstract universe: one of the fixed upper bits is
// flipped inside the prefix length.  Loading such prefixes changes no expected answer; they make the real
// list long (sort, merge and binary search at realistic sizes, the universe in the middle of other entries).
func (e *Emb) outside(rng *rand.Rand) netip.Prefix {
	j := rng.Intn(e.Off)
	b := e.b16
	fill(b[:], j+1, rng.Intn(2), rng)
	b[j/8] ^= 0x80 >> uint(j%8)
	return netip.PrefixFrom(netip.AddrFrom16(b), j+1+rng.Intn(128-j))
}

func (e *Emb) pad(pf []netip.Prefix, rng *rand.Rand) []netip.Prefix {
	if e.Off == 0 || rng.Intn(3) != 0 {
		return pf
	}
	k := []int{2, 9, 40}[rng.Intn(3)]
	out := append([]netip.Prefix(nil), pf...)
	for i := 0; i < k; i++ {
		at := rng.Intn(len(out) + 1)
		out = append(out, netip.Prefix{})
		copy(out[at+1:], out[at:])
		out[at] = e.outside(rng)
	}
	return out
}

// text renders a prefix the way a user may write it.
func text(p netip.Prefix, rng *rand.Rand) string {
	a := p.Addr()
	if p.Bits() == a.BitLen() && rng.Intn(2) == 0 {
		return addrText(a, rng)
	}
	return fmt.Sprintf("%s/%d", addrText(a, rng), p.Bits())
}

func addrText(a netip.Addr, rng *rand.Rand) string {
	if a.Is6() {
		switch rng.Intn(3) {
		case 0:
			return a.StringExpanded()
		case 1:
			return strings.ToUpper(a.StringExpanded())
		}
	}
	return a.String()
}

func decorate(lines []string, rng *rand.Rand) string {
	var sb strings.Builder
	for _, l := range lines {
		switch rng.Intn(5) {
		case 0:
			sb.WriteString("# a comment 10.0.0.0/8\n")
		case 1:
			sb.WriteString("\n   \n")
		}
		switch rng.Intn(4) {
		case 0:
			sb.WriteString("  " + l + "  \n")
		case 1:
			sb.WriteString(l + " # trailing 1.1.1.1\n")
		case 2:
			sb.WriteString(l + " some words\r\n")
		default:
			sb.WriteString(l + "\n")
		}
	}
	if rng.Intn(2) == 0 {
		s := sb.String()
		return strings.TrimSuffix(s, "\n") // last line without newline
	}
	return sb.String()
}

type matcher interface{ Match(netip.Addr) bool }

type Mismatch struct {
	Kind  string   `json:"kind"`
	API   string   `json:"api"`
	Emb   Emb      `json:"emb"`
	Beh   *Beh     `json:"beh,omitempty"`
	Rules []string `json:"rules"`
	Fam   string   `json:"fam"`
	V     int      `json:"v"`
	Addr  string   `json:"addr"`
	Got   string   `json:"got"`
	Want  bool     `json:"want"`
}

type Ev struct {
	Ev string `json:"ev"`
	P  string `json:"p,omitempty"`
	A  string `json:"a,omitempty"`
	R  *bool  `json:"r,omitempty"`
}

type Run struct {
	Kind   string `json:"kind"` // "run"
	Src    string `json:"src"`  // "replay" | "random"
	Emb    Emb    `json:"emb"`
	Beh    *Beh   `json:"beh,omitempty"`
	Events []Ev   `json:"events"`
}

var (
	nLists, nQueries, nSkipEmb, nMis int64
	tmpDir                           string
	job                              Job
)

func safeMatch(m matcher, a netip.Addr) (res string) {
	defer func() {
		if r := recover(); r != nil {
			res = fmt.Sprint("panic: ", r)
		}
	}()
	if m.Match(a) {
		return "true"
	}
	return "false"
}

// checkAll queries every abstract address (both notations) and compares with the behaviour.
func checkAll(api string, m matcher, e *Emb, b *Beh, rules []string, modes []int, rng *rand.Rand, run *Run) {
	atomic.AddInt64(&nLists, 1)
	var nq int64
	defer func() { atomic.AddInt64(&nQueries, nq) }()
	one := func(fam string, v int, want bool, a netip.Addr) {
		got := safeMatch(m, a)
		nq++
		if run != nil && (got == "true" || got == "false") {
			r := got == "true"
			run.Events = append(run.Events, Ev{Ev: "Contains", A: a.String(), R: &r})
		}
		if got != fmt.Sprint(want) {
			if atomic.AddInt64(&nMis, 1) <= int64(job.MaxMismatch) {
				vh.Emit(Mismatch{"mismatch", api, *e, b, rules, fam, v, a.String(), got, want})
			}
		}
	}
	for _, mode := range modes {
		for x := range b.X6 {
			one("v6", x, b.X6[x] == 1, e.addr6(x, mode, rng))
		}
		if e.Kind == "mixed" {
			for y := range b.X4 {
				one("v4", y, b.X4[y] == 1, e.addr4(y, mode, rng))
			}
		}
	}
}

func build(f func() (matcher, error)) (m matcher, err error) {
	defer func() {
		if r := recover(); r != nil {
			err = fmt.Errorf("panic: %v", r)
		}
	}()
	return f()
}

type failing struct{ why string }

func (f failing) Match(netip.Addr) bool { panic(f.why) }

func orFail(m matcher, err error) matcher {
	if err != nil {
		return failing{"load failed: " + err.Error()}
	}
	return m
}

func perms(n, limit int, rng *rand.Rand) [][]int {
	var out [][]int
	var rec func(cur []int, used int)
	rec = func(cur []int, used int) {
		if len(cur) == n {
			out = append(out, append([]int(nil), cur...))
			return
		}
		for i := 0; i < n; i++ {
			if used&(1<<uint(i)) == 0 {
				rec(append(cur, i), used|1<<uint(i))
			}
		}
	}
	rec(nil, 0)
	if limit > 0 && len(out) > limit {
		rng.Shuffle(len(out), func(i, j int) { out[i], out[j] = out[j], out[i] })
		out = out[:limit]
	}
	return out
}

var fileSeq int64

// plugEnv: one test Mosdns per worker goroutine (its plugin map is only touched by that worker)
type plugEnv struct {
	plugins      map[string]any
	bpSet, bpSub *coremain.BP
}

func newPlugEnv() *plugEnv {
	e := &plugEnv{plugins: map[string]any{}}
	m := coremain.NewTestMosdnsWithPlugins(e.plugins)
	e.bpSet, e.bpSub = coremain.NewBP("set", m), coremain.NewBP("sub", m)
	return e
}

func replayBeh(idx int, b *Beh, rng *rand.Rand, env *plugEnv) {
	type es struct {
		kind string
		o    int
	}
	w4 := job.W - job.L4
	embs := []es{{"mixed", 0}, {"mixed", 8}, {"mixed", 13}, {"mixed", 24}, {"mixed", 32 - w4}}
	v6only := true
	for _, p := range b.Ps {
		if p[0] == 1 {
			v6only = false
		}
	}
	if v6only {
		embs = append(embs, es{"pure6", 0}, es{"pure6", 60}, es{"pure6", 64}, es{"pure6", 96}, es{"pure6", 128 - job.W})
	}
	n := len(b.Ps)
	for ei, s := range embs {
		e, ok := newEmb(s.kind, s.o, job.W, job.L4, b.B4, rng)
		if !ok {
			atomic.AddInt64(&nSkipEmb, 1)
			continue
		}
		var run *Run
		if job.TraceSample > 0 && (idx*len(embs)+ei)%job.TraceSample == 0 {
			run = &Run{Kind: "run", Src: "replay", Emb: e, Beh: b}
		}
		allPerms := perms(n, job.PermLimit, rng)
		ipsetAt := rng.Intn(len(allPerms)) // the ip_set plugin is driven once per embedding, on a random load order
		for pi, perm := range allPerms {
			pf := make([]netip.Prefix, n)
			for i, k := range perm {
				pf[i] = e.prefix(b.Ps[k], rng)
			}
			pf = e.pad(pf, rng) // semantics-preserving padding with prefixes outside the universe
			n := len(pf)
			txt := make([]string, n)
			for i := range pf {
				txt[i] = text(pf[i], rng)
			}
			// --- API 1: List.Append / Sort / Contains (prefix values incl. host bits)
			variant := rng.Intn(3)
			m, err := build(func() (matcher, error) {
				l := netlist.NewList()
				switch variant {
				case 0:
					l.Append(append([]netip.Prefix(nil), pf...)...)
				case 1:
					for _, p := range pf {
						l.Append(p)
					}
				default: // re-sort after more appends
					k := rng.Intn(n + 1)
					l.Append(append([]netip.Prefix(nil), pf[:k]...)...)
					l.Sort()
					l.Append(append([]netip.Prefix(nil), pf[k:]...)...)
				}
				l.Sort()
				l.Sort()
				return l, nil
			})
			rules := make([]string, n)
			for i := range pf {
				rules[i] = pf[i].String()
			}
			modes := []int{0, 1, 2}
			if job.Light {
				modes = []int{0, 1 + pi%2}
			}
			checkAll("append", orFail(m, err), &e, b, rules, modes, rng, nil)

			// --- API 2: LoadFromReader (text with comments / blanks) or LoadFromText per line
			// (all load orders in thorough tier, two per embedding in quick tier)
			if pi >= 2 && pi != ipsetAt && !vh.Thorough() {
				continue
			}
			m, err = build(func() (matcher, error) {
				l := netlist.NewList()
				if rng.Intn(2) == 0 {
					if err := netlist.LoadFromReader(l, strings.NewReader(decorate(txt, rng))); err != nil {
						return nil, err
					}
				} else {
					for _, s := range txt {
						if err := netlist.LoadFromText(l, s); err != nil {
							return nil, err
						}
					}
				}
				l.Sort()
				return l, nil
			})
			var r2 *Run
			if run != nil && pi == 0 {
				r2 = run
				r2.Events = append(r2.Events, Ev{Ev: "New"})
				for _, s := range txt {
					r2.Events = append(r2.Events, Ev{Ev: "Append", P: s})
				}
				r2.Events = append(r2.Events, Ev{Ev: "Sort"})
			}
			checkAll("reader", orFail(m, err), &e, b, txt, []int{0, 1 + pi%2}, rng, r2)

			// --- API 3: ip_set plugin (ips + files + sets), once per (behaviour, embedding)
			if pi == ipsetAt {
				k1, k2 := rng.Intn(n+1), rng.Intn(n+1)
				if k1 > k2 {
					k1, k2 = k2, k1
				}
				m, err = build(func() (matcher, error) {
					args := &ip_set.Args{IPs: txt[:k1]}
					if k2 > k1 || rng.Intn(4) == 0 {
						fn := filepath.Join(tmpDir, fmt.Sprintf("f%d.txt", atomic.AddInt64(&fileSeq, 1)))
						if err := os.WriteFile(fn, []byte(decorate(txt[k1:k2], rng)), 0o644); err != nil {
							return nil, err
						}
						defer os.Remove(fn)
						args.Files = []string{fn}
					}
					if k2 < n || rng.Intn(4) == 0 {
						sub, err := ip_set.NewIPSet(env.bpSub, &ip_set.Args{IPs: txt[k2:]})
						if err != nil {
							return nil, err
						}
						env.plugins["sub"] = sub
						args.Sets = []string{"sub"}
					}
					s, err := ip_set.NewIPSet(env.bpSet, args)
					if err != nil {
						return nil, err
					}
					return s.GetIPMatcher(), nil
				})
				checkAll("ip_set", orFail(m, err), &e, b, txt, []int{0, 1, 2}, rng, nil)
			}
		}
		if run != nil {
			vh.Emit(run)
		}
	}
}

// randomRun: seeded random CONCRETE run in the neighbourhood of a random embedding; only concrete
// strings are recorded, the orchestrator maps them back into the abstract universe.
func randomRun(i int, rng *rand.Rand) {
	W, L4 := job.RandomW, job.L4
	w4 := W - L4
	var e Emb
	if rng.Intn(3) == 0 {
		offs := []int{0, 60, 64, 96, 128 - W, rng.Intn(128 - W + 1)}
		e, _ = newEmb("pure6", offs[rng.Intn(len(offs))], W, L4, 0, rng)
	} else {
		o4s := []int{0, 8, 13, 24, 32 - w4, rng.Intn(32 - w4 + 1)}
		for {
			var ok bool
			if e, ok = newEmb("mixed", o4s[rng.Intn(len(o4s))], W, L4, rng.Intn(1<<uint(L4)), rng); ok {
				break
			}
		}
	}
	run := &Run{Kind: "run", Src: "random", Emb: e}
	l := netlist.NewList()
	run.Events = append(run.Events, Ev{Ev: "New"})
	budget := 6
	rounds := 1 + rng.Intn(3)
	for r := 0; r < rounds; r++ {
		k := rng.Intn(4)
		if k > budget {
			k = budget
		}
		budget -= k
		for j := 0; j < k; j++ {
			var p netip.Prefix
			v4note := e.Kind == "mixed" && rng.Intn(2) == 0
			if v4note {
				p = e.prefix([3]int{1, rng.Intn(1 << uint(w4)), rng.Intn(w4 + 1)}, rng)
				if e.O4-L4 > 0 && rng.Intn(6) == 0 { // outside the universe: flip a fixed upper bit
					b := p.Addr().As4()
					b[0] ^= 0x80
					p = netip.PrefixFrom(netip.AddrFrom4(b), p.Bits())
				}
			} else {
				p = e.prefix([3]int{0, rng.Intn(1 << uint(W)), rng.Intn(W + 1)}, rng)
				if e.Off > 0 && rng.Intn(6) == 0 {
					b := p.Addr().As16()
					pos := rng.Intn(e.Off)
					b[pos/8] ^= 0x80 >> uint(pos%8)
					p = netip.PrefixFrom(netip.AddrFrom16(b), p.Bits())
				}
			}
			s := text(p, rng)
			if _, err := build(func() (matcher, error) { return nil, netlist.LoadFromText(l, s) }); err != nil {
				// a valid prefix was refused: deviation of the real code, reported (not a dead driver)
				atomic.AddInt64(&nMis, 1)
				vh.Emit(Mismatch{Kind: "mismatch", API: "random-load", Emb: e, Rules: []string{s}, Got: "load failed: " + err.Error(), Want: true})
				return
			}
			run.Events = append(run.Events, Ev{Ev: "Append", P: s})
		}
		if _, err := build(func() (matcher, error) { l.Sort(); return nil, nil }); err != nil {
			atomic.AddInt64(&nMis, 1)
			vh.Emit(Mismatch{Kind: "mismatch", API: "random-sort", Emb: e, Got: err.Error(), Want: true})
			return
		}
		run.Events = append(run.Events, Ev{Ev: "Sort"})
		nq := 3 + rng.Intn(6)
		for j := 0; j < nq; j++ {
			var a netip.Addr
			if e.Kind == "mixed" && rng.Intn(2) == 0 {
				a = e.addr4(rng.Intn(1<<uint(w4)), rng.Intn(3), rng)
			} else {
				a = e.addr6(rng.Intn(1<<uint(W)), rng.Intn(3), rng)
			}
			got := safeMatch(l, a)
			if got != "true" && got != "false" {
				atomic.AddInt64(&nMis, 1)
				vh.Emit(Mismatch{Kind: "mismatch", API: "random-contains", Emb: e, Addr: a.String(), Got: got})
				return
			}
			res := got == "true"
			run.Events = append(run.Events, Ev{Ev: "Contains", A: a.String(), R: &res})
		}
	}
	vh.Emit(run)
}

func main() {
	if err := vh.ReadJob(&job); err != nil {
		fmt.Fprintln(os.Stderr, "job:", err)
		os.Exit(3)
	}
	if job.Workers == 0 {
		job.Workers = 12
	}
	if job.MaxMismatch == 0 {
		job.MaxMismatch = 20
	}
	if job.PermLimit == 0 {
		job.PermLimit = 24
	}
	if job.RandomW == 0 {
		job.RandomW = job.W
	}
	var err error
	if tmpDir, err = os.MkdirTemp(".", "ipset-files-"); err != nil {
		fmt.Fprintln(os.Stderr, err)
		os.Exit(3)
	}
	defer os.RemoveAll(tmpDir)

	var wg sync.WaitGroup
	var next int64 = -1
	for w := 0; w < job.Workers; w++ {
		wg.Add(1)
		go func() {
			defer wg.Done()
			env := newPlugEnv()
			for {
				i := int(atomic.AddInt64(&next, 1))
				if i >= len(job.Behaviours) {
					return
				}
				replayBeh(i, &job.Behaviours[i], rand.New(rand.NewSource(vh.Seed()*1000003+int64(i))), env)
			}
		}()
	}
	wg.Wait()
	for i := 0; i < job.Random; i++ {
		randomRun(i, rand.New(rand.NewSource(vh.Seed()*7919+int64(i))))
	}
	vh.Emit(map[string]any{"kind": "summary", "lists": nLists, "queries": nQueries, "skipped_embeddings": nSkipEmb,
		"mismatches": nMis, "behaviours": len(job.Behaviours)})
	vh.Flush()
	os.RemoveAll(tmpDir)
}
