//go:build verif

// drv_updial: upstream-level dial and lifecycle (spec/UpDial.tla) through the real upstream.NewUpstream(addr, opt)
// against harness loopback servers: a TCP port that refuses / accepts / hangs (full backlog), a TLS server whose
// handshake is gated (complete / silent / close), gated DNS answers, a UDP server (full / truncated / silent).
//
// Job on stdin: {"behaviours":[{kind, listen, steps}], "workers":W, "dial_timeout_ms":5000, "slack_ms":3000, "hang_bound_s":45}
// One Result per line: recorded events (validated by UpDial_Trace.tla), steering diagnostics, hangs.
package main

import (
	"bytes"
	"context"
	"crypto/ecdsa"
	"crypto/elliptic"
	crand "crypto/rand"
	"crypto/tls"
	"crypto/x509"
	"crypto/x509/pkix"
	"encoding/binary"
	"errors"
	"fmt"
	"io"
	"math/big"
	"math/rand"
	"net"
	"os"
	"runtime/pprof"
	"strconv"
	"strings"
	"sync"
	"sync/atomic"
	"syscall"
	"time"

	"github.com/IrineSistiana/mosdns/v5/pkg/pool"
	"github.com/IrineSistiana/mosdns/v5/pkg/upstream"
	"github.com/miekg/dns"

	"verif/harness/vh"
)

type Step struct {
	A  string `json:"a"`
	C  int    `json:"c,omitempty"`
	D  int    `json:"d,omitempty"`
	Tc bool   `json:"tc,omitempty"`
}

type Behaviour struct {
	Kind   string `json:"kind"`
	Listen string `json:"listen"`
	Steps  []Step `json:"steps"`
}

type Job struct {
	Behaviours    []Behaviour `json:"behaviours"`
	Workers       int         `json:"workers"`
	DialTimeoutMs int         `json:"dial_timeout_ms"`
	SlackMs       int         `json:"slack_ms"`
	HangBoundS    int         `json:"hang_bound_s"`
}

type Event map[string]any

type Result struct {
	Idx      int        `json:"idx"`
	Kind     string     `json:"kind"`
	Listen   string     `json:"listen"`
	Steered  bool       `json:"steered"`
	Why      string     `json:"why,omitempty"`
	Hang     bool       `json:"hang"`
	HangWhat string     `json:"hang_what,omitempty"`
	Events   []Event    `json:"events"`
	Beh      *Behaviour `json:"beh,omitempty"`
}

var (
	dialTimeout = 5 * time.Second
	slack       = 3 * time.Second
	hangBound   = 45 * time.Second
	syncWait    = 5 * time.Second
	earlyWindow = 2 * time.Second
	srvTLS      *tls.Config
)

// ---------------------------------------------------------------------------------------------

type byteQueue struct {
	mu     sync.Mutex
	cond   *sync.Cond
	buf    []byte
	closed bool
}

func newByteQueue() *byteQueue {
	q := &byteQueue{}
	q.cond = sync.NewCond(&q.mu)
	return q
}

func (q *byteQueue) put(p []byte) {
	q.mu.Lock()
	q.buf = append(q.buf, p...)
	q.mu.Unlock()
	q.cond.Broadcast()
}

func (q *byteQueue) close() {
	q.mu.Lock()
	q.closed = true
	q.mu.Unlock()
	q.cond.Broadcast()
}

func (q *byteQueue) Read(p []byte) (int, error) {
	q.mu.Lock()
	defer q.mu.Unlock()
	for len(q.buf) == 0 && !q.closed {
		q.cond.Wait()
	}
	if len(q.buf) == 0 {
		return 0, io.EOF
	}
	n := copy(p, q.buf)
	q.buf = q.buf[n:]
	return n, nil
}

// qConn is the server side net.Conn whose reads come from the queue filled by the connection's reader goroutine
type qConn struct {
	raw net.Conn
	q   *byteQueue
}

func (c *qConn) Read(p []byte) (int, error)       { return c.q.Read(p) }
func (c *qConn) Write(p []byte) (int, error)      { return c.raw.Write(p) }
func (c *qConn) Close() error                     { return nil } // only the harness closes server connections
func (c *qConn) LocalAddr() net.Addr              { return c.raw.LocalAddr() }
func (c *qConn) RemoteAddr() net.Addr             { return c.raw.RemoteAddr() }
func (c *qConn) SetDeadline(time.Time) error      { return nil }
func (c *qConn) SetReadDeadline(time.Time) error  { return nil }
func (c *qConn) SetWriteDeadline(time.Time) error { return nil }

type sconn struct {
	serial    int
	raw       net.Conn
	q         *byteQueue
	srvClosed bool // under scn.mu
	sawClose  bool // under scn.mu
	instr     chan string
	hsRes     chan bool
	wmu       sync.Mutex
	w         io.Writer
	queries   map[int]*dns.Msg // under scn.mu
}

type udpQuery struct {
	addr *net.UDPAddr
	msg  *dns.Msg
}

type sentInfo struct {
	kind string // ok | tc
	via  string
}

type call struct {
	c      int
	q      []byte
	cancel context.CancelFunc
	done   chan struct{}
}

type scn struct {
	id     string
	kind   string
	listen string
	nonce  string
	rng    *rand.Rand

	mu         sync.Mutex
	events     []Event
	t0         time.Time
	tRef       time.Time
	lateLogged bool
	closed     bool
	closeAt    time.Time
	conns      []*sconn
	udpQ       map[int]*udpQuery
	calls      map[int]*call
	sent       map[string]sentInfo

	up   upstream.Upstream
	port int
	ln   net.Listener
	fd   int
	fill net.Conn
	udp  *net.UDPConn
	stop chan struct{}
	wg   sync.WaitGroup
}

func (sc *scn) logL(ev string, kv ...any) {
	e := Event{"ev": ev, "t_ms": time.Since(sc.t0).Milliseconds()}
	for i := 0; i+1 < len(kv); i += 2 {
		e[kv[i].(string)] = kv[i+1]
	}
	sc.events = append(sc.events, e)
}

func (sc *scn) log(ev string, kv ...any) {
	sc.mu.Lock()
	sc.logL(ev, kv...)
	sc.mu.Unlock()
}

func (sc *scn) qname(c int) string { return fmt.Sprintf("c%02d.%s.test.", c, sc.nonce) }

func (sc *scn) qidx(m *dns.Msg) int {
	if m == nil || len(m.Question) != 1 {
		return 0
	}
	ls := strings.Split(strings.ToLower(m.Question[0].Name), ".")
	if len(ls) != 4 || ls[1] != sc.nonce || len(ls[0]) != 3 || ls[0][0] != 'c' {
		return 0
	}
	n, err := strconv.Atoi(ls[0][1:])
	if err != nil {
		return 0
	}
	return n
}

// ---------------------------------------------------------------------------------------------
// servers

func rawTCPSocket(listenBacklog int) (fd int, port int, err error) {
	fd, err = syscall.Socket(syscall.AF_INET, syscall.SOCK_STREAM|syscall.SOCK_CLOEXEC, 0)
	if err != nil {
		return -1, 0, err
	}
	if err = syscall.Bind(fd, &syscall.SockaddrInet4{Port: 0, Addr: [4]byte{127, 0, 0, 1}}); err != nil {
		syscall.Close(fd)
		return -1, 0, err
	}
	if listenBacklog >= 0 {
		if err = syscall.Listen(fd, listenBacklog); err != nil {
			syscall.Close(fd)
			return -1, 0, err
		}
	}
	sa, err := syscall.Getsockname(fd)
	if err != nil {
		syscall.Close(fd)
		return -1, 0, err
	}
	return fd, sa.(*syscall.SockaddrInet4).Port, nil
}

func (sc *scn) startServers() error {
	var lastErr error
	for attempt := 0; attempt < 10; attempt++ {
		sc.fd = -1
		switch sc.listen {
		case "accept":
			ln, err := net.Listen("tcp4", "127.0.0.1:0")
			if err != nil {
				return err
			}
			sc.ln = ln
			sc.port = ln.Addr().(*net.TCPAddr).Port
		case "refuse":
			// bound but not listening: connect() is answered with RST and nobody else can take the port
			fd, port, err := rawTCPSocket(-1)
			if err != nil {
				return err
			}
			sc.fd, sc.port = fd, port
		case "hang":
			// backlog 0 and one connection that is never accepted: further SYNs are dropped, connect() hangs
			fd, port, err := rawTCPSocket(0)
			if err != nil {
				return err
			}
			sc.fd, sc.port = fd, port
			c, err := net.DialTimeout("tcp4", fmt.Sprintf("127.0.0.1:%d", port), 2*time.Second)
			if err != nil {
				syscall.Close(fd)
				return fmt.Errorf("filler connection: %w", err)
			}
			sc.fill = c
		default:
			return errors.New("unknown listen mode " + sc.listen)
		}
		if sc.kind == "udp" {
			u, err := net.ListenUDP("udp4", &net.UDPAddr{IP: net.IPv4(127, 0, 0, 1), Port: sc.port})
			if err != nil {
				lastErr = err
				sc.closeSockets()
				continue
			}
			sc.udp = u
		}
		lastErr = nil
		break
	}
	if lastErr != nil {
		return lastErr
	}
	if sc.ln != nil {
		sc.wg.Add(1)
		go sc.acceptLoop(sc.ln)
	}
	if sc.udp != nil {
		sc.wg.Add(1)
		go sc.udpLoop(sc.udp)
	}
	return nil
}

func (sc *scn) closeSockets() {
	if sc.ln != nil {
		sc.ln.Close()
		sc.ln = nil
	}
	if sc.fill != nil {
		sc.fill.Close()
		sc.fill = nil
	}
	if sc.fd >= 0 {
		syscall.Close(sc.fd)
		sc.fd = -1
	}
	if sc.udp != nil {
		sc.udp.Close()
		sc.udp = nil
	}
}

func (sc *scn) acceptLoop(ln net.Listener) {
	defer sc.wg.Done()
	for {
		raw, err := ln.Accept()
		if err != nil {
			return
		}
		sc.mu.Lock()
		cn := &sconn{serial: len(sc.conns) + 1, raw: raw, q: newByteQueue(), instr: make(chan string, 1),
			hsRes: make(chan bool, 1), queries: map[int]*dns.Msg{}}
		sc.conns = append(sc.conns, cn)
		now := time.Now()
		if now.After(sc.tRef) {
			sc.tRef = now
		}
		sc.logL("Accepted", "s", cn.serial)
		sc.mu.Unlock()
		sc.wg.Add(2)
		go sc.connReader(cn)
		go sc.connHandler(cn)
	}
}

// connReader moves everything the client sends into the queue and notices the client closing the connection
func (sc *scn) connReader(cn *sconn) {
	defer sc.wg.Done()
	buf := make([]byte, 4096)
	first := true
	for {
		n, err := cn.raw.Read(buf)
		if n > 0 {
			if first && strings.HasPrefix(sc.kind, "tls") {
				sc.log("HelloSeen", "s", cn.serial)
			}
			first = false
			cn.q.put(buf[:n])
		}
		if err != nil {
			sc.mu.Lock()
			if !cn.srvClosed && !cn.sawClose {
				cn.sawClose = true
				sc.logL("SrvSawClose", "s", cn.serial, "how", err.Error())
			}
			sc.mu.Unlock()
			cn.q.close()
			return
		}
	}
}

func (sc *scn) connHandler(cn *sconn) {
	defer sc.wg.Done()
	var rd io.Reader = cn.q
	cn.wmu.Lock()
	cn.w = cn.raw
	cn.wmu.Unlock()
	if strings.HasPrefix(sc.kind, "tls") {
		select {
		case <-cn.instr:
		case <-sc.stop:
			return
		}
		tc := tls.Server(&qConn{raw: cn.raw, q: cn.q}, srvTLS)
		if err := tc.Handshake(); err != nil {
			sc.log("HsFailed", "s", cn.serial, "err", err.Error())
			cn.hsRes <- false
			return
		}
		sc.log("HsComplete", "s", cn.serial)
		cn.wmu.Lock()
		cn.w = tc
		cn.wmu.Unlock()
		rd = tc
		cn.hsRes <- true
	}
	for {
		var h [2]byte
		if _, err := io.ReadFull(rd, h[:]); err != nil {
			return
		}
		b := make([]byte, binary.BigEndian.Uint16(h[:]))
		if _, err := io.ReadFull(rd, b); err != nil {
			return
		}
		m := new(dns.Msg)
		if err := m.Unpack(b); err != nil {
			sc.log("BadQuery", "s", cn.serial, "err", err.Error())
			continue
		}
		c := sc.qidx(m)
		sc.mu.Lock()
		if _, dup := cn.queries[c]; !dup {
			cn.queries[c] = m
			sc.logL("Query", "s", cn.serial, "c", c)
		}
		sc.mu.Unlock()
	}
}

func (sc *scn) udpLoop(u *net.UDPConn) {
	defer sc.wg.Done()
	buf := make([]byte, 4096)
	for {
		n, addr, err := u.ReadFromUDP(buf)
		if err != nil {
			return
		}
		m := new(dns.Msg)
		if err := m.Unpack(buf[:n]); err != nil {
			continue
		}
		c := sc.qidx(m)
		sc.mu.Lock()
		if _, dup := sc.udpQ[c]; !dup {
			sc.udpQ[c] = &udpQuery{addr: addr, msg: m}
			sc.logL("UdpQuery", "c", c)
		}
		sc.mu.Unlock()
	}
}

func (sc *scn) reply(q *dns.Msg, tag string, tc bool) []byte {
	m := new(dns.Msg)
	m.SetReply(q)
	if tc {
		m.Truncated = true
	} else {
		m.Answer = append(m.Answer, &dns.TXT{
			Hdr: dns.RR_Header{Name: q.Question[0].Name, Rrtype: dns.TypeTXT, Class: dns.ClassINET, Ttl: 60},
			Txt: []string{tag + " " + sc.nonce},
		})
	}
	b, err := m.Pack()
	if err != nil {
		panic(err)
	}
	return b
}

func (sc *scn) answerTCP(c int) bool {
	sc.mu.Lock()
	var cn *sconn
	var q *dns.Msg
	for _, x := range sc.conns {
		if m, ok := x.queries[c]; ok {
			cn, q = x, m
		}
	}
	if cn == nil {
		sc.mu.Unlock()
		return false
	}
	b := sc.reply(q, fmt.Sprintf("tcp s=%d c=%d", cn.serial, c), false)
	sc.sent[string(b[2:])] = sentInfo{"ok", "tcp"}
	sc.logL("Answer", "s", cn.serial, "c", c)
	sc.mu.Unlock()
	out := make([]byte, 2+len(b))
	binary.BigEndian.PutUint16(out, uint16(len(b)))
	copy(out[2:], b)
	cn.wmu.Lock()
	cn.w.Write(out)
	cn.wmu.Unlock()
	return true
}

func (sc *scn) answerUDP(c int, tc bool) bool {
	sc.mu.Lock()
	uq := sc.udpQ[c]
	if uq == nil {
		sc.mu.Unlock()
		return false
	}
	b := sc.reply(uq.msg, fmt.Sprintf("udp c=%d", c), tc)
	if tc {
		sc.sent[string(b[2:])] = sentInfo{"tc", "udp"}
	} else {
		sc.sent[string(b[2:])] = sentInfo{"ok", "udp"}
	}
	now := time.Now()
	early := now.Sub(sc.t0) < earlyWindow
	if early && tc && now.After(sc.tRef) {
		sc.tRef = now
	}
	sc.logL("UdpAnswer", "c", c, "tc", tc, "early", early)
	sc.mu.Unlock()
	sc.udp.WriteToUDP(b, uq.addr)
	return true
}

func (sc *scn) srvClose(cn *sconn) {
	sc.mu.Lock()
	if !cn.sawClose {
		cn.srvClosed = true
	}
	sc.logL("SrvClose", "s", cn.serial)
	sc.mu.Unlock()
	cn.raw.Close()
}

// ---------------------------------------------------------------------------------------------
// calls, probes

func (sc *scn) startCall(c int, late bool) *call {
	m := new(dns.Msg)
	m.SetQuestion(sc.qname(c), dns.TypeA)
	sc.mu.Lock()
	m.Id = uint16(sc.rng.Intn(65536))
	sc.mu.Unlock()
	q, err := m.Pack()
	if err != nil {
		panic(err)
	}
	ctx, cancel := context.WithCancel(context.Background())
	cl := &call{c: c, q: q, cancel: cancel, done: make(chan struct{})}
	sc.mu.Lock()
	sc.calls[c] = cl
	now := time.Now()
	if late {
		sc.logL("CallLate", "c", c)
	} else {
		early := now.Sub(sc.t0) < earlyWindow
		if early && now.After(sc.tRef) {
			sc.tRef = now
		}
		sc.logL("Call", "c", c, "early", early)
	}
	sc.mu.Unlock()
	go func() {
		defer close(cl.done)
		// goroutines the upstream starts on behalf of this call inherit the label
		pprof.SetGoroutineLabels(pprof.WithLabels(context.Background(), pprof.Labels("scn", sc.id)))
		t := time.Now()
		var resp *[]byte
		var err error
		func() {
			defer func() {
				if r := recover(); r != nil {
					err = fmt.Errorf("PANIC: %v", r)
					resp = nil
				}
			}()
			resp, err = sc.up.ExchangeContext(ctx, cl.q)
		}()
		sc.logReturn(cl, resp, err, time.Since(t))
	}()
	return cl
}

func (sc *scn) logReturn(cl *call, resp *[]byte, err error, took time.Duration) {
	sc.mu.Lock()
	defer sc.mu.Unlock()
	fast := took < time.Second
	if err != nil {
		sc.logL("Return", "c", cl.c, "k", "err", "via", "", "fast", fast, "took_ms", took.Milliseconds(), "err", err.Error())
		return
	}
	if resp == nil || len(*resp) < 12 {
		sc.logL("Return", "c", cl.c, "k", "other", "via", "", "fast", fast, "what", "nil or short reply without error")
		return
	}
	b := *resp
	info, ok := sc.sent[string(b[2:])]
	if !ok {
		sc.logL("Return", "c", cl.c, "k", "other", "via", "", "fast", fast,
			"what", fmt.Sprintf("%d bytes that the harness servers never sent: %x", len(b), b[:min(len(b), 40)]))
		return
	}
	if !bytes.Equal(b[:2], cl.q[:2]) {
		sc.logL("Return", "c", cl.c, "k", "other", "via", info.via, "fast", fast, "what", "caller's id not restored")
		return
	}
	sc.logL("Return", "c", cl.c, "k", info.kind, "via", info.via, "fast", fast, "took_ms", took.Milliseconds())
}

func isDone(cl *call) bool {
	select {
	case <-cl.done:
		return true
	default:
		return false
	}
}

// probesL logs what is still open / pending right now (mu held)
func (sc *scn) probesL(goroutines bool) {
	for _, cn := range sc.conns {
		if !cn.sawClose && !cn.srvClosed {
			sc.logL("StillOpen", "s", cn.serial)
		}
	}
	for c := 1; c <= 8; c++ {
		if cl := sc.calls[c]; cl != nil && !isDone(cl) {
			sc.logL("Pending", "c", c)
		}
	}
	if goroutines {
		n, sample := upstreamGoroutines(sc.id)
		sc.logL("Goroutines", "n", n, "sample", sample)
	}
}

// maybeLate logs Late (+ probes) once dial timeout + slack has certainly passed for every dial started by an early event
func (sc *scn) maybeLate() bool {
	sc.mu.Lock()
	defer sc.mu.Unlock()
	if sc.lateLogged {
		return true
	}
	if time.Now().Before(sc.tRef.Add(dialTimeout + slack)) {
		return false
	}
	sc.lateLogged = true
	sc.logL("Late")
	sc.probesL(false)
	return true
}

func (sc *scn) waitFor(cond func() bool, bound time.Duration) bool {
	t := time.Now()
	for !cond() {
		sc.maybeLate()
		if time.Since(t) > bound {
			return false
		}
		time.Sleep(5 * time.Millisecond)
	}
	return true
}

// upstreamGoroutines counts the goroutines labelled with this scenario that are inside pkg/upstream,
// not counting the harness' own calling goroutines (a pending call is reported as Pending)
func upstreamGoroutines(id string) (int, string) {
	var b bytes.Buffer
	pprof.Lookup("goroutine").WriteTo(&b, 1)
	n := 0
	sample := ""
	want := fmt.Sprintf("# labels: {\"scn\":%q}", id)
	for _, blk := range strings.Split(b.String(), "\n\n") {
		if !strings.Contains(blk, want) || !strings.Contains(blk, "/pkg/upstream") || strings.Contains(blk, "main.(*scn).startCall") {
			continue
		}
		k, _ := strconv.Atoi(strings.SplitN(blk, " ", 2)[0])
		n += k
		if sample == "" {
			var fr []string
			for _, ln := range strings.Split(blk, "\n") {
				if f := strings.Fields(ln); len(f) >= 3 && f[0] == "#" && strings.Contains(ln, "/") {
					fr = append(fr, f[2])
				}
			}
			sample = strings.Join(fr, " < ")
			if len(sample) > 400 {
				sample = sample[:400]
			}
		}
	}
	return n, sample
}

// ---------------------------------------------------------------------------------------------

func runScenario(idx int, b *Behaviour, seed int64) (res Result) {
	res = Result{Idx: idx, Kind: b.Kind, Listen: b.Listen, Steered: true}
	sc := &scn{
		id: fmt.Sprintf("%d-%d", idx, seed), kind: b.Kind, listen: b.Listen, rng: rand.New(rand.NewSource(seed)),
		udpQ: map[int]*udpQuery{}, calls: map[int]*call{}, sent: map[string]sentInfo{}, stop: make(chan struct{}), fd: -1,
	}
	sc.nonce = fmt.Sprintf("x%08x", sc.rng.Uint32())
	sc.t0 = time.Now()
	sc.tRef = sc.t0
	fail := func(why string) {
		if res.Steered {
			res.Steered = false
			res.Why = why
		}
	}
	if err := sc.startServers(); err != nil {
		fail("servers: " + err.Error())
		sc.closeSockets()
		return res
	}
	var err error
	pprof.Do(context.Background(), pprof.Labels("scn", sc.id), func(context.Context) {
		sc.up, err = upstream.NewUpstream(fmt.Sprintf("%s://127.0.0.1:%d", b.Kind, sc.port),
			upstream.Opt{TLSConfig: &tls.Config{InsecureSkipVerify: true}})
	})
	if err != nil {
		fail("NewUpstream: " + err.Error())
		sc.closeSockets()
		return res
	}
	sc.t0 = time.Now()
	sc.tRef = sc.t0
	sc.log("Start", "kind", b.Kind, "listen", b.Listen, "port", sc.port)

	dmap := map[int]*sconn{}
	naccept := 0
steps:
	for i, stp := range b.Steps {
		switch stp.A {
		case "Call":
			sc.startCall(stp.C, false)
			if sc.kind == "udp" {
				// which call opens the socket (and is therefore not retried) follows the order of the script
				sc.waitFor(func() bool { sc.mu.Lock(); defer sc.mu.Unlock(); return sc.udpQ[stp.C] != nil }, time.Second)
			}
		case "CallLate":
			cl := sc.startCall(stp.C, true)
			sc.waitFor(func() bool { return isDone(cl) }, 3*time.Second) // a pending one is reported by the next probe
		case "TcpAccept":
			naccept++
			k := naccept
			if !sc.waitFor(func() bool { sc.mu.Lock(); defer sc.mu.Unlock(); return len(sc.conns) >= k }, syncWait) {
				fail(fmt.Sprintf("step %d: connection %d was not opened", i, k))
				break steps
			}
			sc.mu.Lock()
			dmap[stp.D] = sc.conns[k-1]
			sc.mu.Unlock()
		case "HsComplete":
			cn := dmap[stp.D]
			if cn == nil {
				fail(fmt.Sprintf("step %d: no connection for dial %d", i, stp.D))
				break steps
			}
			cn.instr <- "complete"
			select {
			case ok := <-cn.hsRes:
				if !ok {
					fail(fmt.Sprintf("step %d: handshake failed", i))
					break steps
				}
			case <-time.After(syncWait):
				fail(fmt.Sprintf("step %d: handshake did not finish", i))
				break steps
			}
		case "SrvClose":
			cn := dmap[stp.D]
			if cn == nil {
				fail(fmt.Sprintf("step %d: no connection for dial %d", i, stp.D))
				break steps
			}
			sc.srvClose(cn)
		case "Answer":
			if !sc.waitFor(func() bool {
				sc.mu.Lock()
				defer sc.mu.Unlock()
				for _, x := range sc.conns {
					if _, ok := x.queries[stp.C]; ok {
						return true
					}
				}
				return false
			}, syncWait) || !sc.answerTCP(stp.C) {
				fail(fmt.Sprintf("step %d: the query of call %d did not arrive over tcp", i, stp.C))
				break steps
			}
		case "UdpAnswer":
			if !sc.waitFor(func() bool { sc.mu.Lock(); defer sc.mu.Unlock(); return sc.udpQ[stp.C] != nil }, syncWait) ||
				!sc.answerUDP(stp.C, stp.Tc) {
				fail(fmt.Sprintf("step %d: the query of call %d did not arrive over udp", i, stp.C))
				break steps
			}
		case "Cancel":
			if cl := sc.calls[stp.C]; cl != nil {
				sc.log("Cancel", "c", stp.C)
				cl.cancel()
			}
		case "Close":
			sc.log("Close")
			done := make(chan struct{})
			go func() { sc.up.Close(); close(done) }()
			select {
			case <-done:
			case <-time.After(10 * time.Second):
				res.Hang, res.HangWhat = true, "close-does-not-return"
				break steps
			}
			sc.mu.Lock()
			sc.closed = true
			sc.closeAt = time.Now()
			sc.logL("Closed")
			sc.mu.Unlock()
		case "Tick12":
			sc.waitFor(func() bool { return sc.maybeLate() }, dialTimeout+slack+10*time.Second)
		case "CTick":
			sc.mu.Lock()
			at := sc.closeAt.Add(slack)
			sc.mu.Unlock()
			sc.waitFor(func() bool { return time.Now().After(at) }, slack+time.Second)
			sc.mu.Lock()
			sc.logL("CLate")
			sc.probesL(true)
			sc.mu.Unlock()
		case "RetOk", "RetErr", "RetTc":
			cl := sc.calls[stp.C]
			if cl == nil {
				fail("return of a call that was not started")
				break steps
			}
			if !sc.waitFor(func() bool { return isDone(cl) }, hangBound) {
				res.Hang, res.HangWhat = true, "exchange-does-not-return"
				break steps
			}
		case "Retry", "Fallback", "Attach", "Tick01", "CloseReturns", "TcpRefuse", "DialAbort", "ConnClose", "GoExit", "UGoExit", "QueryTimeout", "UdpTimeout":
		default:
			fail("unknown step " + stp.A)
			break steps
		}
	}
	// cleanup (not part of the trace)
	sc.mu.Lock()
	res.Events = append([]Event(nil), sc.events...)
	closed := sc.closed
	var cls []*call
	for _, cl := range sc.calls {
		cls = append(cls, cl)
	}
	sc.mu.Unlock()
	for _, cl := range cls {
		cl.cancel()
	}
	if !closed {
		go sc.up.Close()
	}
	close(sc.stop)
	sc.closeSockets()
	sc.mu.Lock()
	for _, cn := range sc.conns {
		cn.srvClosed = true
		cn.raw.Close()
	}
	sc.mu.Unlock()
	for _, cl := range cls {
		select {
		case <-cl.done:
		case <-time.After(5 * time.Second):
		}
	}
	sc.wg.Wait()
	return res
}

func makeCert() *tls.Config {
	key, err := ecdsa.GenerateKey(elliptic.P256(), crand.Reader)
	if err != nil {
		panic(err)
	}
	tpl := &x509.Certificate{
		SerialNumber: big.NewInt(1), Subject: pkix.Name{CommonName: "updial.verif.test"},
		NotBefore: time.Now().Add(-time.Hour), NotAfter: time.Now().Add(24 * time.Hour),
		KeyUsage: x509.KeyUsageDigitalSignature, ExtKeyUsage: []x509.ExtKeyUsage{x509.ExtKeyUsageServerAuth},
		IPAddresses: []net.IP{net.IPv4(127, 0, 0, 1)},
	}
	der, err := x509.CreateCertificate(crand.Reader, tpl, tpl, &key.PublicKey, key)
	if err != nil {
		panic(err)
	}
	return &tls.Config{Certificates: []tls.Certificate{{Certificate: [][]byte{der}, PrivateKey: key}}}
}

func main() {
	var job Job
	if err := vh.ReadJob(&job); err != nil {
		fmt.Fprintln(os.Stderr, "job:", err)
		os.Exit(3)
	}
	if job.Workers == 0 {
		job.Workers = 64
	}
	if job.DialTimeoutMs > 0 {
		dialTimeout = time.Duration(job.DialTimeoutMs) * time.Millisecond
	}
	if job.SlackMs > 0 {
		slack = time.Duration(job.SlackMs) * time.Millisecond
	}
	if job.HangBoundS > 0 {
		hangBound = time.Duration(job.HangBoundS) * time.Second
	}
	srvTLS = makeCert()
	// released buffers are poisoned: a reply that is used after its release changes its bytes
	orig := pool.ReleaseBuf
	pool.ReleaseBuf = func(b *[]byte) {
		if b != nil {
			bb := (*b)[:cap(*b)]
			for i := range bb {
				bb[i] = 0xDB
			}
		}
		orig(b)
	}
	var next atomic.Int64
	var wg sync.WaitGroup
	for w := 0; w < job.Workers; w++ {
		wg.Add(1)
		go func() {
			defer wg.Done()
			for {
				i := int(next.Add(1)) - 1
				if i >= len(job.Behaviours) {
					return
				}
				r := runScenario(i, &job.Behaviours[i], vh.Seed()*1000003+int64(i))
				r.Beh = &job.Behaviours[i]
				vh.Emit(r)
			}
		}()
	}
	wg.Wait()
	vh.Flush()
}
