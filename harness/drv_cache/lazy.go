//go:build verif

package main

import (
	"fmt"
	"runtime"
	"sync"
	"time"

	"github.com/IrineSistiana/mosdns/v5/pkg/query_context"
	"github.com/miekg/dns"
)

// lazyOpts selects how a lazy-cache behaviour  <virtual prefix> Exec(stale) ... RefreshEnd ... Exec*
// is realised.
type lazyOpts struct {
	Mult   int  // calls per stale Exec step (bursts, C05)
	Via    bool // every call goes through a rewrite-and-restore plugin in front of the cache (C04)
	Procs1 bool // run with GOMAXPROCS(1): the background goroutine starts only after the caller has unwound
	Probe  bool // after the behaviour, look every refreshed question up once more (directly)
	Tag    string
}

type bgCall struct {
	seen    CQ
	aq      AQ
	known   bool
	sid     int
	hadResp bool
	release chan AR
}

// runLazy: the state at the first stale hit is injected; Exec steps on which the model serves a STALE
// answer may run as a concurrent burst (only after a first sequential call has really been served from
// cache: such calls do not change the cache and commute); every other step runs alone. The
// background `next` blocks at a gate until the behaviour's RefreshEnd step releases it.
func runLazy(bi int, b *Behaviour, m *Map, hv *keyHarvester, o lazyOpts) (TraceRec, error) {
	if o.Mult < 1 {
		o.Mult = 1
	}
	if o.Tag == "" {
		o.Tag = "lazy"
	}
	first := -1
	for si, st := range b.Steps {
		if st.A == "Exec" && st.O.Res == "stale" {
			first = si
			break
		}
	}
	if first < 0 {
		return TraceRec{}, fmt.Errorf("no stale hit")
	}
	if o.Procs1 {
		defer runtime.GOMAXPROCS(runtime.GOMAXPROCS(1))
	}
	w := newWorld(m, b.Lazy, hv, []int{1})
	defer w.close()
	var mu sync.Mutex // orders all events of this world
	kn := map[int]known{}
	st0 := b.Steps[first]
	w.setNow(st0.Now)
	if err := w.inject(1, st0.E); err != nil {
		return TraceRec{}, err
	}
	for _, e := range st0.E {
		q := e.Owner
		q.K = "std"
		cq, _ := m.conc(q)
		kn[e.Id] = known{cq, e.R}
	}
	w.serial = 100
	var bgs []*bgCall
	in := w.inst(1)
	in.nx.setBG(func(qCtx *query_context.Context) *dns.Msg {
		seen, _ := seenQuestion(qCtx.Q())
		aq, ok := m.abs(seen)
		if !ok {
			aq = AQ{N: "?" + seen.Name, T: fmt.Sprintf("?%d", seen.Type), C: fmt.Sprintf("?%d", seen.Class), F: aq.F}
		}
		aq.K = "std"
		mu.Lock()
		c := &bgCall{seen: seen, aq: aq, known: ok, sid: 10000 + len(bgs), hadResp: qCtx.R() != nil, release: make(chan AR, 1)}
		bgs = append(bgs, c)
		w.events = append(w.events, ev{"ev": "RefreshStart", "i": 1, "q": absQ(aq), "sid": c.sid, "hasresp": c.hadResp})
		mu.Unlock()
		var ar AR
		select {
		case ar = <-c.release:
		case <-time.After(4 * time.Second):
			return nil
		}
		if ar.Rc < 0 || qCtx.R() != nil {
			// no answer; and like the usual has_resp guard of a background chain: an existing response stays
			return nil
		}
		return buildAnswer(qCtx.Q(), seen, ar, c.sid, 0)
	})
	released := map[*bgCall]bool{}
	refreshed := []AQ{}
	var viaSeq int
	one := func(s Step, direct bool) string {
		cq, err := m.conc(s.Q)
		if err != nil {
			return "error"
		}
		mu.Lock()
		sid := w.serial
		w.serial++
		viaSeq++
		if o.Via && !direct {
			cq.Via = fmt.Sprintf("origin-%d.rewritten.example.", viaSeq)
		}
		mu.Unlock()
		er := in.exec(cq, s.R, sid)
		ob := observe(er, 5)
		ao := toAbs(m, ob)
		mu.Lock()
		if ob.Res == "miss" {
			kn[sid] = known{cq, s.R}
			if er.cs.orig != nil {
				w.handles = append(w.handles, handle{1, sid, "orig", er.cs.orig})
			}
		}
		if ob.Res == "hit" {
			if k0, ok := kn[ob.Sid]; ok {
				ao.Cont = contOf(er.resp, k0.cq, k0.ar, ob.Sid)
			} else if ob.Sid >= 0 {
				ao.Cont = "mut" // served something nobody stored
			}
			if ob.Sid < 0 && ob.NRec > 0 {
				ao.Cont = "mut" // every answer with records names its serial in record 0
			}
			if ob.HasOpt {
				ao.Cont = "mut"
			}
			w.handles = append(w.handles, handle{1, ob.Sid, "hit", er.resp})
		}
		e := ev{"ev": "Exec", "i": 1, "q": absQ(s.Q), "r": absR(s.R), "sid": sid,
			"o": ev{"res": ao.Res, "owner": absOwner(ao.Owner), "id": ao.Id, "ttls": ao.Ttls, "cont": ao.Cont, "idok": ao.Idok}}
		if ob.Note != "" {
			e["note"] = ob.Note
		}
		w.events = append(w.events, e)
		mu.Unlock()
		return ob.Res
	}
	si := first
	for si < len(b.Steps) {
		st := b.Steps[si]
		switch st.A {
		case "Exec":
			var run []Step
			if st.O.Res == "stale" {
				for si < len(b.Steps) && b.Steps[si].A == "Exec" && b.Steps[si].O.Res == "stale" {
					run = append(run, b.Steps[si])
					si++
				}
			} else {
				run = []Step{st}
				si++
			}
			var wg sync.WaitGroup
			concurrent := st.O.Res == "stale" && o.Mult > 1
			for _, s := range run {
				res := one(s, false) // sequential probe
				if res != "hit" {
					concurrent = false
				}
				if st.O.Res != "stale" {
					continue
				}
				for k := 1; k < o.Mult; k++ {
					if !concurrent {
						one(s, false)
						continue
					}
					s := s
					wg.Add(1)
					go func() {
						defer wg.Done()
						one(s, false)
					}()
				}
			}
			wg.Wait()
			w.checkClock()
		case "Mutate":
			si++
			// immediately (no yield): with one P the background goroutine has not run yet
			n := 0
			mu.Lock()
			for _, h := range w.handles {
				if h.i == st.Hd.I && h.id == st.Hd.Id && h.kind == st.Hd.Kind {
					mutateMsg(h.msg, (bi+n)%3 != 2) // mostly in-place edits that keep the message storable
					n++
				}
			}
			w.events = append(w.events, ev{"ev": "Mutate", "i": st.Hd.I, "id": st.Hd.Id, "kind": st.Hd.Kind, "n": n})
			mu.Unlock()
		case "RefreshEnd":
			si++
			var c *bgCall
			deadline := time.Now().Add(500 * time.Millisecond)
			for c == nil && time.Now().Before(deadline) {
				mu.Lock()
				// prefer the refresh that fetches the behaviour's question; otherwise whatever refresh is waiting
				for _, x := range bgs {
					if !released[x] && x.aq.N == st.Q.N && x.aq.T == st.Q.T && x.aq.C == st.Q.C && x.aq.F == st.Q.F {
						c = x
						break
					}
				}
				if c == nil {
					for _, x := range bgs {
						if !released[x] && !x.known {
							c = x
							break
						}
					}
				}
				mu.Unlock()
				if c == nil {
					time.Sleep(2 * time.Millisecond)
				}
			}
			if c == nil {
				w.notes = append(w.notes, "no background refresh reached next for RefreshEnd")
				si = len(b.Steps)
				break
			}
			released[c] = true
			mu.Lock()
			kn[c.sid] = known{c.seen, st.R}
			mu.Unlock()
			c.release <- st.R
			// wait until the refresh has been stored (or cannot be): poll the dump, unlogged
			t0 := time.Now()
			for time.Since(t0) < time.Second {
				if !MsgStorable(st.R) || c.hadResp {
					time.Sleep(25 * time.Millisecond)
					break
				}
				_, body := in.api("GET", "/dump", nil)
				ents, _ := decodeDump(body)
				found := false
				for _, e := range ents {
					mm := new(dns.Msg)
					if mm.Unpack(e.GetMsg()) == nil {
						if id, _, _ := parseID(mm); id == c.sid {
							found = true
						}
					}
				}
				if found {
					break
				}
				time.Sleep(2 * time.Millisecond)
			}
			time.Sleep(10 * time.Millisecond)
			mu.Lock()
			w.events = append(w.events, ev{"ev": "RefreshEnd", "i": 1, "q": absQ(c.aq), "r": absR(st.R), "sid": c.sid})
			mu.Unlock()
			refreshed = append(refreshed, st.Q)
			w.checkClock()
		default:
			si = len(b.Steps) // Tick etc. after the first stale hit cannot be realised; stop here
		}
	}
	if o.Probe {
		time.Sleep(20 * time.Millisecond)
		for _, q := range refreshed {
			one(Step{A: "Exec", I: 1, Q: q, R: AR{Rc: 0, Nan: 1, Ttls: []int{8}}}, true)
		}
		w.checkClock()
	}
	// open all gates
	mu.Lock()
	for _, c := range bgs {
		if !released[c] {
			c.release <- AR{Rc: -1}
		}
	}
	nbg := len(bgs)
	evs := append([]ev{}, w.events...)
	mu.Unlock()
	return TraceRec{Kind: "trace", Beh: bi, Tag: o.Tag, Events: evs, Slow: w.slow, Notes: w.notes,
		Extra: ev{"background": nbg, "procs1": o.Procs1, "via": o.Via}}, nil
}
