//go:build verif

package main

type C05Job struct{}
type C10Job struct{}

func runC05(*C05Job) error { return nil }
func runC10(*C10Job) error { return nil }
