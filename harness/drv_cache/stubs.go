//go:build verif

package main

type C05Job struct{}
type C10Job struct{}
type C19Job struct{}

func runC05(*C05Job) error { return nil }
func runC10(*C10Job) error { return nil }
func runC19(*C19Job) error { return nil }
