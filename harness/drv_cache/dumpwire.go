//go:build verif

package main

import (
	"fmt"

	"google.golang.org/protobuf/encoding/protowire"
)

// The harness reads and writes the dump's protobuf WIRE format itself (dump.proto: CacheDumpBlock{repeated
// CachedEntry entries = 1}, CachedEntry{key = 1, msg = 2, cache_expiration_time = 3, msg_expiration_time = 4,
// msg_stored_time = 5}) instead of using the plugin's generated Go types, so that it keeps compiling and
// observing when those types are refactored (bytes and string fields have the same wire encoding).
type CachedEntry struct {
	Key                 []byte
	Msg                 []byte
	CacheExpirationTime int64
	MsgExpirationTime   int64
	MsgStoredTime       int64
}

func (e *CachedEntry) GetKey() []byte                { return e.Key }
func (e *CachedEntry) GetMsg() []byte                { return e.Msg }
func (e *CachedEntry) GetCacheExpirationTime() int64 { return e.CacheExpirationTime }
func (e *CachedEntry) GetMsgExpirationTime() int64   { return e.MsgExpirationTime }
func (e *CachedEntry) GetMsgStoredTime() int64       { return e.MsgStoredTime }

func marshalEntry(e *CachedEntry) []byte {
	var b []byte
	if len(e.Key) > 0 {
		b = protowire.AppendTag(b, 1, protowire.BytesType)
		b = protowire.AppendBytes(b, e.Key)
	}
	if len(e.Msg) > 0 {
		b = protowire.AppendTag(b, 2, protowire.BytesType)
		b = protowire.AppendBytes(b, e.Msg)
	}
	for _, f := range []struct {
		n protowire.Number
		v int64
	}{{3, e.CacheExpirationTime}, {4, e.MsgExpirationTime}, {5, e.MsgStoredTime}} {
		if f.v != 0 {
			b = protowire.AppendTag(b, f.n, protowire.VarintType)
			b = protowire.AppendVarint(b, uint64(f.v))
		}
	}
	return b
}

func marshalBlock(ents []*CachedEntry) []byte {
	var b []byte
	for _, e := range ents {
		b = protowire.AppendTag(b, 1, protowire.BytesType)
		b = protowire.AppendBytes(b, marshalEntry(e))
	}
	return b
}

func unmarshalEntry(b []byte) (*CachedEntry, error) {
	e := new(CachedEntry)
	for len(b) > 0 {
		num, typ, n := protowire.ConsumeTag(b)
		if n < 0 {
			return nil, fmt.Errorf("bad tag")
		}
		b = b[n:]
		switch typ {
		case protowire.BytesType:
			v, n := protowire.ConsumeBytes(b)
			if n < 0 {
				return nil, fmt.Errorf("bad bytes field %d", num)
			}
			b = b[n:]
			switch num {
			case 1:
				e.Key = append([]byte{}, v...)
			case 2:
				e.Msg = append([]byte{}, v...)
			}
		case protowire.VarintType:
			v, n := protowire.ConsumeVarint(b)
			if n < 0 {
				return nil, fmt.Errorf("bad varint field %d", num)
			}
			b = b[n:]
			switch num {
			case 3:
				e.CacheExpirationTime = int64(v)
			case 4:
				e.MsgExpirationTime = int64(v)
			case 5:
				e.MsgStoredTime = int64(v)
			}
		default:
			n := protowire.ConsumeFieldValue(num, typ, b)
			if n < 0 {
				return nil, fmt.Errorf("bad field %d", num)
			}
			b = b[n:]
		}
	}
	return e, nil
}

func unmarshalBlock(b []byte) ([]*CachedEntry, error) {
	var out []*CachedEntry
	for len(b) > 0 {
		num, typ, n := protowire.ConsumeTag(b)
		if n < 0 {
			return nil, fmt.Errorf("bad tag")
		}
		b = b[n:]
		if num == 1 && typ == protowire.BytesType {
			v, n := protowire.ConsumeBytes(b)
			if n < 0 {
				return nil, fmt.Errorf("bad entry")
			}
			b = b[n:]
			e, err := unmarshalEntry(v)
			if err != nil {
				return nil, err
			}
			out = append(out, e)
			continue
		}
		n = protowire.ConsumeFieldValue(num, typ, b)
		if n < 0 {
			return nil, fmt.Errorf("bad field %d", num)
		}
		b = b[n:]
	}
	return out, nil
}
