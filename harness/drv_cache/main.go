//go:build verif

package main

import (
	"fmt"
	"os"
	"runtime/debug"

	"verif/harness/vh"
)

type Job struct {
	Mode string  `json:"mode"`
	C04  *C04Job `json:"c04,omitempty"`
	C05  *C05Job `json:"c05,omitempty"`
	C10  *C10Job `json:"c10,omitempty"`
	C19  *C19Job `json:"c19,omitempty"`
}

func main() {
	defer vh.Flush()
	defer func() {
		if r := recover(); r != nil {
			vh.Flush()
			fmt.Fprintf(os.Stderr, "driver panic: %v\n%s", r, debug.Stack())
			os.Exit(3)
		}
	}()
	var job Job
	if err := vh.ReadJob(&job); err != nil {
		fmt.Fprintln(os.Stderr, "bad job:", err)
		os.Exit(2)
	}
	var err error
	switch job.Mode {
	case "c04":
		err = runC04(job.C04)
	case "c05":
		err = runC05(job.C05)
	case "c10":
		err = runC10(job.C10)
	case "c19":
		err = runC19(job.C19)
	default:
		err = fmt.Errorf("unknown mode %q", job.Mode)
	}
	if err != nil {
		vh.Flush()
		fmt.Fprintln(os.Stderr, "driver error:", err)
		os.Exit(2)
	}
}
