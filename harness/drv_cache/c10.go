//go:build verif

package main

import (
	"fmt"
	"net"
	"reflect"
	"sync"
	"time"

	"github.com/miekg/dns"

	"verif/harness/vh"
)

type C10Job struct {
	Map        Map         `json:"map"`
	Behaviours []Behaviour `json:"behaviours"`
	Concurrent int         `json:"concurrent"` // goroutines of the concurrent part (0 = skip)
	Rounds     int         `json:"rounds"`
	R          AR          `json:"r"`
	// lazy-cache behaviours: stale hit, the caller overwrites what it was served, the refresh yields no answer
	LazyBeh []Behaviour `json:"lazy_beh"`
}

// mutateAll overwrites every reachable field of the real *dns.Msg in place: header, question, every
// RR header, every rdata field (strings, integers, byte slices and net.IP bytes in place, elements
// of string slices and option slices), then every slot of the section slices up to their CAPACITY,
// and finally truncates the sections.
func mutateAll(m *dns.Msg) { mutateMsg(m, false) }

// mutateMsg with edit=true is what a well-behaved later plugin does (ttl / redirect / ecs-like): it rewrites
// owner names, TTLs and record data in place and appends a record, but leaves the header, the question and
// the number of records alone — so the message still looks like a storable answer.
func mutateMsg(m *dns.Msg, edit bool) {
	if m == nil {
		return
	}
	hdr := m.MsgHdr
	var qs []dns.Question
	qs = append(qs, m.Question...)
	defer func() {
		if edit {
			m.MsgHdr = hdr
			m.Question = append(m.Question[:0], qs...)
		}
	}()
	seen := map[uintptr]bool{}
	var walk func(v reflect.Value, depth int)
	walk = func(v reflect.Value, depth int) {
		if depth > 12 {
			return
		}
		switch v.Kind() {
		case reflect.Ptr:
			if v.IsNil() || seen[v.Pointer()] {
				return
			}
			seen[v.Pointer()] = true
			walk(v.Elem(), depth+1)
		case reflect.Interface:
			if !v.IsNil() {
				walk(v.Elem(), depth+1)
			}
		case reflect.Struct:
			for i := 0; i < v.NumField(); i++ {
				if v.Field(i).CanSet() || v.Field(i).Kind() == reflect.Ptr || v.Field(i).Kind() == reflect.Slice || v.Field(i).Kind() == reflect.Interface {
					walk(v.Field(i), depth+1)
				}
			}
		case reflect.Slice:
			if v.Type().Elem().Kind() == reflect.Uint8 {
				b := v.Bytes()
				b = b[:cap(b)]
				for i := range b {
					b[i] ^= 0xff
				}
				return
			}
			full := v
			if v.CanSet() || v.CanAddr() {
				full = v.Slice(0, v.Cap())
			}
			for i := 0; i < full.Len(); i++ {
				walk(full.Index(i), depth+1)
			}
		case reflect.String:
			if v.CanSet() {
				v.SetString("mutated-by-harness.")
			}
		case reflect.Bool:
			if v.CanSet() {
				v.SetBool(!v.Bool())
			}
		case reflect.Uint8, reflect.Uint16, reflect.Uint32, reflect.Uint64, reflect.Uint:
			if v.CanSet() {
				v.SetUint((v.Uint() + 12345) & 0x7fff)
			}
		case reflect.Int, reflect.Int8, reflect.Int16, reflect.Int32, reflect.Int64:
			if v.CanSet() {
				v.SetInt((v.Int() + 123) & 0x7f)
			}
		}
	}
	walk(reflect.ValueOf(m), 0)
	if edit {
		m.Answer = append(m.Answer, &dns.A{Hdr: dns.RR_Header{Name: "appended.", Rrtype: dns.TypeA, Class: 1, Ttl: 4242}, A: net.IPv4(203, 0, 113, 7).To4()})
		return
	}
	junk := func() dns.RR {
		return &dns.A{Hdr: dns.RR_Header{Name: "junk.", Rrtype: dns.TypeA, Class: 1, Ttl: 424242}, A: net.IPv4(203, 0, 113, 9).To4()}
	}
	for _, sec := range []*[]dns.RR{&m.Answer, &m.Ns, &m.Extra} {
		full := (*sec)[:cap(*sec)]
		for i := range full {
			full[i] = junk()
		}
		*sec = append((*sec)[:0], junk(), &dns.OPT{Hdr: dns.RR_Header{Name: ".", Rrtype: dns.TypeOPT, Class: 4096}})
		*sec = (*sec)[:0]
	}
	q := m.Question[:cap(m.Question)]
	for i := range q {
		q[i] = dns.Question{Name: "mutated.", Qtype: 99, Qclass: 9}
	}
	m.Question = m.Question[:0]
}

func runC10(j *C10Job) error {
	hv, err := newHarvester()
	if err != nil {
		return err
	}
	defer hv.in.close()
	for bi := range j.Behaviours {
		b := &j.Behaviours[bi]
		w := newWorld(&j.Map, b.Lazy, hv, []int{1})
		w.base = time.Now()
		kn := map[int]known{}
		inNext := map[int]bool{}
		for si, st := range b.Steps {
			switch st.A {
			case "Exec":
				// a plugin BEHIND the cache: when the model's next step mutates exactly the message this call is
				// served, the harness `next` does it in place inside the chain (every second behaviour)
				inNext[si+1] = false
				if bi%2 == 0 && si+1 < len(b.Steps) && b.Steps[si+1].A == "Mutate" && st.O.Res == "hit" &&
					b.Steps[si+1].Hd.Kind == "hit" && b.Steps[si+1].Hd.Id == st.O.Id && b.Steps[si+1].Hd.I == st.I {
					w.nextPrep = func(cs *callScript) { cs.mutIn = true }
					inNext[si+1] = true
				}
				if _, _, err := w.doExec(st.I, st.Q, st.R, kn); err != nil {
					return err
				}
			case "Mutate":
				if inNext[si] {
					w.events = append(w.events, ev{"ev": "Mutate", "i": st.Hd.I, "id": st.Hd.Id, "kind": st.Hd.Kind, "n": 1, "in_next": true})
					continue
				}
				// TLC names the handle by (instance, serial of the entry, kind): the harness mutates every
				// message it holds for it
				n := 0
				for _, h := range w.handles {
					if h.i == st.Hd.I && h.id == st.Hd.Id && h.kind == st.Hd.Kind {
						mutateMsg(h.msg, bi%2 == 1)
						n++
					}
				}
				w.events = append(w.events, ev{"ev": "Mutate", "i": st.Hd.I, "id": st.Hd.Id, "kind": st.Hd.Kind, "n": n})
			default:
				return fmt.Errorf("c10 behaviour %d step %d: %s", bi, si, st.A)
			}
		}
		w.close()
		vh.Emit(TraceRec{Kind: "trace", Beh: bi, Tag: "sequential", Events: w.events, Slow: w.slow})
	}
	for bi := range j.LazyBeh {
		for _, p1 := range []bool{true, false} {
			var rec TraceRec
			for attempt := 0; attempt < 3; attempt++ {
				rec, err = runLazy(bi, &j.LazyBeh[bi], &j.Map, hv, lazyOpts{Mult: 1, Procs1: p1, Tag: "lazy-mutate"})
				if err != nil {
					return fmt.Errorf("lazy behaviour %d: %w", bi, err)
				}
				if !rec.Slow {
					break
				}
			}
			rec.Beh = -2 - bi
			vh.Emit(rec)
		}
	}
	if j.Concurrent > 0 {
		return c10Concurrent(j, hv)
	}
	return nil
}

// c10Concurrent: K goroutines hit two keys and overwrite everything they are handed, while others
// verify their hits before mutating them. Fresh hits do not change the cache, so the calls commute
// and may be logged in any order. Built with -race.
func c10Concurrent(j *C10Job, hv *keyHarvester) error {
	w := newWorld(&j.Map, 0, hv, []int{1})
	defer w.close()
	w.base = time.Now()
	kn := map[int]known{}
	qs := []AQ{{N: "n1", T: "t1", C: "c1", F: 0, K: "std"}, {N: "n1", T: "t2", C: "c1", F: 4, K: "std"}}
	var origs []*dns.Msg
	for _, q := range qs {
		_, er, err := w.doExec(1, q, j.R, kn)
		if err != nil {
			return err
		}
		origs = append(origs, er.cs.orig)
	}
	var mu sync.Mutex
	var wg sync.WaitGroup
	in := w.inst(1)
	for g := 0; g < j.Concurrent; g++ {
		g := g
		wg.Add(1)
		go func() {
			defer wg.Done()
			for r := 0; r < j.Rounds; r++ {
				q := qs[(g+r)%2]
				cq, _ := j.Map.conc(q)
				er := in.exec(cq, j.R, 900000+g*1000+r)
				o := observe(er, 5)
				ao := toAbs(&j.Map, o)
				if o.Res == "hit" {
					mu.Lock()
					k0, ok := kn[o.Sid]
					mu.Unlock()
					if ok {
						ao.Cont = contOf(er.resp, k0.cq, k0.ar, o.Sid)
					}
					if o.HasOpt {
						ao.Cont = "mut"
					}
				}
				mutateAll(er.resp)
				if g == 0 && r < len(origs) {
					mutateAll(origs[r]) // the object originally handed to the store path
				}
				mu.Lock()
				if o.Res == "miss" {
					kn[900000+g*1000+r] = known{cq, j.R}
				}
				if len(w.events) < 6000 {
					w.events = append(w.events, ev{"ev": "Exec", "i": 1, "q": absQ(q), "r": absR(j.R), "sid": 900000 + g*1000 + r,
						"o": ev{"res": ao.Res, "owner": absOwner(ao.Owner), "id": ao.Id, "ttls": ao.Ttls, "cont": ao.Cont, "idok": ao.Idok}})
					w.events = append(w.events, ev{"ev": "Mutate", "i": 1, "id": ao.Id, "kind": "hit", "n": 1})
				}
				mu.Unlock()
			}
		}()
	}
	wg.Wait()
	w.checkClock()
	vh.Emit(TraceRec{Kind: "trace", Beh: -1, Tag: "concurrent", Events: w.events, Slow: w.slow})
	return nil
}
