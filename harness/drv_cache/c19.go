//go:build verif

package main

import (
	"bytes"
	"encoding/binary"
	"errors"
	"fmt"
	"math"
	"math/rand"
	"os"
	"path/filepath"
	"runtime"
	"time"

	"github.com/IrineSistiana/mosdns/v5/plugin/executable/cache"
	"github.com/klauspost/compress/gzip"

	"verif/harness/vh"
)

type Shape struct { // an entry of a TLC-exported state, relative to its `now`
	R        AR  `json:"r"`
	Stored   int `json:"stored"`
	MsgExp   int `json:"msgExp"`
	CacheExp int `json:"cacheExp"`
}

type C19Job struct {
	Behaviours  []Behaviour `json:"behaviours"`
	Map         Map         `json:"map"`
	Maps        []Map       `json:"maps"` // behaviours are realised under Maps[bi % len] (default: Map)
	Shapes      []Shape     `json:"shapes"`
	BigN        int         `json:"big_n"`
	BigExec     int         `json:"big_exec"`
	Cuts        string      `json:"cuts"` // "quick" | "all" | "none"
	CutList     []int       `json:"cut_list"`
	Garbage     int         `json:"garbage"`
	FileRestart int         `json:"file_restart"` // rounds of the dump_file / Close / re-Init leg
	Lazy        int         `json:"lazy"`
}

// runC19: a GET /dump that fails for a legally filled cache is a RESULT (the check turns it into a
// violation), not a driver error.
func runC19(j *C19Job) error {
	err := runC19x(j)
	var df *dumpFailed
	if errors.As(err, &df) {
		vh.Emit(ev{"kind": "dumpfail", "status": df.Status, "cq": df.CQ, "body": df.Body})
		return nil
	}
	return err
}

func runC19x(j *C19Job) error {
	hv, err := newHarvester()
	if err != nil {
		return err
	}
	defer hv.in.close()
	rng := rand.New(rand.NewSource(vh.Seed()))
	for bi := range j.Behaviours {
		var rec TraceRec
		for attempt := 0; attempt < 3; attempt++ {
			rec, err = c19Behaviour(bi, &j.Behaviours[bi], j.mapFor(bi), hv, rng)
			if err != nil {
				return fmt.Errorf("behaviour %d: %w", bi, err)
			}
			if !rec.Slow {
				break
			}
		}
		vh.Emit(rec)
	}
	if j.BigN > 0 {
		if err := c19Big(j, hv, rng); err != nil {
			return err
		}
	}
	for r := 0; r < j.FileRestart; r++ {
		if err := c19File(j, hv, r); err != nil {
			return err
		}
	}
	if j.Garbage > 0 {
		if err := c19Garbage(j, hv, rng); err != nil {
			return err
		}
	}
	return nil
}

func (j *C19Job) mapFor(bi int) *Map {
	if len(j.Maps) == 0 {
		return &j.Map
	}
	return &j.Maps[bi%len(j.Maps)]
}

func c19Behaviour(bi int, b *Behaviour, m *Map, hv *keyHarvester, rng *rand.Rand) (TraceRec, error) {
	w := newWorld(m, b.Lazy, hv, nil)
	defer w.close()
	kn := map[int]known{}
	started := false
	for si, st := range b.Steps {
		if !started {
			if st.A != "Dump" {
				continue // virtual prefix: its effect is the state exported with the first Dump
			}
			started = true
			w.setNow(st.Now)
			for i, ents := range st.Ec {
				if err := w.inject(i+1, ents); err != nil {
					return TraceRec{}, err
				}
				for _, e := range ents {
					q := e.Owner
					q.K = "std"
					cq, _ := m.conc(q)
					kn[e.Id] = known{cq, e.R}
				}
			}
		}
		switch st.A {
		case "Dump":
			body, err := w.doDump(st.I, true, true)
			if err != nil {
				return TraceRec{}, err
			}
			if body == nil { // failed dump request: recorded with its status; the trace ends here
				return TraceRec{Kind: "trace", Beh: bi, Tag: "behaviour", Events: w.events, Slow: false, Notes: w.notes}, nil
			}
		case "Load":
			w.doLoad(st.J, w.lastDump, false)
		case "LoadCut":
			if len(w.lastDump) == 0 {
				return TraceRec{}, fmt.Errorf("step %d: LoadCut without dump", si)
			}
			w.doLoad(st.J, w.lastDump[:rng.Intn(len(w.lastDump))], true)
		case "Exec":
			if _, _, err := w.doExec(st.I, st.Q, st.R, kn); err != nil {
				return TraceRec{}, err
			}
		default:
			return TraceRec{}, fmt.Errorf("step %d: %s cannot be realised after the first dump", si, st.A)
		}
	}
	return TraceRec{Kind: "trace", Beh: bi, Tag: "behaviour", Events: w.events, Slow: w.slow}, nil
}

// bigEntries: n entries with distinct questions, shaped like entries of TLC-exported states.
// bigEntries: n entries with distinct questions, shaped like entries of TLC-exported states. The
// questions cover key bytes >= 0x80: types 128/255/32769/65535, class ANY/CH/65535, names of >= 128
// octets and names with escaped non-ASCII octets.
func bigEntries(j *C19Job, m *Map, n int, rng *rand.Rand) []AEntry {
	types := []uint16{1, 28, 255, 32769, 128, 65535, 16, 257}
	classes := []uint16{1, 255, 3, 65535}
	m.Types = map[string]uint16{} // own symbols only: the inverse map must stay unambiguous
	m.Classes = map[string]uint16{}
	for i, t := range types {
		m.Types[fmt.Sprintf("bt%d", i)] = t
	}
	for i, c := range classes {
		m.Classes[fmt.Sprintf("bc%d", i)] = c
	}
	long := ""
	for len(long) < 140 {
		long += "label-of-some-length."
	}
	var out []AEntry
	for k := 0; k < n; k++ {
		sh := j.Shapes[rng.Intn(len(j.Shapes))]
		nm := fmt.Sprintf("e%d", k)
		switch k % 5 {
		case 3:
			m.Names[nm] = fmt.Sprintf("h%d.%sbig.example.", k, long) // >= 128 octets: the length byte of the key is >= 0x80
		case 4:
			m.Names[nm] = fmt.Sprintf("h%d.\\195\\188ber-\\255\\128.big.example.", k) // escaped non-ASCII octets
		default:
			m.Names[nm] = fmt.Sprintf("host-%d.big.example.", k)
		}
		out = append(out, AEntry{Owner: AQ{N: nm, T: fmt.Sprintf("bt%d", k%len(types)), C: fmt.Sprintf("bc%d", (k/len(types))%len(classes)), F: k % 8},
			Id: 1000 + k, R: sh.R, Stored: sh.Stored, MsgExp: sh.MsgExp, CacheExp: sh.CacheExp})
	}
	return out
}

func cloneMap(m *Map) *Map {
	c := *m
	c.Names = map[string]string{}
	for k, v := range m.Names {
		c.Names[k] = v
	}
	c.Types = map[string]uint16{}
	for k, v := range m.Types {
		c.Types[k] = v
	}
	c.Classes = map[string]uint16{}
	for k, v := range m.Classes {
		c.Classes[k] = v
	}
	return &c
}

func c19Big(j *C19Job, hv *keyHarvester, rng *rand.Rand) error {
	m := cloneMap(&j.Map)
	ents := bigEntries(j, m, j.BigN, rng)
	// --- restart transparency over several real blocks
	for attempt := 0; attempt < 3; attempt++ {
		w := newWorld(m, j.Lazy, hv, nil)
		kn := map[int]known{}
		if err := w.inject(1, ents); err != nil {
			return err
		}
		for _, e := range ents {
			q := e.Owner
			q.K = "std"
			cq, _ := m.conc(q)
			kn[e.Id] = known{cq, e.R}
		}
		w.serial = 5000
		// some entries through the real store path
		for k := 0; k < j.BigExec; k++ {
			nm := fmt.Sprintf("x%d", k)
			m.Names[nm] = fmt.Sprintf("stored-%d.big.example.", k)
			sh := j.Shapes[rng.Intn(len(j.Shapes))]
			if _, _, err := w.doExec(1, AQ{N: nm, T: "bt0", C: "bc0", F: k % 8, K: "std"}, sh.R, kn); err != nil {
				return err
			}
		}
		body, err := w.doDump(1, true, true)
		if err != nil {
			return err
		}
		if body == nil { // the dump request failed: recorded in the trace (status), nothing more to drive
			w.close()
			vh.Emit(TraceRec{Kind: "trace", Beh: -1, Tag: "big-restart", Events: w.events, Slow: false, Notes: w.notes})
			return nil
		}
		w.doLoad(2, body, false)
		probe := AR{Rc: 0, Nan: 1, Ttls: []int{77}}
		for _, e := range ents {
			q := e.Owner
			q.K = "std"
			for _, i := range []int{1, 2} {
				if _, _, err := w.doExec(i, q, probe, kn); err != nil {
					return err
				}
			}
		}
		for k := 0; k < j.BigExec; k++ {
			q := AQ{N: fmt.Sprintf("x%d", k), T: "bt0", C: "bc0", F: k % 8, K: "std"}
			for _, i := range []int{1, 2} {
				if _, _, err := w.doExec(i, q, probe, kn); err != nil {
					return err
				}
			}
		}
		if _, err := w.doDump(2, true, false); err != nil {
			return err
		}
		if _, err := w.doDump(1, true, false); err != nil {
			return err
		}
		w.close()
		if !w.slow || attempt == 2 {
			vh.Emit(TraceRec{Kind: "trace", Beh: -1, Tag: "big-restart", Events: w.events, Slow: w.slow,
				Extra: ev{"dump_bytes": len(body), "entries": len(ents) + j.BigExec}})
			break
		}
	}
	if j.Cuts == "none" {
		return nil
	}
	// --- truncation: every prefix must be refused and may only add entries of the intact dump
	var cuts []int
	first := true
	next := 0
	for first || next < len(cuts) {
		w := newWorld(m, j.Lazy, hv, nil)
		if err := w.inject(1, ents); err != nil {
			return err
		}
		body, err := w.doDump(1, true, true)
		if err != nil {
			return err
		}
		if body == nil {
			w.close()
			vh.Emit(TraceRec{Kind: "trace", Beh: -1, Tag: "truncation", Events: w.events, Slow: false, Notes: w.notes, Extra: ev{"cuts": []int{}}})
			return nil
		}
		if first {
			first = false
			n := len(body)
			switch j.Cuts {
			case "all":
				for c := 0; c < n; c++ {
					cuts = append(cuts, c)
				}
			default:
				seen := map[int]bool{}
				add := func(c int) {
					if c >= 0 && c < n && !seen[c] {
						seen[c] = true
						cuts = append(cuts, c)
					}
				}
				for c := 0; c < 40; c++ {
					add(c)
					add(n - 1 - c)
				}
				for k := 0; k < 200; k++ {
					add(rng.Intn(n))
				}
			}
		}
		lo := next
		statuses := []int{}
		for ; next < len(cuts) && next-lo < 40; next++ {
			c := cuts[next]
			if c >= len(body) { // dumps of the same content can differ in length by a few bytes (map order)
				c = len(body) - 1
			}
			w.doFlush(2, true)
			statuses = append(statuses, w.doLoad(2, body[:c], true))
			if _, err := w.doDump(2, true, false); err != nil {
				return err
			}
		}
		w.close()
		if w.slow {
			next = lo // retry this batch
			continue
		}
		vh.Emit(TraceRec{Kind: "trace", Beh: -1, Tag: "truncation", Events: w.events, Slow: false,
			Extra: ev{"cuts": cuts[lo:next], "dump_bytes": len(body), "statuses": statuses}})
	}
	return nil
}

// c19File: the FILE based path (dump_file): the plugin dumps on Close and loads in Init. A = instance 1
// stores, is closed (dump), B = instance 2 starts from the file and must serve the same; B is flushed and
// closed (the dump of an EMPTY cache replaces the file), C (slot 1 again) starts from the file and must be empty.
// round 1 closes B without flushing (the file must still hold everything), round 2 lets A be empty from the start.
func c19File(j *C19Job, hv *keyHarvester, round int) error {
	dir, err := os.MkdirTemp("", "verif-c19-")
	if err != nil {
		return err
	}
	defer os.RemoveAll(dir)
	file := filepath.Join(dir, "cache.dump")
	m := cloneMap(&j.Map)
	args := func() *cache.Args { return &cache.Args{Size: 4096, DumpFile: file, DumpInterval: 3600} }
	var rec TraceRec
	for attempt := 0; attempt < 3; attempt++ {
		os.Remove(file)
		w := newWorld(m, 0, hv, nil)
		w.base = time.Now()
		kn := map[int]known{}
		a, err := newInstArgs(args())
		if err != nil {
			return err
		}
		w.insts[1] = a
		qs := []AQ{}
		if round != 2 {
			for k := 0; k < 6; k++ {
				nm := fmt.Sprintf("f%d", k)
				m.Names[nm] = fmt.Sprintf("file-%d.restart.example.", k)
				q := AQ{N: nm, T: []string{"t1", "t2"}[k%2], C: "c1", F: k % 8, K: "std"}
				qs = append(qs, q)
				if _, _, err := w.doExec(1, q, AR{Rc: 0, Nan: 1, Ttls: []int{300, 600}}, kn); err != nil {
					return err
				}
			}
		}
		hadFile := false
		readFile := func(i int) bool {
			du := nowUnix()
			body, err := os.ReadFile(file)
			code := 200
			if err != nil && !hadFile {
				body, err = encodeDump(nil, 128), nil // never dumped anything and no file: same as an empty dump
			}
			if err != nil {
				code, body = 598, nil // the dump file disappeared
				w.notes = append(w.notes, "dump file: "+err.Error())
			} else {
				hadFile = true
			}
			b, _ := w.dumpEvent(i, du, code, body, true, true)
			return b != nil
		}
		restart := func(slot int) error {
			in, err := newInstArgs(args())
			if err != nil {
				return err
			}
			w.insts[slot] = in
			w.events = append(w.events, ev{"ev": "Load", "j": slot, "status": 200})
			return nil
		}
		probe := func(i int) error {
			for _, q := range qs {
				if _, _, err := w.doExec(i, q, AR{Rc: 0, Nan: 1, Ttls: []int{77}}, kn); err != nil {
					return err
				}
			}
			return nil
		}
		a.close() // Close dumps to the file
		ok := readFile(1)
		if ok {
			if err := restart(2); err != nil {
				return err
			}
			if err := probe(2); err != nil {
				return err
			}
			if round != 1 {
				w.doFlush(2, true)
			}
			w.insts[2].close()
			if readFile(2) {
				w.events = append(w.events, ev{"ev": "Flush", "i": 1, "strict": true}) // instance A is gone
				if err := restart(1); err != nil {
					return err
				}
				if err := probe(1); err != nil {
					return err
				}
			}
		}
		w.close()
		rec = TraceRec{Kind: "trace", Beh: -1, Step: round, Tag: "file-restart", Events: w.events, Slow: w.slow, Notes: w.notes}
		if !w.slow {
			break
		}
	}
	vh.Emit(rec)
	return nil
}

// ---- corrupted / arbitrary input: observation premises (no panic, no hang, bounded allocation)

func gz(name string, raw []byte) []byte {
	var buf bytes.Buffer
	gw, _ := gzip.NewWriterLevel(&buf, gzip.BestCompression)
	gw.Name = name
	gw.Write(raw)
	gw.Close()
	return buf.Bytes()
}

type garbageResult struct {
	Kind    string `json:"kind"`
	Case    string `json:"case"`
	Status  int    `json:"status"`
	Panic   string `json:"panic,omitempty"`
	Hang    bool   `json:"hang"`
	AllocMB int    `json:"alloc_mb"`
	Ms      int    `json:"ms"`
	Input   string `json:"input,omitempty"` // hex, only for failures
	Len     int    `json:"len"`
}

func c19Garbage(j *C19Job, hv *keyHarvester, rng *rand.Rand) error {
	m := cloneMap(&j.Map)
	n := 140
	if len(j.Shapes) == 0 {
		return fmt.Errorf("no shapes")
	}
	ents := bigEntries(j, m, n, rng)
	w := newWorld(m, 0, hv, nil)
	if err := w.inject(1, ents); err != nil {
		return err
	}
	good, err := w.doDump(1, true, true)
	w.close()
	if err != nil {
		return err
	}
	if good == nil {
		return nil // dump failure already recorded by the restart leg
	}
	type tc struct {
		name string
		b    []byte
	}
	var cases []tc
	for k := 0; k < j.Garbage; k++ {
		b := append([]byte{}, good...)
		flips := 1 + rng.Intn(3)
		for f := 0; f < flips; f++ {
			p := rng.Intn(len(b))
			b[p] ^= 1 << uint(rng.Intn(8))
		}
		cases = append(cases, tc{"bitflip", b})
	}
	for k := 0; k < j.Garbage/4+1; k++ {
		b := make([]byte, rng.Intn(4096))
		rng.Read(b)
		cases = append(cases, tc{"random", b})
		raw := make([]byte, rng.Intn(2048))
		rng.Read(raw)
		cases = append(cases, tc{"random-in-gzip", gz(dumpHeader, raw)})
	}
	hdr := func(u uint64, rest []byte) []byte {
		var l [8]byte
		binary.BigEndian.PutUint64(l[:], u)
		return append(l[:], rest...)
	}
	cases = append(cases,
		tc{"empty", nil},
		tc{"wrong-header", gz("mosdns_cache_v1", hdr(0, nil))},
		tc{"huge-block-length", gz(dumpHeader, hdr(1<<62, []byte("x")))},
		tc{"negative-block-length", gz(dumpHeader, hdr(^uint64(0), []byte("x")))},
		tc{"max-block-length-no-data", gz(dumpHeader, hdr(1<<20, nil))},
		tc{"over-max-block-length", gz(dumpHeader, hdr(1<<20+1, make([]byte, 16)))},
		tc{"zero-bomb-32MB", gz(dumpHeader, make([]byte, 32<<20))},
		tc{"many-max-blocks-short", gz(dumpHeader, bytes.Repeat(hdr(1<<20, nil), 1000))},
		tc{"proto-garbage", gz(dumpHeader, hdr(6, []byte{0x0a, 0xff, 0xff, 0xff, 0xff, 0x0f}))},
	)
	// structured corruption: valid gzip, valid block framing, valid protobuf — adversarial field contents
	var okMsg []byte
	if mm, err := entryMsg(CQ{Name: "ok.example.", Type: 1, Class: 1}, AR{Rc: 0, Nan: 1, Ttls: []int{300}}, 7).Pack(); err == nil {
		okMsg = mm
	}
	far := time.Now().Unix() + 3600
	keys := [][]byte{nil, []byte("a"), {0, 0, 1, 0, 1}, {0, 0, 1, 0, 1, 3}, []byte("\x00\x00\x01\x00\x01\x0bok.example.")}
	msgs := [][]byte{nil, {0}, bytes.Repeat([]byte{0xff}, 11), okMsg[:max(len(okMsg)-3, 0)], okMsg}
	times := [][3]int64{{far, far, far - 3700}, {0, 0, 0}, {-1, -1, -1}, {math.MaxInt64, math.MaxInt64, math.MinInt64}, {far, far - 7200, math.MaxInt64}}
	for ki, k := range keys {
		for mi, mg := range msgs {
			for ti, t := range times {
				e := &CachedEntry{Key: k, Msg: mg, CacheExpirationTime: t[0], MsgExpirationTime: t[1], MsgStoredTime: t[2]}
				cases = append(cases, tc{fmt.Sprintf("structured-key%d-msg%d-times%d", ki, mi, ti), encodeDump([]*CachedEntry{e}, 128)})
			}
		}
	}
	{
		var many []*CachedEntry
		for n := 0; n < 300; n++ {
			many = append(many, &CachedEntry{Key: keys[n%len(keys)], Msg: msgs[(n/5)%len(msgs)], CacheExpirationTime: far, MsgExpirationTime: far, MsgStoredTime: far - 3600})
		}
		cases = append(cases, tc{"structured-mixed-300", encodeDump(many, 128)})
	}
	for _, c := range cases {
		in, err := newInst(0, 4096)
		if err != nil {
			return err
		}
		res := garbageResult{Kind: "garbage", Case: c.name, Len: len(c.b)}
		var ms0, ms1 runtime.MemStats
		runtime.GC()
		runtime.ReadMemStats(&ms0)
		done := make(chan struct{})
		t0 := time.Now()
		go func() {
			defer close(done)
			defer func() {
				if r := recover(); r != nil {
					res.Panic = fmt.Sprint(r)
				}
			}()
			res.Status, _ = in.api("POST", "/load_dump", c.b)
		}()
		select {
		case <-done:
		case <-time.After(5 * time.Second):
			res.Hang = true
		}
		res.Ms = int(time.Since(t0) / time.Millisecond)
		runtime.ReadMemStats(&ms1)
		res.AllocMB = int((ms1.TotalAlloc - ms0.TotalAlloc) >> 20)
		if res.Panic != "" || res.Hang || res.AllocMB > 256 {
			if len(c.b) <= 8192 {
				res.Input = fmt.Sprintf("%x", c.b)
			}
		}
		vh.Emit(res)
		if !res.Hang {
			in.close()
		}
	}
	return nil
}
