//go:build verif

package main

import (
	"fmt"
	"sync"
	"time"

	"github.com/IrineSistiana/mosdns/v5/pkg/query_context"
	"github.com/miekg/dns"

	"verif/harness/vh"
)

type InjectCase struct {
	Lazy int      `json:"lazy"`
	Now  int      `json:"now"`
	E    []AEntry `json:"e"`
	Q    AQ       `json:"q"`
	R    AR       `json:"r"`
	Beh  int      `json:"beh"`
	Step int      `json:"step"`
}

type C05Job struct {
	Map      Map          `json:"map"`
	Inject   []InjectCase `json:"inject"`
	Real     []Behaviour  `json:"real"`
	LazyBeh  []Behaviour  `json:"lazy_beh"`
	Burst    int          `json:"burst"`
	RealTime bool         `json:"realtime"`
	OptTTLs  []uint32     `json:"opt_ttls"`
}

func runC05(j *C05Job) error {
	hv, err := newHarvester()
	if err != nil {
		return err
	}
	defer hv.in.close()
	// (1) injection: one real Exec on a state exported by TLC
	for ci := range j.Inject {
		c := &j.Inject[ci]
		var rec TraceRec
		for attempt := 0; attempt < 3; attempt++ {
			w := newWorld(&j.Map, c.Lazy, hv, []int{1})
			w.setNow(c.Now)
			if err := w.inject(1, c.E); err != nil {
				return err
			}
			kn := map[int]known{}
			for _, e := range c.E {
				q := e.Owner
				q.K = "std"
				cq, _ := j.Map.conc(q)
				kn[e.Id] = known{cq, e.R}
			}
			w.inst(1).nx.setBG(func(*query_context.Context) *dns.Msg { return nil }) // a lazy refresh, if any, answers nothing
			if _, _, err := w.doExec(1, c.Q, c.R, kn); err != nil {
				return err
			}
			w.close()
			rec = TraceRec{Kind: "trace", Beh: c.Beh, Step: c.Step, Tag: "inject", Events: w.events, Slow: w.slow}
			if !w.slow {
				break
			}
		}
		vh.Emit(rec)
	}
	// (2) the real store path at abstract time 0, lifetimes read back from GET /dump
	for bi := range j.Real {
		b := &j.Real[bi]
		for oi, ottl := range j.OptTTLs {
			var rec TraceRec
			for attempt := 0; attempt < 3; attempt++ {
				w := newWorld(&j.Map, b.Lazy, hv, []int{1})
				w.inst(1).nx.optTTL = ottl
				w.base = time.Now()
				kn := map[int]known{}
				for _, st := range b.Steps {
					if st.A != "Exec" {
						return fmt.Errorf("real behaviour %d has step %s", bi, st.A)
					}
					if _, _, err := w.doExec(1, st.Q, st.R, kn); err != nil {
						return err
					}
				}
				if _, err := w.doDump(1, false, false); err != nil {
					return err
				}
				w.close()
				rec = TraceRec{Kind: "trace", Beh: bi, Step: oi, Tag: "real", Events: w.events, Slow: w.slow}
				if !w.slow {
					break
				}
			}
			vh.Emit(rec)
		}
	}
	// (3) lazy bursts
	for bi := range j.LazyBeh {
		var rec TraceRec
		for attempt := 0; attempt < 3; attempt++ {
			rec, err = lazyBurst(bi, &j.LazyBeh[bi], &j.Map, hv, j.Burst)
			if err != nil {
				return fmt.Errorf("lazy behaviour %d: %w", bi, err)
			}
			if !rec.Slow {
				break
			}
		}
		vh.Emit(rec)
	}
	if j.RealTime {
		realTime(&j.Map, hv)
	}
	return nil
}

func (n *fakeNext) setBG(f func(*query_context.Context) *dns.Msg) {
	n.mu.Lock()
	n.bgHook = f
	n.mu.Unlock()
}

// lazyBurst realises a behaviour of the form  <virtual prefix> Exec(stale)+ RefreshEnd Exec* ... :
// the state at the first stale hit is injected; every maximal run of Exec steps is executed as a
// burst of concurrent calls while the background `next` is held at a gate; RefreshEnd opens it.
func lazyBurst(bi int, b *Behaviour, m *Map, hv *keyHarvester, mult int) (TraceRec, error) {
	first := -1
	for si, st := range b.Steps {
		if st.A == "Exec" && st.O.Res == "stale" {
			first = si
			break
		}
	}
	if first < 0 {
		return TraceRec{}, fmt.Errorf("no stale hit")
	}
	w := newWorld(m, b.Lazy, hv, []int{1})
	defer w.close()
	var mu sync.Mutex // orders all events of this world
	kn := map[int]known{}
	st0 := b.Steps[first]
	w.setNow(st0.Now)
	if err := w.inject(1, st0.E); err != nil {
		return TraceRec{}, err
	}
	for _, e := range st0.E {
		q := e.Owner
		q.K = "std"
		cq, _ := m.conc(q)
		kn[e.Id] = known{cq, e.R}
	}
	w.serial = 100
	type bgCall struct {
		q       AQ
		sid     int
		release chan *dns.Msg
	}
	var bgs []*bgCall
	in := w.inst(1)
	in.nx.setBG(func(qCtx *query_context.Context) *dns.Msg {
		qq := qCtx.Q().Question[0]
		cq := CQ{Name: qq.Name, Type: qq.Qtype, Class: qq.Qclass, Flags: 0}
		if qCtx.Q().AuthenticatedData {
			cq.Flags |= 1
		}
		if qCtx.Q().CheckingDisabled {
			cq.Flags |= 2
		}
		if o := qCtx.Q().IsEdns0(); o != nil && o.Do() {
			cq.Flags |= 4
		}
		aq, _ := m.abs(cq)
		aq.K = "std"
		mu.Lock()
		c := &bgCall{q: aq, sid: 10000 + len(bgs), release: make(chan *dns.Msg, 1)}
		bgs = append(bgs, c)
		w.events = append(w.events, ev{"ev": "RefreshStart", "i": 1, "q": absQ(aq), "sid": c.sid})
		mu.Unlock()
		select {
		case r := <-c.release:
			return r
		case <-time.After(4 * time.Second):
			return nil
		}
	})
	released := map[*bgCall]bool{}
	si := first
	for si < len(b.Steps) {
		st := b.Steps[si]
		switch st.A {
		case "Exec":
			// Only calls that are served from cache without changing it commute. A maximal run of Exec
			// steps on which the model serves a STALE answer becomes one concurrent burst (each step mult
			// times) — but only after a first, sequential call has really been served from cache; every
			// other Exec step (miss / fresh hit) runs alone.
			var run []Step
			if st.O.Res == "stale" {
				for si < len(b.Steps) && b.Steps[si].A == "Exec" && b.Steps[si].O.Res == "stale" {
					run = append(run, b.Steps[si])
					si++
				}
			} else {
				run = []Step{st}
				si++
			}
			var wg sync.WaitGroup
			one := func(s Step) string {
				cq, err := m.conc(s.Q)
				if err != nil {
					return "error"
				}
				mu.Lock()
				sid := w.serial
				w.serial++
				mu.Unlock()
				er := in.exec(cq, s.R, sid)
				o := observe(er, 5)
				ao := toAbs(m, o)
				mu.Lock()
				if o.Res == "miss" {
					kn[sid] = known{cq, s.R}
				}
				if o.Res == "hit" {
					if k0, ok := kn[o.Sid]; ok {
						ao.Cont = contOf(er.resp, k0.cq, k0.ar, o.Sid)
					}
				}
				w.events = append(w.events, ev{"ev": "Exec", "i": 1, "q": absQ(s.Q), "r": absR(s.R), "sid": sid,
					"o": ev{"res": ao.Res, "owner": absOwner(ao.Owner), "id": ao.Id, "ttls": ao.Ttls, "cont": ao.Cont, "idok": ao.Idok}})
				mu.Unlock()
				return o.Res
			}
			concurrent := st.O.Res == "stale"
			for ri, s := range run {
				k0 := 0
				if concurrent {
					// probe sequentially; if the real plugin does not serve this key from cache, stay sequential
					if one(s) != "hit" {
						concurrent = false
					}
					k0 = 1
				}
				_ = ri
				for k := k0; k < mult; k++ {
					if !concurrent {
						if k0 == 0 && k > 0 {
							break // a non-stale step runs exactly once
						}
						if k0 == 0 {
							one(s)
							break
						}
						one(s)
						continue
					}
					s := s
					wg.Add(1)
					go func() {
						defer wg.Done()
						one(s)
					}()
				}
			}
			wg.Wait()
			// give a background goroutine started by the last call time to reach the gate
			time.Sleep(30 * time.Millisecond)
			w.checkClock()
		case "RefreshEnd":
			si++
			var c *bgCall
			deadline := time.Now().Add(500 * time.Millisecond)
			for c == nil && time.Now().Before(deadline) {
				mu.Lock()
				for _, x := range bgs {
					if !released[x] && x.q.N == st.Q.N && x.q.T == st.Q.T && x.q.C == st.Q.C && x.q.F == st.Q.F {
						c = x
						break
					}
				}
				mu.Unlock()
				if c == nil {
					time.Sleep(5 * time.Millisecond)
				}
			}
			if c == nil {
				w.notes = append(w.notes, "no background refresh reached next for RefreshEnd")
				return TraceRec{Kind: "trace", Beh: bi, Tag: "lazy", Events: w.events, Slow: w.slow, Notes: w.notes}, nil
			}
			released[c] = true
			cq, _ := m.conc(st.Q)
			q := buildQuery(cq, 1)
			r := buildAnswer(q, cq, st.R, c.sid, 0)
			kn[c.sid] = known{cq, st.R}
			c.release <- r
			// wait until the refresh has been stored (or cannot be): poll the dump, unlogged
			want := MsgStorable(st.R)
			t0 := time.Now()
			for time.Since(t0) < time.Second {
				if !want {
					time.Sleep(20 * time.Millisecond)
					break
				}
				_, body := in.api("GET", "/dump", nil)
				ents, _ := decodeDump(body)
				found := false
				for _, e := range ents {
					mm := new(dns.Msg)
					if mm.Unpack(e.GetMsg()) == nil {
						if id, _, _ := parseID(mm); id == c.sid {
							found = true
						}
					}
				}
				if found {
					break
				}
				time.Sleep(2 * time.Millisecond)
			}
			time.Sleep(10 * time.Millisecond)
			mu.Lock()
			w.events = append(w.events, ev{"ev": "RefreshEnd", "i": 1, "q": absQ(st.Q), "r": absR(st.R), "sid": c.sid})
			mu.Unlock()
			w.checkClock()
		default:
			// Tick etc. after the first stale hit cannot be realised; stop here
			si = len(b.Steps)
		}
	}
	// open all gates
	mu.Lock()
	for _, c := range bgs {
		if !released[c] {
			c.release <- nil
		}
	}
	nbg := len(bgs)
	mu.Unlock()
	return TraceRec{Kind: "trace", Beh: bi, Tag: "lazy", Events: w.events, Slow: w.slow, Notes: w.notes, Extra: ev{"background": nbg}}, nil
}

// MsgStorable: used only to decide how long to WAIT for the background store (never for a verdict):
// answers with records and rcode 0/2/3 are usually stored; others are waited for briefly.
func MsgStorable(r AR) bool { return !r.Tc && len(r.Ttls) > 0 && (r.Rc == 0 || r.Rc == 3 || r.Rc == 2) }

// realTime: confirmations in real time around the SERVFAIL (5 s) and NXDOMAIN (30 s) bounds.
func realTime(m *Map, hv *keyHarvester) {
	type sc struct {
		name   string
		r      AR
		sleeps []float64 // seconds between probes
	}
	scs := []sc{
		{"servfail", AR{Rc: 2, Ttls: []int{}}, []float64{2.5, 5.0}},
		{"servfail-with-ttl-40", AR{Rc: 2, Ttls: []int{40}, Nan: 0}, []float64{2.5, 5.0}},
		{"nxdomain", AR{Rc: 3, Ttls: []int{40}}, []float64{27.5, 5.0}},
		{"empty-noerror-ttl-8", AR{Rc: 0, Ttls: []int{8}}, []float64{5.5, 5.0}},
		{"answer-ttl-8", AR{Rc: 0, Nan: 1, Ttls: []int{8, 20}}, []float64{5.5, 5.0}},
	}
	var wg sync.WaitGroup
	for si, s := range scs {
		si, s := si, s
		wg.Add(1)
		go func() {
			defer wg.Done()
			w := newWorld(m, 0, hv, []int{1})
			defer w.close()
			kn := map[int]known{}
			q := AQ{N: "n1", T: "t1", C: "c1", F: 0, K: "std"}
			t0 := time.Now()
			w.doExec(1, q, s.r, kn)
			for _, d := range s.sleeps {
				target := time.Duration((float64(w.now) + d) * float64(time.Second))
				time.Sleep(time.Until(t0.Add(target)))
				el := time.Since(t0)
				w.setNow(int(el / time.Second))
				// only probe when the wall clock is safely inside the second (skew band of the spec)
				if fr := el % time.Second; fr < 200*time.Millisecond || fr > 800*time.Millisecond {
					w.notes = append(w.notes, "probe skipped: too close to a second boundary")
					continue
				}
				w.doExec(1, q, AR{Rc: 0, Nan: 1, Ttls: []int{77}}, kn)
			}
			vh.Emit(TraceRec{Kind: "trace", Beh: si, Tag: "realtime-" + s.name, Events: w.events, Slow: false, Notes: w.notes})
		}()
	}
	wg.Wait()
}
