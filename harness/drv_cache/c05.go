//go:build verif

package main

import (
	"fmt"
	"sync"
	"time"

	"github.com/IrineSistiana/mosdns/v5/pkg/query_context"
	"github.com/miekg/dns"

	"verif/harness/vh"
)

type InjectCase struct {
	Lazy int      `json:"lazy"`
	Now  int      `json:"now"`
	E    []AEntry `json:"e"`
	Q    AQ       `json:"q"`
	R    AR       `json:"r"`
	Beh  int      `json:"beh"`
	Step int      `json:"step"`
}

type C05Job struct {
	Map      Map          `json:"map"`
	Inject   []InjectCase `json:"inject"`
	Real     []Behaviour  `json:"real"`
	LazyBeh  []Behaviour  `json:"lazy_beh"`
	Burst    int          `json:"burst"`
	RealTime bool         `json:"realtime"`
	Straddle int          `json:"straddle"` // rounds of the second-boundary scenario
	OptTTLs  []uint32     `json:"opt_ttls"`
}

func runC05(j *C05Job) error {
	hv, err := newHarvester()
	if err != nil {
		return err
	}
	defer hv.in.close()
	// (1) injection: one real Exec on a state exported by TLC
	for ci := range j.Inject {
		c := &j.Inject[ci]
		var rec TraceRec
		for attempt := 0; attempt < 3; attempt++ {
			w := newWorld(&j.Map, c.Lazy, hv, []int{1})
			w.setNow(c.Now)
			if err := w.inject(1, c.E); err != nil {
				return err
			}
			kn := map[int]known{}
			for _, e := range c.E {
				q := e.Owner
				q.K = "std"
				cq, _ := j.Map.conc(q)
				kn[e.Id] = known{cq, e.R}
			}
			w.inst(1).nx.setBG(func(*query_context.Context) *dns.Msg { return nil }) // a lazy refresh, if any, answers nothing
			if _, _, err := w.doExec(1, c.Q, c.R, kn); err != nil {
				return err
			}
			w.close()
			rec = TraceRec{Kind: "trace", Beh: c.Beh, Step: c.Step, Tag: "inject", Events: w.events, Slow: w.slow}
			if !w.slow {
				break
			}
		}
		vh.Emit(rec)
	}
	// (2) the real store path at abstract time 0, lifetimes read back from GET /dump
	for bi := range j.Real {
		b := &j.Real[bi]
		for oi, ottl := range j.OptTTLs {
			var rec TraceRec
			for attempt := 0; attempt < 3; attempt++ {
				w := newWorld(&j.Map, b.Lazy, hv, []int{1})
				w.inst(1).nx.optTTL = ottl
				w.base = time.Now()
				kn := map[int]known{}
				for _, st := range b.Steps {
					if st.A != "Exec" {
						return fmt.Errorf("real behaviour %d has step %s", bi, st.A)
					}
					if _, _, err := w.doExec(1, st.Q, st.R, kn); err != nil {
						return err
					}
				}
				if _, err := w.doDump(1, false, false); err != nil {
					return err
				}
				w.close()
				rec = TraceRec{Kind: "trace", Beh: bi, Step: oi, Tag: "real", Events: w.events, Slow: w.slow}
				if !w.slow {
					break
				}
			}
			vh.Emit(rec)
		}
	}
	// (3) lazy bursts
	for bi := range j.LazyBeh {
		var rec TraceRec
		for attempt := 0; attempt < 3; attempt++ {
			rec, err = runLazy(bi, &j.LazyBeh[bi], &j.Map, hv, lazyOpts{Mult: j.Burst})
			if err != nil {
				return fmt.Errorf("lazy behaviour %d: %w", bi, err)
			}
			if !rec.Slow {
				break
			}
		}
		vh.Emit(rec)
	}
	if j.Straddle > 0 {
		straddle(&j.Map, hv, j.Straddle)
	}
	if j.RealTime {
		realTime(&j.Map, hv)
	}
	return nil
}

func (n *fakeNext) setBG(f func(*query_context.Context) *dns.Msg) {
	n.mu.Lock()
	n.bgHook = f
	n.mu.Unlock()
}

// MsgStorable: used only to decide how long to WAIT for the background store (never for a verdict):
// answers with records and rcode 0/2/3 are usually stored; others are waited for briefly.
func MsgStorable(r AR) bool { return !r.Tc && len(r.Ttls) > 0 && (r.Rc == 0 || r.Rc == 3 || r.Rc == 2) }

// realTime: confirmations in real time around the SERVFAIL (5 s) and NXDOMAIN (30 s) bounds.
func realTime(m *Map, hv *keyHarvester) {
	type sc struct {
		name   string
		r      AR
		sleeps []float64 // seconds between probes
	}
	scs := []sc{
		{"servfail", AR{Rc: 2, Ttls: []int{}}, []float64{2.5, 5.0}},
		{"servfail-with-ttl-40", AR{Rc: 2, Ttls: []int{40}, Nan: 0}, []float64{2.5, 5.0}},
		{"nxdomain", AR{Rc: 3, Ttls: []int{40}}, []float64{27.5, 5.0}},
		{"empty-noerror-ttl-8", AR{Rc: 0, Ttls: []int{8}}, []float64{5.5, 5.0}},
		{"answer-ttl-8", AR{Rc: 0, Nan: 1, Ttls: []int{8, 20}}, []float64{5.5, 5.0}},
	}
	var wg sync.WaitGroup
	for si, s := range scs {
		si, s := si, s
		wg.Add(1)
		go func() {
			defer wg.Done()
			w := newWorld(m, 0, hv, []int{1})
			defer w.close()
			kn := map[int]known{}
			q := AQ{N: "n1", T: "t1", C: "c1", F: 0, K: "std"}
			t0 := time.Now()
			w.doExec(1, q, s.r, kn)
			for _, d := range s.sleeps {
				target := time.Duration((float64(w.now) + d) * float64(time.Second))
				time.Sleep(time.Until(t0.Add(target)))
				el := time.Since(t0)
				w.setNow(int(el / time.Second))
				// only probe when the wall clock is safely inside the second (skew band of the spec)
				if fr := el % time.Second; fr < 200*time.Millisecond || fr > 800*time.Millisecond {
					w.notes = append(w.notes, "probe skipped: too close to a second boundary")
					continue
				}
				w.doExec(1, q, AR{Rc: 0, Nan: 1, Ttls: []int{77}}, kn)
			}
			vh.Emit(TraceRec{Kind: "trace", Beh: si, Tag: "realtime-" + s.name, Events: w.events, Slow: false, Notes: w.notes})
		}()
	}
	wg.Wait()
}

// straddle: "lowered by the WHOLE seconds elapsed": an answer stored late in a wall-clock second and served
// early in the next one, less than one second later, must be served with its TTLs unchanged. The harness
// measures the wall clock around both calls; only if less than 0.95 s passed in total the lookup is
// logged with "skew": 0 (no one-second band), otherwise the round is discarded.
func straddle(m *Map, hv *keyHarvester, rounds int) {
	q := AQ{N: "n1", T: "t1", C: "c1", F: 0, K: "std"}
	for r := 0; r < rounds; r++ {
		for attempt := 0; attempt < 3; attempt++ {
			w := newWorld(m, 0, hv, []int{1})
			kn := map[int]known{}
			w.inst(1)
			for {
				f := time.Now().Nanosecond()
				if f >= 780e6 && f <= 860e6 {
					break
				}
				time.Sleep(4 * time.Millisecond)
			}
			ta := time.Now()
			w.base = ta
			w.doExec(1, q, AR{Rc: 0, Nan: 1, Ttls: []int{8, 20}}, kn)
			time.Sleep(time.Until(ta.Truncate(time.Second).Add(time.Second + time.Duration(120+40*r)*time.Millisecond)))
			w.doExec(1, q, AR{Rc: 0, Nan: 1, Ttls: []int{77}}, kn)
			tb := time.Now()
			w.close()
			if tb.Sub(ta) >= 950*time.Millisecond {
				continue // a full second may have passed: no exact expectation
			}
			w.events[len(w.events)-1]["skew"] = 0
			vh.Emit(TraceRec{Kind: "trace", Beh: r, Tag: "straddle", Events: w.events, Slow: false,
				Extra: ev{"elapsed_ms": int(tb.Sub(ta) / time.Millisecond)}})
			break
		}
	}
}
