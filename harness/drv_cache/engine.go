//go:build verif

package main

import (
	"fmt"
	"time"

	"github.com/miekg/dns"
)

// Generic replay engine: executes the steps of an abstract behaviour on real plugin instances and
// records the trace events of spec/CachePlugin_Trace.tla (in abstract terms, mapped back through
// the concretization map).  Abstract time is realised by INJECTION only: an abstract cache state
// (exported by TLC) is loaded through POST /load_dump with stored/expiry times placed relative
// to the wall clock.

type ev = map[string]any

type world struct {
	m        *Map
	lazy     int
	insts    map[int]*inst
	hv       *keyHarvester
	base     time.Time // wall time that corresponds to abstract `now`
	now      int       // abstract now
	events   []ev
	serial   int
	slow     bool
	lastDump []byte
	handles  []handle
	notes    []string
	size     int
	nextPrep func(*callScript) // applied to the next doExec call script, then cleared
}

type handle struct {
	i    int
	id   int
	kind string
	msg  *dns.Msg
}

func newWorld(m *Map, lazy int, hv *keyHarvester, loose []int) *world {
	w := &world{m: m, lazy: lazy, insts: map[int]*inst{}, hv: hv, serial: 1, size: 4096}
	if loose == nil {
		loose = []int{}
	}
	w.events = append(w.events, ev{"ev": "Reset", "lazy": lazy, "loose": loose})
	return w
}

func (w *world) inst(i int) *inst {
	if in, ok := w.insts[i]; ok {
		return in
	}
	in, err := newInst(w.lazy, w.size)
	if err != nil {
		panic(err)
	}
	w.insts[i] = in
	return in
}

func (w *world) close() {
	for _, in := range w.insts {
		in.close()
	}
}

// checkClock: every real phase must fit into the 1-s skew band of the trace spec.
func (w *world) checkClock() {
	if !w.base.IsZero() && time.Since(w.base) > 900*time.Millisecond {
		w.slow = true
	}
}

func (w *world) setNow(now int) {
	if now != w.now {
		w.events = append(w.events, ev{"ev": "Tick", "d": now - w.now})
		w.now = now
	}
}

func absQ(q AQ) ev {
	k := q.K
	if k == "" {
		k = "std"
	}
	return ev{"n": q.N, "t": q.T, "c": q.C, "f": q.F, "k": k}
}
func absOwner(q AQ) ev { return ev{"n": q.N, "t": q.T, "c": q.C, "f": q.F} }
func absR(r AR) ev {
	t := r.Ttls
	if t == nil {
		t = []int{}
	}
	return ev{"rc": r.Rc, "tc": r.Tc, "nan": r.Nan, "ttls": t, "opt": r.Opt}
}

// entryMsg: the message an entry holds = what `next` answered, without OPT (packed form).
func entryMsg(cq CQ, ar AR, id int) *dns.Msg {
	q := buildQuery(cq, 0)
	r := buildAnswer(q, cq, ar, id, 0)
	r.Id = 0
	return r
}

// inject loads abstract entries (times relative to abstract now) into instance i at wall time base.
func (w *world) inject(i int, ents []AEntry) error {
	if w.base.IsZero() {
		w.base = time.Now()
	}
	baseU := w.base.Unix()
	var ces []*CachedEntry
	var evs []ev
	for _, e := range ents {
		q := e.Owner
		q.K = "std"
		cq, err := w.m.conc(q)
		if err != nil {
			return err
		}
		k, err := w.hv.key(cq)
		if err != nil {
			return err
		}
		msg, err := entryMsg(cq, e.R, e.Id).Pack()
		if err != nil {
			return err
		}
		ces = append(ces, &CachedEntry{Key: k, Msg: msg,
			CacheExpirationTime: baseU + int64(e.CacheExp-w.now),
			MsgExpirationTime:   baseU + int64(e.MsgExp-w.now),
			MsgStoredTime:       baseU + int64(e.Stored-w.now)})
		evs = append(evs, ev{"q": absQ(q), "id": e.Id, "r": absR(e.R), "stored": e.Stored, "msgExp": e.MsgExp, "cacheExp": e.CacheExp})
		if e.Id >= w.serial {
			w.serial = e.Id + 1
		}
	}
	if evs == nil {
		evs = []ev{}
	}
	if len(ces) > 0 {
		code, body := w.inst(i).api("POST", "/load_dump", encodeDump(ces, 128))
		if code != 200 {
			return fmt.Errorf("injection refused: %d %s", code, body)
		}
	} else {
		w.inst(i)
	}
	w.events = append(w.events, ev{"ev": "Inject", "i": i, "ents": evs})
	return nil
}

// contOf: "orig" iff the served message equals (packed, TTLs and ID normalised) what was stored for
// this serial, "mut" otherwise.
func contOf(served *dns.Msg, cq CQ, ar AR, id int) string {
	if id < 0 {
		return "orig"
	}
	want := entryMsg(cq, ar, id)
	got := served.Copy()
	got.Id = 0
	for _, m := range []*dns.Msg{want, got} {
		for _, sec := range [][]dns.RR{m.Answer, m.Ns, m.Extra} {
			for _, rr := range sec {
				rr.Header().Ttl = 0
			}
		}
	}
	// the question section of a hit is the storing query's; header bits of the stored reply
	wb, err1 := want.Pack()
	gb, err2 := got.Pack()
	if err1 != nil || err2 != nil || string(wb) != string(gb) {
		return "mut"
	}
	return "orig"
}

type known struct {
	cq CQ
	ar AR
}

// doExec runs one Exec for real and appends the event. known: serial -> what was stored under it.
func (w *world) doExec(i int, q AQ, r AR, knownIDs map[int]known) (COb, execResult, error) {
	cq, err := w.m.conc(q)
	if err != nil {
		return COb{}, execResult{}, err
	}
	sid := w.serial
	prep := w.nextPrep
	w.nextPrep = nil
	er := w.inst(i).execCS(cq, r, sid, prep)
	o := observe(er, 5)
	w.checkClock()
	ao := toAbs(w.m, o)
	if o.Res == "miss" {
		w.serial++
		knownIDs[sid] = known{cq, r}
		if er.cs.orig != nil {
			w.handles = append(w.handles, handle{i, sid, "orig", er.cs.orig})
		}
	}
	if o.Res == "hit" {
		if kn, ok := knownIDs[o.Sid]; ok {
			served := er.resp
			if er.cs.servedCopy != nil {
				served = er.cs.servedCopy
			}
			ao.Cont = contOf(served, kn.cq, kn.ar, o.Sid)
		}
		if o.HasOpt {
			ao.Cont = "mut" // an OPT must never come out of the cache
		}
		if o.Sid < 0 && o.NRec > 0 {
			ao.Cont = "mut" // every answer with records names its serial in record 0
		}
		w.handles = append(w.handles, handle{i, o.Sid, "hit", er.resp})
	}
	e := ev{"ev": "Exec", "i": i, "q": absQ(q), "r": absR(r), "sid": sid,
		"o": ev{"res": ao.Res, "owner": absOwner(ao.Owner), "id": ao.Id, "ttls": ao.Ttls, "cont": ao.Cont, "idok": ao.Idok}}
	if o.Note != "" {
		e["note"] = o.Note
	}
	w.events = append(w.events, e)
	return o, er, nil
}

// doDump: GET /dump, decoded into [id, rem, crem, age] per entry.
func (w *world) doDump(i int, withAge bool, set bool) ([]byte, error) {
	du := nowUnix()
	code, body := w.inst(i).api("GET", "/dump", nil)
	return w.dumpEvent(i, du, code, body, withAge, set)
}

// dumpEvent records a dump (from GET /dump or read from the dump file) as a trace event.
func (w *world) dumpEvent(i int, du int64, code int, body []byte, withAge bool, set bool) ([]byte, error) {
	w.checkClock()
	var ents []*CachedEntry
	if code == 200 {
		var err error
		if ents, err = decodeDump(body); err != nil {
			code = 599 // 200 but not a readable dump (e.g. aborted half way)
			w.notes = append(w.notes, "dump undecodable: "+err.Error())
		}
	} else {
		w.notes = append(w.notes, fmt.Sprintf("GET /dump: %d %s", code, string(body[:min(len(body), 160)])))
	}
	if code != 200 {
		w.events = append(w.events, ev{"ev": "Dump", "i": i, "ents": []ev{}, "set": set, "status": code})
		return nil, nil
	}
	xs := []ev{}
	for _, e := range ents {
		m := new(dns.Msg)
		id := -1
		if err := m.Unpack(e.GetMsg()); err == nil {
			id, _, _ = parseID(m)
		}
		age := -1
		if withAge {
			age = clampInt(du - e.GetMsgStoredTime())
		}
		xs = append(xs, ev{"id": id, "rem": clampInt(e.GetMsgExpirationTime() - du), "crem": clampInt(e.GetCacheExpirationTime() - du), "age": age})
	}
	w.events = append(w.events, ev{"ev": "Dump", "i": i, "ents": xs, "set": set, "status": 200})
	if set {
		w.lastDump = body
	}
	return body, nil
}

func clampInt(v int64) int {
	const lim = 2000000000 // TLC integers are 32 bit
	if v > lim {
		return lim
	}
	if v < -lim {
		return -lim
	}
	return int(v)
}

func (w *world) doLoad(j int, body []byte, cut bool) int {
	code, _ := w.inst(j).api("POST", "/load_dump", body)
	w.checkClock()
	name := "Load"
	if cut {
		name = "LoadCut"
	}
	w.events = append(w.events, ev{"ev": name, "j": j, "status": code})
	return code
}

func (w *world) doFlush(i int, strict bool) {
	w.inst(i).flush()
	w.events = append(w.events, ev{"ev": "Flush", "i": i, "strict": strict})
}

type TraceRec struct {
	Kind   string   `json:"kind"`
	Beh    int      `json:"beh"`
	Step   int      `json:"step"`
	Tag    string   `json:"tag"`
	Events []ev     `json:"events"`
	Slow   bool     `json:"slow"`
	Notes  []string `json:"notes,omitempty"`
	Extra  ev       `json:"extra,omitempty"`
}
