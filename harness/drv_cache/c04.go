//go:build verif

package main

import (
	"fmt"
	"sync"
	"time"

	"verif/harness/vh"
)

// C04Job: replay abstract behaviours (sequences of Exec(q)) under concretization maps.
type C04Job struct {
	Behaviours []Behaviour `json:"behaviours"`
	Maps       []Map       `json:"maps"`
	Pairs      [][2]int    `json:"pairs"`  // (behaviour index, map index) to replay; empty = all x all
	Detail     bool        `json:"detail"` // emit every replay (for leg C); otherwise only mismatches + summary
	Sweeps     []Sweep     `json:"sweeps"`
	Mass       []Mass      `json:"mass"`
	// lazy-cache behaviours (stale hit, background refresh) realised behind a rewrite-and-restore plugin
	LazyBeh    []Behaviour `json:"lazy_beh"`
	LazyMap    *Map        `json:"lazy_map"`
	LazyRounds int         `json:"lazy_rounds"`
	// 2-operation behaviours whose two queries OVERLAP: the first is held inside `next` while the second runs
	Overlap [][2]int `json:"overlap"`
	// behaviours with Dump/Load steps on two instances, realised through GET /dump and POST /load_dump
	RestartBeh  []Behaviour `json:"restart_beh"`
	RestartMaps []int       `json:"restart_maps"`
}

// Sweep: the same abstract behaviour replayed once per concrete value v of one dimension, the
// second abstract symbol mapped to partner(v).
type Sweep struct {
	Dim      string   `json:"dim"` // "type" | "class"
	Beh      int      `json:"beh"` // index into Behaviours
	Base     Map      `json:"base"`
	SymA     string   `json:"sym_a"`
	SymB     string   `json:"sym_b"`
	Partners []string `json:"partners"`
	Lo       int      `json:"lo"`
	Hi       int      `json:"hi"`
}

// Mass: all 65536 values of one dimension in ONE plugin instance: store every value, look every
// value up (forward or reverse); the per-operation expectation is the one TLC gives for the
// 2-symbol behaviour S(a) S(b) L(a) L(b) (Beh), of which the run is the superposition.
type Mass struct {
	Dim     string `json:"dim"`
	Beh     int    `json:"beh"`
	Base    Map    `json:"base"`
	Reverse bool   `json:"reverse"`
}

type StepObs struct {
	Q   AQ   `json:"q"`
	CQ  CQ   `json:"cq"`
	O   COb  `json:"o"`
	AO  AObs `json:"ao"`  // observation mapped back to abstract terms
	R   AR   `json:"r"`   // the answer `next` was scripted to give
	Sid int  `json:"sid"` // serial offered to this call's `next`
	Ok  bool `json:"ok"`  // equals TLC's expectation
}

type C04Rec struct {
	Kind    string    `json:"kind"` // replay | sweep | mass | summary
	Beh     int       `json:"beh"`
	Map     int       `json:"map"`
	Tag     string    `json:"tag"`
	Steps   []StepObs `json:"steps,omitempty"`
	Match   bool      `json:"match"`
	Value   int       `json:"value,omitempty"`
	Partner string    `json:"partner,omitempty"`
	N       int       `json:"n"`
	Hits    int       `json:"hits"`
	Mism    int       `json:"mism"`
	Note    string    `json:"note,omitempty"`
	MapV    *Map      `json:"mapv,omitempty"`
}

// toAbs maps a concrete observation back through the map; serial numbers are the harness' own and
// equal TLC's (both count `next` answers from 1 within one replay).
func toAbs(m *Map, o COb) AObs {
	a := AObs{Res: o.Res, Id: 0, Ttls: o.Ttls, Cont: "orig", Idok: o.Idok, Owner: AQ{N: "-", T: "-", C: "-"}}
	if o.Res == "hit" || o.Res == "joined" {
		q, ok := m.abs(o.Owner)
		if !ok {
			q = AQ{N: "?" + q.N, T: "?" + q.T, C: "?" + q.C, F: q.F}
		}
		a.Owner = q
		a.Id = o.Sid
	}
	return a
}

func replayOne(in *inst, b *Behaviour, m *Map) ([]StepObs, bool, int, error) {
	in.flush()
	serial := 1
	match := true
	hits := 0
	out := make([]StepObs, 0, len(b.Steps))
	for _, st := range b.Steps {
		if st.A != "Exec" {
			return nil, false, 0, fmt.Errorf("c04: unexpected step %s", st.A)
		}
		cq, err := m.conc(st.Q)
		if err != nil {
			return nil, false, 0, err
		}
		r := st.R
		if m.Resp != nil {
			r = *m.Resp
		}
		er := in.exec(cq, r, serial)
		o := observe(er, 5)
		so := StepObs{Q: st.Q, CQ: cq, O: o, R: r, Sid: serial, AO: toAbs(m, o)}
		if o.Res == "miss" || o.Res == "bypass" {
			if o.Res == "miss" {
				serial++
			}
		}
		if o.Res == "hit" {
			hits++
		}
		exp := st.O
		// (an answer without records carries neither serial nor flags: -1 = not observable)
		so.Ok = exp.Res == so.AO.Res && (exp.Res != "hit" || ((exp.Id == so.AO.Id || so.AO.Id == -1) && exp.Owner.N == so.AO.Owner.N &&
			exp.Owner.T == so.AO.Owner.T && exp.Owner.C == so.AO.Owner.C && (exp.Owner.F == so.AO.Owner.F || so.AO.Owner.F == -1) && so.AO.Idok))
		if !so.Ok {
			match = false
		}
		out = append(out, so)
	}
	return out, match, hits, nil
}

func partner(name string, v int) int {
	switch name {
	case "add256":
		return (v + 256) & 0xffff
	case "xor256":
		return v ^ 0x100
	case "xorhi":
		return v ^ 0xff00
	case "xorlo":
		return v ^ 0x00ff
	case "swap":
		return ((v << 8) | (v >> 8)) & 0xffff
	case "lowonly":
		return v & 0xff
	case "hionly":
		return v >> 8
	case "neg":
		return 0xffff - v
	case "xor8000":
		return v ^ 0x8000
	case "inc":
		return (v + 1) & 0xffff
	case "zero":
		return 0
	case "max":
		return 0xffff
	case "shl8":
		return (v << 8) & 0xffff
	}
	panic("unknown partner " + name)
}

func runC04(j *C04Job) error {
	const W = 8
	var mu sync.Mutex
	total, mism, hits := 0, 0, 0
	emit := func(kind string, bi, mi int, m *Map, steps []StepObs, match bool, h int, extra func(*C04Rec)) {
		mu.Lock()
		total++
		hits += h
		if !match {
			mism++
		}
		skip := !j.Detail && (match || mism > 400)
		mu.Unlock()
		if skip {
			return
		}
		r := C04Rec{Kind: kind, Beh: bi, Map: mi, Tag: m.Tag, Steps: steps, Match: match}
		if kind != "replay" {
			mc := *m
			r.MapV = &mc
		}
		if extra != nil {
			extra(&r)
		}
		vh.Emit(r)
	}
	type unit func(in *inst) error
	work := make(chan unit, 1024)
	errs := make(chan error, W)
	var wg sync.WaitGroup
	for w := 0; w < W; w++ {
		in, err := newInst(0, 1<<16)
		if err != nil {
			return err
		}
		defer in.close()
		wg.Add(1)
		go func() {
			defer wg.Done()
			for u := range work {
				if err := u(in); err != nil {
					select {
					case errs <- err:
					default:
					}
				}
			}
		}()
	}
	pairs := j.Pairs
	if len(pairs) == 0 {
		for bi := range j.Behaviours {
			for mi := range j.Maps {
				pairs = append(pairs, [2]int{bi, mi})
			}
		}
	}
	const chunk = 256
	for lo := 0; lo < len(pairs); lo += chunk {
		part := pairs[lo:min(lo+chunk, len(pairs))]
		work <- func(in *inst) error {
			for _, p := range part {
				steps, match, h, err := replayOne(in, &j.Behaviours[p[0]], &j.Maps[p[1]])
				if err != nil {
					return err
				}
				emit("replay", p[0], p[1], &j.Maps[p[1]], steps, match, h, nil)
			}
			return nil
		}
	}
	for si := range j.Sweeps {
		sw := j.Sweeps[si]
		hi := sw.Hi
		if hi == 0 {
			hi = 65535
		}
		for lo := sw.Lo; lo <= hi; lo += 1024 {
			lo, top := lo, min(lo+1023, hi)
			work <- func(in *inst) error {
				for v := lo; v <= top; v++ {
					for _, pn := range sw.Partners {
						w := partner(pn, v)
						if w == v {
							continue
						}
						m := sw.Base
						m.Tag = fmt.Sprintf("sweep-%s-%s", sw.Dim, pn)
						if sw.Dim == "type" {
							m.Types = map[string]uint16{sw.SymA: uint16(v), sw.SymB: uint16(w)}
						} else {
							m.Classes = map[string]uint16{sw.SymA: uint16(v), sw.SymB: uint16(w)}
						}
						steps, match, h, err := replayOne(in, &j.Behaviours[sw.Beh], &m)
						if err != nil {
							return err
						}
						vv, pp := v, pn
						emit("sweep", sw.Beh, -1, &m, steps, match, h, func(r *C04Rec) { r.Value, r.Partner = vv, pp })
					}
				}
				return nil
			}
		}
	}
	close(work)
	wg.Wait()
	select {
	case err := <-errs:
		return err
	default:
	}
	// mass runs: each in its own big instance, in parallel
	var mwg sync.WaitGroup
	merr := make(chan error, len(j.Mass)+1)
	for _, ms := range j.Mass {
		ms := ms
		mwg.Add(1)
		go func() {
			defer mwg.Done()
			in, err := newInst(0, 1<<21)
			if err != nil {
				merr <- err
				return
			}
			defer in.close()
			t, mm, hh := 0, 0, 0
			if err := runMass(in, j, ms, &t, &mm, &hh); err != nil {
				merr <- err
			}
			mu.Lock()
			total, mism, hits = total+t, mism+mm, hits+hh
			mu.Unlock()
		}()
	}
	mwg.Wait()
	select {
	case err := <-merr:
		return err
	default:
	}
	for _, p := range j.Overlap {
		m := &j.Maps[p[1]]
		steps, match, err := overlapOne(&j.Behaviours[p[0]], m)
		if err != nil {
			return err
		}
		mu.Lock()
		total++
		if !match {
			mism++
		}
		mu.Unlock()
		if !match || j.Detail {
			mc := *m
			vh.Emit(C04Rec{Kind: "overlap", Beh: p[0], Map: p[1], Tag: "overlap:" + m.Tag, Steps: steps, Match: match, MapV: &mc})
		}
	}
	if len(j.RestartBeh) > 0 {
		hv, err := newHarvester()
		if err != nil {
			return err
		}
		for bi := range j.RestartBeh {
			for _, mi := range j.RestartMaps {
				rec, err := restartOne(bi, &j.RestartBeh[bi], &j.Maps[mi], hv)
				if err != nil {
					hv.in.close()
					return err
				}
				rec.Step = mi
				vh.Emit(rec)
			}
		}
		hv.in.close()
	}
	if len(j.LazyBeh) > 0 {
		hv, err := newHarvester()
		if err != nil {
			return err
		}
		defer hv.in.close()
		for bi := range j.LazyBeh {
			for round := 0; round < max(j.LazyRounds, 1); round++ {
				for _, o := range []lazyOpts{
					{Mult: 1, Via: true, Procs1: true, Probe: true, Tag: "lazy-via-rewrite"},
					{Mult: 1, Via: true, Procs1: false, Probe: true, Tag: "lazy-via-rewrite"},
					{Mult: 1, Via: false, Procs1: round%2 == 0, Probe: true, Tag: "lazy-direct"},
				} {
					var rec TraceRec
					for attempt := 0; attempt < 3; attempt++ {
						rec, err = runLazy(bi, &j.LazyBeh[bi], j.LazyMap, hv, o)
						if err != nil {
							return fmt.Errorf("lazy behaviour %d: %w", bi, err)
						}
						if !rec.Slow {
							break
						}
					}
					vh.Emit(rec)
				}
			}
		}
	}
	vh.Emit(C04Rec{Kind: "summary", N: total, Mism: mism, Hits: hits, Match: mism == 0})
	return nil
}

// runMass: see Mass. Behaviour Beh must be S(a) S(b) L(a) L(b) with a, b differing in Dim only.
func runMass(in *inst, j *C04Job, ms Mass, total, mism, hits *int) error {
	b := &j.Behaviours[ms.Beh]
	if len(b.Steps) != 4 || b.Steps[0].Q != b.Steps[2].Q || b.Steps[1].Q != b.Steps[3].Q {
		return fmt.Errorf("mass: behaviour %d is not S(a) S(b) L(a) L(b)", ms.Beh)
	}
	expStore, expLook := b.Steps[0].O, b.Steps[2].O // by symmetry the same for a and b
	if b.Steps[1].O.Res != expStore.Res || b.Steps[3].O.Res != expLook.Res {
		return fmt.Errorf("mass: behaviour %d is not symmetric", ms.Beh)
	}
	in.flush()
	aq := b.Steps[0].Q
	mk := func(v int) (CQ, Map) {
		m := ms.Base
		if ms.Dim == "type" {
			m.Types = map[string]uint16{aq.T: uint16(v)}
		} else {
			m.Classes = map[string]uint16{aq.C: uint16(v)}
		}
		cq, err := m.conc(aq)
		if err != nil {
			panic(err)
		}
		return cq, m
	}
	bad := 0
	report := func(phase string, v int, cq CQ, o COb, m Map, sid int) {
		*mism++
		bad++
		if bad <= 20 {
			m.Tag = "mass-" + ms.Dim
			vh.Emit(C04Rec{Kind: "mass", Beh: ms.Beh, Map: -1, Tag: m.Tag, Match: false, Value: v, Note: phase, MapV: &m,
				Steps: []StepObs{{Q: aq, CQ: cq, O: o, Sid: sid, AO: toAbs(&m, o)}}})
		}
	}
	order := make([]int, 65536)
	for i := range order {
		if ms.Reverse {
			order[i] = 65535 - i
		} else {
			order[i] = i
		}
	}
	for _, v := range order { // store phase: sid = v+1
		cq, m := mk(v)
		o := observe(in.exec(cq, b.Steps[0].R, v+1), 5)
		*total++
		if o.Res != expStore.Res {
			report("store", v, cq, o, m, v+1)
		}
	}
	for v := 0; v < 65536; v++ { // lookup phase
		cq, m := mk(v)
		o := observe(in.exec(cq, b.Steps[2].R, 100000+v), 5)
		*total++
		if o.Res == "hit" {
			*hits++
		}
		// expectation of TLC for L(a): a hit that serves a's own stored answer
		ok := o.Res == expLook.Res && (o.Res != "hit" || (o.Sid == v+1 && o.Owner == CQ{Name: cq.Name, Type: cq.Type, Class: cq.Class, Flags: cq.Flags} && o.Idok))
		if !ok {
			report("lookup", v, cq, o, m, 100000+v)
		}
	}
	return nil
}

var overlapInst *inst

// overlapOne: Exec(q1) is held inside `next`; Exec(q2) runs meanwhile (it either reaches `next` too or
// waits inside the plugin); then the first, then the second is released. Events are logged in that order.
func overlapOne(b *Behaviour, m *Map) ([]StepObs, bool, error) {
	if len(b.Steps) != 2 {
		return nil, false, fmt.Errorf("overlap needs a 2-operation behaviour")
	}
	if overlapInst == nil {
		in, err := newInst(0, 1<<16)
		if err != nil {
			return nil, false, err
		}
		overlapInst = in
	}
	in := overlapInst
	in.flush()
	type call struct {
		cq      CQ
		r       AR
		gate    chan struct{}
		arrived chan struct{}
		res     chan execResult
	}
	var calls [2]*call
	for k := 0; k < 2; k++ {
		cq, err := m.conc(b.Steps[k].Q)
		if err != nil {
			return nil, false, err
		}
		r := b.Steps[k].R
		if m.Resp != nil {
			r = *m.Resp
		}
		calls[k] = &call{cq: cq, r: r, gate: make(chan struct{}), arrived: make(chan struct{}), res: make(chan execResult, 1)}
	}
	start := func(k int) {
		c := calls[k]
		go func() {
			c.res <- in.execCS(c.cq, c.r, k+1, func(cs *callScript) { cs.gate, cs.arrived = c.gate, c.arrived })
		}()
	}
	start(0)
	select {
	case <-calls[0].arrived:
	case <-time.After(2 * time.Second):
		return nil, false, fmt.Errorf("overlap: the first query never reached next")
	}
	start(1)
	select {
	case <-calls[1].arrived:
	case <-time.After(15 * time.Millisecond): // parked inside the plugin (or served without next)
	}
	out := make([]StepObs, 0, 2)
	match := true
	for k := 0; k < 2; k++ {
		close(calls[k].gate)
		var er execResult
		select {
		case er = <-calls[k].res:
		case <-time.After(3 * time.Second):
			return nil, false, fmt.Errorf("overlap: query %d did not return", k+1)
		}
		o := observe(er, 5)
		so := StepObs{Q: b.Steps[k].Q, CQ: calls[k].cq, O: o, R: calls[k].r, Sid: k + 1, AO: toAbs(m, o)}
		exp := b.Steps[k].O
		so.Ok = (exp.Res == so.AO.Res && (exp.Res != "hit" || ((exp.Id == so.AO.Id || so.AO.Id == -1) && exp.Owner.N == so.AO.Owner.N &&
			exp.Owner.T == so.AO.Owner.T && exp.Owner.C == so.AO.Owner.C && (exp.Owner.F == so.AO.Owner.F || so.AO.Owner.F == -1)))) ||
			(exp.Res == "hit" && so.AO.Res == "miss") // overlapping equal questions may both miss
		if !so.Ok {
			match = false
		}
		out = append(out, so)
	}
	return out, match, nil
}

// restartOne: a behaviour with Exec / Dump / Load steps on two instances at abstract time 0.
func restartOne(bi int, b *Behaviour, m *Map, hv *keyHarvester) (TraceRec, error) {
	var rec TraceRec
	for attempt := 0; attempt < 3; attempt++ {
		w := newWorld(m, 0, hv, []int{1, 2})
		w.base = time.Now()
		kn := map[int]known{}
		for si, st := range b.Steps {
			switch st.A {
			case "Exec":
				r := st.R
				if m.Resp != nil {
					r = *m.Resp
				}
				if _, _, err := w.doExec(st.I, st.Q, r, kn); err != nil {
					return rec, err
				}
			case "Dump":
				body, err := w.doDump(st.I, true, true)
				if err != nil {
					return rec, err
				}
				if body == nil {
					w.close()
					return TraceRec{Kind: "trace", Beh: bi, Tag: "restart:" + m.Tag, Events: w.events, Notes: w.notes}, nil
				}
			case "Load":
				if w.lastDump == nil {
					return rec, fmt.Errorf("restart behaviour %d step %d: Load without dump", bi, si)
				}
				w.doLoad(st.J, w.lastDump, false)
			default:
				return rec, fmt.Errorf("restart behaviour %d step %d: %s", bi, si, st.A)
			}
		}
		// finally every question of the behaviour is looked up on every instance (TLC judges the trace)
		seenQ := map[AQ]bool{}
		for _, st := range b.Steps {
			if st.A != "Exec" || seenQ[st.Q] {
				continue
			}
			seenQ[st.Q] = true
			for _, i := range []int{1, 2} {
				if _, ok := w.insts[i]; !ok {
					continue
				}
				r := st.R
				if m.Resp != nil {
					r = *m.Resp
				}
				if _, _, err := w.doExec(i, st.Q, r, kn); err != nil {
					return rec, err
				}
			}
		}
		w.close()
		rec = TraceRec{Kind: "trace", Beh: bi, Tag: "restart:" + m.Tag, Events: w.events, Slow: w.slow, Notes: w.notes}
		if !w.slow {
			break
		}
	}
	return rec, nil
}
