//go:build verif

package main

import (
	"fmt"

	"verif/harness/vh"
)

// C04Job: replay abstract behaviours (sequences of Exec(q)) under concretization maps.
type C04Job struct {
	Behaviours []Behaviour `json:"behaviours"`
	Maps       []Map       `json:"maps"`
	Pairs      [][2]int    `json:"pairs"`  // (behaviour index, map index) to replay; empty = all x all
	Detail     bool        `json:"detail"` // emit every replay (for leg C); otherwise only mismatches + summary
	Sweeps     []Sweep     `json:"sweeps"`
	Mass       []Mass      `json:"mass"`
}

// Sweep: the same abstract behaviour replayed once per concrete value v of one dimension, the
// second abstract symbol mapped to partner(v).
type Sweep struct {
	Dim      string   `json:"dim"` // "type" | "class"
	Beh      int      `json:"beh"` // index into Behaviours
	Base     Map      `json:"base"`
	A, B     string   // abstract symbols (json below)
	SymA     string   `json:"sym_a"`
	SymB     string   `json:"sym_b"`
	Partners []string `json:"partners"`
	From, To int
	Lo       int `json:"lo"`
	Hi       int `json:"hi"`
}

// Mass: all 65536 values of one dimension in ONE plugin instance: store every value, look every
// value up (forward or reverse); the per-operation expectation is the one TLC gives for the
// 2-symbol behaviour S(a) S(b) L(a) L(b) (Beh), of which the run is the superposition.
type Mass struct {
	Dim     string `json:"dim"`
	Beh     int    `json:"beh"`
	Base    Map    `json:"base"`
	Reverse bool   `json:"reverse"`
}

type StepObs struct {
	Q   AQ   `json:"q"`
	CQ  CQ   `json:"cq"`
	O   COb  `json:"o"`
	AO  AObs `json:"ao"`  // observation mapped back to abstract terms
	Sid int  `json:"sid"` // serial offered to this call's `next`
	Ok  bool `json:"ok"`  // equals TLC's expectation
}

type C04Rec struct {
	Kind  string    `json:"kind"` // replay | sweep | mass | summary
	Beh   int       `json:"beh"`
	Map   int       `json:"map"`
	Tag   string    `json:"tag"`
	Steps []StepObs `json:"steps,omitempty"`
	Match bool      `json:"match"`
	Value int       `json:"value,omitempty"`
	Partner string  `json:"partner,omitempty"`
	N     int       `json:"n,omitempty"`
	Hits  int       `json:"hits,omitempty"`
	Mism  int       `json:"mism,omitempty"`
	Note  string    `json:"note,omitempty"`
	MapV  *Map      `json:"mapv,omitempty"`
}

// toAbs maps a concrete observation back through the map; serial numbers are the harness' own and
// equal TLC's (both count `next` answers from 1 within one replay).
func toAbs(m *Map, o COb) AObs {
	a := AObs{Res: o.Res, Id: 0, Ttls: o.Ttls, Cont: "orig", Idok: o.Idok, Owner: AQ{N: "-", T: "-", C: "-"}}
	if o.Res == "hit" {
		q, ok := m.abs(o.Owner)
		if !ok {
			q = AQ{N: "?" + q.N, T: "?" + q.T, C: "?" + q.C, F: q.F}
		}
		a.Owner = q
		a.Id = o.Sid
	}
	return a
}

func replayOne(in *inst, b *Behaviour, m *Map) ([]StepObs, bool, int, error) {
	in.flush()
	serial := 1
	match := true
	hits := 0
	out := make([]StepObs, 0, len(b.Steps))
	for _, st := range b.Steps {
		if st.A != "Exec" {
			return nil, false, 0, fmt.Errorf("c04: unexpected step %s", st.A)
		}
		cq, err := m.conc(st.Q)
		if err != nil {
			return nil, false, 0, err
		}
		er := in.exec(cq, st.R, serial)
		o := observe(er, 5)
		so := StepObs{Q: st.Q, CQ: cq, O: o, Sid: serial, AO: toAbs(m, o)}
		if o.Res == "miss" || o.Res == "bypass" {
			if o.Res == "miss" {
				serial++
			}
		}
		if o.Res == "hit" {
			hits++
		}
		exp := st.O
		so.Ok = exp.Res == so.AO.Res && (exp.Res != "hit" || (exp.Id == so.AO.Id && exp.Owner.N == so.AO.Owner.N &&
			exp.Owner.T == so.AO.Owner.T && exp.Owner.C == so.AO.Owner.C && exp.Owner.F == so.AO.Owner.F && so.AO.Idok))
		if !so.Ok {
			match = false
		}
		out = append(out, so)
	}
	return out, match, hits, nil
}

func partner(name string, v int) int {
	switch name {
	case "add256":
		return (v + 256) & 0xffff
	case "xor256":
		return v ^ 0x100
	case "xorhi":
		return v ^ 0xff00
	case "xorlo":
		return v ^ 0x00ff
	case "swap":
		return ((v << 8) | (v >> 8)) & 0xffff
	case "lowonly":
		return v & 0xff
	case "hionly":
		return v >> 8
	case "neg":
		return 0xffff - v
	case "xor8000":
		return v ^ 0x8000
	case "inc":
		return (v + 1) & 0xffff
	case "zero":
		return 0
	case "max":
		return 0xffff
	case "shl8":
		return (v << 8) & 0xffff
	}
	panic("unknown partner " + name)
}

func runC04(j *C04Job) error {
	in, err := newInst(0, 1<<21)
	if err != nil {
		return err
	}
	defer in.close()
	total, mism, hits := 0, 0, 0
	emit := func(kind string, bi, mi int, m *Map, steps []StepObs, match bool, extra func(*C04Rec)) {
		total++
		if !match {
			mism++
		}
		if j.Detail || !match {
			if !match && mism > 400 && !j.Detail {
				return
			}
			r := C04Rec{Kind: kind, Beh: bi, Map: mi, Tag: m.Tag, Steps: steps, Match: match}
			if kind != "replay" {
				r.MapV = m
			}
			if extra != nil {
				extra(&r)
			}
			vh.Emit(r)
		}
	}
	do := func(bi, mi int) error {
		steps, match, h, err := replayOne(in, &j.Behaviours[bi], &j.Maps[mi])
		if err != nil {
			return err
		}
		hits += h
		emit("replay", bi, mi, &j.Maps[mi], steps, match, nil)
		return nil
	}
	if len(j.Pairs) > 0 {
		for _, p := range j.Pairs {
			if err := do(p[0], p[1]); err != nil {
				return err
			}
		}
	} else {
		for bi := range j.Behaviours {
			for mi := range j.Maps {
				if err := do(bi, mi); err != nil {
					return err
				}
			}
		}
	}
	for _, sw := range j.Sweeps {
		hi := sw.Hi
		if hi == 0 {
			hi = 65535
		}
		for v := sw.Lo; v <= hi; v++ {
			for _, pn := range sw.Partners {
				w := partner(pn, v)
				if w == v {
					continue
				}
				m := sw.Base
				m.Tag = fmt.Sprintf("sweep-%s-%s", sw.Dim, pn)
				if sw.Dim == "type" {
					m.Types = map[string]uint16{sw.SymA: uint16(v), sw.SymB: uint16(w)}
				} else {
					m.Classes = map[string]uint16{sw.SymA: uint16(v), sw.SymB: uint16(w)}
				}
				steps, match, h, err := replayOne(in, &j.Behaviours[sw.Beh], &m)
				if err != nil {
					return err
				}
				hits += h
				vv, pp := v, pn
				emit("sweep", sw.Beh, -1, &m, steps, match, func(r *C04Rec) { r.Value, r.Partner = vv, pp })
			}
		}
	}
	for _, ms := range j.Mass {
		if err := runMass(in, j, ms, &total, &mism, &hits); err != nil {
			return err
		}
	}
	vh.Emit(C04Rec{Kind: "summary", N: total, Mism: mism, Hits: hits, Match: mism == 0})
	return nil
}

// runMass: see Mass. Behaviour Beh must be S(a) S(b) L(a) L(b) with a, b differing in Dim only.
func runMass(in *inst, j *C04Job, ms Mass, total, mism, hits *int) error {
	b := &j.Behaviours[ms.Beh]
	if len(b.Steps) != 4 || b.Steps[0].Q != b.Steps[2].Q || b.Steps[1].Q != b.Steps[3].Q {
		return fmt.Errorf("mass: behaviour %d is not S(a) S(b) L(a) L(b)", ms.Beh)
	}
	expStore, expLook := b.Steps[0].O, b.Steps[2].O // by symmetry the same for a and b
	if b.Steps[1].O.Res != expStore.Res || b.Steps[3].O.Res != expLook.Res {
		return fmt.Errorf("mass: behaviour %d is not symmetric", ms.Beh)
	}
	in.flush()
	aq := b.Steps[0].Q
	mk := func(v int) (CQ, Map) {
		m := ms.Base
		if ms.Dim == "type" {
			m.Types = map[string]uint16{aq.T: uint16(v)}
		} else {
			m.Classes = map[string]uint16{aq.C: uint16(v)}
		}
		cq, err := m.conc(aq)
		if err != nil {
			panic(err)
		}
		return cq, m
	}
	bad := 0
	report := func(phase string, v int, cq CQ, o COb, m Map, sid int) {
		*mism++
		bad++
		if bad <= 20 {
			m.Tag = "mass-" + ms.Dim
			vh.Emit(C04Rec{Kind: "mass", Beh: ms.Beh, Map: -1, Tag: m.Tag, Match: false, Value: v, Note: phase, MapV: &m,
				Steps: []StepObs{{Q: aq, CQ: cq, O: o, Sid: sid, AO: toAbs(&m, o)}}})
		}
	}
	order := make([]int, 65536)
	for i := range order {
		if ms.Reverse {
			order[i] = 65535 - i
		} else {
			order[i] = i
		}
	}
	for _, v := range order { // store phase: sid = v+1
		cq, m := mk(v)
		o := observe(in.exec(cq, b.Steps[0].R, v+1), 5)
		*total++
		if o.Res != expStore.Res {
			report("store", v, cq, o, m, v+1)
		}
	}
	for v := 0; v < 65536; v++ { // lookup phase
		cq, m := mk(v)
		o := observe(in.exec(cq, b.Steps[2].R, 100000+v), 5)
		*total++
		if o.Res == "hit" {
			*hits++
		}
		// expectation of TLC for L(a): a hit that serves a's own stored answer
		ok := o.Res == expLook.Res && (o.Res != "hit" || (o.Sid == v+1 && o.Owner == CQ{cq.Name, cq.Type, cq.Class, cq.Flags, ""} && o.Idok))
		if !ok {
			report("lookup", v, cq, o, m, 100000+v)
		}
	}
	return nil
}
