//go:build verif

// drv_framing: C16. Drives the REAL framing code of mosdns and records what it does at harness
// streams / connections:
//
//	sweep     every requested message length through the real writers (dnsutils.WriteRawMsgToTCP,
//	          dnsutils.WriteMsgToTCP = pool.PackTCPBuffer, the client transports' query write) into a
//	          harness conn that records each Write call, and the bytes back through the real reader
//	          (dnsutils.ReadRawMsgFromTCP, the transports' reply read) in scripted chunks; outcomes are
//	          compared with the class table TLC printed from Framing.tla at B = 256
//	replay    TLC-generated behaviours of Framing.tla (B = 4) under length maps that preserve the
//	          length classes, chunk positions mapped onto the concrete stream
//	streams   seeded arbitrary byte streams / constructed frame sequences with cuts fed to the reader
//	server    real server.ServeTCP on a harness listener: K pipelined queries, K concurrent replies
//
// Reader and writer runs are emitted as event traces for Framing_Trace.tla.
package main

import (
	"bytes"
	"context"
	"encoding/binary"
	"errors"
	"fmt"
	"io"
	"math/rand"
	"net"
	"os"
	"sync"
	"sync/atomic"
	"time"

	"github.com/IrineSistiana/mosdns/v5/pkg/dnsutils"
	"github.com/IrineSistiana/mosdns/v5/pkg/pool"
	"github.com/IrineSistiana/mosdns/v5/pkg/server"
	"github.com/IrineSistiana/mosdns/v5/pkg/upstream/transport"
	"github.com/miekg/dns"

	"verif/harness/vh"
)

type Row struct {
	From  int    `json:"from"`
	To    int    `json:"to"`
	Class string `json:"class"`
}

type Step struct {
	A   string `json:"a"`
	W   int    `json:"w"`
	N   int    `json:"n"`
	Ok  bool   `json:"ok"`
	K   int    `json:"k"`
	Cut int    `json:"cut"`
	Len int    `json:"len"`
}

type Beh struct {
	Steps     []Step `json:"steps"`
	Outcome   string `json:"outcome"`
	MinAcc    bool   `json:"minAcc"`
	Delivered []int  `json:"delivered"`
	Map       string `json:"map"` // A | B | C, chosen by the orchestrator (class preserving)
	Idx       int    `json:"idx"`
}

type Job struct {
	Table      []Row `json:"table"`
	Lens       []int `json:"lens"`       // sweep: raw writer + reader
	PackLens   []int `json:"pack_lens"`  // sweep: WriteMsgToTCP / PackTCPBuffer
	TransLens  []int `json:"trans_lens"` // sweep: client transports
	Behaviours []Beh `json:"behaviours"`
	Streams    int   `json:"streams"`
	ServerRuns int   `json:"server_runs"`
	StallRuns  int   `json:"stall_runs"`
	ServerK    int   `json:"server_k"`
	TraceEvery int   `json:"trace_every"` // emit the event traces of every n-th sweep length
}

type ev = map[string]any

type Out struct {
	Kind   string `json:"kind"` // sweep | replay | stream | server | summary
	What   string `json:"what,omitempty"`
	Len    int    `json:"len,omitempty"`
	Class  string `json:"class,omitempty"`
	Bad    string `json:"bad,omitempty"` // leg B mismatch description
	Idx    int    `json:"idx,omitempty"`
	Map    string `json:"map,omitempty"`
	Events []ev   `json:"events,omitempty"`
	N      int    `json:"n,omitempty"`
}

// ---------------------------------------------------------------------------------------------
// harness stream / conn
// ---------------------------------------------------------------------------------------------

// recWriter records every Write call.
type recWriter struct {
	mu     sync.Mutex
	writes [][]byte
}

func (w *recWriter) Write(b []byte) (int, error) {
	w.mu.Lock()
	w.writes = append(w.writes, append([]byte(nil), b...))
	w.mu.Unlock()
	return len(b), nil
}

// chunkReader serves data in scripted chunk sizes (never more than asked), then io.EOF, and logs
// Read / EOF events. opaque[i] marks bytes the harness placed as frame bodies.
type chunkReader struct {
	data   []byte
	opaque []bool
	script []int // chunk sizes; when exhausted: as much as asked
	pos    int
	si     int
	log    func(ev)
	tmoAt  map[int]bool // stream positions at which the next Read fails once with a deadline error
}

func (c *chunkReader) Read(p []byte) (int, error) {
	if len(p) == 0 {
		return 0, nil
	}
	if c.tmoAt[c.pos] {
		delete(c.tmoAt, c.pos)
		c.log(ev{"ev": "Timeout"})
		return 0, os.ErrDeadlineExceeded
	}
	if c.pos >= len(c.data) {
		c.log(ev{"ev": "EOF"})
		return 0, io.EOF
	}
	n := len(p)
	if c.si < len(c.script) {
		if c.script[c.si] < n {
			n = c.script[c.si]
			c.script[c.si] = 0
			c.si++
		} else {
			c.script[c.si] -= n
			if c.script[c.si] == 0 {
				c.si++
			}
		}
	}
	if n <= 0 {
		n = 1
	}
	if n > len(c.data)-c.pos {
		n = len(c.data) - c.pos
	}
	copy(p, c.data[c.pos:c.pos+n])
	items := []int{}
	run := 0
	for i := c.pos; i < c.pos+n; i++ {
		if c.opaque != nil && c.opaque[i] {
			run++
			continue
		}
		if run > 0 {
			items = append(items, -run)
			run = 0
		}
		items = append(items, int(c.data[i]))
	}
	if run > 0 {
		items = append(items, -run)
	}
	c.pos += n
	c.log(ev{"ev": "Read", "items": items})
	return n, nil
}

// readLoop calls the real ReadRawMsgFromTCP until it reports an error; returns the reader trace,
// the delivered lengths, whether every delivered buffer was the right slice of the stream.
func readLoop(data []byte, opaque []bool, script []int, tmo ...int) (events []ev, lens []int, allEq bool, panicked string) {
	events = []ev{{"ev": "Stream"}}
	cr := &chunkReader{data: data, opaque: opaque, script: append([]int(nil), script...), log: func(e ev) { events = append(events, e) },
		tmoAt: map[int]bool{}}
	for _, t := range tmo {
		cr.tmoAt[t] = true
	}
	off := 0
	allEq = true
	defer func() {
		if p := recover(); p != nil {
			panicked = fmt.Sprint(p)
			events = append(events, ev{"ev": "Panic", "what": panicked})
		}
	}()
	for i := 0; i < 1<<20; i++ {
		b, err := dnsutils.ReadRawMsgFromTCP(cr)
		if err != nil {
			events = append(events, ev{"ev": "Err", "err": err.Error()})
			return
		}
		l := len(*b)
		eq := off+2+l <= len(data) && bytes.Equal(*b, data[off+2:off+2+l])
		if !eq {
			allEq = false
		}
		events = append(events, ev{"ev": "Out", "len": l, "eq": eq})
		lens = append(lens, l)
		off += 2 + l
		pool.ReleaseBuf(b)
	}
	return
}

func pattern(n int, seed byte) []byte {
	b := make([]byte, n)
	for i := range b {
		b[i] = seed + byte(i*7)
	}
	return b
}

// writerTrace turns the recorded Write calls into Conn/Write/Refused/ConnEnd events; msgs are the
// messages handed to the writer, refused[i] whether the writer returned an error for msgs[i].
func writerTrace(writes [][]byte, msgs [][]byte, refused []bool) []ev {
	sizes := make([]int, len(msgs))
	for i, m := range msgs {
		sizes[i] = len(m)
	}
	events := []ev{{"ev": "Conn", "sizes": sizes}}
	for _, w := range writes {
		h := []int{}
		for i := 0; i < 2 && i < len(w); i++ {
			h = append(h, int(w[i]))
		}
		eq := false
		if len(w) >= 2 {
			for _, m := range msgs {
				if bytes.Equal(w[2:], m) {
					eq = true
				}
			}
		}
		events = append(events, ev{"ev": "Write", "n": len(w), "h": h, "eq": eq})
	}
	for i, r := range refused {
		if r {
			events = append(events, ev{"ev": "Refused", "n": len(msgs[i])})
		}
	}
	return append(events, ev{"ev": "ConnEnd"})
}

func classOf(table []Row, n int) string {
	for _, r := range table {
		if r.From <= n && n <= r.To {
			return r.Class
		}
	}
	return "?"
}

func chunkScript(rng *rand.Rand, total int, style int) []int {
	switch style % 4 {
	case 0:
		return nil // as much as asked
	case 1:
		return []int{1, 1, 1, 1} // header split, then 1-byte body starts
	case 2:
		s := []int{}
		for left := total; left > 0; {
			k := 1 + rng.Intn(7)
			s = append(s, k)
			left -= k
			if len(s) > 64 {
				break
			}
		}
		return s
	default:
		s := []int{}
		for left := total; left > 0; {
			k := 1 + rng.Intn(1+total/3)
			s = append(s, k)
			left -= k
		}
		return s
	}
}

// ---------------------------------------------------------------------------------------------
// sweep
// ---------------------------------------------------------------------------------------------

func checkWrite(class string, n int, writes [][]byte, msg []byte, err error) string {
	if class == "refused" {
		if err == nil || len(writes) != 0 {
			return fmt.Sprintf("message of %d bytes must be refused: err=%v, %d Write calls", n, err, len(writes))
		}
		return ""
	}
	if err != nil {
		return fmt.Sprintf("message of %d bytes refused: %v", n, err)
	}
	if len(writes) != 1 {
		return fmt.Sprintf("message of %d bytes written with %d Write calls", n, len(writes))
	}
	w := writes[0]
	if len(w) != n+2 || int(binary.BigEndian.Uint16(w)) != n || !bytes.Equal(w[2:], msg) {
		return fmt.Sprintf("message of %d bytes framed wrongly: %d bytes written, header %v", n, len(w), w[:min(2, len(w))])
	}
	return ""
}

func sweepRaw(job *Job, rng *rand.Rand, n int, trace bool) {
	class := classOf(job.Table, n)
	msg := pattern(n, byte(n))
	w := &recWriter{}
	_, err := dnsutils.WriteRawMsgToTCP(w, msg)
	bad := checkWrite(class, n, w.writes, msg, err)
	var events []ev
	if trace || bad != "" {
		events = writerTrace(w.writes, [][]byte{msg}, []bool{err != nil && len(w.writes) == 0})
	}
	vhOut(Out{Kind: "sweep", What: "WriteRawMsgToTCP", Len: n, Class: class, Bad: bad, Events: events})
	if class == "refused" || len(w.writes) != 1 {
		return
	}
	// read it back in chunks
	data := w.writes[0]
	opaque := make([]bool, len(data))
	for i := 2; i < len(data); i++ {
		opaque[i] = true
	}
	evs, lens, allEq, pan := readLoop(data, opaque, chunkScript(rng, len(data), n))
	bad = ""
	switch {
	case pan != "":
		bad = "reader panicked: " + pan
	case class == "ok" && !(len(lens) == 1 && lens[0] == n && allEq):
		bad = fmt.Sprintf("frame of %d bytes not read back unchanged: delivered %v, content equal %v", n, lens, allEq)
	case class == "short" && len(lens) != 0:
		bad = fmt.Sprintf("announced length %d (< DNS header) was delivered: %v", n, lens)
	}
	if !trace && bad == "" {
		evs = nil
	}
	vhOut(Out{Kind: "sweep", What: "ReadRawMsgFromTCP", Len: n, Class: class, Bad: bad, Events: evs})
}

// msgOfLen builds a dns.Msg whose packed length is exactly n (12, 17 or >= 28), nil otherwise.
func msgOfLen(id uint16, n int) *dns.Msg {
	m := new(dns.Msg)
	m.Id = id
	m.Response = true
	if n == 12 {
		return m
	}
	m.Question = []dns.Question{{Name: ".", Qtype: dns.TypeA, Qclass: dns.ClassINET}}
	if n == 17 {
		return m
	}
	if n < 28 {
		return nil
	}
	left := n - 17
	for left > 0 {
		d := left - 11
		if d > 60000 {
			d = 60000
		}
		if d < 0 {
			return nil
		}
		m.Answer = append(m.Answer, &dns.NULL{Hdr: dns.RR_Header{Name: ".", Rrtype: dns.TypeNULL, Class: dns.ClassINET},
			Data: string(pattern(d, byte(id)))})
		left -= 11 + d
		if left > 0 && left < 11 {
			return nil
		}
	}
	return m
}

func sweepPack(job *Job, n int, trace bool) {
	m := msgOfLen(uint16(n*31+7), n)
	if m == nil {
		return
	}
	want, err := m.Pack()
	if err != nil || len(want) != n {
		// miekg itself cannot produce this length: not a case
		vhOut(Out{Kind: "sweep", What: "skip-pack", Len: n})
		return
	}
	class := classOf(job.Table, n)
	w := &recWriter{}
	_, werr := dnsutils.WriteMsgToTCP(w, m)
	bad := checkWrite(class, n, w.writes, want, werr)
	var events []ev
	if trace || bad != "" {
		events = writerTrace(w.writes, [][]byte{want}, []bool{werr != nil && len(w.writes) == 0})
	}
	vhOut(Out{Kind: "sweep", What: "WriteMsgToTCP/PackTCPBuffer", Len: n, Class: class, Bad: bad, Events: events})
}

// transConn: harness transport.NetConn. Records Write calls; each completely written frame is
// answered (same bytes, QR set) through a scripted chunkReader-like pipe.
type transConn struct {
	mu      sync.Mutex
	writes  [][]byte
	rd      chan []byte
	pending []byte
	closed  chan struct{}
	once    sync.Once
	rng     *rand.Rand
}

func newTransConn(rng *rand.Rand) *transConn {
	return &transConn{rd: make(chan []byte, 16), closed: make(chan struct{}), rng: rng}
}

func (c *transConn) Write(b []byte) (int, error) {
	cp := append([]byte(nil), b...)
	c.mu.Lock()
	c.writes = append(c.writes, cp)
	c.mu.Unlock()
	if len(cp) >= 14 && int(binary.BigEndian.Uint16(cp)) == len(cp)-2 {
		rep := append([]byte(nil), cp...)
		rep[4] |= 0x80
		go func() {
			// not instantly: the pinned transport may drop a reply that arrives before the caller
			// parks (C02/D1), which is not a framing matter
			time.Sleep(2 * time.Millisecond)
			select {
			case c.rd <- rep:
			default:
			}
		}()
	}
	return len(b), nil
}

func (c *transConn) Read(p []byte) (int, error) {
	if len(c.pending) == 0 {
		select {
		case b := <-c.rd:
			c.pending = b
		case <-c.closed:
			return 0, io.EOF
		}
	}
	n := len(p)
	c.mu.Lock()
	k := 1 + c.rng.Intn(1+len(c.pending))
	c.mu.Unlock()
	if k < n {
		n = k
	}
	if n > len(c.pending) {
		n = len(c.pending)
	}
	copy(p, c.pending[:n])
	c.pending = c.pending[n:]
	return n, nil
}

func (c *transConn) Close() error                       { c.once.Do(func() { close(c.closed) }); return nil }
func (c *transConn) SetDeadline(t time.Time) error      { return nil }
func (c *transConn) SetReadDeadline(t time.Time) error  { return nil }
func (c *transConn) SetWriteDeadline(t time.Time) error { return nil }

func sweepTransport(job *Job, rng *rand.Rand, n int, kind string, trace bool) {
	for try := 0; try < 3; try++ {
		if sweepTransportOnce(job, rng, n, kind, trace, try == 2) {
			return
		}
	}
}

// returns false when the exchange ended with the harness context (no verdict; retried)
func sweepTransportOnce(job *Job, rng *rand.Rand, n int, kind string, trace bool, last bool) bool {
	class := classOf(job.Table, n)
	if n < 12 {
		return true // ExchangeContext demands a DNS header
	}
	q := pattern(n, byte(n+3))
	q[2] &^= 0x80
	conn := newTransConn(rand.New(rand.NewSource(rng.Int63())))
	var ex interface {
		ExchangeContext(context.Context, []byte) (*[]byte, error)
		Close() error
	}
	switch kind {
	case "reuse":
		ex = transport.NewReuseConnTransport(transport.ReuseConnOpts{DialContext: func(ctx context.Context) (transport.NetConn, error) { return conn, nil }})
	default:
		ex = transport.NewPipelineTransport(transport.PipelineOpts{
			DialContext: func(ctx context.Context) (transport.DnsConn, error) {
				return transport.NewDnsConn(transport.TraditionalDnsConnOpts{WithLengthHeader: true, MaxConcurrentQuery: 8}, conn), nil
			},
			MaxConcurrentQueryWhileDialing: 8,
		})
	}
	ctx, cancel := context.WithTimeout(context.Background(), 3*time.Second)
	r, err := ex.ExchangeContext(ctx, q)
	defer cancel()
	conn.mu.Lock()
	writes := append([][]byte(nil), conn.writes...)
	conn.mu.Unlock()
	// the transport assigns its own query id: compare modulo bytes 0-1 of the message
	msg := append([]byte(nil), q...)
	if len(writes) == 1 && len(writes[0]) >= 4 {
		copy(msg[:2], writes[0][2:4])
	}
	var werr error
	if len(writes) == 0 {
		werr = err
	}
	bad := checkWrite(class, n, writes, msg, werr)
	if bad == "" && class == "ok" && err != nil && ctx.Err() != nil {
		// the write was fine, the reply did not make it back in time: no verdict on the read side
		ex.Close()
		conn.Close()
		if !last {
			return false
		}
		vhOut(Out{Kind: "sweep", What: "transport-inconclusive", Len: n, Class: class})
		return true
	}
	if bad == "" && class == "ok" {
		switch {
		case err != nil:
			bad = fmt.Sprintf("exchange of a %d byte query failed: %v", n, err)
		case len(*r) != n || !bytes.Equal((*r)[3:], q[3:]) || (*r)[2] != q[2]|0x80 || !bytes.Equal((*r)[:2], q[:2]):
			bad = fmt.Sprintf("reply to a %d byte query not read back unchanged (%d bytes)", n, len(*r))
		}
	}
	ex.Close()
	conn.Close()
	var events []ev
	if trace || bad != "" {
		events = writerTrace(writes, [][]byte{msg}, []bool{len(writes) == 0 && err != nil})
	}
	vhOut(Out{Kind: "sweep", What: "transport/" + kind, Len: n, Class: class, Bad: bad, Events: events})
	return true
}

// ---------------------------------------------------------------------------------------------
// replay of TLC behaviours
// ---------------------------------------------------------------------------------------------

func mapLen(m string, n int) int {
	if n >= 16 { // longer than the abstract MAX (15): longer than 65535 under every map
		return 65536 + (n - 16)
	}
	switch m {
	case "A":
		return n + 11
	case "B":
		return n + 253
	default: // C: 6 -> 65535
		return 65535 - (6 - n)
	}
}

func replay(job *Job, b Beh) {
	type frame struct{ abs, conc int }
	var frames []frame
	var msgs [][]byte
	w := &recWriter{}
	bad := ""
	var refused []bool
	// writes first (a reader that finds no data simply waits; order between W and R steps is immaterial)
	for _, s := range b.Steps {
		if s.A != "W" {
			continue
		}
		cl := mapLen(b.Map, s.N)
		msg := pattern(cl, byte(s.W*37+s.N))
		before := len(w.writes)
		_, err := dnsutils.WriteRawMsgToTCP(w, msg)
		msgs = append(msgs, msg)
		refused = append(refused, err != nil && len(w.writes) == before)
		if s.Ok {
			frames = append(frames, frame{s.N, cl})
			if err != nil || len(w.writes) != before+1 {
				bad = fmt.Sprintf("spec: message %d (abstract %d) is framed with one Write; code: err=%v, %d Write calls", cl, s.N, err, len(w.writes)-before)
			}
		} else if err == nil || len(w.writes) != before {
			bad = fmt.Sprintf("spec: message %d (abstract %d) is refused; code: err=%v, %d Write calls", cl, s.N, err, len(w.writes)-before)
		}
	}
	wt := writerTrace(w.writes, msgs, refused)
	var data []byte
	for _, x := range w.writes {
		data = append(data, x...)
	}
	// abstract position -> concrete position
	mapPos := func(p int) int {
		cp := 0
		for _, f := range frames {
			al := 2 + f.abs
			if p >= al {
				p -= al
				cp += 2 + f.conc
				continue
			}
			if p <= 2 {
				return cp + p
			}
			return cp + 2 + (p-2)*f.conc/f.abs
		}
		return cp
	}
	absTotal := 0
	for _, f := range frames {
		absTotal += 2 + f.abs
	}
	var script []int
	ap, last := 0, 0
	cut := 0
	var tmo []int
	for _, s := range b.Steps {
		switch s.A {
		case "T":
			tmo = append(tmo, last)
		case "R":
			ap += s.K
			cp := mapPos(ap)
			if cp > last {
				script = append(script, cp-last)
				last = cp
			}
		case "C":
			cut = s.Cut
		}
	}
	end := mapPos(absTotal - cut)
	if end > len(data) {
		end = len(data)
	}
	data = data[:end]
	opaque := make([]bool, len(data))
	off := 0
	for _, f := range frames {
		for i := off + 2; i < off+2+f.conc && i < len(data); i++ {
			opaque[i] = true
		}
		off += 2 + f.conc
	}
	evs, lens, allEq, pan := readLoop(data, opaque, script, tmo...)
	want := make([]int, len(b.Delivered))
	for i, n := range b.Delivered {
		want[i] = mapLen(b.Map, n)
	}
	if bad == "" {
		switch {
		case pan != "":
			bad = "reader panicked: " + pan
		case fmt.Sprint(lens) != fmt.Sprint(want) || !allEq:
			bad = fmt.Sprintf("spec delivers %v, code delivered %v (content equal %v); stream of %d bytes, chunks %v", want, lens, allEq, len(data), script)
		}
	}
	vhOut(Out{Kind: "replay", Idx: b.Idx, Map: b.Map, Bad: bad, Events: append(wt, evs...)})
}

// ---------------------------------------------------------------------------------------------
// arbitrary streams
// ---------------------------------------------------------------------------------------------

func randomStream(rng *rand.Rand, i int) (data []byte, opaque []bool, script []int) {
	switch i % 5 {
	case 0: // uniform garbage
		data = make([]byte, rng.Intn(300))
		rng.Read(data)
	case 1: // small headers: many tiny frames, short lengths included
		for len(data) < 200 {
			l := rng.Intn(40)
			data = append(data, 0, byte(l))
			body := make([]byte, l)
			rng.Read(body)
			data = append(data, body...)
		}
		if rng.Intn(2) == 0 {
			data = data[:rng.Intn(len(data)+1)]
		}
	case 2: // garbage with low first header byte
		data = make([]byte, 2+rng.Intn(700))
		rng.Read(data)
		data[0] = byte(rng.Intn(3))
	default: // constructed frames with opaque bodies, big sizes, optional cut / trailing garbage
		k := 1 + rng.Intn(4)
		for j := 0; j < k; j++ {
			l := []int{13, 14, 255, 256, 257, 4096, 65535, 13 + rng.Intn(65523), 13 + rng.Intn(600)}[rng.Intn(9)]
			h := []byte{byte(l >> 8), byte(l)}
			data = append(data, h...)
			opaque = append(opaque, false, false)
			body := make([]byte, l)
			rng.Read(body)
			data = append(data, body...)
			for x := 0; x < l; x++ {
				opaque = append(opaque, true)
			}
		}
		switch rng.Intn(3) {
		case 0:
			c := rng.Intn(len(data) + 1)
			data, opaque = data[:c], opaque[:c]
		case 1:
			g := make([]byte, rng.Intn(5))
			rng.Read(g)
			data = append(data, g...)
			for range g {
				opaque = append(opaque, false)
			}
		}
	}
	script = chunkScript(rng, len(data), rng.Intn(4))
	return
}

// ---------------------------------------------------------------------------------------------
// a reply that stalls inside a frame for longer than the idle timeout (pipeline transport)
// ---------------------------------------------------------------------------------------------

// dlConn: harness transport.NetConn with REAL read deadlines. Data is fed by the scenario; every
// Read call that returns is logged (Read / Timeout / EOF), every Write call is recorded.
type dlConn struct {
	mu       sync.Mutex
	buf      []byte
	opq      []bool
	deadline time.Time
	wake     chan struct{}
	closed   bool
	writes   chan []byte
	log      func(ev)
}

func newDlConn(log func(ev)) *dlConn {
	return &dlConn{wake: make(chan struct{}, 1), writes: make(chan []byte, 64), log: log}
}

func (c *dlConn) poke() {
	select {
	case c.wake <- struct{}{}:
	default:
	}
}

func (c *dlConn) feed(b []byte, opaque []bool) {
	c.mu.Lock()
	if !c.closed {
		c.buf = append(c.buf, b...)
		c.opq = append(c.opq, opaque...)
	}
	c.mu.Unlock()
	c.poke()
}

func (c *dlConn) Read(p []byte) (int, error) {
	for {
		c.mu.Lock()
		if c.closed {
			// closed on this side: nothing is handed out any more (like a real socket)
			c.mu.Unlock()
			return 0, net.ErrClosed
		}
		if len(c.buf) > 0 {
			n := copy(p, c.buf)
			items := []int{}
			run := 0
			for i := 0; i < n; i++ {
				if c.opq[i] {
					run++
					continue
				}
				if run > 0 {
					items = append(items, -run)
					run = 0
				}
				items = append(items, int(c.buf[i]))
			}
			if run > 0 {
				items = append(items, -run)
			}
			c.buf, c.opq = c.buf[n:], c.opq[n:]
			c.log(ev{"ev": "Read", "items": items})
			c.mu.Unlock()
			return n, nil
		}
		dl := c.deadline
		if !dl.IsZero() && !time.Now().Before(dl) {
			c.log(ev{"ev": "Timeout"})
			c.mu.Unlock()
			return 0, os.ErrDeadlineExceeded
		}
		c.mu.Unlock()
		var t <-chan time.Time
		if !dl.IsZero() {
			t = time.After(time.Until(dl))
		}
		select {
		case <-c.wake:
		case <-t:
		}
	}
}

func (c *dlConn) Write(b []byte) (int, error) {
	c.mu.Lock()
	closed := c.closed
	c.mu.Unlock()
	if closed {
		return 0, net.ErrClosed
	}
	c.writes <- append([]byte(nil), b...)
	return len(b), nil
}

func (c *dlConn) Close() error {
	c.mu.Lock()
	if !c.closed {
		c.closed = true
		c.log(ev{"ev": "Close"})
	}
	c.mu.Unlock()
	c.poke()
	return nil
}
func (c *dlConn) SetReadDeadline(t time.Time) error {
	c.mu.Lock()
	c.deadline = t
	c.mu.Unlock()
	c.poke()
	return nil
}
func (c *dlConn) SetDeadline(t time.Time) error      { return c.SetReadDeadline(t) }
func (c *dlConn) SetWriteDeadline(t time.Time) error { return nil }

// stallRun: two pipelined queries on one TCP pipeline connection; the peer answers the first, then
// sends the header and a part of the second reply, stalls until the connection's read deadline has
// fired inside the frame, then sends the rest. The rest is built so that a reader which starts a
// NEW frame there finds a well-formed frame carrying the second query's id.
func stallRun(rng *rand.Rand, run int) {
	var mu sync.Mutex
	events := []ev{{"ev": "Stream"}}
	log := func(e ev) { events = append(events, e) } // callers hold mu or conn.mu; see below
	conn := newDlConn(func(e ev) { mu.Lock(); log(e); mu.Unlock() })
	idle := 250 * time.Millisecond
	var dials atomic.Int32
	tr := transport.NewPipelineTransport(transport.PipelineOpts{
		DialContext: func(ctx context.Context) (transport.DnsConn, error) {
			// one connection per run: a re-dial after the connection was given up must not be handed
			// the same (closed, half-read) harness conn again
			if dials.Add(1) > 1 {
				return nil, errors.New("harness: the peer accepts one connection only")
			}
			return transport.NewDnsConn(transport.TraditionalDnsConnOpts{WithLengthHeader: true, IdleTimeout: idle, MaxConcurrentQuery: 8}, conn), nil
		},
		MaxConcurrentQueryWhileDialing: 8,
	})
	defer tr.Close()
	type xres struct {
		r   []byte
		err error
	}
	qs := [][]byte{pattern(40+rng.Intn(100), byte(run)), pattern(40+rng.Intn(100), byte(run+91))}
	resc := []chan xres{make(chan xres, 1), make(chan xres, 1)}
	ctx, cancel := context.WithTimeout(context.Background(), 40*time.Second)
	defer cancel()
	qid := make([][]byte, 2) // the transport's own ids, learnt from the written frames
	inconclusive := func(why string) {
		vhOut(Out{Kind: "stall", What: "stall-inconclusive", Idx: run, Bad: "", Class: why})
	}
	for i := 0; i < 2; i++ {
		i := i
		qs[i][2] &^= 0x80
		go func() {
			r, err := tr.ExchangeContext(ctx, qs[i])
			x := xres{err: err}
			if r != nil {
				x.r = append([]byte(nil), (*r)...)
			}
			resc[i] <- x
		}()
		select {
		case w := <-conn.writes:
			if len(w) < 4 {
				inconclusive("short write")
				return
			}
			qid[i] = w[2:4]
		case <-time.After(15 * time.Second):
			inconclusive("query not written")
			return
		}
	}
	mkRep := func(i, n int) []byte {
		b := pattern(n, byte(7*i+run))
		copy(b[:2], qid[i])
		b[2] |= 0x80
		return b
	}
	frame := func(m []byte) ([]byte, []bool) {
		f := append([]byte{byte(len(m) >> 8), byte(len(m))}, m...)
		o := make([]bool, len(f))
		for k := 2; k < len(f); k++ {
			o[k] = true
		}
		return f, o
	}
	outEv := func(i int, x xres, want []byte) {
		mu.Lock()
		defer mu.Unlock()
		if x.err != nil {
			// an exchange that fails says nothing about framing (only delivered bytes do)
			log(ev{"ev": "CallerErr", "err": x.err.Error()})
			return
		}
		// the caller's id is restored by the transport: compare modulo bytes 0-1
		log(ev{"ev": "Out", "len": len(x.r), "eq": want != nil && len(x.r) == len(want) && bytes.Equal(x.r[2:], want[2:])})
	}
	// reply 1, completely
	r1 := mkRep(0, 60+rng.Intn(400))
	f1, o1 := frame(r1)
	conn.feed(f1, o1)
	select {
	case x := <-resc[0]:
		outEv(0, x, r1)
	case <-time.After(15 * time.Second):
		inconclusive("first reply not delivered")
		return
	}
	// reply 2 = part A | part B, part B looking like a complete frame for query 2 on its own
	la, lb := 20+rng.Intn(200), 30+rng.Intn(300)
	partB := pattern(2+lb, byte(run+5))
	partB[0], partB[1] = byte(lb>>8), byte(lb)
	copy(partB[2:4], qid[1])
	r2 := append(mkRep(1, la), partB...)
	f2, o2 := frame(r2)
	cutAt := 2 + la
	if run%3 == 1 {
		cutAt = 1 // stall inside the length header
	}
	conn.feed(f2[:cutAt], o2[:cutAt])
	// wait until a Read has failed with the deadline (event driven; bounded)
	sawTimeout := func() bool {
		mu.Lock()
		defer mu.Unlock()
		for _, e := range events {
			if e["ev"] == "Timeout" || e["ev"] == "Close" {
				return true
			}
		}
		return false
	}
	for t0 := time.Now(); !sawTimeout(); time.Sleep(10 * time.Millisecond) {
		if time.Since(t0) > 20*time.Second {
			inconclusive("no read deadline fired (waiting-reply timeout in force)")
			return
		}
	}
	conn.feed(f2[cutAt:], o2[cutAt:])
	select {
	case x := <-resc[1]:
		if x.err != nil && ctx.Err() != nil {
			inconclusive("harness context ended")
			return
		}
		outEv(1, x, r2)
	case <-time.After(25 * time.Second):
		inconclusive("second exchange did not return")
		return
	}
	tr.Close()
	conn.Close()
	mu.Lock()
	evs := append([]ev(nil), events...)
	mu.Unlock()
	vhOut(Out{Kind: "stall", Idx: run, Events: evs})
}

// ---------------------------------------------------------------------------------------------
// server.ServeTCP
// ---------------------------------------------------------------------------------------------

type chanListener struct {
	ch     chan net.Conn
	closed chan struct{}
	once   sync.Once
}

func (l *chanListener) Accept() (net.Conn, error) {
	select {
	case c := <-l.ch:
		return c, nil
	case <-l.closed:
		return nil, errors.New("listener closed")
	}
}
func (l *chanListener) Close() error   { l.once.Do(func() { close(l.closed) }); return nil }
func (l *chanListener) Addr() net.Addr { return &net.TCPAddr{IP: net.IPv4(127, 0, 0, 1), Port: 53} }

// srvConn: the server reads the pipelined queries from in, every Write call is recorded.
type srvConn struct {
	in     *bytes.Reader
	mu     sync.Mutex
	writes [][]byte
	wrote  chan struct{}
	closed chan struct{}
	once   sync.Once
}

func (c *srvConn) Read(p []byte) (int, error) {
	c.mu.Lock()
	n, err := c.in.Read(p)
	c.mu.Unlock()
	if err == io.EOF {
		// keep the connection open until the harness has seen all replies
		<-c.closed
		return 0, io.EOF
	}
	return n, err
}
func (c *srvConn) Write(b []byte) (int, error) {
	c.mu.Lock()
	c.writes = append(c.writes, append([]byte(nil), b...))
	c.mu.Unlock()
	select {
	case c.wrote <- struct{}{}:
	default:
	}
	return len(b), nil
}
func (c *srvConn) Close() error                       { c.once.Do(func() { close(c.closed) }); return nil }
func (c *srvConn) LocalAddr() net.Addr                { return &net.TCPAddr{IP: net.IPv4(127, 0, 0, 1), Port: 53} }
func (c *srvConn) RemoteAddr() net.Addr               { return &net.TCPAddr{IP: net.IPv4(127, 0, 0, 9), Port: 4242} }
func (c *srvConn) SetDeadline(t time.Time) error      { return nil }
func (c *srvConn) SetReadDeadline(t time.Time) error  { return nil }
func (c *srvConn) SetWriteDeadline(t time.Time) error { return nil }

type scriptHandler struct {
	sizes   map[uint16]int
	barrier chan struct{}
}

func (h *scriptHandler) Handle(ctx context.Context, q *dns.Msg, meta server.QueryMeta, pack func(m *dns.Msg) (*[]byte, error)) *[]byte {
	<-h.barrier // all replies are released together: maximal write concurrency
	m := msgOfLen(q.Id, h.sizes[q.Id])
	b, err := pack(m)
	if err != nil {
		return nil
	}
	return b
}

func serverRun(rng *rand.Rand, k int, run int) {
	sizesPool := []int{17, 28, 29, 100, 255, 256, 257, 512, 1232, 4096, 16384, 40000, 65535}
	h := &scriptHandler{sizes: map[uint16]int{}, barrier: make(chan struct{})}
	var in bytes.Buffer
	var msgs [][]byte
	for i := 0; i < k; i++ {
		id := uint16(1000*run + i + 1)
		sz := sizesPool[rng.Intn(len(sizesPool))]
		if i == 0 {
			sz = 65535
		}
		h.sizes[id] = sz
		want, _ := msgOfLen(id, sz).Pack()
		msgs = append(msgs, want)
		q := new(dns.Msg)
		q.SetQuestion("c16.verif.example.", dns.TypeA)
		q.Id = id
		qb, _ := q.Pack()
		in.Write([]byte{byte(len(qb) >> 8), byte(len(qb))})
		in.Write(qb)
	}
	conn := &srvConn{in: bytes.NewReader(in.Bytes()), wrote: make(chan struct{}, 1024), closed: make(chan struct{})}
	ln := &chanListener{ch: make(chan net.Conn, 1), closed: make(chan struct{})}
	go server.ServeTCP(ln, h, server.TCPServerOpts{})
	ln.ch <- conn
	time.Sleep(20 * time.Millisecond) // let the server read and dispatch all K queries
	close(h.barrier)
	total := 0
	for _, m := range msgs {
		total += len(m) + 2
	}
	deadline := time.After(20 * time.Second)
	timedOut := false
wait:
	for {
		conn.mu.Lock()
		got := 0
		for _, w := range conn.writes {
			got += len(w)
		}
		conn.mu.Unlock()
		if got >= total {
			break
		}
		select {
		case <-conn.wrote:
		case <-time.After(50 * time.Millisecond):
		case <-deadline:
			timedOut = true
			break wait
		}
	}
	time.Sleep(5 * time.Millisecond)
	conn.Close()
	ln.Close()
	conn.mu.Lock()
	writes := append([][]byte(nil), conn.writes...)
	conn.mu.Unlock()
	if timedOut {
		// not all replies appeared (overloaded machine, or a reply was lost): no verdict on framing
		vhOut(Out{Kind: "server", What: "server-inconclusive", Idx: run, N: k})
		return
	}
	evs := writerTrace(writes, msgs, make([]bool, len(msgs)))
	bad := ""
	if len(writes) != k {
		bad = fmt.Sprintf("%d replies were written with %d Write calls", k, len(writes))
	}
	vhOut(Out{Kind: "server", Idx: run, N: k, Bad: bad, Events: evs})
}

// ---------------------------------------------------------------------------------------------

func vhOut(o Out) { vh.Emit(o) }

func main() {
	var job Job
	if err := vh.ReadJob(&job); err != nil {
		fmt.Fprintln(os.Stderr, "bad job:", err)
		os.Exit(3)
	}
	rng := rand.New(rand.NewSource(vh.Seed()))
	te := job.TraceEvery
	if te <= 0 {
		te = 1
	}
	for i, n := range job.Lens {
		sweepRaw(&job, rng, n, i%te == 0)
	}
	for i, n := range job.PackLens {
		sweepPack(&job, n, i%te == 0)
	}
	for i, n := range job.TransLens {
		sweepTransport(&job, rng, n, "reuse", i%te == 0)
		sweepTransport(&job, rng, n, "pipeline", i%te == 0)
	}
	for _, b := range job.Behaviours {
		replay(&job, b)
	}
	for i := 0; i < job.Streams; i++ {
		data, opaque, script := randomStream(rng, i)
		evs, _, _, _ := readLoop(data, opaque, script)
		vhOut(Out{Kind: "stream", Idx: i, N: len(data), Events: evs})
	}
	for i := 0; i < job.ServerRuns; i++ {
		serverRun(rng, job.ServerK, i)
	}
	var swg sync.WaitGroup
	for i := 0; i < job.StallRuns; i++ {
		swg.Add(1)
		go func(i int, seed int64) {
			defer swg.Done()
			stallRun(rand.New(rand.NewSource(seed)), i)
		}(i, rng.Int63())
		if i%16 == 15 {
			swg.Wait()
		}
	}
	swg.Wait()
	vh.Flush()
}
