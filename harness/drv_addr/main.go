//go:build verif

// drv_addr: C18. Renders the address records enumerated by TLC from spec/Addr.tla to real address
// strings, creates the REAL upstream with upstream.NewUpstream and observes - without any network -
// where it connects:
//
//	mode "socks": opt.Socks5 points at a per-case harness SOCKS5 proxy on loopback; the CONNECT
//	              target is the host:port as dialled (tcp, tls, https and the pipeline aliases);
//	              behind the proxy a harness TLS server captures the ClientHello SNI.
//	mode "loop":  no proxy; URL host / dial_addr are loopback literals (127.a.b.c, ::1 in three
//	              spellings) or names resolved by a harness bootstrap DNS server to loopback; harness
//	              TCP / UDP / QUIC listeners on every candidate (host, port) record arrivals.
//
// The TLS server name of an IP host is not sent as SNI; it is observed through verification: the
// harness presents a certificate valid for exactly the URL host, the client (RootCAs = harness CA)
// completes the handshake iff its ServerName is the URL host.
//
// Output: one JSON line per case with the observations, their abstraction (url/dial/other) and the
// event trace for Addr_Trace.tla.  Expected values are NOT computed here (they come from TLC).
package main

import (
	"context"
	"crypto/ecdsa"
	"crypto/elliptic"
	crand "crypto/rand"
	"crypto/tls"
	"crypto/x509"
	"crypto/x509/pkix"
	"encoding/base64"
	"encoding/binary"
	"fmt"
	"io"
	"math/big"
	"math/rand"
	"net"
	"net/http"
	"net/netip"
	"os"
	"runtime"
	"strconv"
	"strings"
	"sync"
	"sync/atomic"
	"syscall"
	"time"

	"github.com/IrineSistiana/mosdns/v5/pkg/upstream"
	"github.com/miekg/dns"
	"github.com/quic-go/quic-go"
	"golang.org/x/net/http2"

	"verif/harness/vh"
)

type Tok struct {
	T string `json:"t"`
	V int    `json:"v"`
}

type ARec struct {
	Scheme string `json:"scheme"`
	Hk     string `json:"hk"`
	Form   string `json:"form"`
	Port   int    `json:"port"`
	Dial   string `json:"dial"`
	Dform  string `json:"dform"`
	Dport  int    `json:"dport"`
	Path   bool   `json:"path"`
}

type Case struct {
	ID      int    `json:"id"`
	Cid     int    `json:"cid"` // seeds the concretization (kept by --replay)
	A       ARec   `json:"a"`
	URL     []Tok  `json:"url"`
	Dial    []Tok  `json:"dial"`
	Mode    string `json:"mode"`
	Variant int    `json:"variant"`
	// Unasserted: the contract says nothing about this address (bare IPv6 + port); it is only run to
	// see that nothing panics: short timeout, no retry.
	Unasserted bool `json:"unasserted"`
	// Refuse (loop mode): nothing listens at the destination TLC expects (ExpHost/ExpPort), all other
	// candidates do: a connection that fails must not be followed by one to another place.
	Refuse  bool   `json:"refuse"`
	ExpHost string `json:"exp_host"`
	ExpPort int    `json:"exp_port"`
}

type Job struct {
	// Groups: upstreams of ONE configuration - created one after the other in this process with the
	// same *tls.Config instance and the same bootstrap server (same names resolve to the same
	// addresses). Every member is still judged on its own: C18 does not let siblings matter.
	Groups    [][]Case `json:"groups"`
	Cases     []Case   `json:"cases"`
	Workers   int      `json:"workers"`
	TimeoutMs int      `json:"timeout_ms"`
}

type Obs struct {
	Via     string `json:"via"`
	HostRaw string `json:"host_raw"`
	Host    string `json:"host"` // url | dial | other
	Port    int    `json:"port"`
	SniRaw  string `json:"sni_raw"`
	Sni     string `json:"sni"` // url | dial | other | na | ?
	Hs      string `json:"hs,omitempty"`
}

type Result struct {
	ID           int              `json:"id"`
	Mode         string           `json:"mode"`
	Variant      int              `json:"variant"`
	Addr         string           `json:"addr"`
	DialAddr     string           `json:"dial_addr"`
	Socks5       string           `json:"socks5,omitempty"`
	Bootstrap    string           `json:"bootstrap,omitempty"`
	Created      bool             `json:"created"`
	Err          string           `json:"err,omitempty"`
	ExchErr      string           `json:"exch_err,omitempty"`
	Panic        string           `json:"panic,omitempty"`
	Obs          []Obs            `json:"obs"`
	Inconclusive string           `json:"inconclusive,omitempty"`
	Skipped      string           `json:"skipped,omitempty"`
	Events       []map[string]any `json:"events"`
	Tries        int              `json:"tries"`
	Ms           int64            `json:"ms"`
	LockMs       int64            `json:"lock_ms"`
}

// ---------------------------------------------------------------------------------------------
// harness CA
// ---------------------------------------------------------------------------------------------

type authority struct {
	key  *ecdsa.PrivateKey
	cert *x509.Certificate
	pool *x509.CertPool
	mu   sync.Mutex
	leaf map[string]*tls.Certificate
	sn   int64
}

func newAuthority() *authority {
	k, err := ecdsa.GenerateKey(elliptic.P256(), crand.Reader)
	if err != nil {
		panic(err)
	}
	tmpl := &x509.Certificate{
		SerialNumber: big.NewInt(1), Subject: pkix.Name{CommonName: "verif harness CA"},
		NotBefore: time.Now().Add(-time.Hour), NotAfter: time.Now().Add(24 * time.Hour),
		IsCA: true, KeyUsage: x509.KeyUsageCertSign | x509.KeyUsageDigitalSignature, BasicConstraintsValid: true,
	}
	der, err := x509.CreateCertificate(crand.Reader, tmpl, tmpl, &k.PublicKey, k)
	if err != nil {
		panic(err)
	}
	c, _ := x509.ParseCertificate(der)
	p := x509.NewCertPool()
	p.AddCert(c)
	return &authority{key: k, cert: c, pool: p, leaf: map[string]*tls.Certificate{}, sn: 10}
}

// leafFor returns a certificate valid for exactly one name (DNS name or IP literal).
func (a *authority) leafFor(name string) *tls.Certificate {
	a.mu.Lock()
	defer a.mu.Unlock()
	if c, ok := a.leaf[name]; ok {
		return c
	}
	a.sn++
	tmpl := &x509.Certificate{
		SerialNumber: big.NewInt(a.sn), Subject: pkix.Name{CommonName: "verif leaf"},
		NotBefore: time.Now().Add(-time.Hour), NotAfter: time.Now().Add(24 * time.Hour),
		KeyUsage: x509.KeyUsageDigitalSignature, ExtKeyUsage: []x509.ExtKeyUsage{x509.ExtKeyUsageServerAuth},
	}
	if ip := net.ParseIP(name); ip != nil {
		tmpl.IPAddresses = []net.IP{ip}
	} else {
		tmpl.DNSNames = []string{name}
	}
	der, err := x509.CreateCertificate(crand.Reader, tmpl, a.cert, &a.key.PublicKey, a.key)
	if err != nil {
		panic(err)
	}
	c := &tls.Certificate{Certificate: [][]byte{der}, PrivateKey: a.key}
	a.leaf[name] = c
	return c
}

var ca *authority

// shared: what the members of a group have in common
type shared struct {
	tlsCfg     *tls.Config
	mu         sync.Mutex
	ips        map[string]netip.Addr
	other      netip.Addr
	bs         net.PacketConn
	extraPorts []int
	rng        *rand.Rand
}

func (s *shared) ipFor(name string) netip.Addr {
	s.mu.Lock()
	defer s.mu.Unlock()
	k := strings.ToLower(strings.TrimSuffix(name, "."))
	if ip, ok := s.ips[k]; ok {
		return ip
	}
	ip := netip.MustParseAddr(randLoop4(s.rng))
	s.ips[k] = ip
	return ip
}

func (s *shared) lookup(name string) netip.Addr {
	s.mu.Lock()
	defer s.mu.Unlock()
	if ip, ok := s.ips[strings.ToLower(strings.TrimSuffix(name, "."))]; ok {
		return ip
	}
	return s.other
}

// ---------------------------------------------------------------------------------------------
// concretization
// ---------------------------------------------------------------------------------------------

type caseCtx struct {
	c        Case
	rng      *rand.Rand
	u4, d4   string
	ug, dg   []string
	un, dn   string
	urlIP    netip.Addr // valid iff URL host is an IP literal
	dialIP   netip.Addr
	urlName  string
	dialName string
	// loop mode: names resolved by the harness bootstrap server
	urlNameIP, dialNameIP, otherNameIP netip.Addr
	sh                                 *shared

	mu  sync.Mutex
	obs []*Obs
	wg  sync.WaitGroup
}

func hexGroup(r *rand.Rand, letters bool) string {
	if letters {
		return []string{"beef", "fe80", "a", "db8", "0db8", "ffff", "c0de", "1f"}[r.Intn(8)]
	}
	return []string{"1", "53", "9", "853", "2001", "10", "443"}[r.Intn(7)]
}

func v6Groups(r *rand.Rand, form string, variant int, loop bool) []string {
	n := map[string]int{"mid": 3, "lead": 1, "full": 8}[form]
	g := make([]string, n)
	if loop {
		for i := range g {
			g[i] = "0"
		}
		g[n-1] = "1"
		return g
	}
	for i := range g {
		g[i] = "0"
	}
	last := hexGroup(r, variant%2 == 1)
	switch form {
	case "mid":
		g[0], g[1] = "2001", hexGroup(r, true)
	case "full":
		g[0], g[1] = "2001", hexGroup(r, true)
		if variant%3 == 2 {
			g[4] = hexGroup(r, true)
		}
	}
	g[n-1] = last
	return g
}

func randLoop4(r *rand.Rand) string {
	return fmt.Sprintf("127.%d.%d.%d", 1+r.Intn(250), r.Intn(256), 1+r.Intn(254))
}

func randPub4(r *rand.Rand, variant int) string {
	if variant == 0 {
		return fmt.Sprintf("198.51.100.%d", 1+r.Intn(254))
	}
	for {
		a := 1 + r.Intn(223)
		if a == 127 || a == 10 {
			continue
		}
		return fmt.Sprintf("%d.%d.%d.%d", a, r.Intn(256), r.Intn(256), 1+r.Intn(254))
	}
}

func (cc *caseCtx) concretize() {
	c, r := cc.c, cc.rng
	loop := c.Mode == "loop"
	if loop {
		cc.u4, cc.d4 = randLoop4(r), randLoop4(r)
	} else {
		cc.u4, cc.d4 = randPub4(r, c.Variant), randPub4(r, c.Variant+1)
	}
	for cc.d4 == cc.u4 {
		cc.d4 = randLoop4(r)
	}
	uform, dform := c.A.Form, c.A.Dform
	if uform == "plain" {
		uform = "mid"
	}
	if dform == "plain" {
		dform = "mid"
	}
	cc.ug = v6Groups(r, uform, c.Variant, loop)
	cc.dg = v6Groups(r, dform, c.Variant+1, loop)
	names := [][2]string{{"dns.u-verif.example", "dial.d-verif.example"}, {"u1.example", "d2.example"},
		{"resolver-01.u.verif.test", "edge-7.d.verif.test"}}
	n := names[c.Variant%len(names)]
	cc.un, cc.dn = n[0], n[1]

	ub := cc.render(bareTokens(c.URL))
	if ip, err := netip.ParseAddr(ub); err == nil && c.A.Hk != "name" {
		cc.urlIP = ip.Unmap()
	} else {
		cc.urlName = ub
	}
	if len(c.Dial) > 0 {
		db := cc.render(bareTokens(c.Dial))
		if ip, err := netip.ParseAddr(db); err == nil && c.A.Dial != "host" {
			cc.dialIP = ip.Unmap()
		} else {
			cc.dialName = db
		}
	}
	// socks mode: the dial host must differ from the URL host to be distinguishable
	if cc.urlIP.IsValid() && cc.dialIP.IsValid() && cc.urlIP == cc.dialIP && !loop {
		// re-draw the dial groups until different (both v6)
		for i := 0; i < 50 && cc.urlIP == cc.dialIP; i++ {
			cc.dg = v6Groups(r, dform, c.Variant+1+i, false)
			cc.dg[len(cc.dg)-1] = strconv.FormatInt(int64(0x100+r.Intn(0xefff)), 16)
			db := cc.render(bareTokens(c.Dial))
			ip, _ := netip.ParseAddr(db)
			cc.dialIP = ip.Unmap()
		}
	}
	if loop {
		cc.urlNameIP = netip.MustParseAddr(randLoop4(r))
		cc.dialNameIP = netip.MustParseAddr(randLoop4(r))
		cc.otherNameIP = netip.MustParseAddr(randLoop4(r))
		if cc.sh != nil {
			cc.otherNameIP = cc.sh.other
			if cc.urlName != "" {
				cc.urlNameIP = cc.sh.ipFor(cc.urlName)
			}
			if cc.dialName != "" {
				cc.dialNameIP = cc.sh.ipFor(cc.dialName)
			}
		}
	}
}

// bareTokens strips brackets and a trailing ":port".
func bareTokens(ts []Tok) []Tok {
	out := []Tok{}
	n := len(ts)
	if n >= 2 && ts[n-1].T == "p" && ts[n-2].T == ":" {
		ts = ts[:n-2]
	}
	for _, t := range ts {
		if t.T == "[" || t.T == "]" {
			continue
		}
		out = append(out, t)
	}
	return out
}

func (cc *caseCtx) render(ts []Tok) string {
	var sb strings.Builder
	ui, di := 0, 0
	for _, t := range ts {
		switch t.T {
		case "[", "]", ":":
			sb.WriteString(t.T)
		case "p":
			sb.WriteString(strconv.Itoa(t.V))
		case "u4":
			sb.WriteString(cc.u4)
		case "d4":
			sb.WriteString(cc.d4)
		case "un":
			sb.WriteString(cc.un)
		case "dn":
			sb.WriteString(cc.dn)
		case "ug":
			sb.WriteString(cc.ug[ui])
			ui++
		case "dg":
			sb.WriteString(cc.dg[di])
			di++
		default:
			panic("unknown token " + t.T)
		}
	}
	return sb.String()
}

func (cc *caseCtx) absHost(h string) string {
	if ip, err := netip.ParseAddr(h); err == nil {
		ip = ip.Unmap()
		switch {
		case cc.urlIP.IsValid() && ip == cc.urlIP:
			return "url"
		case cc.dialIP.IsValid() && ip == cc.dialIP:
			return "dial"
		}
		return "other"
	}
	h = strings.TrimSuffix(h, ".")
	switch {
	case cc.urlName != "" && strings.EqualFold(h, cc.urlName):
		return "url"
	case cc.dialName != "" && strings.EqualFold(h, cc.dialName):
		return "dial"
	}
	return "other"
}

func isTLS(s string) bool {
	switch s {
	case "tls", "tls+pipeline", "https", "h3", "quic", "doq":
		return true
	}
	return false
}

const maxObs = 12 // a retry storm adds nothing

func (cc *caseCtx) addObs(o *Obs) bool {
	cc.mu.Lock()
	defer cc.mu.Unlock()
	if len(cc.obs) >= maxObs {
		return false
	}
	cc.obs = append(cc.obs, o)
	return true
}

// ---------------------------------------------------------------------------------------------
// TLS observation
// ---------------------------------------------------------------------------------------------

func (cc *caseCtx) serverTLS(o *Obs, alpn []string) *tls.Config {
	return &tls.Config{
		MinVersion: tls.VersionTLS12,
		GetConfigForClient: func(h *tls.ClientHelloInfo) (*tls.Config, error) {
			cc.mu.Lock()
			o.SniRaw = h.ServerName
			o.Hs = "hello"
			cc.mu.Unlock()
			var name string
			switch {
			case h.ServerName != "":
				name = h.ServerName
			case cc.urlIP.IsValid():
				name = cc.urlIP.String()
			default:
				name = cc.urlName
			}
			return &tls.Config{Certificates: []tls.Certificate{*ca.leafFor(name)}, NextProtos: alpn,
				MinVersion: tls.VersionTLS12}, nil
		},
	}
}

// finishSni turns (sni string, handshake status) into the abstract server name.
func (cc *caseCtx) finishSni(o *Obs) {
	if !isTLS(cc.c.A.Scheme) {
		o.Sni = "na"
		return
	}
	if o.SniRaw != "" {
		o.Sni = cc.absHost(o.SniRaw)
		return
	}
	if !cc.urlIP.IsValid() {
		// a name as URL host must be announced
		if o.Hs == "" || o.Hs == "error" {
			o.Sni = "?"
		} else {
			o.Sni = "other"
		}
		return
	}
	switch o.Hs {
	case "ok":
		o.Sni = "url" // the client verified a certificate that is valid for the URL host only
	case "badcert":
		o.Sni = "other"
	default:
		o.Sni = "?"
	}
}

func classifyHsErr(err error) string {
	if err == nil {
		return "ok"
	}
	s := err.Error()
	if strings.Contains(s, "certificate") {
		return "badcert"
	}
	return "error"
}

func (cc *caseCtx) tlsServe(conn net.Conn, o *Obs) {
	conn.SetDeadline(time.Now().Add(5 * time.Second))
	ts := tls.Server(conn, cc.serverTLS(o, []string{"h2", "http/1.1"}))
	err := ts.Handshake()
	cc.mu.Lock()
	o.Hs = classifyHsErr(err)
	cc.mu.Unlock()
	conn.SetDeadline(time.Now().Add(time.Second))
	if err == nil && ts.ConnectionState().NegotiatedProtocol == "h2" {
		// answer the DoH request so that net/http does not keep re-dialling
		(&http2.Server{}).ServeConn(ts, &http2.ServeConnOpts{Handler: http.HandlerFunc(func(w http.ResponseWriter, r *http.Request) {
			dohReply(w, r)
			// the DoH client keeps idle connections; hang up soon after the reply went out
			go func() {
				time.Sleep(40 * time.Millisecond)
				ts.Close()
			}()
		})})
	}
	ts.Close()
}

func dohReply(w http.ResponseWriter, r *http.Request) {
	q, err := base64.RawURLEncoding.DecodeString(r.URL.Query().Get("dns"))
	if err != nil || len(q) < 12 {
		w.WriteHeader(400)
		return
	}
	q[2] |= 0x80
	w.Header().Set("Content-Type", "application/dns-message")
	w.Write(q)
}

// ---------------------------------------------------------------------------------------------
// SOCKS5 proxy (one per case)
// ---------------------------------------------------------------------------------------------

func (cc *caseCtx) socksServe(ln net.Listener) {
	for {
		c, err := ln.Accept()
		if err != nil {
			return
		}
		cc.wg.Add(1)
		go func() {
			defer cc.wg.Done()
			defer c.Close()
			c.SetDeadline(time.Now().Add(5 * time.Second))
			hdr := make([]byte, 2)
			if _, err := io.ReadFull(c, hdr); err != nil || hdr[0] != 5 {
				return
			}
			if _, err := io.ReadFull(c, make([]byte, int(hdr[1]))); err != nil {
				return
			}
			c.Write([]byte{5, 0})
			rq := make([]byte, 4)
			if _, err := io.ReadFull(c, rq); err != nil || rq[1] != 1 {
				return
			}
			var host string
			switch rq[3] {
			case 1:
				b := make([]byte, 4)
				if _, err := io.ReadFull(c, b); err != nil {
					return
				}
				host = net.IP(b).String()
			case 4:
				b := make([]byte, 16)
				if _, err := io.ReadFull(c, b); err != nil {
					return
				}
				a, _ := netip.AddrFromSlice(b)
				host = a.String()
			case 3:
				l := make([]byte, 1)
				if _, err := io.ReadFull(c, l); err != nil {
					return
				}
				b := make([]byte, int(l[0]))
				if _, err := io.ReadFull(c, b); err != nil {
					return
				}
				host = string(b)
			default:
				return
			}
			pb := make([]byte, 2)
			if _, err := io.ReadFull(c, pb); err != nil {
				return
			}
			o := &Obs{Via: "socks", HostRaw: host, Host: cc.absHost(host), Port: int(binary.BigEndian.Uint16(pb))}
			if !cc.addObs(o) {
				return
			}
			c.Write([]byte{5, 0, 0, 1, 0, 0, 0, 0, 0, 0})
			if isTLS(cc.c.A.Scheme) {
				cc.tlsServe(c, o)
			}
		}()
	}
}

// ---------------------------------------------------------------------------------------------
// loopback listeners
// ---------------------------------------------------------------------------------------------

type closer interface{ Close() error }

type multiCloser []closer

func (m multiCloser) Close() error {
	for _, c := range m {
		c.Close()
	}
	return nil
}

var v6Mu sync.Mutex // only one ::1 exists: cases using it run one at a time

func retryBind[T any](f func() (T, error)) (T, error) {
	var last error
	var zero T
	for i := 0; i < 100; i++ {
		v, err := f()
		if err == nil {
			return v, nil
		}
		last = err
		if !strings.Contains(err.Error(), "address already in use") {
			break
		}
		time.Sleep(100 * time.Millisecond)
	}
	return zero, last
}

type obsPC struct {
	net.PacketConn
	once sync.Once
	hit  func()
}

func (p *obsPC) ReadFrom(b []byte) (int, net.Addr, error) {
	n, a, err := p.PacketConn.ReadFrom(b)
	if err == nil && n > 0 {
		p.once.Do(p.hit)
	}
	return n, a, err
}

type target struct {
	label string // url | dial | other
	ip    netip.Addr
}

func (cc *caseCtx) listenLoop(ctx context.Context, targets []target, ports []int) ([]closer, error) {
	var cl []closer
	scheme := cc.c.A.Scheme
	for _, tg := range targets {
		for _, port := range ports {
			tg, port := tg, port
			if cc.c.Refuse && tg.label == cc.c.ExpHost && port == cc.c.ExpPort {
				continue // the expected destination refuses
			}
			ap := netip.AddrPortFrom(tg.ip, uint16(port)).String()
			switch scheme {
			case "tcp", "tcp+pipeline", "tls", "tls+pipeline", "https":
				ln, err := retryBind(func() (net.Listener, error) { return net.Listen("tcp", ap) })
				if err != nil {
					return cl, err
				}
				cl = append(cl, ln)
				go func() {
					for {
						c, err := ln.Accept()
						if err != nil {
							return
						}
						o := &Obs{Via: "tcp", HostRaw: tg.ip.String(), Host: tg.label, Port: port}
						if !cc.addObs(o) {
							c.Close()
							continue
						}
						cc.wg.Add(1)
						go func() {
							defer cc.wg.Done()
							defer c.Close()
							if isTLS(scheme) {
								cc.tlsServe(c, o)
							}
						}()
					}
				}()
			case "udp":
				pc, err := retryBind(func() (net.PacketConn, error) { return net.ListenPacket("udp", ap) })
				if err != nil {
					return cl, err
				}
				cl = append(cl, pc)
				go func() {
					b := make([]byte, 2048)
					first := true
					for {
						n, from, err := pc.ReadFrom(b)
						if err != nil {
							return
						}
						if first {
							first = false
							cc.addObs(&Obs{Via: "udp", HostRaw: tg.ip.String(), Host: tg.label, Port: port})
						}
						if n >= 12 {
							r := append([]byte(nil), b[:n]...)
							r[2] |= 0x80
							go func() {
								// not instantly: the pinned transport can drop a reply that arrives
								// before the caller parks (C02/D1); irrelevant here
								time.Sleep(3 * time.Millisecond)
								pc.WriteTo(r, from)
							}()
						}
					}
				}()
			case "quic", "doq", "h3":
				raw, err := retryBind(func() (net.PacketConn, error) { return net.ListenPacket("udp", ap) })
				if err != nil {
					return cl, err
				}
				o := &Obs{Via: "quic", HostRaw: tg.ip.String(), Host: tg.label, Port: port}
				pc := &obsPC{PacketConn: raw, hit: func() { cc.addObs(o) }}
				tr := &quic.Transport{Conn: pc}
				alpn := []string{"doq"}
				if scheme == "h3" {
					alpn = []string{"h3"}
				}
				tcfg := cc.serverTLS(o, alpn)
				tcfg.NextProtos = alpn
				ln, err := tr.Listen(tcfg, &quic.Config{HandshakeIdleTimeout: 3 * time.Second})
				if err != nil {
					raw.Close()
					return cl, err
				}
				cl = append(cl, multiCloser{ln, tr, raw})
				go func() {
					for {
						conn, err := ln.Accept(ctx)
						if err != nil {
							return
						}
						cc.mu.Lock()
						o.Hs = "ok"
						cc.mu.Unlock()
						go func() {
							time.Sleep(50 * time.Millisecond)
							conn.CloseWithError(0, "")
						}()
					}
				}()
			}
		}
	}
	return cl, nil
}

// bootstrap DNS server: URL name -> urlNameIP, dial name -> dialNameIP, anything else -> otherNameIP
func (cc *caseCtx) bootstrapServe(pc net.PacketConn) {
	b := make([]byte, 2048)
	for {
		n, from, err := pc.ReadFrom(b)
		if err != nil {
			return
		}
		q := new(dns.Msg)
		if q.Unpack(b[:n]) != nil || len(q.Question) != 1 {
			continue
		}
		name := q.Question[0].Name
		ip := cc.otherNameIP
		if cc.sh != nil {
			ip = cc.sh.lookup(name)
		} else {
			switch cc.absHost(name) {
			case "url":
				ip = cc.urlNameIP
			case "dial":
				ip = cc.dialNameIP
			}
		}
		r := new(dns.Msg)
		r.SetReply(q)
		if q.Question[0].Qtype == dns.TypeA {
			r.Answer = append(r.Answer, &dns.A{Hdr: dns.RR_Header{Name: name, Rrtype: dns.TypeA, Class: dns.ClassINET, Ttl: 300},
				A: net.IP(ip.AsSlice())})
		}
		out, err := r.Pack()
		if err == nil {
			pc.WriteTo(out, from)
		}
	}
}

// ---------------------------------------------------------------------------------------------
// one case
// ---------------------------------------------------------------------------------------------

func query() []byte {
	m := new(dns.Msg)
	m.SetQuestion("c18.verif.example.", dns.TypeA)
	m.Id = 0x4321
	b, _ := m.Pack()
	return b
}

// watchdog: a case that does not end (locks already held) is a harness problem, never a verdict
func watchdog(c Case) *time.Timer {
	wdT := 4 * time.Minute
	if s, err := strconv.Atoi(os.Getenv("VERIF_WD_S")); err == nil && s > 0 {
		wdT = time.Duration(s) * time.Second
	}
	return time.AfterFunc(wdT, func() {
		buf := make([]byte, 4<<20)
		n := runtime.Stack(buf, true)
		msg := fmt.Sprintf("WATCHDOG: case %d (%s %+v refuse=%v) did not end\n%s\n", c.ID, c.Mode, c.A, c.Refuse, buf[:n])
		os.WriteFile(fmt.Sprintf("%s/verif-drv_addr-watchdog.%d.%d.txt", os.TempDir(), os.Getpid(), c.ID), []byte(msg), 0o644)
		fmt.Fprint(os.Stderr, msg[:min(len(msg), 3000)])
		time.Sleep(200 * time.Millisecond)
		os.Exit(4)
	})
}

var flockGaveUp atomic.Bool

func runOnce(c Case, timeout time.Duration, try int, sh *shared) (res Result) {
	cc := &caseCtx{c: c, sh: sh, rng: rand.New(rand.NewSource(vh.Seed()*1000003 + int64(c.Cid)*31 + int64(c.Variant)))}
	cc.concretize()
	res = Result{ID: c.ID, Mode: c.Mode, Variant: c.Variant, Obs: []Obs{}, Tries: try}
	res.Addr = c.A.Scheme + "://" + cc.render(c.URL)
	if c.A.Path {
		res.Addr += "/dns-query"
	}
	res.DialAddr = cc.render(c.Dial)

	ctx, cancel := context.WithCancel(context.Background())
	defer cancel()
	opt := upstream.Opt{DialAddr: res.DialAddr, TLSConfig: &tls.Config{RootCAs: ca.pool}}
	if sh != nil {
		opt.TLSConfig = sh.tlsCfg
	}
	var closers []closer
	defer func() {
		for _, x := range closers {
			x.Close()
		}
	}()

	switch c.Mode {
	case "socks":
		ln, err := net.Listen("tcp", "127.0.0.1:0")
		if err != nil {
			res.Skipped = "socks listen: " + err.Error()
			return
		}
		closers = append(closers, ln)
		go cc.socksServe(ln)
		opt.Socks5 = ln.Addr().String()
		res.Socks5 = opt.Socks5
	case "loop":
		usesV6 := (cc.urlIP.IsValid() && cc.urlIP.Is6()) || (cc.dialIP.IsValid() && cc.dialIP.Is6())
		if usesV6 {
			tl := time.Now()
			v6Mu.Lock()
			defer v6Mu.Unlock()
			// ... and across processes (another check / selftest running at the same time)
			if f, err := os.OpenFile(os.TempDir()+"/verif-v6-loopback.lock", os.O_CREATE|os.O_RDWR, 0o666); err == nil {
				// (bounded: a wedged holder must not stall every other run for ever)
				for i := 0; i < 900 && !flockGaveUp.Load(); i++ {
					if syscall.Flock(int(f.Fd()), syscall.LOCK_EX|syscall.LOCK_NB) == nil {
						defer syscall.Flock(int(f.Fd()), syscall.LOCK_UN)
						break
					}
					time.Sleep(100 * time.Millisecond)
					if i == 899 {
						flockGaveUp.Store(true) // go on without it: binds may collide and cases get skipped
					}
				}
				defer f.Close()
			}
			res.LockMs = time.Since(tl).Milliseconds()
		}
		defer watchdog(c).Stop()
		var targets []target
		if cc.urlIP.IsValid() {
			targets = append(targets, target{"url", cc.urlIP})
		} else {
			targets = append(targets, target{"url", cc.urlNameIP})
		}
		if len(c.Dial) > 0 {
			if cc.dialIP.IsValid() {
				targets = append(targets, target{"dial", cc.dialIP})
			} else {
				targets = append(targets, target{"dial", cc.dialNameIP})
			}
		}
		if cc.urlName != "" || cc.dialName != "" {
			targets = append(targets, target{"other", cc.otherNameIP})
			if sh != nil {
				opt.Bootstrap = sh.bs.LocalAddr().String()
			} else {
				bs, err := net.ListenPacket("udp", "127.0.0.1:0")
				if err != nil {
					res.Skipped = "bootstrap listen: " + err.Error()
					return
				}
				closers = append(closers, bs)
				go cc.bootstrapServe(bs)
				opt.Bootstrap = bs.LocalAddr().String()
			}
			res.Bootstrap = opt.Bootstrap
		}
		seen := map[int]bool{}
		var ports []int
		cand := []int{c.A.Port, c.A.Dport, 53, 853, 443}
		if sh != nil {
			cand = append(cand, sh.extraPorts...)
		}
		for _, p := range cand {
			if p != 0 && p <= 65535 && !seen[p] {
				seen[p] = true
				ports = append(ports, p)
			}
		}
		cl, err := cc.listenLoop(ctx, targets, ports)
		closers = append(closers, cl...)
		if err != nil {
			res.Skipped = "bind: " + err.Error()
			return
		}
	default:
		res.Skipped = "unknown mode"
		return
	}

	var u upstream.Upstream
	func() {
		defer func() {
			if r := recover(); r != nil {
				res.Panic = fmt.Sprint(r)
			}
		}()
		var err error
		u, err = upstream.NewUpstream(res.Addr, opt)
		if err != nil {
			res.Err = err.Error()
			return
		}
		res.Created = true
		ectx, ecancel := context.WithTimeout(ctx, timeout)
		defer ecancel()
		r, err := u.ExchangeContext(ectx, query())
		if err != nil {
			res.ExchErr = err.Error()
		}
		_ = r
	}()
	if u != nil {
		u.Close()
	}
	// let the harness-side handshakes finish
	done := make(chan struct{})
	go func() { cc.wg.Wait(); close(done) }()
	select {
	case <-done:
	case <-time.After(6 * time.Second):
	}
	if c.A.Scheme == "quic" || c.A.Scheme == "doq" || c.A.Scheme == "h3" {
		// the server side learns about a completed handshake slightly later than the client
		dl := time.Now().Add(time.Second)
		for time.Now().Before(dl) {
			cc.mu.Lock()
			pending := false
			for _, o := range cc.obs {
				if o.Hs == "hello" || o.Hs == "" {
					pending = true
				}
			}
			cc.mu.Unlock()
			if !pending || strings.Contains(res.ExchErr, "certificate") {
				break
			}
			time.Sleep(10 * time.Millisecond)
		}
	}
	cc.mu.Lock()
	for _, o := range cc.obs {
		if o.Via == "quic" && o.Hs != "ok" {
			if strings.Contains(res.ExchErr, "certificate") {
				o.Hs = "badcert"
			} else {
				o.Hs = "error"
			}
		}
		cc.finishSni(o)
		if o.Sni == "?" {
			res.Inconclusive = "tls handshake ended without a verdict: " + o.Hs
		}
		res.Obs = append(res.Obs, *o)
	}
	cc.mu.Unlock()
	return
}

func runCase(c Case, timeout time.Duration, sh *shared) (res Result) {
	t0 := time.Now()
	defer func() { res.Ms = time.Since(t0).Milliseconds() }()
	if c.Unasserted {
		timeout = time.Second
	}
	for try := 1; try <= 2; try++ {
		res = runOnce(c, timeout, try, sh)
		if res.Skipped != "" {
			return res
		}
		if c.Unasserted {
			break
		}
		if res.Inconclusive == "" && !(res.Created && len(res.Obs) == 0 && !c.Refuse) {
			break
		}
		timeout *= 3 // second and last attempt with a generous bound (overloaded machine)
	}
	ev := []map[string]any{{"ev": "Case", "a": c.A, "refuse": c.Refuse}}
	switch {
	case res.Panic != "":
		// a panic is neither a refusal nor a connection: the trace stops after Case and the
		// orchestrator reports it
	case !res.Created:
		ev = append(ev, map[string]any{"ev": "Reject"})
	default:
		ev = append(ev, map[string]any{"ev": "Created"})
		for _, o := range res.Obs {
			ev = append(ev, map[string]any{"ev": "Conn", "host": o.Host, "port": o.Port, "sni": o.Sni})
		}
		ev = append(ev, map[string]any{"ev": "Done"})
	}
	res.Events = ev
	return res
}

func runGroup(g []Case, timeout time.Duration) {
	if len(g) == 0 {
		return
	}
	rng := rand.New(rand.NewSource(vh.Seed()*7907 + int64(g[0].ID)))
	sh := &shared{tlsCfg: &tls.Config{RootCAs: ca.pool}, ips: map[string]netip.Addr{}, rng: rng}
	sh.other = netip.MustParseAddr(randLoop4(rng))
	for _, c := range g {
		for _, p := range []int{c.A.Port, c.A.Dport} {
			if p != 0 {
				sh.extraPorts = append(sh.extraPorts, p)
			}
		}
	}
	bs, err := net.ListenPacket("udp", "127.0.0.1:0")
	if err != nil {
		for _, c := range g {
			vh.Emit(Result{ID: c.ID, Mode: c.Mode, Skipped: "bootstrap listen: " + err.Error(), Obs: []Obs{}})
		}
		return
	}
	defer bs.Close()
	sh.bs = bs
	go (&caseCtx{sh: sh, otherNameIP: sh.other}).bootstrapServe(bs)
	for _, c := range g {
		vh.Emit(runCase(c, timeout, sh))
	}
}

func main() {
	var job Job
	if err := vh.ReadJob(&job); err != nil {
		fmt.Fprintln(os.Stderr, "bad job:", err)
		os.Exit(3)
	}
	ca = newAuthority()
	if job.Workers <= 0 {
		job.Workers = 16
	}
	if job.TimeoutMs <= 0 {
		job.TimeoutMs = 3000
	}
	ch := make(chan Case)
	var wg sync.WaitGroup
	for i := 0; i < job.Workers; i++ {
		wg.Add(1)
		go func() {
			defer wg.Done()
			for c := range ch {
				vh.Emit(runCase(c, time.Duration(job.TimeoutMs)*time.Millisecond, nil))
			}
		}()
	}
	for _, c := range job.Cases {
		ch <- c
	}
	close(ch)
	gch := make(chan []Case)
	for i := 0; i < job.Workers; i++ {
		wg.Add(1)
		go func() {
			defer wg.Done()
			for g := range gch {
				runGroup(g, time.Duration(job.TimeoutMs)*time.Millisecond)
			}
		}()
	}
	for _, g := range job.Groups {
		gch <- g
	}
	close(gch)
	wg.Wait()
	vh.Flush()
}
